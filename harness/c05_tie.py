'''C05 tie: universe trees built directly as CellMCNP objects, run through the
repository's by_universe / apply_trcl / pot_fill (the two loops of
construct_volume_t4 written out), and rendered as Coq cases for
C05.Exec.check_case.'''
import math
from collections import OrderedDict

import numpy as np

from common import cz, cbool, clist, copt, cpair

BASE_DECK_PLANES = [
    ('px', [0.35]), ('py', [-0.65]), ('pz', [1.45]), ('px', [-1.85]),
    ('py', [2.15]), ('pz', [-0.95]), ('p', [1.0, 2.0, -1.0, 0.55]),
    ('p', [2.0, -1.0, 3.0, -1.25]), ('px', [3.05]), ('py', [0.15]),
    ('pz', [-2.35]), ('p', [-1.0, 1.0, 2.0, 0.85]),
]

_BASE = None


def base_surfaces():
    '''Parsed once through the repository's own surface parser:
    {id: [(SurfaceMCNP, side)]}.'''
    global _BASE
    if _BASE is None:
        import impl
        from t4_geom_convert.Kernel.FileHandlers.Parser.ParseMCNPSurface \
            import parseMCNPSurface
        lines = ['c05 base surfaces', '1 0 -1 imp:n=1', '2 0 1 imp:n=0', '']
        for k, (mn, prm) in enumerate(BASE_DECK_PLANES, 1):
            lines.append(f'{k} {mn} ' + ' '.join(repr(float(v)) for v in prm))
        lines.append('')
        with impl.mip_parser('\n'.join(lines) + '\n') as parser:
            import contextlib
            import io
            with contextlib.redirect_stdout(io.StringIO()):
                dic = parseMCNPSurface(parser)
        _BASE = {int(k): list(v) for k, v in dic.items()}
    return _BASE


# ---- transformations --------------------------------------------------------

def rot(axis, deg):
    c, s = math.cos(math.radians(deg)), math.sin(math.radians(deg))
    if axis == 0:
        return np.array([[1, 0, 0], [0, c, -s], [0, s, c]])
    if axis == 1:
        return np.array([[c, 0, s], [0, 1, 0], [-s, 0, c]])
    return np.array([[c, -s, 0], [s, c, 0], [0, 0, 1]])


def gen_transform(rng):
    '''A 12-tuple (O, B row-major) with a proper rotation; generic values so
    that images of different (surface, transformation) pairs do not
    coincide.'''
    kind = rng.random()
    origin = [round(rng.uniform(-3, 3), 2) + 0.003 for _ in range(3)]
    if kind < 0.07:
        mat = np.eye(3)
        origin = [0.0, 0.0, 0.0]          # identity spelled with 12 entries
    elif kind < 0.3:
        mat = np.eye(3)
    else:
        mat = rot(rng.randrange(3), rng.choice([17, 33, 61, 90, 128, 180, 233]))
        if rng.random() < 0.5:
            mat = mat @ rot(rng.randrange(3), rng.choice([29, 47, 90, 101]))
    b = [float(mat[j][i]) for i in range(3) for j in range(3)]
    return tuple(float(v) for v in origin) + tuple(b)


def plane_of(entries):
    '''(unit normal, offset) of the single plane in a dic_surf_mcnp entry.'''
    if len(entries) != 1:
        return None
    surf, side = entries[0]
    params = surf.param_surface
    if len(params) != 2:
        return None
    point, normal = (np.array(params[0], float), np.array(params[1], float))
    norm = np.linalg.norm(normal)
    if norm == 0:
        return None
    normal = normal / norm
    return normal * side, float(normal @ point) * side


def image_plane(plane, transform):
    '''Independent of the code: a surface given in the auxiliary frame of
    (O, B) lies, in the main frame, at x = O + M p with M's columns the rows
    of B.'''
    normal, offset = plane
    origin = np.array(transform[0:3])
    mat = np.array(transform[3:12]).reshape(3, 3).T
    new_normal = mat @ normal
    return new_normal, offset + float(new_normal @ origin)


def same_plane(p, q, tol=1e-9):
    return (np.abs(p[0] - q[0]).max() < tol
            and abs(p[1] - q[1]) < tol * max(1.0, abs(p[1])))


# ---- generation -------------------------------------------------------------

def gen_tree(rng, surf_ids, ref_ids, depth=0, allow_compl=False):
    r = rng.random()
    if depth >= 2 or r < 0.45:
        r2 = rng.random()
        if ref_ids and r2 < 0.12:
            return ('ref', rng.choice(ref_ids))
        if allow_compl and r2 < 0.2:
            return ('compl', rng.choice([1, 2, 3, 7]))
        sid = rng.choice(surf_ids)
        return ('s', sid if rng.random() < 0.5 else -sid)
    op = '*' if rng.random() < 0.65 else ':'
    n = rng.choice([2, 2, 2, 3])
    return (op,) + tuple(gen_tree(rng, surf_ids, ref_ids, depth + 1,
                                  allow_compl) for _ in range(n))


def gen_case(rng, malformed=False):
    '''Abstract case: cells (ordered), transformation pool, flags.'''
    n_tr = rng.randint(1, 4)
    pool = []
    while len(pool) < n_tr:
        t = gen_transform(rng)
        if t not in pool:
            pool.append(t)
    surf_ids = sorted(rng.sample(range(1, len(BASE_DECK_PLANES) + 1),
                                 rng.randint(3, 8)))
    depth = rng.choice([1, 1, 2, 2, 2, 3])
    # universes by level; level 0 = universe 0
    levels = [[0]]
    next_u = 1
    for _ in range(depth):
        k = rng.choice([1, 1, 2])
        levels.append(list(range(next_u, next_u + k)))
        next_u += k
    do_trcl = rng.random() < 0.35
    cells = OrderedDict()
    plan = []
    for lvl, univs in enumerate(levels):
        for u in univs:
            for _ in range(rng.choice([1, 2, 2, 3])):
                plan.append((lvl, u))
    if rng.random() < 0.5:
        rng.shuffle(plan)      # cell-card order is independent of the nesting
    ids = rng.sample(range(1, 60), len(plan))
    if rng.random() < 0.5:
        ids.sort()

    def pick_tr(p_empty=0.0):
        if rng.random() < p_empty:
            return ()
        return rng.choice(pool)

    placed = []
    for key, (lvl, u) in zip(ids, plan):
        fill = None
        filltr = None
        if lvl < depth and rng.random() < (0.75 if lvl == 0 else 0.6):
            # reuse: any universe of a deeper level, mostly the next one
            deeper = levels[lvl + 1] if rng.random() < 0.8 else \
                [x for l in levels[lvl + 1:] for x in l]
            fill = rng.choice(deeper)
            r = rng.random()
            filltr = () if r < 0.4 else pick_tr()
        elif rng.random() < 0.08:
            filltr = pick_tr(0.5)          # a stray filltr without FILL
        r = rng.random()
        trcl = [] if r < 0.5 else [pick_tr()] if r < 0.9 \
            else [pick_tr(), pick_tr(0.2)]
        refs = [k for k in placed if rng.random() < 0.5] \
            if rng.random() < 0.15 else []
        geom = gen_tree(rng, surf_ids, refs, allow_compl=do_trcl)
        if refs and rng.random() < 0.4:
            # the same cell referenced twice from one geometry (counts twice
            # in the inlining score)
            r = rng.choice(refs)
            geom = ('*', (':', geom, ('ref', r)), ('ref', r))
        orig = []
        if rng.random() < 0.08:
            # one or two provenance pairs, all four numbers distinct, so that
            # "first pair" / "last pair" / "first or second component" differ
            nums = rng.sample(range(60, 80), 4)
            orig = [(nums[0], nums[1])]
            if rng.random() < 0.6:
                orig.append((nums[2], nums[3]))
        cells[key] = {
            'mat': rng.choice([0, 1, 2, 3]),
            'rho': rng.choice([None, '-1.0', '-2.7', '0.05']),
            'geom': geom, 'imp': rng.choice([1.0, 1.0, 0.0, 2.0]), 'u': u,
            'fill': fill, 'filltr': filltr,
            'lat': None, 'trcl': trcl, 'orig': orig}
        placed.append(key)
    nck = max(cells) + 1
    nsk = len(BASE_DECK_PLANES) + 1
    fault = None
    if malformed:
        fault = rng.choice(['missing_surf', 'missing_cell', 'self_fill',
                            'cyclic_ref', 'missing_universe', 'low_counter',
                            'fill_cycle'])
        victim = rng.choice(list(cells))
        if fault == 'missing_surf':
            cells[victim]['geom'] = ('*', cells[victim]['geom'], ('s', -77))
        elif fault == 'missing_cell':
            cells[victim]['geom'] = ('*', cells[victim]['geom'], ('ref', 99))
        elif fault == 'self_fill':
            cells[victim]['fill'] = cells[victim]['u']
            if cells[victim]['filltr'] is None:
                cells[victim]['filltr'] = ()
        elif fault == 'cyclic_ref':
            cells[victim]['geom'] = (':', ('ref', victim),
                                     cells[victim]['geom'])
        elif fault == 'missing_universe':
            cells[victim]['fill'] = 88
            cells[victim]['filltr'] = cells[victim]['filltr'] or ()
        elif fault == 'low_counter':
            nck = min(cells) - 1 if rng.random() < 0.5 else max(cells) - 2
        elif fault == 'fill_cycle':
            others = [k for k in cells if cells[k]['u'] != 0]
            if others:
                a = rng.choice(others)
                cells[a]['fill'] = cells[a]['u']
                cells[a]['filltr'] = cells[a]['filltr'] or ()
    ifd, ifg = rng.random() < 0.4, rng.random() < 0.4
    # inline_cells afterwards (only on trees without ('^', c) nodes, which
    # are gone at that stage of the conversion): max_inline_score = num/den
    inl = None
    if not do_trcl and rng.random() < 0.6:
        inl = rng.choice([(0, 1), (1, 1), (1, 1), (3, 2), (2, 1), (5, 2),
                          (4, 1), (7, 1), (20, 1)])
    return {'cells': cells, 'pool': pool, 'surf_ids': surf_ids,
            'nck': nck, 'nsk': nsk, 'do_trcl': do_trcl,
            'ifd': ifd, 'ifg': ifg, 'inl': inl, 'fault': fault}


# ---- implementation side ----------------------------------------------------

RHO_CODES = {None: 0, '-1.0': 1, '-2.7': 2, '0.05': 3}
IMP_CODES = {0.0: 0, 1.0: 1, 2.0: 2}


def to_impl_tree(tree):
    from MIP.geom.semantics import Surface, GeomExpression, Cell
    from t4_geom_convert.Kernel.Volume.CellMCNP import CellRef
    tag = tree[0]
    if tag == 's':
        return Surface(tree[1])
    if tag == 'ref':
        return CellRef(tree[1])
    if tag == 'compl':
        return GeomExpression(('^', Cell(str(tree[1]))))
    return GeomExpression((tag,) + tuple(to_impl_tree(t) for t in tree[1:]))


def from_impl_tree(tree):
    '''Canonical nested tuples from whatever the implementation left in
    CellMCNP.geometry.'''
    from MIP.geom.semantics import Surface
    from t4_geom_convert.Kernel.Volume.CellMCNP import CellRef
    if isinstance(tree, Surface):
        if tree.sub is not None:
            raise ValueError('facet reference in a C05 tie tree')
        return ('s', int(tree.surface))
    if isinstance(tree, bool):
        raise ValueError('bool in tree')
    if isinstance(tree, int):
        return ('s', int(tree))
    if isinstance(tree, CellRef):
        return ('ref', int(tree.cell))
    if isinstance(tree, (tuple, list)):
        if tree[0] == '^':
            return ('compl', int(str(tree[1])))
        if tree[0] not in ('*', ':'):
            raise ValueError(f'unexpected operator {tree[0]!r}')
        return (tree[0],) + tuple(from_impl_tree(t) for t in tree[1:])
    raise ValueError(f'unexpected tree node {tree!r}')


class Runner:
    '''Runs one abstract case on the implementation.'''

    def __init__(self, case):
        self.case = case
        self.skipped = []
        self.tr_ids = {(): 0}
        for k, t in enumerate(case['pool'], 1):
            self.tr_ids[tuple(t)] = k

    def tr_id(self, t):
        if t is None:
            return None
        return self.tr_ids.get(tuple(float(v) for v in t), -1)

    def build(self):
        from t4_geom_convert.Kernel.Volume.CellMCNP import CellMCNP
        from t4_geom_convert.Kernel.Volume.CellConversion import \
            CellConversion
        from t4_geom_convert.Kernel.Volume.DictVolumeT4 import DictVolumeT4
        from t4_geom_convert.Kernel.Surface.CollectionDict import \
            CollectionDict
        from t4_geom_convert.Kernel.Surface.ConversionSurfaceMCNPToT4 import \
            convert_mcnp_surface
        case = self.case
        dsm = CollectionDict()
        dst = CollectionDict()
        for sid in case['surf_ids']:
            dsm[sid] = list(base_surfaces()[sid])
            dst[sid] = convert_mcnp_surface(sid, dsm[sid])
        cells = OrderedDict()
        for key, c in case['cells'].items():
            cells[key] = CellMCNP(
                str(c['mat']), c['rho'], to_impl_tree(c['geom']), c['imp'],
                c['u'], c['fill'], c['filltr'], c['lat'],
                [tuple(t) for t in c['trcl']],
                [tuple(p) for p in c['orig']])
        conv = CellConversion(case['nck'], case['nsk'], DictVolumeT4(), dst,
                              dsm, cells)
        return conv, cells, dsm

    def run(self):
        '''Returns ('err', code) or ('ok', observation dict).'''
        import sys
        from t4_geom_convert.Kernel.Volume.ByUniverse import by_universe
        case = self.case
        conv, cells, dsm = self.build()
        old_limit = sys.getrecursionlimit()
        sys.setrecursionlimit(400)
        try:
            if case['do_trcl']:
                # construct_volume_t4, "treat TRCL"
                trcl_keys = [key for key, value in cells.items()
                             if value.trcl is not None]
                for key in trcl_keys:
                    cell = cells[key]
                    cell.geometry = conv.apply_trcl(cell.trcl, cell.geometry)
                    cells[key] = cell
            # construct_volume_t4, "treat FILL"
            dict_universe = by_universe(cells)
            du_obs = [(int(u), [int(k) for k in keys])
                      for u, keys in dict_universe.items()]
            fill_keys = [key for key, value in cells.items()
                         if value.fillid is not None and value.universe == 0]
            results = []
            for key in fill_keys:
                results.append([int(k) for k in conv.pot_fill(
                    key, dict_universe, case['ifd'], case['ifg'])])
            if case.get('inl') is not None:
                import contextlib
                import io
                from t4_geom_convert.Kernel.Volume.CellInlining import \
                    inline_cells
                num, den = case['inl']
                with contextlib.redirect_stdout(io.StringIO()):
                    inline_cells(cells, num / den)
        except KeyError:
            return ('err', 1)
        except RecursionError:
            return ('err', 2)
        except TypeError:
            return ('err', 3)
        finally:
            sys.setrecursionlimit(old_limit)
        # helper-level observations (private attributes of CellConversion):
        # read them when they are there, say so when they are not
        cache = getattr(conv, 'cell_transform_cache', None)
        rcache = getattr(conv, 'cell_transform_rcache', None)
        nck = getattr(conv, 'new_cell_key', None)
        nsk = getattr(conv, 'new_surf_key', None)
        skipped = []
        cache_known = isinstance(cache, dict) and isinstance(rcache, dict)
        if not cache_known:
            skipped.append('helper CellConversion.cell_transform_cache / '
                           'cell_transform_rcache not present')
        counters_known = isinstance(nck, int) and isinstance(nsk, int)
        if not counters_known:
            skipped.append('helper CellConversion.new_cell_key / '
                           'new_surf_key not present')
        self.skipped = skipped
        obs = {'du': du_obs, 'results': results,
               'cells': [(int(k), self.cell_obs(c)) for k, c in cells.items()],
               'surfs': self.surf_obs(dsm),
               'nck': int(nck) if counters_known else 0,
               'nsk': int(nsk) if counters_known else 0,
               'cache': [((int(k[0]), self.tr_id(k[1])), int(v))
                         for k, v in cache.items()] if cache_known else [],
               'rcache': [(int(k), [(int(c), self.tr_id(t)) for c, t in v])
                          for k, v in rcache.items()] if cache_known else [],
               'cache_known': cache_known, 'counters_known': counters_known}
        return ('ok', obs)

    def cell_obs(self, c):
        return {'mat': int(c.materialID), 'rho': RHO_CODES[c.density],
                'geom': from_impl_tree(c.geometry),
                'imp': IMP_CODES[c.importance], 'u': int(c.universe),
                'fill': None if c.fillid is None else int(c.fillid),
                'filltr': self.tr_id(c.filltr),
                'lat': 0 if c.lattice is None else int(c.lattice),
                'trcl': [self.tr_id(t) for t in c.trcl],
                'orig': [(int(a), int(b)) for a, b in c.idorigin]}

    def surf_obs(self, dsm):
        '''For every generated surface: the (t, source) pairs whose image it
        is, computed independently of the code from the observed planes.'''
        base = set(self.case['surf_ids'])
        keys = sorted(int(k) for k in dsm)
        planes = {k: plane_of(dsm[k]) for k in keys}
        out = []
        for k in keys:
            if k in base:
                continue
            cands = []
            if planes[k] is not None:
                for src in keys:
                    if src >= k or planes[src] is None:
                        continue
                    for t, tid in self.tr_ids.items():
                        if tid == 0:
                            continue
                        if same_plane(image_plane(planes[src], t), planes[k]):
                            cands.append((tid, src))
            out.append((k, cands))
        return out


# ---- rendering as Coq terms ---------------------------------------------------

def coq_tree(tree):
    tag = tree[0]
    if tag == 's':
        return f'(TSurf {cz(tree[1])})'
    if tag == 'ref':
        return f'(TRef {cz(tree[1])})'
    if tag == 'compl':
        return f'(TCompl {cz(tree[1])})'
    return (f'(TNode {cbool(tag == "*")} '
            + clist(coq_tree(t) for t in tree[1:]) + ')')


def coq_cell(c):
    return ('(mkCell ' + ' '.join([
        cz(c['mat']), cz(c['rho']), coq_tree(c['geom']), cz(c['imp']),
        cz(c['u']), copt(c['fill'], cz), copt(c['filltr'], cz), cz(c['lat']),
        clist(cz(t) for t in c['trcl']),
        clist(cpair(cz(a), cz(b)) for a, b in c['orig'])]) + ')')


def abstract_cell(c, runner):
    '''The generator's cell in the same canonical form as cell_obs.'''
    return {'mat': c['mat'], 'rho': RHO_CODES[c['rho']], 'geom': c['geom'],
            'imp': IMP_CODES[c['imp']], 'u': c['u'], 'fill': c['fill'],
            'filltr': runner.tr_id(c['filltr']),
            'lat': 0, 'trcl': [runner.tr_id(t) for t in c['trcl']],
            'orig': c['orig']}


def coq_obs(obs):
    return ('(mkObs '
            + clist(cpair(cz(u), clist(cz(k) for k in ks))
                    for u, ks in obs['du']) + ' '
            + clist(clist(cz(k) for k in r) for r in obs['results']) + ' '
            + clist(cpair(cz(k), coq_cell(c)) for k, c in obs['cells']) + ' '
            + clist(cpair(cz(k), clist(cpair(cz(t), cz(s)) for t, s in cands))
                    for k, cands in obs['surfs']) + ' '
            + cz(obs['nck']) + ' ' + cz(obs['nsk']) + ' '
            + clist(cpair(cpair(cz(k), cz(t)), cz(v))
                    for (k, t), v in obs['cache']) + ' '
            + clist(cpair(cz(k), clist(cpair(cz(c), cz(t)) for c, t in v))
                    for k, v in obs['rcache']) + ' '
            + cbool(obs.get('cache_known', True)) + ' '
            + cbool(obs.get('counters_known', True)) + ')')


def coq_case(case, runner, outcome):
    cells = clist(cpair(cz(k), coq_cell(abstract_cell(c, runner)))
                  for k, c in case['cells'].items())
    if outcome[0] == 'err':
        out = f'(OErr {cz(outcome[1])})'
    else:
        out = f'(OOk {coq_obs(outcome[1])})'
    return ('(mkCase ' + cells + ' ' + clist(cz(s) for s in case['surf_ids'])
            + f' {cz(case["nck"])} {cz(case["nsk"])} {cbool(case["do_trcl"])}'
            f' {cbool(case["ifd"])} {cbool(case["ifg"])} '
            + copt(case.get('inl'), lambda nd: cpair(cz(nd[0]), cz(nd[1])))
            + f' {out})')


# ---- minimised corpus: one case per mutation the generator had to be strengthened for -----------

IDENT12 = (0.0, 0.0, 0.0, 1.0, 0.0, 0.0, 0.0, 1.0, 0.0, 0.0, 0.0, 1.0)
SHIFT12 = (1.5, 0.0, -0.5, 1.0, 0.0, 0.0, 0.0, 1.0, 0.0, 0.0, 0.0, 1.0)
TURN12 = (0.0, 2.0, 0.0, 0.0, 1.0, 0.0, -1.0, 0.0, 0.0, 0.0, 0.0, 1.0)


def _cell(geom, u=0, fill=None, filltr=None, trcl=(), orig=(), mat=1):
    return {'mat': mat, 'rho': '-1.0', 'geom': geom, 'imp': 1.0, 'u': u,
            'fill': fill, 'filltr': filltr, 'lat': None,
            'trcl': [tuple(t) for t in trcl], 'orig': [tuple(o) for o in orig]}


def corpus_cases():
    out = []
    # (M3) a container that already carries two provenance pairs
    cells = OrderedDict([
        (1, _cell(('s', -1), fill=1, filltr=(), orig=[(61, 62), (63, 64)])),
        (5, _cell(('s', 2), u=1, orig=[(71, 72), (73, 74)])),
        (6, _cell(('s', -2), u=1))])
    out.append(('provenance pairs', cells, [SHIFT12], None))
    # (M17) one cell referenced twice from one geometry, inlining thresholds
    for inl in [(1, 1), (2, 1), (5, 2), (4, 1)]:
        cells = OrderedDict([
            (3, _cell(('*', ('s', 1), ('s', -2), ('s', 3)))),
            (4, _cell(('*', (':', ('s', 4), ('ref', 3)), ('ref', 3)))),
            (7, _cell((':', ('ref', 3), ('ref', 4))))])
        out.append((f'double reference, score {inl}', cells, [SHIFT12], inl))
    # (seeded regression) TRCL + explicit identity fill transformation, at
    # level 0 and nested; and the same with an empty filltr (TRCL decides)
    for ft in (IDENT12, (), SHIFT12):
        cells = OrderedDict([
            (1, _cell(('s', -1), fill=1, filltr=ft, trcl=[TURN12])),
            (2, _cell(('s', 1))),
            (10, _cell(('s', -2), u=1, fill=2, filltr=ft, trcl=[SHIFT12])),
            (11, _cell(('s', 2), u=1)),
            (20, _cell(('s', -3), u=2)),
            (21, _cell(('s', 3), u=2))])
        out.append((f'TRCL + filltr {len(ft)} entries', cells,
                    [IDENT12, SHIFT12, TURN12], None))
    cases = []
    for name, cells, pool, inl in out:
        for ifd, ifg in ((False, False), (True, True)):
            cases.append({'name': name, 'cells': cells, 'pool': list(pool),
                          'surf_ids': [1, 2, 3, 4], 'nck': max(cells) + 1,
                          'nsk': len(BASE_DECK_PLANES) + 1, 'do_trcl': False,
                          'ifd': ifd, 'ifg': ifg, 'inl': inl, 'fault': None})
    return cases
