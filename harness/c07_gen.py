'''C07 — generator of admissible hexagonal prisms (ground truth kept beside the
planes), of their plane listings in MCNP order, of malformed variants, and of
whole LAT=2 decks.  Everything is drawn from the random.Random passed in.

Geometry: a centrally symmetric convex hexagon is the zonogon of three edge
vectors E0,E1,E2 whose directions increase inside a half turn; consecutive
vertices w0..w5 (w[k+3] = 2c - w[k]); side k is the segment [w[k-1], w[k]]
(side 0 = [w5, w0]).  The prism axis is u; the hexagon lies in the plane through
c perpendicular to u.'''
import math

import numpy as np


def rot_matrix(rng, kind):
    '''Orthonormal frame (columns e1, e2, u).'''
    if kind == 'z':
        return np.eye(3)
    if kind == 'axis':
        perm = rng.choice([(0, 1, 2), (1, 2, 0), (2, 0, 1)])
        mat = np.zeros((3, 3))
        for col, row in enumerate(perm):
            mat[row, col] = 1.0
        return mat
    # random rotation from a random unit quaternion
    while True:
        q = np.array([rng.gauss(0, 1) for _ in range(4)])
        if np.linalg.norm(q) > 1e-3:
            break
    q /= np.linalg.norm(q)
    a, b, c, d = q
    return np.array([
        [a * a + b * b - c * c - d * d, 2 * (b * c - a * d), 2 * (b * d + a * c)],
        [2 * (b * c + a * d), a * a - b * b + c * c - d * d, 2 * (c * d - a * b)],
        [2 * (b * d - a * c), 2 * (c * d + a * b), a * a - b * b - c * c + d * d]])


def gen_hexagon(rng, regular=None, orient=None, caps=None):
    '''Returns the ground truth of one prism.'''
    if regular is None:
        regular = rng.random() < 0.4
    if orient is None:
        orient = rng.choice(['z', 'axis', 'random', 'random', 'random'])
    frame = rot_matrix(rng, orient)
    e1, e2, u = frame[:, 0], frame[:, 1], frame[:, 2]
    if orient == 'z' and rng.random() < 0.5:
        centre = np.array([0.0, 0.0, 0.0])
    else:
        centre = np.array([rng.choice([-3, -1.5, 0, 0.25, 1, 2.5])
                           + (rng.uniform(-0.5, 0.5)
                              if rng.random() < 0.5 else 0.0)
                           for _ in range(3)])
    theta0 = rng.choice([0.0, math.pi / 6, math.pi / 2]) \
        if rng.random() < 0.3 else rng.uniform(0, 2 * math.pi)
    if regular:
        length = rng.choice([1.0, 2.0, 0.75, 1.26, 3.0])
        lengths = [length] * 3
        gaps = [math.pi / 3, math.pi / 3]
    else:
        lengths = [rng.uniform(0.6, 2.5) for _ in range(3)]
        while True:
            gaps = [rng.uniform(math.radians(25), math.radians(130))
                    for _ in range(2)]
            if sum(gaps) <= math.radians(155):
                break
    angles = [theta0, theta0 + gaps[0], theta0 + gaps[0] + gaps[1]]
    edges2 = [np.array([ln * math.cos(an), ln * math.sin(an)])
              for ln, an in zip(lengths, angles)]
    if rng.random() < 0.5:
        # traverse the other way round (clockwise in the (e1, e2) frame)
        edges2 = [np.array([e[0], -e[1]]) for e in edges2]
    pts2 = [-(edges2[0] + edges2[1] + edges2[2]) / 2]
    for edge in (edges2[0], edges2[1], edges2[2], -edges2[0], -edges2[1]):
        pts2.append(pts2[-1] + edge)
    verts = [centre + p[0] * e1 + p[1] * e2 for p in pts2]
    hexa = {'regular': regular, 'orient': orient, 'centre': centre, 'u': u,
            'e1': e1, 'e2': e2, 'verts': verts}
    # outward unit normal of side k = [w[k-1], w[k]]
    normals = []
    for k in range(6):
        edge = verts[k] - verts[k - 1]
        nrm = np.cross(edge, u)
        nrm /= np.linalg.norm(nrm)
        if nrm @ (verts[k] - centre) < 0:
            nrm = -nrm
        normals.append(nrm)
    hexa['normals'] = normals
    # caps
    if caps is None:
        caps = rng.random() < 0.5
    if caps:
        tilt = rng.random() < 0.25
        nrm = u.copy()
        if tilt:
            nrm = u + rng.uniform(-0.4, 0.4) * e1 + rng.uniform(-0.4, 0.4) * e2
            nrm /= np.linalg.norm(nrm)
        h_up = rng.choice([0.5, 1.0, 2.0, 3.5])
        h_dn = rng.choice([0.5, 1.0, 2.0, 3.5]) if rng.random() < 0.5 else h_up
        hexa['caps'] = {'normal': nrm, 'tilt': tilt,
                        'up': centre + h_up * u, 'down': centre - h_dn * u}
    else:
        hexa['caps'] = None
    return hexa


def gen_listing(rng):
    '''One of the 48 admissible listing orders: geometric side index for each
    listing position.'''
    g0 = rng.randrange(6)
    rest = [g for g in range(6) if g not in (g0, (g0 + 3) % 6)]
    g2 = rng.choice(rest)
    last = [g for g in rest if g not in (g2, (g2 + 3) % 6)]
    if rng.random() < 0.5:
        last.reverse()
    return [g0, (g0 + 3) % 6, g2, (g2 + 3) % 6] + last


def all_listings():
    out = []
    for g0 in range(6):
        rest = [g for g in range(6) if g not in (g0, (g0 + 3) % 6)]
        for g2 in rest:
            last = [g for g in rest if g not in (g2, (g2 + 3) % 6)]
            out.append([g0, (g0 + 3) % 6, g2, (g2 + 3) % 6] + last)
            out.append([g0, (g0 + 3) % 6, g2, (g2 + 3) % 6] + last[::-1])
    return out


def side_plane(hexa, k, rng, unit=True):
    '''(point, normal, side) of the plane carrying side k: a random point of the
    plane, the normal in a random sense (and, unless `unit`, a random positive
    length); side = side of the plane on which the cell lies.'''
    verts, u = hexa['verts'], hexa['u']
    s = rng.uniform(-0.5, 1.5)
    t = rng.choice([0.0, 0.0, rng.uniform(-3, 3)])
    point = verts[k - 1] + s * (verts[k] - verts[k - 1]) + t * u
    nrm = hexa['normals'][k].copy()
    side = -1
    if rng.random() < 0.5:
        nrm, side = -nrm, 1
    if not unit:
        nrm = nrm * rng.choice([1.0, 1.0, 0.5, 2.0, 3.7])
    return point, nrm, side


def cap_planes(hexa, rng, unit=True):
    '''[(point, normal, side)] for the seventh and eighth plane; the seventh is
    the upper or the lower one at random.'''
    caps = hexa['caps']
    out = []
    for which in ('up', 'down'):
        base = caps[which]
        point = base + (rng.uniform(-1, 1) * np.cross(caps['normal'], hexa['e1'])
                        if rng.random() < 0.5 else 0.0)
        nrm = caps['normal'].copy()
        if rng.random() < 0.5:
            nrm = -nrm
        side = -1 if nrm @ (base - hexa['centre']) > 0 else 1
        if not unit:
            nrm = nrm * rng.choice([1.0, 1.0, 0.5, 2.0])
        out.append((point, nrm, side))
    if rng.random() < 0.5:
        out.reverse()
    return out


def clean(x):
    '''Snap values that are integers up to rounding (axis-aligned frames give
    exact 0/1 components) and drop negative zeros.'''
    x = float(x)
    if abs(x - round(x)) < 1e-13:
        x = float(round(x))
    return x + 0.0


def as_surface(point, nrm, side):
    return ((tuple(clean(v) for v in point), tuple(clean(v) for v in nrm)),
            int(side))


def surfaces_of(hexa, listing, rng, unit=True):
    '''The `surfaces` argument of hexLatticeBaseVectors and the abstract
    (point, normal, side) triples.'''
    triples = [side_plane(hexa, g, rng, unit) for g in listing]
    if hexa['caps'] is not None:
        triples += cap_planes(hexa, rng, unit)
    return [as_surface(*t) for t in triples]


def spec_vectors(hexa, listing, surfaces):
    '''MCNP's convention, written from the hexagon (not from the code): a1
    carries the cell across the first-listed side, i.e. it is the sum of the two
    vertices of that side relative to the centre; a2 likewise for the
    third-listed side; a3 goes from the eighth plane to the seventh along the
    axis.  With caps the in-plane vectors are parallel to the caps (the lattice
    has to tile), without caps they are perpendicular to the axis.'''
    verts, centre, u = hexa['verts'], hexa['centre'], hexa['u']
    out = []
    for pos in (0, 2):
        g = listing[pos]
        vec = verts[g] + verts[g - 1] - 2 * centre
        if hexa['caps'] is not None:
            n7 = np.array(surfaces[6][0][1])
            vec = vec - (vec @ n7) / (u @ n7) * u
        out.append(vec)
    if hexa['caps'] is not None:
        p7, n7 = (np.array(v) for v in surfaces[6][0])
        p8 = np.array(surfaces[7][0][0])
        out.append(u * ((p7 - p8) @ n7) / (u @ n7))
    return out


# ---------------------------------------------------------------------------
# malformed variants
# ---------------------------------------------------------------------------

FAULTS = ['swap12', 'swap23', 'flip_side', 'dup_plane', 'drop', 'extra',
          'far_plane', 'random6', 'parallel_caps_axis', 'flip_two']


def malform(surfaces, hexa, rng):
    '''Returns (surfaces', fault).'''
    surfs = list(surfaces)
    fault = rng.choice(FAULTS)
    if fault == 'swap12':
        surfs[1], surfs[2] = surfs[2], surfs[1]
    elif fault == 'swap23':
        surfs[3], surfs[4] = surfs[4], surfs[3]
    elif fault == 'flip_side':
        k = rng.randrange(6)
        surfs[k] = (surfs[k][0], -surfs[k][1])
    elif fault == 'flip_two':
        k = rng.randrange(3)
        surfs[2 * k] = (surfs[2 * k][0], -surfs[2 * k][1])
        surfs[2 * k + 1] = (surfs[2 * k + 1][0], -surfs[2 * k + 1][1])
    elif fault == 'dup_plane':
        k = rng.randrange(6)
        j = rng.choice([i for i in range(6) if i // 2 != k // 2])
        surfs[j] = surfs[k]
    elif fault == 'drop':
        del surfs[rng.randrange(len(surfs))]
    elif fault == 'extra':
        surfs.insert(rng.randrange(len(surfs) + 1), surfs[rng.randrange(6)])
    elif fault == 'far_plane':
        # push one pair of sides outwards until the cell is a parallelogram
        k = rng.randrange(3)
        for idx in (2 * k, 2 * k + 1):
            (point, nrm), side = surfs[idx]
            shift = -side * 40.0 / (sum(v * v for v in nrm) ** 0.5)
            point = tuple(p + shift * n for p, n in zip(point, nrm))
            surfs[idx] = ((point, nrm), side)
    elif fault == 'random6':
        surfs = []
        for _ in range(6):
            point = tuple(rng.uniform(-2, 2) for _ in range(3))
            nrm = tuple(rng.choice([-1.0, 0.0, 1.0, rng.uniform(-1, 1)])
                        for _ in range(3))
            if not any(nrm):
                nrm = (1.0, 0.0, 0.0)
            surfs.append(((point, nrm), rng.choice([-1, 1])))
    elif fault == 'parallel_caps_axis':
        if len(surfs) == 8:
            # a cap parallel to the axis: projection divides by zero
            k = rng.choice([6, 7])
            surfs[k] = (surfs[rng.randrange(6)][0], surfs[k][1])
        else:
            surfs[0], surfs[5] = surfs[5], surfs[0]
    return surfs, fault
