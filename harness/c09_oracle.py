'''C09 — property-level oracle on written files: GEOMCOMP joined with point
membership (t4eval) against the reference location of the point in the
abstract deck (mcnpref), compared NUMERICALLY (material number, float of the
density), plus the spelling-class and composition-existence checks.
Independent of the Coq model.'''
import re

import numpy as np

import impl
import mcnpref
import t4eval
import geomcheck

NAME_RE = re.compile(r'^m([^_]+)(?:_(.*))?$')


def capture_convert(text, args=()):
    '''impl.convert, additionally returning the two dictionaries handed to
    writeT4GeomComp (volumes, MCNP cells) — recorded by a pass-through wrapper
    around the repository's function.'''
    import t4_geom_convert.main as main
    original = getattr(main, 'writeT4GeomComp', None)
    box = {}
    if original is None:        # moved by a rewrite: no capture, plain conversion
        return impl.convert(text, args), box

    def wrapper(dic_vol, cells, ofile):
        box['vols'], box['cells'] = dic_vol, cells
        return original(dic_vol, cells, ofile)
    main.writeT4GeomComp = wrapper
    try:
        conv = impl.convert(text, args)
    finally:
        main.writeT4GeomComp = original
    return conv, box


def parse_name(name):
    '''(material token, density spelling or None) of a composition name.'''
    m = NAME_RE.match(name)
    if not m:
        return None
    return m.group(1), m.group(2)


# ---- narrow classes of the known defects ----------------------------------

def cls_like_void(cell):
    '''LIKE n BUT MAT=0 without RHO.'''
    but = cell.get('but') or {}
    return (cell.get('like') is not None and but.get('mat') == 0
            and 'rho' not in but)


def classify_split(spellings):
    '''No spelling class is a known defect any more.'''
    return None


def block_density_failure(comp):
    '''The COMPOSITION block named m<k>_<d> must CARRY the density d: a mass
    density (d < 0) is written as DENSITY |d|; an atom density (d > 0) as
    POINT_WISE concentrations that add up to d (blocks without nuclides —
    mass fractions with an atom density, not supported by the converter — are
    left alone).  Returns a description or None.'''
    tok = parse_name(comp['name'])
    if tok is None or tok[1] is None:
        return None
    try:
        want = float(tok[1])
    except ValueError:
        return None
    if want < 0:
        try:
            got = float(comp['density']) if comp['type'] == 'DENSITY' else None
        except (TypeError, ValueError):
            got = None
        if got is None or abs(got + want) > 1e-12 * abs(want):
            return (f'composition {comp["name"]} is written as {comp["type"]} '
                    f'{comp["density"]}, not as DENSITY {-want}')
    elif want > 0 and comp['items']:
        if comp['type'] != 'POINT_WISE':
            return (f'composition {comp["name"]} (atom density) is written as '
                    f'{comp["type"]}')
        total = sum(impl.mcnp_float(a) for _, a in comp['items'])
        if abs(total - want) > 1e-9 * abs(want):
            return (f'composition {comp["name"]}: the concentrations add up to '
                    f'{total!r}, not to the density {want!r} of the cells '
                    'attached to it')
    return None


# ---- the oracle -------------------------------------------------------------

def leaf_of_chain(ref, chain):
    '''(raw leaf cell, resolved leaf cell, level-0 cell) or None.'''
    if chain is None or chain[-1] is None:
        return None
    leaf_id = chain[-1][0]
    return ref.cells[leaf_id], ref.resolve(leaf_id), ref.resolve(chain[0][0])


def check_file(deck, t4, rng, n_points=200, compositions=True):
    '''Returns (stats, failures); a failure is a dict(kind, why, cls, ...).'''
    failures = []
    stats = {'points': 0, 'joined': 0, 'skipped-geometry': 0, 'void': 0,
             'nested': 0, 'lattice-own': 0, 'like': 0, 'like-chain': 0}
    comp_of = {}
    for name, vols in t4.geomcomp:
        for vid in vols:
            comp_of.setdefault(vid, []).append(name)
    comp_names = {c['name'] for c in t4.compositions} | {'m0'}
    blocks = {c['name']: c for c in t4.compositions}
    # every emitted non-virtual volume is in exactly one GEOMCOMP line
    for vid, vol in t4.volumes.items():
        if vol['fictive']:
            if vid in comp_of:
                failures.append({'kind': 'fictive-volume-listed', 'cls': None,
                                 'why': f'virtual volume {vid} is in GEOMCOMP '
                                        f'line(s) {comp_of[vid]}'})
            continue
        if len(comp_of.get(vid, [])) != 1:
            failures.append({'kind': 'volume-not-once', 'cls': None,
                             'why': f'volume {vid} is in '
                                    f'{len(comp_of.get(vid, []))} GEOMCOMP '
                                    'lines'})
    for name, vols in t4.geomcomp:
        if len(set(vols)) != len(vols):
            failures.append({'kind': 'volume-twice-in-line', 'cls': None,
                             'why': f'GEOMCOMP line {name} repeats a volume'})
        for vid in vols:
            if vid not in t4.volumes:
                failures.append({'kind': 'unknown-volume', 'cls': None,
                                 'why': f'GEOMCOMP line {name} lists volume '
                                        f'{vid} that is not in the geometry'})
        if compositions and name not in comp_names:
            tok = parse_name(name)
            cls = None
            failures.append({'kind': 'no-such-composition', 'cls': cls,
                             'why': f'GEOMCOMP line {name} has no COMPOSITION '
                                    f'of that name ({sorted(comp_names)})'})
    # join with membership at sample points
    ref = mcnpref.Reference(deck, eps=1e-6)
    ev = t4eval.Evaluator(t4, eps=1e-6)
    by_class = {}     # (mat, class idx) -> {name: spelling}
    by_value = {}     # name -> {(mat, value)}
    for p in list(deck.get('probes', [])) + geomcheck.sample_points(rng, n_points):
        try:
            chain = ref.locate(np.array(p, float))
            owners = ev.owners(p)
        except (mcnpref.Ambiguous, t4eval.T4EvalError):
            continue
        stats['points'] += 1
        found = leaf_of_chain(ref, chain)
        if found is None or len(owners) != 1 \
                or geomcheck.importance_zero(found[2]):
            stats['skipped-geometry'] += 1     # C01/C05/C06/C12's business
            continue
        raw, leaf, _top = found
        vid = owners[0]
        names = comp_of.get(vid, [])
        if len(names) != 1:
            continue                            # reported above
        stats['joined'] += 1
        if len(chain) > 1:
            stats['nested'] += 1
        if chain[-1][1] is not None:
            stats['lattice-own'] += 1
        if raw.get('like') is not None:
            stats['like'] += 1
            if ref.cells[raw['like']].get('like') is not None:
                stats['like-chain'] += 1
        name = names[0]
        tok = parse_name(name)
        where = (f'point {[round(float(x), 4) for x in p]} (MCNP chain '
                 f'{chain}, leaf cell {leaf["id"]}: material {leaf["mat"]} '
                 f'density {leaf["rho"]}) lies in volume {vid} attached to '
                 f'{name}')
        if tok is None:
            failures.append({'kind': 'bad-name', 'cls': None, 'why': where,
                             'point': list(p)})
            continue
        mat_tok, dens = tok
        try:
            mat_num = int(mat_tok)
        except ValueError:
            mat_num = None
        if mat_num != int(leaf['mat']):
            failures.append({'kind': 'wrong-material', 'cls': None,
                             'why': where, 'point': list(p)})
            continue
        if int(leaf['mat']) == 0:
            stats['void'] += 1
            if name != 'm0':
                cls = None
                failures.append({'kind': 'void-not-m0', 'cls': cls,
                                 'why': where, 'point': list(p)})
            continue
        if dens is None:
            failures.append({'kind': 'missing-density', 'cls': None,
                             'why': where, 'point': list(p)})
            continue
        want = impl.mcnp_float(leaf['rho'])
        try:
            got = float(dens)
        except ValueError:
            got = None
        if got is None or abs(got - want) > 1e-12 * abs(want):
            failures.append({'kind': 'wrong-density', 'cls': None,
                             'why': where, 'point': list(p)})
            continue
        block = blocks.get(name)
        why = block_density_failure(block) if block else None
        if why:
            failures.append({'kind': 'wrong-block-density', 'cls': None,
                             'why': where + ': ' + why, 'point': list(p)})
            continue
        by_value.setdefault(name, set()).add((mat_num, want))
        cls_key = raw.get('cls')
        if cls_key is not None:
            by_class.setdefault(cls_key[:2], {})[name] = leaf['rho']
    for name, vals in by_value.items():
        if len(vals) > 1:
            failures.append({'kind': 'merged-densities', 'cls': None,
                             'why': f'composition {name} is attached to cells '
                                    f'of different material/density {vals}'})
    for key, names in by_class.items():
        if len(names) > 1:
            failures.append({'kind': 'split-class',
                             'cls': classify_split(names.values()),
                             'why': f'spellings {sorted(names.values())} of one '
                                    f'density of material {key[0]} got '
                                    f'{len(names)} compositions '
                                    f'{sorted(names)}'})
    return stats, failures


def classify_classes(groups):
    '''groups: iterable of sets of spellings, each set one number.'''
    found = set()
    for spellings in groups:
        from t4_geom_convert.Kernel.Utils import normalize_float
        if len({normalize_float(x) for x in spellings}) > 1:
            found.add(classify_split(spellings))
    if len(found) == 1:
        return found.pop()
    return None


def static_spelling_check(deck, t4):
    '''Without points: the COMPOSITION block may hold, for one material and
    one numeric density, at most as many compositions as the deck has distinct
    numbers (spelling classes) of that value; no name twice.'''
    failures = []
    ref = mcnpref.Reference(deck)
    comps = {}
    for comp in t4.compositions:
        tok = parse_name(comp['name'])
        if tok is None or tok[1] is None:
            continue
        try:
            comps.setdefault((int(tok[0]), float(tok[1])), set()).add(
                comp['name'])
        except ValueError:
            continue
    names = [c['name'] for c in t4.compositions]
    if len(set(names)) != len(names):
        failures.append({'kind': 'duplicate-composition', 'cls': None,
                         'why': f'COMPOSITION block repeats a name: {names}'})
    classes = {}
    for cell in deck['cells']:
        leaf = ref.resolve(cell['id'])
        if cell.get('cls') is None or int(leaf['mat']) == 0:
            continue
        key = (int(leaf['mat']), impl.mcnp_float(leaf['rho']))
        classes.setdefault(key, {}).setdefault(cell['cls'][:2], set()).add(
            leaf['rho'])
    for key, found in comps.items():
        groups = classes.get(key, {})
        if len(found) > max(1, len(groups)):
            failures.append({'kind': 'split-class',
                             'cls': classify_classes(groups.values()),
                             'why': f'material {key[0]} density {key[1]}: '
                                    f'{len(found)} compositions '
                                    f'{sorted(found)} for spellings '
                                    f'{sorted(map(sorted, groups.values()))}'})
    return failures
