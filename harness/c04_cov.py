'''C04 — line coverage of the anchored Python functions during the ties, the
corpus and the deck sweep (sys.settrace restricted to those code objects; the
tracer class is C02's, imported read-only).  Lines that no input of this
property's quantifier can reach are listed by their source text.'''
from c02_cov import LineCov   # noqa: F401  (same technique)

UNREACHABLE = [
    # transformation_quad: numpy.matmul of two 4x4 float arrays cannot raise
    'except np.linalg.LinAlgError as err:',
    "msg = (f'Numpy error while transforming quadric",
    "f'{m_mat}: {err}')",
    'raise TransformationError(msg) from None',
    # MIP get_transforms: the lim argument is never given
    'break',
    # conversion_surface_params: every SurfaceMCNP has a known type
    "msg = f'Unrecognized surface type", 'raise SurfaceConversionError(msg)',
    # convert_mcnp_surface: conversion of a well-formed surface does not fail
    'except SurfaceConversionError as err:',
    "msg = f'{err} (while converting surface {key})'",
    'raise SurfaceConversionError(msg) from None',
    # SurfaceCollection: an entry always has at least one part
    "raise SurfaceConversionError('need a non-empty list of surfaces '",
    "'in SurfaceCollection')",
]


def anchored_functions():
    from MIP.geom import transforms as MT
    from MIP.geom import forcad
    from t4_geom_convert.Kernel.Transformation import Transformation as TR
    from t4_geom_convert.Kernel.Transformation import TransformationQuad as TQ
    from t4_geom_convert.Kernel.Surface import ConversionSurfaceMCNPToT4 as CS
    from t4_geom_convert.Kernel.Surface.SurfaceCollection import \
        SurfaceCollection
    from t4_geom_convert.Kernel.Volume import ConstructVolumeT4 as CV
    from t4_geom_convert.Kernel.Volume.CellConversion import CellConversion
    from t4_geom_convert.Kernel.FileHandlers.Parser.ParseMCNPCell import \
        ParseMCNPCell
    from t4_geom_convert.Kernel import VectUtils
    funcs = [MT.to_cos, MT.normalize_transform, MT.get_transforms,
             MT.transform_vector, MT.transform_point, forcad.transform_frame,
             TR.get_mcnp_transforms, TR.normalize_transform,
             TR.normalize_matrix, TR.adjust_matrix, TR.is_matrix_rowwise,
             TR.normalize_matrix3, TR.normalize_matrix5, TR.normalize_matrix6,
             TR.transformation, TR.transform_vector, TR.compose_transform,
             TR.to_numpy, TQ.transformation_quad,
             CS.conversion_surface_params, CS.convert_plane,
             CS.convert_cylinder, CS.convert_sphere,
             CS.convert_special_quadric, CS.sq_to_gq, CS.convert_quadric,
             CS.convert_torus, CS.convert_cone, CS.convert_mcnp_surface,
             SurfaceCollection.join, SurfaceCollection.__init__,
             VectUtils.rotation_from_vectors,
             CV.extract_tr_surf_ids,
             CellConversion.pot_transform, CellConversion.apply_trcl,
             ParseMCNPCell.parse_trcl_kw]
    return funcs
