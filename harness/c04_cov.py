'''C04 — line coverage of the anchored Python functions during the ties, the
corpus and the deck sweep (sys.settrace restricted to those code objects; the
tracer class is C02's, imported read-only).  Lines that no input of this
property's quantifier can reach are listed by their source text.'''
from c02_cov import LineCov   # noqa: F401  (same technique)

UNREACHABLE = [
    # transformation_quad: numpy.matmul of two 4x4 float arrays cannot raise
    'except np.linalg.LinAlgError as err:',
    "msg = (f'Numpy error while transforming quadric",
    "f'{m_mat}: {err}')",
    'raise TransformationError(msg) from None',
    # MIP get_transforms: the lim argument is never given
    'break',
    # conversion_surface_params: every SurfaceMCNP has a known type
    "msg = f'Unrecognized surface type", 'raise SurfaceConversionError(msg)',
    # convert_mcnp_surface: conversion of a well-formed surface does not fail
    'except SurfaceConversionError as err:',
    "msg = f'{err} (while converting surface {key})'",
    'raise SurfaceConversionError(msg) from None',
    # SurfaceCollection: an entry always has at least one part
    "raise SurfaceConversionError('need a non-empty list of surfaces '",
    "'in SurfaceCollection')",
]


ANCHORED = [
    ('MIP.geom.transforms', ['to_cos', 'normalize_transform', 'get_transforms',
                             'transform_vector', 'transform_point']),
    ('MIP.geom.forcad', ['transform_frame']),
    ('t4_geom_convert.Kernel.Transformation.Transformation',
     ['get_mcnp_transforms', 'normalize_transform', 'normalize_matrix',
      'adjust_matrix', 'is_matrix_rowwise', 'normalize_matrix3',
      'normalize_matrix5', 'normalize_matrix6', 'transformation',
      'transform_vector', 'compose_transform', 'to_numpy']),
    ('t4_geom_convert.Kernel.Transformation.TransformationQuad',
     ['transformation_quad']),
    ('t4_geom_convert.Kernel.Surface.ConversionSurfaceMCNPToT4',
     ['conversion_surface_params', 'convert_plane', 'convert_cylinder',
      'convert_sphere', 'convert_special_quadric', 'sq_to_gq',
      'convert_quadric', 'convert_torus', 'convert_cone',
      'convert_mcnp_surface']),
    ('t4_geom_convert.Kernel.Surface.SurfaceCollection',
     ['SurfaceCollection.join', 'SurfaceCollection.__init__']),
    ('t4_geom_convert.Kernel.VectUtils', ['rotation_from_vectors']),
    ('t4_geom_convert.Kernel.Volume.ConstructVolumeT4',
     ['extract_tr_surf_ids']),
    ('t4_geom_convert.Kernel.Volume.CellConversion',
     ['CellConversion.pot_transform', 'CellConversion.apply_trcl']),
    ('t4_geom_convert.Kernel.FileHandlers.Parser.ParseMCNPCell',
     ['ParseMCNPCell.parse_trcl_kw']),
]


def anchored_functions():
    '''(functions found, names not present).  Tolerant: a function that a
    refactoring renamed or removed is skipped and reported, never raised.'''
    import importlib
    funcs, absent = [], []
    for modpath, names in ANCHORED:
        try:
            mod = importlib.import_module(modpath)
        except Exception:       # pylint: disable=broad-except
            absent.append(modpath)
            continue
        for name in names:
            obj = mod
            for part in name.split('.'):
                obj = getattr(obj, part, None)
                if obj is None:
                    break
            if obj is None or not hasattr(getattr(obj, '__func__', obj),
                                          '__code__'):
                absent.append(f'{modpath}.{name}')
            else:
                funcs.append(obj)
    return funcs, absent
