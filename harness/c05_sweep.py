'''C05 sweep: abstract decks with nested universes (deck.py format), converted
as a whole by the implementation and compared at sample points with the
reference location of mcnpref.Reference.locate: membership and the complete
(filler, container) provenance.'''
import numpy as np

import deck as deckmod
import impl
import mcnpref
import t4eval
from geomcheck import parse_provenance, sample_points, importance_zero

OPTION_SETS = [[], ['--always-inline-filling'], ['--always-inline-filled'],
               ['--always-inline-filling', '--always-inline-filled']]

KINDS = ['px', 'py', 'pz', 'so', 's', 'cz', 'c/x', 'p', 'cy', 'sx', 'px',
         'py', 'pz']


def gen_surface(rng, sid, used):
    '''Simple surface with parameters that never coincide with the union
    helper planes (x = +-1) nor with another surface of the deck.'''
    for _ in range(100):
        surf = deckmod.random_surface(rng, sid, scale=4.0, kinds=KINDS)
        prm = surf['params']
        if surf['mn'] in ('px', 'py', 'pz'):
            prm[0] = prm[0] + rng.choice([0.25, -0.25, 0.4])
        if surf['mn'] == 'p':
            prm[3] = prm[3] + rng.choice([0.25, -0.35])
        sig = (surf['mn'], tuple(prm))
        if sig not in used:
            used.add(sig)
            return surf
    raise RuntimeError('could not draw a fresh surface')


def gen_tr_spec(rng, deck, allow_plain12=True):
    '''A transformation spelling: by number, inline translation, inline
    12-entry matrix, or starred inline.'''
    r = rng.random()
    if r < 0.1 and deck['transforms']:
        return ('num', rng.choice(sorted(deck['transforms'])))
    if r < 0.4:
        n = rng.randint(1, 30)
        while n in deck['transforms']:
            n = rng.randint(1, 30)
        deck['transforms'][n] = deckmod.random_tr(rng)
        return ('num', n)
    if r < 0.6:
        return deckmod.random_tr(rng, translate_only=True)
    if r < 0.8 and allow_plain12:
        return deckmod.random_tr(rng, star=False, translate_only=False)
    return deckmod.random_tr(rng, star=True, translate_only=False)


IDENTITY = [[1, 0, 0], [0, 1, 0], [0, 0, 1]]


def nontrivial_trcl(rng, deck):
    '''A TRCL that really moves the cell (never a null translation).'''
    for _ in range(50):
        spec = gen_tr_spec(rng, deck, allow_plain12=False)
        tr = deck['transforms'][spec[1]] if isinstance(spec, tuple) else spec
        if tr['B'] is not None or any(abs(v) > 0 for v in tr['O']):
            return spec
    raise RuntimeError('could not draw a non-trivial TRCL')


def gen_explicit_fill_tr(rng, deck):
    '''An explicit fill transformation for a container that also has a TRCL
    (the fill transformation must win, even when it is the identity): the
    identity in each of its spellings, or an ordinary one.'''
    kind = rng.choice(['null3', 'null3', 'star_null3', 'ident12',
                       'star_ident12', 'num_ident3', 'num_ident12',
                       'other', 'other'])
    if kind == 'null3':
        origin = rng.choice([[0.0, 0.0, 0.0], [0.0, -0.0, 0.0]])
        return deckmod.make_tr(origin), kind
    if kind == 'star_null3':
        tr = deckmod.make_tr([0.0, 0.0, 0.0])
        tr['star'] = True
        return tr, kind
    if kind == 'ident12':
        return deckmod.make_tr([0.0, 0.0, 0.0], IDENTITY, False), kind
    if kind == 'star_ident12':
        return deckmod.make_tr([0.0, 0.0, 0.0], IDENTITY, True), kind
    if kind in ('num_ident3', 'num_ident12'):
        n = rng.randint(31, 60)
        while n in deck['transforms']:
            n = rng.randint(31, 60)
        deck['transforms'][n] = (
            deckmod.make_tr([0.0, 0.0, 0.0]) if kind == 'num_ident3' else
            deckmod.make_tr([0.0, 0.0, 0.0], IDENTITY, rng.random() < 0.4))
        return ('num', n), kind
    return gen_tr_spec(rng, deck), kind


def gen_hierarchy(rng):
    depth = rng.choice([1, 1, 2, 2, 3])
    levels = [[0]]
    next_u = 1
    for _ in range(depth):
        k = rng.choice([1, 1, 2])
        levels.append([next_u * 10 + j for j in range(k)])
        next_u += 1
    deck = {'title': 'c05 generated hierarchy', 'cells': [], 'surfaces': [],
            'transforms': {}, 'materials': {}, 'data': []}
    used = set()
    next_sid = [1]
    next_cid = [1]
    shared_tr = []

    def fresh_surfaces(n):
        out = []
        for _ in range(n):
            surf = gen_surface(rng, next_sid[0], used)
            next_sid[0] += 1
            deck['surfaces'].append(surf)
            out.append(surf['id'])
        return out

    for lvl, univs in enumerate(levels):
        for u in univs:
            n_cells = rng.choice([2, 2, 3]) if lvl else rng.choice([2, 3, 3, 4])
            sids = fresh_surfaces(n_cells - 1 + rng.choice([0, 0, 1]))
            leaves = deckmod.bsp(rng, sids, n_cells)
            # a TRCL common to the whole universe keeps it a partition
            common_trcl = None
            if rng.random() < 0.15:
                common_trcl = gen_tr_spec(rng, deck, allow_plain12=False)
            for lits in leaves:
                cid = next_cid[0]
                next_cid[0] += rng.choice([1, 1, 2, 5])
                cell = {'id': cid, 'mat': rng.choice([1, 2, 3]),
                        'rho': rng.choice(['-1.0', '-2.7', '0.05']),
                        'expr': deckmod.leaf_expr(lits),
                        'imp': {'n': 1}, 'u': u, 'lat': None, 'fill': None,
                        'trcl': common_trcl, 'like': None}
                if lvl < depth and rng.random() < (0.7 if lvl == 0 else 0.5):
                    deeper = levels[lvl + 1] if rng.random() < 0.8 else \
                        [x for l in levels[lvl + 1:] for x in l]
                    tr = None
                    r = rng.random()
                    if rng.random() < 0.22:
                        # both a (non-trivial) TRCL and an explicit fill
                        # transformation, at any level: the fill
                        # transformation places the universe, even when it is
                        # the identity
                        if cell['trcl'] is None:
                            cell['trcl'] = nontrivial_trcl(rng, deck)
                        tr, kind = gen_explicit_fill_tr(rng, deck)
                        deck.setdefault('c05_both', []).append(
                            (cell['id'], lvl, kind))
                        r = 2.0
                    elif r < 0.65:
                        if shared_tr and rng.random() < 0.3:
                            tr = rng.choice(shared_tr)   # same pose reused
                        else:
                            tr = gen_tr_spec(rng, deck)
                            shared_tr.append(tr)
                    elif r < 0.8 and cell['trcl'] is None:
                        # TRCL-only: the filler follows the container's TRCL
                        cell['trcl'] = gen_tr_spec(rng, deck,
                                                   allow_plain12=False)
                    cell['fill'] = {'u': rng.choice(deeper), 'tr': tr}
                    cell['mat'], cell['rho'] = 0, None
                    if rng.random() < 0.15 and cell['trcl'] is None:
                        # both: the fill transformation wins
                        cell['trcl'] = gen_tr_spec(rng, deck,
                                                   allow_plain12=False)
                elif rng.random() < 0.08 and cell['trcl'] is None:
                    cell['trcl'] = gen_tr_spec(rng, deck, allow_plain12=False)
                deck['cells'].append(cell)
            if lvl and sids and rng.random() < 0.3:
                # an empty cell in a filling universe: the same surface with
                # both senses (no point belongs to it, the universe stays a
                # partition)
                sid = rng.choice(sids)
                lits = [sid, -sid]
                if len(sids) > 1 and rng.random() < 0.5:
                    other = rng.choice([x for x in sids if x != sid])
                    lits.insert(rng.randrange(3),
                                other if rng.random() < 0.5 else -other)
                cid = next_cid[0]
                next_cid[0] += rng.choice([1, 2])
                deck['cells'].append({
                    'id': cid, 'mat': rng.choice([1, 2, 3]), 'rho': '-1.0',
                    'expr': deckmod.leaf_expr(lits), 'imp': {'n': 1}, 'u': u,
                    'lat': None, 'fill': None, 'trcl': common_trcl,
                    'like': None})
    # some filler cells are declared with U=-n: same universe n.  (MCNP then
    # skips the truncation by the container and trusts the user that the cell
    # lies inside it; the universe the cell belongs to is n either way, which
    # is all the converter and the reference use.)
    if rng.random() < 0.35:
        fillers = [c for c in deck['cells'] if c['u'] != 0]
        for c in rng.sample(fillers, rng.randint(1, max(1, len(fillers) // 2))):
            c['u'] = -c['u']
    level0 = [c for c in deck['cells'] if c['u'] == 0]
    if rng.random() < 0.3:
        rng.choice(level0)['imp'] = {'n': 0}
    if rng.random() < 0.5:
        rng.shuffle(deck['cells'])
    for m in sorted({c['mat'] for c in deck['cells'] if c['mat']}):
        deck['materials'][m] = ['1001', '1.0']
    return deck


def expected_provenance(chain):
    '''chain = [(c0, None), ..., (leaf, None)] -> the converter's comment:
    (leaf, innermost container) ... (leaf, level-0 container).'''
    leaf = chain[-1][0]
    return [(leaf, cid) for cid, _ in reversed(chain[:-1])]


def compare(deck, t4, points, eps=1e-6):
    '''(checked, located_deep, failures)'''
    if any(c['u'] < 0 for c in deck['cells']):
        # MCNP: U=-n is universe n (the sign is a "not truncated by the
        # container" hint); mcnpref compares universe numbers literally
        import copy
        deck = copy.deepcopy(deck)
        for c in deck['cells']:
            c['u'] = abs(c['u'])
    ref = mcnpref.Reference(deck, eps=eps)
    evalr = t4eval.Evaluator(t4, eps=eps)
    failures = []
    checked = deep = 0
    for p in points:
        try:
            chain = ref.locate(np.array(p, float))
        except mcnpref.Ambiguous:
            continue
        try:
            owners = evalr.owners(p)
        except t4eval.T4EvalError as exc:
            if 'within eps' in str(exc):
                continue
            failures.append({'point': list(p), 'kind': 't4eval',
                             'why': f'T4 evaluation: {exc}'})
            continue
        checked += 1
        live = (chain is not None and chain[-1] is not None
                and not importance_zero(ref.resolve(chain[0][0])))
        if not live:
            if owners:
                failures.append({
                    'point': list(p), 'kind': 'outside',
                    'why': f'point with MCNP chain {chain} (no live cell) '
                           f'lies in volume(s) {owners}'})
            continue
        if len(chain) > 1:
            deep += 1
        if len(owners) != 1:
            failures.append({
                'point': list(p), 'kind': 'count',
                'why': f'point of MCNP chain {chain} lies in {len(owners)} '
                       f'volumes {owners}'})
            continue
        vid = owners[0]
        prov = parse_provenance(t4.volumes[vid]['comment'])
        if len(chain) == 1:
            if vid != chain[0][0] or prov:
                failures.append({
                    'point': list(p), 'kind': 'id',
                    'why': f'point of level-0 cell {chain[0][0]} lies in '
                           f'volume {vid} with comment {prov}'})
            continue
        want = expected_provenance(chain)
        if prov != want:
            failures.append({
                'point': list(p), 'kind': 'provenance',
                'why': f'chain {chain}: volume {vid} records {prov}, '
                       f'expected {want}'})
    return checked, deep, failures


def run_deck(deck, rng, options, n_points):
    '''Returns (conv, checked, deep, failures).'''
    text = deckmod.render(deck)
    conv = impl.convert(text, list(options))
    if not conv.ok or conv.text is None:
        return conv, 0, 0, []
    t4 = impl.T4File(conv.text)
    if t4.errors:
        return conv, 0, 0, [{'point': None, 'kind': 'file',
                             'why': 'written file is malformed: '
                                    + '; '.join(t4.errors[:3])}]
    pts = sample_points(rng, n_points)
    checked, deep, failures = compare(deck, t4, pts)
    return conv, checked, deep, failures
