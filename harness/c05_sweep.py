'''C05 sweep: abstract decks with nested universes (deck.py format), converted
as a whole by the implementation and compared at sample points with the
reference location of mcnpref.Reference.locate: membership and the complete
(filler, container) provenance.'''
import numpy as np

import deck as deckmod
import impl
import mcnpref
import t4eval
from geomcheck import parse_provenance, sample_points, importance_zero

OPTION_SETS = [[], ['--always-inline-filling'], ['--always-inline-filled'],
               ['--always-inline-filling', '--always-inline-filled']]

KINDS = ['px', 'py', 'pz', 'so', 's', 'cz', 'c/x', 'p', 'cy', 'sx', 'px',
         'py', 'pz']


def gen_surface(rng, sid, used):
    '''Simple surface with parameters that never coincide with the union
    helper planes (x = +-1) nor with another surface of the deck.'''
    for _ in range(100):
        surf = deckmod.random_surface(rng, sid, scale=4.0, kinds=KINDS)
        prm = surf['params']
        if surf['mn'] in ('px', 'py', 'pz'):
            prm[0] = prm[0] + rng.choice([0.25, -0.25, 0.4])
        if surf['mn'] == 'p':
            prm[3] = prm[3] + rng.choice([0.25, -0.35])
        sig = (surf['mn'], tuple(prm))
        if sig not in used:
            used.add(sig)
            return surf
    raise RuntimeError('could not draw a fresh surface')


def gen_tr_spec(rng, deck, allow_plain12=True):
    '''A transformation spelling: by number, inline translation, inline
    12-entry matrix, or starred inline.'''
    r = rng.random()
    if r < 0.1 and deck['transforms']:
        return ('num', rng.choice(sorted(deck['transforms'])))
    if r < 0.4:
        n = rng.randint(1, 30)
        while n in deck['transforms']:
            n = rng.randint(1, 30)
        deck['transforms'][n] = deckmod.random_tr(rng)
        return ('num', n)
    if r < 0.6:
        return deckmod.random_tr(rng, translate_only=True)
    if r < 0.8 and allow_plain12:
        return deckmod.random_tr(rng, star=False, translate_only=False)
    return deckmod.random_tr(rng, star=True, translate_only=False)


IDENTITY = [[1, 0, 0], [0, 1, 0], [0, 0, 1]]


def nontrivial_trcl(rng, deck):
    '''A TRCL that really moves the cell (never a null translation).'''
    for _ in range(50):
        spec = gen_tr_spec(rng, deck, allow_plain12=False)
        tr = deck['transforms'][spec[1]] if isinstance(spec, tuple) else spec
        if tr['B'] is not None or any(abs(v) > 0 for v in tr['O']):
            return spec
    raise RuntimeError('could not draw a non-trivial TRCL')


def gen_explicit_fill_tr(rng, deck):
    '''An explicit fill transformation for a container that also has a TRCL
    (the fill transformation must win, even when it is the identity): the
    identity in each of its spellings, or an ordinary one.'''
    kind = rng.choice(['null3', 'null3', 'star_null3', 'ident12',
                       'star_ident12', 'num_ident3', 'num_ident12',
                       'other', 'other'])
    if kind == 'null3':
        origin = rng.choice([[0.0, 0.0, 0.0], [0.0, -0.0, 0.0]])
        return deckmod.make_tr(origin), kind
    if kind == 'star_null3':
        tr = deckmod.make_tr([0.0, 0.0, 0.0])
        tr['star'] = True
        return tr, kind
    if kind == 'ident12':
        return deckmod.make_tr([0.0, 0.0, 0.0], IDENTITY, False), kind
    if kind == 'star_ident12':
        return deckmod.make_tr([0.0, 0.0, 0.0], IDENTITY, True), kind
    if kind in ('num_ident3', 'num_ident12'):
        n = rng.randint(31, 60)
        while n in deck['transforms']:
            n = rng.randint(31, 60)
        deck['transforms'][n] = (
            deckmod.make_tr([0.0, 0.0, 0.0]) if kind == 'num_ident3' else
            deckmod.make_tr([0.0, 0.0, 0.0], IDENTITY, rng.random() < 0.4))
        return ('num', n), kind
    return gen_tr_spec(rng, deck), kind


def gen_hierarchy(rng):
    depth = rng.choice([1, 1, 2, 2, 3])
    levels = [[0]]
    next_u = 1
    for _ in range(depth):
        k = rng.choice([1, 1, 2])
        levels.append([next_u * 10 + j for j in range(k)])
        next_u += 1
    deck = {'title': 'c05 generated hierarchy', 'cells': [], 'surfaces': [],
            'transforms': {}, 'materials': {}, 'data': []}
    used = set()
    next_sid = [1]
    next_cid = [1]
    shared_tr = []

    def fresh_surfaces(n):
        out = []
        for _ in range(n):
            surf = gen_surface(rng, next_sid[0], used)
            next_sid[0] += 1
            deck['surfaces'].append(surf)
            out.append(surf['id'])
        return out

    for lvl, univs in enumerate(levels):
        for u in univs:
            n_cells = rng.choice([2, 2, 3]) if lvl else rng.choice([2, 3, 3, 4])
            sids = fresh_surfaces(n_cells - 1 + rng.choice([0, 0, 1]))
            leaves = deckmod.bsp(rng, sids, n_cells)
            # a TRCL common to the whole universe keeps it a partition
            common_trcl = None
            if rng.random() < 0.15:
                common_trcl = gen_tr_spec(rng, deck, allow_plain12=False)
            for lits in leaves:
                cid = next_cid[0]
                next_cid[0] += rng.choice([1, 1, 2, 5])
                cell = {'id': cid, 'mat': rng.choice([1, 2, 3]),
                        'rho': rng.choice(['-1.0', '-2.7', '0.05']),
                        'expr': deckmod.leaf_expr(lits),
                        'imp': {'n': 1}, 'u': u, 'lat': None, 'fill': None,
                        'trcl': common_trcl, 'like': None}
                if lvl < depth and rng.random() < (0.7 if lvl == 0 else 0.5):
                    deeper = levels[lvl + 1] if rng.random() < 0.8 else \
                        [x for l in levels[lvl + 1:] for x in l]
                    tr = None
                    r = rng.random()
                    if rng.random() < 0.22:
                        # both a (non-trivial) TRCL and an explicit fill
                        # transformation, at any level: the fill
                        # transformation places the universe, even when it is
                        # the identity
                        if cell['trcl'] is None:
                            cell['trcl'] = nontrivial_trcl(rng, deck)
                        tr, kind = gen_explicit_fill_tr(rng, deck)
                        deck.setdefault('c05_both', []).append(
                            (cell['id'], lvl, kind))
                        r = 2.0
                    elif r < 0.65:
                        if shared_tr and rng.random() < 0.3:
                            tr = rng.choice(shared_tr)   # same pose reused
                        else:
                            tr = gen_tr_spec(rng, deck)
                            shared_tr.append(tr)
                    elif r < 0.8 and cell['trcl'] is None:
                        # TRCL-only: the filler follows the container's TRCL
                        cell['trcl'] = gen_tr_spec(rng, deck,
                                                   allow_plain12=False)
                    cell['fill'] = {'u': rng.choice(deeper), 'tr': tr}
                    cell['mat'], cell['rho'] = 0, None
                    if rng.random() < 0.15 and cell['trcl'] is None:
                        # both: the fill transformation wins
                        cell['trcl'] = gen_tr_spec(rng, deck,
                                                   allow_plain12=False)
                elif rng.random() < 0.08 and cell['trcl'] is None:
                    cell['trcl'] = gen_tr_spec(rng, deck, allow_plain12=False)
                deck['cells'].append(cell)
            if lvl and sids and rng.random() < 0.3:
                # an empty cell in a filling universe: the same surface with
                # both senses (no point belongs to it, the universe stays a
                # partition)
                sid = rng.choice(sids)
                lits = [sid, -sid]
                if len(sids) > 1 and rng.random() < 0.5:
                    other = rng.choice([x for x in sids if x != sid])
                    lits.insert(rng.randrange(3),
                                other if rng.random() < 0.5 else -other)
                cid = next_cid[0]
                next_cid[0] += rng.choice([1, 2])
                deck['cells'].append({
                    'id': cid, 'mat': rng.choice([1, 2, 3]), 'rho': '-1.0',
                    'expr': deckmod.leaf_expr(lits), 'imp': {'n': 1}, 'u': u,
                    'lat': None, 'fill': None, 'trcl': common_trcl,
                    'like': None})
    share_container_surfaces(rng, deck)
    # some filler cells are declared with U=-n: same universe n.  (MCNP then
    # skips the truncation by the container and trusts the user that the cell
    # lies inside it; the universe the cell belongs to is n either way, which
    # is all the converter and the reference use.)
    if rng.random() < 0.35:
        fillers = [c for c in deck['cells'] if c['u'] != 0]
        for c in rng.sample(fillers, rng.randint(1, max(1, len(fillers) // 2))):
            c['u'] = -c['u']
    level0 = [c for c in deck['cells'] if c['u'] == 0]
    if rng.random() < 0.3:
        rng.choice(level0)['imp'] = {'n': 0}
    if rng.random() < 0.5:
        rng.shuffle(deck['cells'])
    for m in sorted({c['mat'] for c in deck['cells'] if c['mat']}):
        deck['materials'][m] = ['1001', '1.0']
    return deck


def _lits(expr):
    """Literals of a pure intersection of signed surfaces, else None."""
    if expr[0] == 's':
        return [expr[1]]
    if expr[0] == '*' and all(e[0] == 's' for e in expr[1:]):
        return [e[1] for e in expr[1:]]
    return None


def share_container_surfaces(rng, deck):
    '''Redundant but legal, and common in hand-written decks: the cells of a
    filling universe repeat, with the SAME sense, surfaces that bound the cell
    they fill (the planes of a box, the sphere around everything), also
    through a second level of filling.  Only where neither the FILL nor any
    TRCL moves anything, so that the very same surface numbers meet in the
    generated cell.'''
    if rng.random() > 0.4:
        return
    by_u = {}
    for c in deck['cells']:
        by_u.setdefault(c['u'], []).append(c)
    plain = [c for c in deck['cells']
             if c['fill'] is not None and c['fill']['tr'] is None
             and c['trcl'] is None and _lits(c['expr']) is not None
             and all(f['trcl'] is None for f in by_u.get(c['fill']['u'], []))]
    rng.shuffle(plain)
    # containers whose universe is itself filled plainly first (two levels)
    ids = {c['id'] for c in plain}
    plain.sort(key=lambda c: not any(f['id'] in ids
                                     for f in by_u.get(c['fill']['u'], [])))
    shared = deck.setdefault('c05_shared', [])
    for cont in plain[:2]:
        # when the universe is used by another container too, the repeated
        # surfaces would cut it there as well: still a legal deck (the
        # reference locates nothing where no cell of the universe is)
        todo = [(cont['fill']['u'], _lits(cont['expr']), 1)]
        while todo:
            univ, lits, depth = todo.pop()
            for cell in by_u.get(univ, []):
                own = _lits(cell['expr'])
                if own is None or rng.random() < 0.25:
                    continue
                extra = [l for l in lits if l not in own and -l not in own]
                if not extra:
                    continue
                extra = rng.sample(extra, rng.randint(1, len(extra)))
                pos = rng.randrange(len(own) + 1)
                new = own[:pos] + extra + own[pos:]
                cell['expr'] = deckmod.leaf_expr(new)
                shared.append((cont['id'], cell['id'], depth))
                if (cell['fill'] is not None and cell['fill']['tr'] is None
                        and cell['trcl'] is None and depth < 2
                        and all(f['trcl'] is None
                                for f in by_u.get(cell['fill']['u'], []))):
                    # the inner filler repeats the outer container's surfaces
                    todo.append((cell['fill']['u'], lits, depth + 1))


def gen_like_but_fill(rng):
    '''`k LIKE n BUT FILL=m TRCL=...`: cell n is filled with a transformation,
    the copy is filled with another universe WITHOUT transformation, so the
    copy's TRCL places that universe (the transformation of n's FILL must
    not survive in the copy).'''
    deck = {'title': 'c05 like n but fill=m', 'cells': [], 'surfaces': [],
            'transforms': {}, 'materials': {}, 'data': []}
    used = set()
    sid = [10]

    def fresh(n):
        out = []
        for _ in range(n):
            surf = gen_surface(rng, sid[0], used)
            sid[0] += 1
            deck['surfaces'].append(surf)
            out.append(surf['id'])
        return out
    radius = rng.choice([1.4, 1.6, 1.8])
    shift = [rng.choice([-3.0, 3.0]), rng.choice([-1.0, 0.0, 1.5]),
             rng.choice([-0.5, 0.0, 1.0])]
    deck['surfaces'].append({'id': 1, 'mn': 'so', 'params': [radius],
                             'tr': None, 'bc': ''})
    deck['surfaces'].append({'id': 5, 'mn': 's', 'params': shift + [radius],
                             'tr': None, 'bc': ''})
    base_tr = gen_tr_spec(rng, deck)
    kind = rng.choice(['translation', 'translation', 'rotation'])
    if kind == 'translation':
        copy_trcl = deckmod.make_tr(shift)
    else:
        mat = deckmod.rotation(rng.randrange(3), rng.choice([30, 90, 120]))
        copy_trcl = deckmod.make_tr(shift, mat, rng.random() < 0.5)
    if rng.random() < 0.4:
        n = 61
        deck['transforms'][n] = copy_trcl
        copy_trcl = ('num', n)

    def cell(cid, mat, expr, u=0, fill=None, imp=1, trcl=None):
        return {'id': cid, 'mat': mat, 'rho': '-1.0' if mat else None,
                'expr': expr, 'imp': {'n': imp}, 'u': u, 'lat': None,
                'fill': fill, 'trcl': trcl, 'like': None}
    base = cell(1, 0, ('s', -1), fill={'u': 1, 'tr': base_tr})
    if rng.random() < 0.3:
        base['trcl'] = None
    # (the keys besides like / but are placeholders for code that scans the
    # cell list; rendering and the reference only read like / but)
    copy = {'id': 2, 'like': 1,
            'but': {'fill': {'u': 2, 'tr': None}, 'trcl': copy_trcl},
            'u': 0, 'expr': ('s', -1), 'mat': 0, 'rho': None,
            'imp': {'n': 1}, 'lat': None, 'fill': None, 'trcl': None}
    deck['cells'] = [base, copy,
                     cell(3, 3, ('*', ('s', 1), ('s', 5)), imp=rng.choice([1, 1, 0]))]
    cid = 10
    for univ in (1, 2):
        n_cells = rng.choice([2, 2, 3])
        for lits in deckmod.bsp(rng, fresh(n_cells - 1 + rng.choice([0, 1])),
                                n_cells):
            deck['cells'].append(cell(cid, rng.choice([1, 2]),
                                      deckmod.leaf_expr(lits), u=univ))
            cid += rng.choice([1, 2])
    if rng.random() < 0.5:
        order = deck['cells'][2:]
        rng.shuffle(order)
        deck['cells'] = deck['cells'][:2] + order      # LIKE after its base
    for m in (1, 2, 3):
        deck['materials'][m] = ['1001', '1.0']
    deck['c05_like'] = True
    return deck


def gen_twin_trcl_fill(rng):
    '''Two (or three) containers filled with the SAME universe, no fill
    transformation, each placed by its own TRCL: the universe must follow
    each container's TRCL separately.'''
    deck = {'title': 'c05 one universe, several TRCL containers', 'cells': [],
            'surfaces': [], 'transforms': {}, 'materials': {}, 'data': []}
    used = set()
    sid = [10]

    def fresh(n):
        out = []
        for _ in range(n):
            surf = gen_surface(rng, sid[0], used)
            sid[0] += 1
            deck['surfaces'].append(surf)
            out.append(surf['id'])
        return out
    radius = rng.choice([1.3, 1.5])
    centres = [[-3.0, rng.choice([-1.5, 0.0, 1.0]), rng.choice([-1.0, 0.5])],
               [3.0, rng.choice([-1.0, 0.5, 1.5]), rng.choice([-0.5, 1.0])]]
    if rng.random() < 0.4:
        centres.append([0.0, rng.choice([-3.0, 3.0]), 0.0])
    deck['surfaces'].append({'id': 1, 'mn': 'so', 'params': [radius],
                             'tr': None, 'bc': ''})

    def cell(cid, mat, expr, u=0, fill=None, imp=1, trcl=None):
        return {'id': cid, 'mat': mat, 'rho': '-1.0' if mat else None,
                'expr': expr, 'imp': {'n': imp}, 'u': u, 'lat': None,
                'fill': fill, 'trcl': trcl, 'like': None}
    outside = []
    for k, ctr in enumerate(centres):
        sph = 5 + k
        deck['surfaces'].append({'id': sph, 'mn': 's',
                                 'params': ctr + [radius], 'tr': None, 'bc': ''})
        outside.append(('s', sph))
        if rng.random() < 0.5:
            trcl = deckmod.make_tr(ctr)
        else:
            mat = deckmod.rotation(rng.randrange(3), rng.choice([30, 90, 120, 180]))
            trcl = deckmod.make_tr(ctr, mat, rng.random() < 0.5)
        if rng.random() < 0.3:
            n = 61 + k
            deck['transforms'][n] = trcl
            trcl = ('num', n)
        # the same sphere at the origin, moved by the TRCL of each container
        deck['cells'].append(cell(1 + k, 0, ('s', -1),
                                  fill={'u': 1, 'tr': None}, trcl=trcl))
    deck['cells'].append(cell(9, 3, ('*',) + tuple(outside),
                              imp=rng.choice([1, 1, 0])))
    cid = 10
    n_cells = rng.choice([2, 3, 3])
    for lits in deckmod.bsp(rng, fresh(n_cells - 1 + rng.choice([0, 1])), n_cells):
        deck['cells'].append(cell(cid, rng.choice([1, 2]),
                                  deckmod.leaf_expr(lits), u=1))
        cid += rng.choice([1, 2])
    if rng.random() < 0.5:
        rng.shuffle(deck['cells'])
    for m in (1, 2, 3):
        deck['materials'][m] = ['1001', '1.0']
    deck['c05_centres'] = centres
    return deck


def like_points(rng, deck, n):
    '''Sample points concentrated in the two filled spheres.'''
    if deck.get('c05_centres'):
        centres = deck['c05_centres']
    else:
        centres = [[0.0, 0.0, 0.0], deck['surfaces'][1]['params'][:3]]
    share = n // (len(centres) + 1)
    pts = sample_points(rng, share)
    for c in centres:
        for _ in range(share):
            pts.append([c[i] + rng.uniform(-1.9, 1.9) for i in range(3)])
    return pts


def all_generated_volumes_empty(deck, rng_seed=7, n_points=400):
    '''True when, by the reference semantics alone, NO point can belong to any
    generated volume of the deck:
      (a) on sample points, the reference never finds a live leaf (a level-0
          cell with importance, down to a cell without FILL);
      (b) symbolically, every live level-0 cell is a filled cell whose filling
          universe is placed without a fill transformation (so the fillers
          share the container's surfaces, moved together with it by its TRCL if
          any) and EVERY cell of that universe requires the opposite side of
          one of the container's surfaces (pure intersections, fillers without
          TRCL of their own).
    Both must hold.  Used only to classify a crash of the writer on an
    all-empty geometry; never looks at what the implementation said.'''
    import copy
    import random
    work = copy.deepcopy(deck)
    for c in work['cells']:
        c['u'] = abs(c.get('u', 0))
    ref = mcnpref.Reference(work, eps=1e-6)
    by_u = {}
    for c in work['cells']:
        if c.get('like') is not None:
            return False
        by_u.setdefault(c['u'], []).append(c)
    live0 = [c for c in by_u.get(0, []) if not importance_zero(c)]
    if not live0:
        return False
    for cont in live0:
        fill = cont.get('fill')
        lits = _lits(cont['expr'])
        if fill is None or fill.get('tr') is not None or lits is None \
                or 'u' not in fill:
            return False
        fillers = by_u.get(fill['u'], [])
        if not fillers:
            return False
        for f in fillers:
            own = _lits(f['expr'])
            if own is None or f.get('trcl') is not None:
                return False
            if not any(-l in own for l in lits):
                return False
    rng = random.Random(rng_seed)
    for p in sample_points(rng, n_points):
        try:
            chain = ref.locate(np.array(p, float))
        except mcnpref.Ambiguous:
            continue
        if (chain is not None and chain[-1] is not None
                and not importance_zero(ref.resolve(chain[0][0]))):
            return False
    return True


def expected_provenance(chain):
    '''chain = [(c0, None), ..., (leaf, None)] -> the converter's comment:
    (leaf, innermost container) ... (leaf, level-0 container).'''
    leaf = chain[-1][0]
    return [(leaf, cid) for cid, _ in reversed(chain[:-1])]


def compare(deck, t4, points, eps=1e-6):
    '''(checked, located_deep, failures)'''
    if any(c['u'] < 0 for c in deck['cells']):
        # MCNP: U=-n is universe n (the sign is a "not truncated by the
        # container" hint); mcnpref compares universe numbers literally
        import copy
        deck = copy.deepcopy(deck)
        for c in deck['cells']:
            c['u'] = abs(c['u'])
    ref = mcnpref.Reference(deck, eps=eps)
    evalr = t4eval.Evaluator(t4, eps=eps)
    failures = []
    checked = deep = 0
    for p in points:
        try:
            chain = ref.locate(np.array(p, float))
        except mcnpref.Ambiguous:
            continue
        try:
            owners = evalr.owners(p)
        except t4eval.T4EvalError as exc:
            if 'within eps' in str(exc):
                continue
            failures.append({'point': list(p), 'kind': 't4eval',
                             'why': f'T4 evaluation: {exc}'})
            continue
        checked += 1
        live = (chain is not None and chain[-1] is not None
                and not importance_zero(ref.resolve(chain[0][0])))
        if not live:
            if owners:
                failures.append({
                    'point': list(p), 'kind': 'outside',
                    'why': f'point with MCNP chain {chain} (no live cell) '
                           f'lies in volume(s) {owners}'})
            continue
        if len(chain) > 1:
            deep += 1
        if len(owners) != 1:
            failures.append({
                'point': list(p), 'kind': 'count',
                'why': f'point of MCNP chain {chain} lies in {len(owners)} '
                       f'volumes {owners}'})
            continue
        vid = owners[0]
        prov = parse_provenance(t4.volumes[vid]['comment'])
        if len(chain) == 1:
            if vid != chain[0][0] or prov:
                failures.append({
                    'point': list(p), 'kind': 'id',
                    'why': f'point of level-0 cell {chain[0][0]} lies in '
                           f'volume {vid} with comment {prov}'})
            continue
        want = expected_provenance(chain)
        if prov != want:
            failures.append({
                'point': list(p), 'kind': 'provenance',
                'why': f'chain {chain}: volume {vid} records {prov}, '
                       f'expected {want}'})
    return checked, deep, failures


def run_deck(deck, rng, options, n_points):
    '''Returns (conv, checked, deep, failures).'''
    text = deckmod.render(deck)
    conv = impl.convert(text, list(options))
    if not conv.ok or conv.text is None:
        return conv, 0, 0, []
    t4 = impl.T4File(conv.text)
    if t4.errors:
        return conv, 0, 0, [{'point': None, 'kind': 'file',
                             'why': 'written file is malformed: '
                                    + '; '.join(t4.errors[:3])}]
    if deck.get('c05_like') or deck.get('c05_centres'):
        pts = like_points(rng, deck, n_points)
    else:
        pts = sample_points(rng, n_points)
    checked, deep, failures = compare(deck, t4, pts)
    return conv, checked, deep, failures
