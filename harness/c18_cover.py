'''C18 — line coverage of the modelled functions by the tied regression decks.

The hand-written regression decks (c18_gen.REGRESSION) are converted first by
the tie, under sys.settrace restricted to the code objects of the functions the
model re-implements.  Obligation: every executable line of those functions is
executed by at least one of these tied conversions, except the lines listed in
UNREACHED (keyed by function and line TEXT, with the reason).  A line of a
modelled function that no tied case executes is a line the tie says nothing
about.'''
import linecache
import sys

UNREACHED = {
    # (function, stripped source text): reason
    ('CellConversion.pot_transform', 'return p_tree'):
        'first occurrence (`if not p_transf`): no caller passes an empty '
        'transformation (parse_trcl_kw turns an empty TRCL into no TRCL)',
    ('CellConversion.cell_transform', 'if cache:'):
        'branch `if not transform` — same reason',
    ('CellConversion.cell_transform',
     'self.cell_transform_cache[cache_key] = cell_key'): 'same',
    ('CellConversion.cell_transform', '(self.cell_transform_rcache'): 'same',
    ('CellConversion.cell_transform', '.setdefault(cell_key, [])'): 'same',
    ('CellConversion.cell_transform', '.append(cache_key))'): 'same',
    ('CellConversion.cell_transform', 'return cell_key'): 'same',
    ('CellConversion.pot_to_t4_cell',
     'return self.convert_cellref(p_tree.cell, matching, union_ids)'):
        'a CellRef is only ever an operand of the intersection pot_fill '
        'builds, never a whole geometry nor an operand of a union',
    ('CellConversion.pot_to_t4_cell',
     "raise CellConversionError('Converting cell with unexpected '"):
        'operators are * and : only after pot_complement',
    ('CellConversion.pot_to_t4_cell', "f'operator: {operator}')"): 'same',
    ('CellConversion.pot_to_t4_cell',
     't4_cell_id = self.convert_cellref(cellref.cell, matching,'):
        'union branches: a union never has a CellRef operand (see above); '
        'the intersection branch has the same text and is covered',
    ('CellConversion.pot_to_t4_cell', 'union_ids)'): 'same',
    ('CellConversion.pot_to_t4_cell', 'arg_ids.append(t4_cell_id)'): 'same',
    ('largestPureIntersectionNode', 'continue'):
        'operands of a union that are neither surfaces nor lists (CellRef): '
        'see above; the other `continue` lines are covered',
}


TARGETS = [
    ('t4_geom_convert.Kernel.Volume.CellConversion', 'CellConversion',
     ['pot_transform', 'cell_transform', 'apply_trcl', 'pot_flag',
      'pot_expand_surfs', 'pot_optimise', 'pot_to_t4_cell', 'convert_surface',
      'convert_cellref', 'conv_equa', 'pot_convert', 'conv_union_helpers',
      'conv_intersection', 'conv_union']),
    ('t4_geom_convert.Kernel.Surface.CollectionDict', 'CollectionDict',
     ['number_items']),
    ('t4_geom_convert.Kernel.Volume.ConstructVolumeT4', None,
     ['remove_empty_volumes', 'remove_unused_volumes',
      'extract_used_surfaces']),
    ('t4_geom_convert.Kernel.Volume.VolumeT4', 'VolumeT4',
     ['__str__', 'empty']),
    ('t4_geom_convert.Kernel.Volume.TreeFunctions', None,
     ['largestPureIntersectionNode']),
    ('t4_geom_convert.Kernel.Surface.Duplicates', None,
     ['renumber_surfaces']),
]
MISSING = []        # names a rewrite removed or renamed (information only)


def target_functions():
    '''Resolved tolerantly: a function that a rewrite renamed or removed is
    skipped and recorded in MISSING (coverage is information, it never fails
    a check).'''
    import importlib
    del MISSING[:]
    out = []
    for modname, clsname, names in TARGETS:
        try:
            owner = importlib.import_module(modname)
            if clsname is not None:
                owner = getattr(owner, clsname)
        except (ImportError, AttributeError):
            MISSING.append(f'{modname}.{clsname or ""}')
            continue
        for name in names:
            func = getattr(owner, name, None)
            if func is None or not hasattr(getattr(func, '__func__', func),
                                           '__code__'):
                MISSING.append(f'{clsname or modname}.{name}')
                continue
            out.append(func)
    return out


def _codes(code, out):
    out.append(code)
    for const in code.co_consts:
        if hasattr(const, 'co_code'):
            _codes(const, out)


class Coverage:
    def __init__(self):
        self.targets = {}
        for func in target_functions():
            func = getattr(func, '__func__', func)
            codes = []
            _codes(func.__code__, codes)
            for code in codes:
                self.targets[code] = func.__qualname__
        self.hit = set()

    def _local(self, frame, event, _arg):
        if event == 'line':
            self.hit.add((frame.f_code, frame.f_lineno))
        return self._local

    def _global(self, frame, event, _arg):
        if event == 'call' and frame.f_code in self.targets:
            return self._local
        return None

    def __enter__(self):
        self.previous = sys.gettrace()
        sys.settrace(self._global)
        return self

    def __exit__(self, *_exc):
        sys.settrace(self.previous)
        return False

    def report(self):
        '''(number of executable lines, [(function, text) never executed and
        not in UNREACHED], [(function, text) texts executed somewhere]).'''
        total = 0
        executed_texts = set()
        missing_texts = set()
        for code, name in self.targets.items():
            lines = {ln for _, _, ln in code.co_lines()
                     if ln is not None and ln != code.co_firstlineno}
            for ln in sorted(lines):
                text = linecache.getline(code.co_filename, ln).strip()
                if not text or text.startswith(("'''", '"""')):
                    continue
                total += 1
                if (code, ln) in self.hit:
                    executed_texts.add((name, text))
                else:
                    missing_texts.add((name, text))
        # a text that occurs several times in a function is accepted when it
        # is listed in UNREACHED (the reasons say which occurrence is meant)
        missing = sorted(m for m in missing_texts if m not in UNREACHED)
        stale = sorted(k for k in UNREACHED
                       if k not in missing_texts)
        return total, missing, stale
