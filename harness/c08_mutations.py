'''C08 self-test: the mutations of the anchored /repo code recorded in notes/C08.md.

Usage (never on /repo itself):
    git -C /repo worktree add /tmp/c08/wt HEAD
    python harness/c08_mutations.py /tmp/c08/wt M3_inte_all_removed   # resets the worktree, applies one edit, prints the diff
    T4GC_REPO=/tmp/c08/wt ./check C08                                 # M*: must exit 1; R*: must exit 0
    git -C /repo worktree remove --force /tmp/c08/wt
`python harness/c08_mutations.py --list` prints the names.'''
import subprocess
import sys

if len(sys.argv) == 2 and sys.argv[1] == '--list':
    WT = '/nonexistent'
elif len(sys.argv) == 3:
    WT = sys.argv[1]
else:
    sys.exit(__doc__)
K = WT + '/t4_geom_convert/Kernel/'
MUT = {
 'M1_minus_count': (K+'Volume/VolumeT4.py',
    "str_params.extend(('MINUS', len(self.minuses)))", "str_params.extend(('MINUS', len(self.pluses)))"),
 'M2_unused_only_nonfictive_users': (K+'Volume/ConstructVolumeT4.py',
    "used = set(key for volume in dic.values() if volume.ops is not None",
    "used = set(key for volume in dic.values() if volume.ops is not None and not volume.fictive"),
 'M3_inte_all_removed': (K+'Volume/ConstructVolumeT4.py',
    "if val.ops[0] == 'INTE' and any(x in removed for x in val.ops[1]):",
    "if val.ops[0] == 'INTE' and all(x in removed for x in val.ops[1]):"),
 'M6_used_surfaces_nonfictive': (K+'Volume/ConstructVolumeT4.py',
    "return set(surf for volume in volumes for surf in volume.surface_ids())",
    "return set(surf for volume in volumes if not volume.fictive for surf in volume.surface_ids())"),
 'M7_minuses_not_renumbered': (K+'Surface/Duplicates.py',
    "new_minuses = set(renumbering[s] for s in volu.minuses)", "new_minuses = set(volu.minuses)"),
 'M8_dup_keeps_own_id': (K+'Surface/Duplicates.py',
    "renumbering[key] = surf_to_id[surf]", "renumbering[key] = key"),
 'M9_geomcomp_appends_origin': (K+'GeomComp/ConstructGeomCompT4.py',
    "dic_partialGeomComp[materialName].append(key)", "dic_partialGeomComp[materialName].append(volID)"),
 'M10_comp_count_per_material': (K+'FileHandlers/Writer/WriteT4Composition.py',
    "        n_compos += len(mats)", "        n_compos += 1"),
 'M11_union_filter_dropped': (K+'Volume/ConstructVolumeT4.py',
    "                                 if cell not in removed)", "                                 )"),
 'M12_skipped_test_on_value': (K+'FileHandlers/Writer/WriteT4Geometry.py',
    "            if key in skipped_cells:\n                continue", "            if val.fictive and val.ops is None and len(val.idorigin) > 1:\n                continue"),
 'M13_bc_count': (K+'FileHandlers/Writer/WriteT4BoundCond.py',
    "ofile.write(str(len(entries)))", "ofile.write(str(len(set(entries.values()))))"),
 'M14_helper_same_id': (K+'Volume/ConstructVolumeT4.py',
    "            val.minuses = set([union_ids[1]])", "            val.minuses = set([union_ids[0]])"),
 'M16_transform_id': (K+'FileHandlers/Writer/WriteT4Geometry.py',
    "transform_kw = f'TRANSFORM {key} '", "transform_kw = f'TRANSFORM {i} '"),
 'M17_density_dedup_dropped': (K+'Composition/ConstructCompositionT4.py',
    "            if density in densities:\n                continue\n", ""),
 'M20_optimise_keeps_empty': (K+'Volume/CellConversion.py',
    "        if pluses & minuses:\n            return None\n", ""),
 'M21_inte_none_dropped': (K+'Volume/CellConversion.py',
    "        if operator == '*' and any(node is None for node in new_args):", "        if operator == '*' and all(node is None for node in new_args) and new_args:"),
 'M22_bc_filter_dropped': (K+'FileHandlers/Writer/WriteT4BoundCond.py',
    "        if new_k not in surf_used:\n", "        if False:\n"),
 'M23_bc_not_renumbered': (K+'FileHandlers/Writer/WriteT4BoundCond.py',
    "new_k = k if renumbering is None else renumbering.get(k, k)", "new_k = k"),
 'M24_bc_count_all_flagged': (K+'FileHandlers/Writer/WriteT4BoundCond.py',
    "ofile.write(str(len(entries)))", "ofile.write(str(len(d_boundCond)))"),
 'R4_bc_entries_list': (K+'FileHandlers/Writer/WriteT4BoundCond.py',
    "    for k, kind in entries.items():\n        ofile.write(\"ALL_COMPLETE %s %s\\n\" % (kind, k))",
    "    for k in list(entries):\n        ofile.write(f'ALL_COMPLETE {entries[k]} {k}\\n')"),
 'M25_helpers_not_renumbered': (K+'FileHandlers/Writer/WriteT4Geometry.py',
    "        union_ids = tuple(renumber[surf] for surf in union_ids)", "        union_ids = tuple(union_ids)"),
 'M26_geomcomp_raw_token': (K+'GeomComp/ConstructGeomCompT4.py',
    "materialName = str(int(dic_cellMCNP[volID].materialID))", "materialName = dic_cellMCNP[volID].materialID"),
 'M28_cellref_none_again': (K+'Volume/CellConversion.py',
    "        if p_id is None:\n            # the referenced cell is empty", "        if False:\n            # the referenced cell is empty"),
 'M29_helper_second_id_stale': (K+'FileHandlers/Writer/WriteT4Geometry.py',
    "        union_ids = tuple(renumber[surf] for surf in union_ids)", "        union_ids = (renumber[union_ids[0]], union_ids[1])"),
 'M30_helper_plane_value': (K+'Volume/ConstructVolumeT4.py',
    "                                                [-1],", "                                                [-2],"),
 # behaviour-preserving rewrites
 'R1_removed_not_cumulative': (K+'Volume/ConstructVolumeT4.py',
    "        removed |= removed_at_this_step", "        removed = removed | set(removed_at_this_step)"),
 'R2_str_rewritten': (K+'Volume/VolumeT4.py',
    "        return ' '.join(str(param) for param in str_params)",
    "        out = ''\n        for param in str_params:\n            out += ('' if not out else ' ') + f'{param}'\n        return out"),
 'R3_unused_loop': (K+'Volume/ConstructVolumeT4.py',
    "    unused = fictives - used\n    for key in unused:\n        del dic[key]",
    "    for key in sorted(fictives, reverse=True):\n        if key not in used:\n            dic.pop(key)"),
}
if sys.argv[1] == '--list':
    print('\n'.join(MUT))
    sys.exit(0)
name = sys.argv[2]
if '/repo' == WT.rstrip('/'):
    sys.exit('refusing to edit /repo')
subprocess.run(['git', '-C', WT, 'checkout', '-q', '.'], check=True)
path, old, new = MUT[name]
text = open(path).read()
assert text.count(old) == 1, (name, text.count(old))
open(path, 'w').write(text.replace(old, new))
print(subprocess.run(['git', '-C', WT, 'diff'], capture_output=True, text=True).stdout)
