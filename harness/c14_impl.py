'''C14 — the implementation's text front end, function by function, with the
serialisation shared with coq/C14/Exec.v (tied: number -> function).'''
import contextlib
import io
import itertools
import signal
import threading

SEP1, SEP2, SEP4 = '\x01', '\x02', '\x04'
SKIPPED = {}        # helper-level tie / shortcut -> why it was skipped (for the evidence)
MODULUS = 2147483647


def ser_bool(b):
    return 'T' if b else 'F'


def ser_list(items):
    return ''.join(s + SEP1 for s in items)


def ser_list2(items):
    return ''.join(ser_list(c) + SEP2 for c in items)


ERRS = {IndexError: 'EIndex', ValueError: 'EValue',
        AttributeError: 'EAttribute'}


class ImplHang(Exception):
    '''An implementation call exceeded its time limit (a loop that does not
    advance): reported as a disagreement / violation, never a harness crash.'''


@contextlib.contextmanager
def time_limit(seconds):
    if threading.current_thread() is not threading.main_thread():
        yield
        return

    def handler(signum, frame):
        raise ImplHang(f'no answer within {seconds} s')
    import common
    old = common.arm_watchdog(handler, seconds)   # CPU-time limit + wall-clock backstop
    try:
        yield
    finally:
        common.disarm_watchdog(old)


class TooManyHangs(Exception):
    '''The implementation keeps running into the time limit: the run is
    abandoned and reported as a violation.'''


HANGS = []          # inputs on which a call did not return
MAX_HANGS = 3


def note_hang(what):
    HANGS.append(what)
    if len(HANGS) >= MAX_HANGS:
        raise TooManyHangs(f'{len(HANGS)} implementation calls did not return, '
                           f'first on {HANGS[0]!r}')


def limited(fun, seconds=3.0):
    def wrapper(s):
        try:
            with time_limit(seconds):
                return fun(s)
        except ImplHang:
            note_hang((fun.__name__, s[:200]))
            return SEP4 + 'EHang'
    return wrapper


def guarded(fun):
    '''Map the three exception classes of the front end to the model's enum;
    anything else propagates (and is a harness error).'''
    def wrapper(s):
        try:
            with contextlib.redirect_stdout(io.StringIO()):
                return fun(s)
        except tuple(ERRS) as exc:
            for cls, name in ERRS.items():
                if type(exc) is cls:       # pylint: disable=unidiomatic-typecheck
                    return SEP4 + name
            raise
    return wrapper


def _cards():
    from MIP.mip import cards
    return cards


def f_is_comment(s):
    return ser_bool(_cards().re_comment.match(s))


def f_has5(s):
    return ser_bool(_cards().is_continuation(s, None))


def f_amp_cont(s):
    # a candidate line without leading blanks: only the `prev` branch decides
    return ser_bool(_cards().is_continuation('x', s))


def f_expand_tabs(s):
    return _cards().expand_tabs(s)


def f_strip_trailer(s):
    from MIP.mip import main
    return ser_list(main.re_comment.split(s))


def f_squeeze(s):
    from MIP.mip import main
    return main.re_spaces.sub(' ', s)


def f_words(s):
    return ser_list(s.split())


def f_splitlines(s):
    return ser_list(s.splitlines())


@guarded
def f_blocks(s):
    from MIP.mip.blocks import get_block_positions
    dres = get_block_positions(s)
    return ser_list(k + s[slice(*dres[k][0])] for k in 'mtcsd' if k in dres)


def f_get_cards(s):
    out = []
    for lines, _, typ in _cards().get_cards(s, skipcomments=True):
        assert typ == 'card'
        out.append(lines)
    return ser_list2(out)


def f_block_cards(s):
    from MIP.mip.main import Card
    return ser_list(Card(lines=lines).content() for lines, _, _
                    in _cards().get_cards(s, skipcomments=True))


@guarded
def f_surf_split(s):
    from MIP.mip import surfacecard
    return ser_list(surfacecard.split(s))


@guarded
def f_data_split(s):
    from MIP.mip import datacard
    return ser_list(datacard.split(s))


def cell_guard(s):
    '''Inside the model's domain: the second word is "like" or a digit string
    (the model does not implement float()).'''
    w = s.split()
    if len(w) < 3 or w[1].lower() == 'like':
        return True
    return w[1].isascii() and w[1].isdigit()


@guarded
def f_cell_split(s):
    from MIP.mip import cellcard
    if not cell_guard(s):
        return SEP4 + 'EUnsupported'
    return ser_list(cellcard.split(s))


def f_split_options(s):
    from MIP.mip import cellcard
    parts = cellcard.re_options.split(s)
    if len(parts) == 4:
        return ser_list([parts[0] + parts[1], parts[2]])
    return 'N'


@guarded
def f_void(s):
    from MIP.mip import cellcard
    return ser_list(cellcard.re_void.findall(s)[0])


@guarded
def f_nonvoid(s):
    from MIP.mip import cellcard
    return ser_list(cellcard.re_nonvoid.findall(s)[0])


@guarded
def f_likebut(s):
    from MIP.mip import cellcard
    return ser_list(cellcard.re_likebut.findall(s)[0])


class _Captured(Exception):
    pass


def f_opt_tokens(s):
    '''The keyword list computed by parse_one_cell_worker (the real lines of
    ParseMCNPCell.py run; parse_keywords is intercepted).'''
    from t4_geom_convert.Kernel.FileHandlers.Parser.ParseMCNPCell import \
        ParseMCNPCell
    obj = object.__new__(ParseMCNPCell)
    box = []

    def capture(kw_list):
        box.append(list(reversed(kw_list)))
        raise _Captured()
    obj.parse_keywords = capture
    try:
        obj.parse_one_cell_worker(0, None, ('0', '1', s))
    except _Captured:
        pass
    return ser_list(box[0])


def f_lower(s):
    return s.lower()


FRONT_VIA_FILE = [None]     # None = not probed yet


def _front_memory(s):
    from MIP.mip.main import MIP
    from MIP.mip.blocks import get_block_positions
    parser = object.__new__(MIP)
    parser.text = s
    parser.bi = get_block_positions(s, firstblock=None)
    return ser_list2([[c.content() for c in
                       parser.cards(blocks=b, skipcomments=True)]
                      for b in 'csd'])


def _front_file(s):
    import impl
    from MIP.mip.main import MIP
    with impl.scratch_dir() as tmp:
        path = tmp / 'deck.imcnp'
        path.write_bytes(s.encode('ascii'))
        parser = MIP(str(path), encoding='utf-8')
        return ser_list2([[c.content() for c in
                           parser.cards(blocks=b, skipcomments=True)]
                          for b in 'csd'])


def front_in_memory():
    '''The in-memory route fills two attributes of the MIP object by hand
    (private state): it is used only while it gives what MIP(file) gives on a
    probe deck; otherwise every call goes through a scratch file.'''
    if FRONT_VIA_FILE[0] is None:
        probe = 't\n1 0 -1 $ x\n     imp:n=1\n\n1 so 5\n\nnps 1\n'
        try:
            FRONT_VIA_FILE[0] = _front_memory(probe) != _front_file(probe)
        except Exception:       # pylint: disable=broad-except
            FRONT_VIA_FILE[0] = True
        if FRONT_VIA_FILE[0]:
            SKIPPED['front (in memory)'] = ('attributes of the MIP object not as '
                                            'expected: every call goes through a file')
    return not FRONT_VIA_FILE[0]


@guarded
def f_front(s):
    '''MIP.cards(blocks, skipcomments=True) + Card.content on a text (MIP.__init__
    = read the file + get_block_positions).'''
    return _front_memory(s) if front_in_memory() else _front_file(s)


@guarded
def f_front_file(s):
    return _front_file(s)


def f_front_all(s):
    '''front, blocks and the raw cards of the c, s, d blocks of one text.'''
    out = f_front(s) + SEP2 + f_blocks(s) + SEP2
    from MIP.mip.blocks import get_block_positions
    try:
        dres = get_block_positions(s)
    except (ValueError, IndexError):
        return out
    for key in 'csd':
        if key in dres:
            out += f_get_cards(s[slice(*dres[key][0])]) + SEP4
    return out


def f_to_float(s):
    '''What MIP.mip.datacard.to_float hands to float(): 'F' + the token
    itself when float() reads it, 'X' + the rebuilt spelling
    (mantissa e exponent) when only the Fortran fallback reads it, 'N' when
    to_float raises ValueError. Observed by shadowing `float` in the module's
    globals, no internal name is needed.'''
    from MIP.mip import datacard
    seen = []

    def spy(arg):
        seen.append(arg)
        return float(arg)
    datacard.float = spy
    try:
        try:
            datacard.to_float(s)
        except ValueError:
            return 'N'
    finally:
        del datacard.float
    return ('F' if len(seen) == 1 else 'X') + seen[-1]


def f_expand(tokens, expected=None):
    '''MIP.mip.datacard.expand_data_card on a token list (natural order):
    values as exact fractions (None = J), then the number of tokens consumed.'''
    from fractions import Fraction
    from MIP.mip.datacard import expand_data_card
    try:
        with time_limit(3):
            vals, consumed = expand_data_card(list(tokens), expected=expected)
    except IndexError:
        return SEP4 + 'XIndex'
    except ValueError:
        return SEP4 + 'XValue'
    except TypeError:
        return SEP4 + 'XType'
    out = []
    for v in vals:
        if v is None:
            out.append('J')
        else:
            q = Fraction(v).limit_denominator(10 ** 6)
            out.append(f'{q.numerator}/{q.denominator}')
    return ser_list(out) + SEP2 + str(consumed)


def f_to_float_accepts(s):
    '''Whether MIP.mip.datacard.to_float reads the token: 'A' or 'N'
    (ValueError). Public behaviour only, used when the spy of f_to_float is
    not reached any more.'''
    from MIP.mip import datacard
    try:
        datacard.to_float(s)
    except ValueError:
        return 'N'
    return 'A'


FUNS = {
    0: ('is_comment', f_is_comment), 1: ('has5', f_has5),
    2: ('amp_cont', f_amp_cont), 3: ('expand_tabs', f_expand_tabs),
    4: ('strip_trailer', f_strip_trailer), 5: ('squeeze', f_squeeze),
    6: ('words', f_words), 7: ('splitlines', f_splitlines),
    8: ('blocks', f_blocks), 9: ('get_cards', f_get_cards),
    10: ('block_cards', f_block_cards), 11: ('surf_split', f_surf_split),
    12: ('data_split', f_data_split), 13: ('cell_split', f_cell_split),
    14: ('split_options', f_split_options), 15: ('void_split', f_void),
    16: ('nonvoid_split', f_nonvoid), 17: ('likebut_split', f_likebut),
    18: ('opt_tokens', f_opt_tokens), 19: ('lower', f_lower),
    20: ('front', f_front), 21: ('front_all', f_front_all),
    22: ('to_float', f_to_float), 23: ('to_float_accepts', f_to_float_accepts),
}
FUNS = {fid: (name, limited(fun)) for fid, (name, fun) in FUNS.items()}
FID = {name: fid for fid, (name, _) in FUNS.items()}

# module-level names of the implementation that a fine-grained tie reaches
# into; when a (behaviour-preserving) rewrite removes one, that tie is skipped
# and the functions built on it (cell_split, block_cards, front ...) still
# cover the code
REQUIRES = {
    'is_comment': [('MIP.mip.cards', 're_comment')],
    'strip_trailer': [('MIP.mip.main', 're_comment')],
    'squeeze': [('MIP.mip.main', 're_spaces')],
    'split_options': [('MIP.mip.cellcard', 're_options')],
    'void_split': [('MIP.mip.cellcard', 're_void')],
    'nonvoid_split': [('MIP.mip.cellcard', 're_nonvoid')],
    'likebut_split': [('MIP.mip.cellcard', 're_likebut')],
    'has5': [('MIP.mip.cards', 'is_continuation')],
    'amp_cont': [('MIP.mip.cards', 'is_continuation')],
    'expand_tabs': [('MIP.mip.cards', 'expand_tabs')],
    'to_float': [('MIP.mip.datacard', 'to_float')],
}


# observers that reach into the implementation through a hook (a captured
# method, a shadowed global): usable only while a probe call still works
PROBES = {
    'opt_tokens': ('imp:n=1 u=2', ser_list(['imp:n', '1', 'u', '2'])),
    'to_float': ('1.5d3', 'X1.5e3'),
}
_AVAILABLE = {}


def available(name):
    '''False when a module-level name the observer needs is gone or its hook
    is no longer reached (a rewrite renamed / inlined a private helper): the
    helper-level tie is then skipped and recorded; the ties through the public
    functions (cell_split, get_cards, front, expand_data_card, conversions)
    still run.'''
    if name in _AVAILABLE:
        return _AVAILABLE[name]
    import importlib
    ok = True
    for mod, attr in REQUIRES.get(name, []):
        try:
            if not hasattr(importlib.import_module(mod), attr):
                ok = False
                SKIPPED[name] = f'helper {mod}.{attr} not present'
        except Exception as exc:        # pylint: disable=broad-except
            ok = False
            SKIPPED[name] = f'module {mod} not importable: {exc!r}'
    if ok and name in PROBES:
        inp, expected = PROBES[name]
        try:
            got = FUNS[FID[name]][1](inp)
        except Exception as exc:        # pylint: disable=broad-except
            got = exc
        # the probe only decides whether the HOOK still works; a changed but
        # well-formed answer is left to the tie
        if isinstance(got, Exception) or not isinstance(got, str) \
                or (name == 'to_float' and got[:1] not in ('F', 'X', 'N')):
            ok = False
            SKIPPED[name] = f'hook of the observer not reached any more ({got!r})'
    _AVAILABLE[name] = ok
    return ok


def hstr(s, h):
    for ch in s:
        h = (h * 263 + ord(ch) + 1) % MODULUS
    return h


def fingerprint(fid, alpha, n, pre='', suf=''):
    fun = FUNS[fid][1]
    acc = 0
    for tup in itertools.product(alpha, repeat=n):
        s = pre + ''.join(tup) + suf
        acc = (acc * 1000003 + hstr(fun(s), hstr(s, 7))) % MODULUS
    return acc
