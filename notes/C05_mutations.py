'''C05 mutation self-test: applies each mutation to a scratch copy of /repo (never /repo
itself), runs `./check C05 --seed 11` with T4GC_REPO pointing at the copy and prints the
verdict.  Usage (from the framework root):  /venv/bin/python notes/C05_mutations.py [names...]
M* must exit 1 with VIOLATION lines, R* (behaviour-preserving rewrites) must exit 0.'''
import os
import shutil
import subprocess
import sys

ROOT = os.path.dirname(os.path.dirname(os.path.abspath(__file__)))
SCRATCH = '/tmp/c05_mut/wt'
CC = 't4_geom_convert/Kernel/Volume/CellConversion.py'
BU = 't4_geom_convert/Kernel/Volume/ByUniverse.py'
CV = 't4_geom_convert/Kernel/Volume/ConstructVolumeT4.py'
PC = 't4_geom_convert/Kernel/FileHandlers/Parser/ParseMCNPCell.py'
CI = 't4_geom_convert/Kernel/Volume/CellInlining.py'
TRCL_LOOP = ("                for trcl in cell.trcl:\n"
             "                    new_elt_key = self.cell_transform(new_elt_key, trcl,\n"
             "                                                      cache=cache)")
FILLTR = ("                new_elt_key = self.cell_transform(new_elt_key, mcnp_key_filltr,\n"
          "                                                  cache=cache)")
MUTS = {
    'M1_cache_key_no_transform': (CC, "cache_key = (cell_key, tuple(transform))",
                                  "cache_key = (cell_key, len(tuple(transform)))"),
    'M2_trcl_wins_over_filltr': (
        CC, "            if mcnp_key_filltr:\n" + FILLTR + "\n            elif cell.trcl:\n" + TRCL_LOOP,
        "            if cell.trcl:\n" + TRCL_LOOP + "\n            elif mcnp_key_filltr:\n" + FILLTR),
    'M3_provenance_container_not_root': (CC, "cell.idorigin[0][0] if cell.idorigin else key)",
                                         "cell.idorigin[-1][0] if cell.idorigin else key)"),
    'M3b_provenance_filler_last': (
        CC, "(element_cell.idorigin[0][0]\n                 if element_cell.idorigin else element,",
        "(element_cell.idorigin[-1][1]\n                 if element_cell.idorigin else element,"),
    'M4_trcl_list_reversed_in_fill': (CC, "                for trcl in cell.trcl:\n                    new_elt_key",
                                      "                for trcl in reversed(cell.trcl):\n                    new_elt_key"),
    'M5_density_not_copied': (CC, "            new_cell.density = element_cell.density\n", ""),
    'M6_cache_flag_dropped_in_trcl_loop': (
        CC, "                    new_elt_key = self.cell_transform(new_elt_key, trcl,\n"
            "                                                      cache=cache)",
        "                    new_elt_key = self.cell_transform(new_elt_key, trcl)"),
    'M7_nested_flags_dropped': (
        CC, "for cell in self.pot_fill(element, dict_universe,\n"
            "                                                     inline_filled,\n"
            "                                                     inline_filling))",
        "for cell in self.pot_fill(element, dict_universe))"),
    'M8_cellref_transform_uncached_key': (
        CC, "            new_cell_key = self.cell_transform(p_tree.cell, p_transf)\n"
            "            return CellRef(new_cell_key)",
        "            self.cell_transform(p_tree.cell, p_transf)\n"
        "            return CellRef(self.new_cell_key)"),
    'M9_empty_transform_not_cached': (CC, "        if not transform:\n            if cache:",
                                      "        if not transform:\n            if cache and False:"),
    'M10_negative_surface_sign_lost': (CC, "return Surface(new_key) if p_tree >= 0 else Surface(-new_key)",
                                       "return Surface(new_key) if p_tree >= -1 else Surface(-new_key)"),
    'M11_by_universe_key_mod7': (BU, "universe_dict[int(val.universe)].append(key)",
                                 "universe_dict[int(val.universe) % 7].append(key)"),
    'M12_star_fill_last_cosine': (
        PC, "            fill_params[3:12] = list(map(to_cos, fill_params[3:12]))\n"
            "            fill_params = normalize_transform(fill_params)\n        elif fill_params:",
        "            fill_params[3:11] = list(map(to_cos, fill_params[3:11]))\n"
        "            fill_params = normalize_transform(fill_params)\n        elif fill_params:"),
    'M13_inline_no_recursion_into_wide_unions': (
        CI, "                sub_geometry = dic[arg.cell].geometry\n"
            "                new_geometry.append(inline_cells_worker(sub_geometry, dic,\n"
            "                                                        to_inline))",
        "                sub_geometry = dic[arg.cell].geometry\n"
        "                new_geometry.append(sub_geometry if len(sub_geometry) > 3 and sub_geometry[0] == ':' "
        "else inline_cells_worker(sub_geometry, dic,\n"
        "                                                        to_inline))"),
    'M14_trcl_skipped_for_filled_universe_cells': (
        CV, "                cell.geometry = conv.apply_trcl(cell.trcl, cell.geometry)",
        "                cell.geometry = conv.apply_trcl(cell.trcl if cell.fillid is None or "
        "cell.universe == 0 else [], cell.geometry)"),
    'M15_inline_filled_commuted': (CC, "                if inline_filled:\n                    new_cell.geometry = ('*', cell.geometry, tree)",
                                   "                if inline_filled:\n                    new_cell.geometry = ('*', tree, cell.geometry)"),
    'M16_inline_score_le1_to_lt1': (CI, "        if len(occurs) <= 1:", "        if len(occurs) < 1:"),
    'M17_inline_occurrences_dedup': (CI, "        for subcell in subcells:\n            occurrences[subcell].append(key)",
                                     "        for subcell in set(subcells):\n            occurrences[subcell].append(key)"),
    'M18_inline_score_le': (CI, "if score < max_inline_score)", "if score <= max_inline_score)"),
    'M19_inline_size_counts_nodes': (CI, "    return sum(geometry_size(arg) for arg in geometry[1:])",
                                     "    return 1 + sum(geometry_size(arg) for arg in geometry[1:])"),
    'M20_inline_roots_all_universes': (CI, "key_stack = [key for key, value in dic.items() if value.universe == 0]",
                                       "key_stack = [key for key, value in dic.items() if value.universe >= 0]"),
    'M21_null_fill_translation_is_empty': (
        PC, "        elif len(fill_params) == 3:\n"
            "            fill_params = [float(param) for param in fill_params[:12]]\n"
            "            fill_params += [1., 0., 0.,\n"
            "                            0., 1., 0.,\n"
            "                            0., 0., 1.]\n",
        "        elif len(fill_params) == 3:\n"
        "            fill_params = [float(param) for param in fill_params[:12]]\n"
        "            if any(fill_params):\n"
        "                fill_params += [1., 0., 0.,\n"
        "                                0., 1., 0.,\n"
        "                                0., 0., 1.]\n"
        "            else:\n"
        "                fill_params = []\n"),
    'M22_starred_fill_without_numbers_is_identity': (PC, "        elif fill_params and '*' in elt:",
                                                      "        elif '*' in elt:"),
    'M23_bare_trcl_kept_as_empty_tuple': (PC, "        kws['trcl'] = [] if not kws['trcl'] else [kws['trcl']]",
                                          "        kws['trcl'] = [] if kws['trcl'] is None else [kws['trcl']]"),
    'M24_negative_universe_kept': (PC, "                keywords['u'] = abs(int(float(kw_list.pop())))",
                                   "                keywords['u'] = int(float(kw_list.pop()))"),
    'M25_same_sign_twice_is_empty': (
        CC, "        pluses = {surf for surf in new_node[2:]\n"
            "                  if isSurface(surf) and surf > 0}\n"
            "        minuses = {-surf for surf in new_node[2:]\n"
            "                   if isSurface(surf) and surf < 0}\n"
            "        if pluses & minuses:\n"
            "            return None\n",
        "        seen = set()\n"
        "        for surf in new_node[2:]:\n"
        "            if not isSurface(surf):\n"
        "                continue\n"
        "            if abs(surf) in seen:\n"
        "                return None\n"
        "            seen.add(abs(surf))\n"),
    'M26_fill_without_tr_leaves_f_params_unset': (
        PC, "                keywords['f_params'] = f_params\n",
        "                if f_params:\n                    keywords['f_params'] = f_params\n"),
    'R1_to_process_list_loops': (
        CC, "        to_process = tuple(cell\n"
            "                           for element in dict_universe[universe]\n"
            "                           for cell in self.pot_fill(element, dict_universe,\n"
            "                                                     inline_filled,\n"
            "                                                     inline_filling))",
        "        to_process = []\n        for element in dict_universe[universe]:\n"
        "            to_process.extend(self.pot_fill(element, dict_universe,\n"
        "                                            inline_filled=inline_filled,\n"
        "                                            inline_filling=inline_filling))"),
    'R2_cache_lookup_in': (
        CC, "            new_key = self.cell_transform_cache.get(cache_key, None)\n        else:\n"
            "            new_key = None\n        if new_key is not None:\n            return new_key",
        "            if cache_key in self.cell_transform_cache:\n"
        "                return self.cell_transform_cache[cache_key]"),
    'R3_by_universe_setdefault': (
        BU, "    universe_dict = defaultdict(list)\n    for key, val in mcnp_cell_dict.items():\n"
            "        universe_dict[int(val.universe)].append(key)",
        "    universe_dict = defaultdict(list)\n    for key in mcnp_cell_dict:\n"
        "        universe_dict.setdefault(int(mcnp_cell_dict[key].universe), []).append(key)"),
    'R4_inline_worker_tuple': (CI, "    new_geometry = [geometry[0]]\n    for arg in geometry[1:]:\n        if isCellRef(arg):",
                               "    new_geometry = [geometry[0]]\n    for arg in tuple(geometry)[1:]:\n        if isCellRef(arg):"),
}


def main():
    names = sys.argv[1:] or list(MUTS)
    bad = 0
    for name in names:
        path, old, new = MUTS[name]
        shutil.rmtree(SCRATCH, ignore_errors=True)
        shutil.copytree('/repo', SCRATCH, ignore=shutil.ignore_patterns('.git', '__pycache__'))
        src = open(os.path.join(SCRATCH, path)).read()
        if src.count(old) != 1:
            print(f'{name}: pattern found {src.count(old)} times - skipped')
            bad += 1
            continue
        open(os.path.join(SCRATCH, path), 'w').write(src.replace(old, new))
        env = dict(os.environ, T4GC_REPO=SCRATCH, T4GC_EVIDENCE_DIR='/tmp/c05_mut/evidence')
        run = subprocess.run(['./check', 'C05', '--seed', '11'], cwd=ROOT, env=env,
                             capture_output=True, text=True)
        out = run.stdout + run.stderr
        viol = [l for l in out.splitlines() if l.startswith('VIOLATION')]
        with_input = [l for l in viol if 'no-failing-input-found' not in l]
        want = 0 if name.startswith('R') else 1
        ok = run.returncode == want
        bad += not ok
        print(f'{name}: exit={run.returncode} violations={len(viol)} '
              f'(with a failing input: {len(with_input)}) {"as expected" if ok else "UNEXPECTED"}')
        sys.stdout.flush()
    shutil.rmtree('/tmp/c05_mut', ignore_errors=True)
    shutil.rmtree(os.path.join(ROOT, 'replays', 'C05'), ignore_errors=True)
    return 1 if bad else 0


if __name__ == '__main__':
    sys.exit(main())
