# Mutation runner of C10 (see notes/C10.md). Usage: git -C /repo worktree add --detach /tmp/c10/wt HEAD; python notes/C10_mutations.py "M|R|E"; git -C /repo worktree remove --force /tmp/c10/wt
import subprocess, sys, os, re
WT='/tmp/c10/wt'
K=WT+'/t4_geom_convert/Kernel/'
F={'ccomp':K+'Composition/CCompositionMCNP.py','conv':K+'Composition/CompositionConversionMCNPToT4.py',
   'iso':K+'Composition/ConvertIsotope.py','cons':K+'Composition/ConstructCompositionT4.py',
   'wr':K+'FileHandlers/Writer/WriteT4Composition.py','mip':WT+'/MIP/geom/composition.py',
   'elem':K+'Composition/EIsotopeNameElementT4.py'}
MUTS={
 'M1_keyword_swallows_next':[('ccomp',"                # this is a keyword, skip it\n                i += 1\n","                # this is a keyword, skip it\n                i += 2\n")],
 'M2_rescale_dict_by_name':[('cons',"""    concs = []
    total_fractions = fsum(float(normalize_float(frac))
                           for _, frac in fractions)
    for isotope, frac in fractions:
        conc = float(normalize_float(frac)) * concentration / total_fractions
""","""    concs = []
    values = {isotope: float(normalize_float(frac))
              for isotope, frac in fractions}
    total_fractions = fsum(values.values())
    for isotope, frac in fractions:
        conc = values[isotope] * concentration / total_fractions
""")],
 'M3_mass_lstrip':[('iso',"massNumber = str(int(isotope_id[-3:]))","massNumber = isotope_id[-3:].lstrip('0') or '0'\n    int(massNumber)"),('conv',"if mass_number == '0':","if mass_number == '':")],
 'M4_sign_check_one_way':[('conv',"elif positive_fraction != atom_fracs:","elif positive_fraction != atom_fracs and not positive_fraction:")],
 'M6_seen_densities_shared':[('cons',"        fractions = extract_isotopes_fractions(val.isotopes)\n        densities = set()\n","        fractions = extract_isotopes_fractions(val.isotopes)\n"),('cons',"    dic_new_composition = OrderedDict()\n","    dic_new_composition = OrderedDict()\n    densities = set()\n")],
 'M7_universe_filter_dropped':[('cons',"if (cell.importance <= 0. or cell.universe != 0\n                    or cell.fillid is not None):","if (cell.importance <= 0.\n                    or cell.fillid is not None):")],
 'M8_fill_filter_dropped':[('cons',"if (cell.importance <= 0. or cell.universe != 0\n                    or cell.fillid is not None):","if (cell.importance <= 0. or cell.universe != 0):")],
 'M9_importance_strict':[('cons',"cell.importance <= 0.","cell.importance < 0.")],
 'M10_count_materials':[('wr',"    for mats in dic_composition.values():\n        n_compos += len(mats)\n","    for mats in dic_composition.values():\n        n_compos += 1\n")],
 'M13_symbols_swapped':[('elem',"'FL MC LV TS OG'","'MC FL LV TS OG'")],
 'M15_float_without_normalize':[('cons',"        conc = float(normalize_float(frac)) * concentration / total_fractions","        conc = float(frac) * concentration / total_fractions"),('cons',"    total_fractions = fsum(float(normalize_float(frac))\n                           for _, frac in fractions)","    total_fractions = fsum(float(normalize_float(frac))\n                           for _, frac in fractions)\n    fractions = [(i, f.lower().replace('d', 'e')) for i, f in fractions]")],
 'M16_startswith_m':[('mip',"if dtype.lower() == 'm':","if dtype.lower() in ('m', 'mt'):")],
 'M17_lowercase_only':[('mip',"if dtype.lower() == 'm':","if dtype == 'm':")],
 'M18_sorted_nuclides':[('wr',"for name, abd in list_isotope)","for name, abd in sorted(list_isotope))")],
 'M19_nb_atom_single_nuclide':[('cons',"                                       compo, val.atom_fracs)","                                       compo, val.atom_fracs and len(compo) > 1)"),],
 'E1_equivalent_nb_atom_pointwise':[('cons',"                                       compo, val.atom_fracs)","                                       compo, val.atom_fracs or fdensity >= 0)"),],
 'M20_suffix_only_c':[('ccomp','if "." in isotope:','if "." in isotope and isotope[-1] in "cC":'),('iso',"isotope_id = isotope_id.split('.')[0]","isotope_id = isotope_id.split('.')[0] if isotope_id[-1] in 'cC' else isotope_id")],
 'M21_pointwise_unsorted_dedup':[('cons',"            if density in densities:\n                continue\n","            if density in densities and fdensity_seen:\n                continue\n"),('cons',"        densities = set()\n","        densities = set()\n        fdensity_seen = False\n"),('cons',"            densities.add(density)\n","            densities.add(density)\n            fdensity_seen = float(normalize_float(density)) < 0\n")],
 'M22_last_nuclide_dropped_when_30':[('ccomp',"        while i < len(l_materialCompositionParameters):","        while i < min(len(l_materialCompositionParameters), 56):")],
 'M23_void_text':[('wr','HE4 1E-30','HE4 1e-30')],
 'M25_name_abs_density':[('wr',"p_material_name = mat.material + '_' + density","p_material_name = mat.material + '_' + str_fabs(density)")],
 'M29_dedup_by_value':[('cons',"            if density in densities:\n                continue\n            densities.add(density)\n","            if float(normalize_float(density)) in densities:\n                continue\n            densities.add(float(normalize_float(density)))\n")],
 'M30_duplicate_keeps_first':[('mip',"            mat_dict[name] = params\n","            mat_dict.setdefault(name, params)\n")],
 'M31_duplicate_moves_to_end':[('mip',"            mat_dict[name] = params\n","            mat_dict.pop(name, None)\n            mat_dict[name] = params\n")],
 # behaviour-preserving rewrites
 'R1_int_mass_zero':[('conv',"if mass_number == '0':","if int(mass_number) == 0:")],
 'R2_pairs_iterator':[('ccomp',"""        i = 0
        while i < len(l_materialCompositionParameters):
            isotope = l_materialCompositionParameters[i]
            if '=' in isotope:
                # this is a keyword, skip it
                i += 1
                continue
            if "." in isotope:
                isotope = isotope.split(".")[0]
            fractionIsotope = l_materialCompositionParameters[i + 1]
            self.materialCompositionParameters.append((isotope,
                                                       fractionIsotope))
            i += 2
""","""        tokens = iter(l_materialCompositionParameters)
        for isotope in tokens:
            if '=' in isotope:
                continue
            isotope = isotope.partition(".")[0]
            try:
                fractionIsotope = next(tokens)
            except StopIteration:
                raise IndexError('list index out of range') from None
            self.materialCompositionParameters.append((isotope,
                                                       fractionIsotope))
""")],
 'R3_rescale_factor_first':[('cons',"        conc = float(normalize_float(frac)) * concentration / total_fractions","        conc = float(normalize_float(frac)) * (concentration / total_fractions)")],
 'R4_writer_join':[('wr',"""                    isotopes_str = '\\n  '.join(name + ' ' + abd
                                               for name, abd in list_isotope)""","""                    isotopes_str = '\\n'.join('  ' + name + ' ' + abd
                                             for name, abd in list_isotope)[2:]""")],
 'R5_seen_list':[('cons',"        densities = set()\n","        densities = []\n"),('cons',"            densities.add(density)\n","            densities.append(density)\n")],
}
def run(name):
    subprocess.run(['git','-C',WT,'checkout','-q','.'],check=True)
    for key,old,new in MUTS[name]:
        s=open(F[key]).read()
        if old not in s: print(name,'PATCH DOES NOT APPLY',key); return
        open(F[key],'w').write(s.replace(old,new,1))
    env=dict(os.environ,T4GC_REPO=WT)
    r=subprocess.run(['./check','C10']+sys.argv[2:],cwd='/root/work/c10',env=env,capture_output=True,text=True)
    out=r.stdout+r.stderr
    viol=[l for l in out.splitlines() if l.startswith('VIOLATION')]
    what=[l.strip()[:230] for l in out.splitlines() if l.startswith('  (')]
    print(f'{name}: exit={r.returncode} violations={len(viol)}', out.strip().splitlines()[-1][-70:])
    for w in what[:2]: print('    ',w)
    subprocess.run(['git','-C',WT,'checkout','-q','.'],check=True)
names=[n for n in MUTS if re.match(sys.argv[1],n)]
for n in names: run(n)
