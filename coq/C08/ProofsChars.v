(* C08 — character-level lemmas for the reader: splitting is the inverse of joining,
   decimal numerals are read back, the comment is split off. *)
From Coq Require Import List NArith ZArith Bool String Ascii Lia.
From T4V Require Import Base.Str C08.Model C08.Parse.
Import ListNotations.
Open Scope string_scope.
Open Scope list_scope.

Definition free (c : ascii) (s : string) : Prop := contains_char c s = false.

Lemma contains_app c a b : contains_char c (a +++ b) = contains_char c a || contains_char c b.
Proof. induction a as [|d a IH]; simpl; [reflexivity|]. rewrite IH, orb_assoc. reflexivity. Qed.

Lemma free_app c a b : free c a -> free c b -> free c (a +++ b).
Proof. unfold free. intros Ha Hb. rewrite contains_app, Ha, Hb. reflexivity. Qed.

Lemma free_app_inv c a b : free c (a +++ b) -> free c a /\ free c b.
Proof. unfold free. rewrite contains_app. apply orb_false_iff. Qed.

Lemma split_on_nonnil c s : split_on c s <> [].
Proof.
  induction s as [|d r IH]; simpl; [discriminate|].
  destruct (split_on c r) as [|p ps]; [contradiction|]. destruct (Ascii.eqb d c); discriminate.
Qed.

Lemma split_on_free c w : free c w -> split_on c w = [w].
Proof.
  unfold free. induction w as [|d r IH]; simpl; intros H; [reflexivity|].
  apply orb_false_iff in H. destruct H as [H1 H2]. rewrite (IH H2).
  rewrite Ascii.eqb_sym, H1. reflexivity.
Qed.

Lemma split_on_app c w s : free c w -> split_on c (w +++ String c s) = w :: split_on c s.
Proof.
  unfold free. induction w as [|d r IH]; simpl; intros H.
  - destruct (split_on c s) as [|p ps] eqn:E; [exfalso; eapply split_on_nonnil; eassumption|].
    rewrite Ascii.eqb_refl. reflexivity.
  - apply orb_false_iff in H. destruct H as [H1 H2]. rewrite (IH H2).
    rewrite Ascii.eqb_sym, H1. reflexivity.
Qed.

Lemma join_cons2 sep x y r : join sep (x :: y :: r) = x +++ sep +++ join sep (y :: r).
Proof. reflexivity. Qed.

Lemma split_join c ws :
  ws <> [] -> Forall (free c) ws -> split_on c (join (String c "") ws) = ws.
Proof.
  induction ws as [|x r IH]; intros Hne Hf; [contradiction|].
  inversion Hf as [|? ? Hx Hr]; subst. destruct r as [|y r'].
  - simpl. apply split_on_free. assumption.
  - rewrite join_cons2. set (J := join (String c "") (y :: r')) in *.
    change (String c "" +++ J) with (String c J).
    rewrite split_on_app by assumption. rewrite IH; [reflexivity|discriminate|assumption].
Qed.

Lemma free_join c d ws :
  Ascii.eqb c d = false -> Forall (free c) ws -> free c (join (String d "") ws).
Proof.
  intros Hcd. induction ws as [|x r IH]; intros Hf; [reflexivity|].
  inversion Hf as [|? ? Hx Hr]; subst. destruct r as [|y r'].
  - simpl. assumption.
  - rewrite join_cons2. apply free_app; [assumption|]. apply free_app; [|apply IH; assumption].
    unfold free. simpl. rewrite Hcd. reflexivity.
Qed.

(* ---- lines ------------------------------------------------------------------------------ *)
Lemma removelast_snoc {A} (l : list A) x : removelast (l ++ [x]) = l.
Proof. apply removelast_last. Qed.

Lemma lines_of_unlines ls : Forall (free nlc) ls -> lines_of (unlines ls) = Some ls.
Proof.
  intros Hf. unfold lines_of, unlines, nl. fold nlc.
  rewrite split_join.
  - rewrite rev_app_distr. simpl. apply f_equal. apply removelast_last.
  - destruct ls; discriminate.
  - apply Forall_app. split; [assumption|]. constructor; [reflexivity|constructor].
Qed.

(* ---- comments ----------------------------------------------------------------------------- *)
Lemma split_comment_spec code c :
  free "/" code -> split_comment (code +++ comment_str c) = (code, c).
Proof.
  unfold free. induction code as [|d r IH]; intros Hf.
  - destruct c as [c|]; simpl; reflexivity.
  - simpl in Hf. apply orb_false_iff in Hf. destruct Hf as [H1 H2].
    simpl String.append. cbn [split_comment].
    assert (Hno : (if Ascii.eqb d " " then strip_prefix "// " (r +++ comment_str c) else None) = None).
    { destruct (Ascii.eqb d " "); [|reflexivity].
      destruct r as [|x r'].
      - destruct c as [c|]; simpl; reflexivity.
      - simpl in H2. apply orb_false_iff in H2. destruct H2 as [H2 _].
        simpl. rewrite H2. reflexivity. }
    rewrite Hno. rewrite (IH H2). reflexivity.
Qed.

(* ---- decimal numerals ------------------------------------------------------------------------ *)
Lemma digit_val_char d : (d < 10)%N -> digit_val (digit_char d) = d /\ is_digit (digit_char d) = true.
Proof.
  intros H. unfold digit_val, digit_char, is_digit.
  rewrite N_ascii_embedding by lia. split; [lia|].
  apply andb_true_iff. split; apply N.leb_le; lia.
Qed.

Lemma all_digits_app a b : all_digits (a +++ b) = all_digits a && all_digits b.
Proof. induction a as [|d a IH]; simpl; [reflexivity|]. rewrite IH, andb_assoc. reflexivity. Qed.

Lemma parse_digits_app a b acc : parse_digits (a +++ b) acc = parse_digits b (parse_digits a acc).
Proof. revert acc. induction a as [|d a IH]; intros acc; simpl; [reflexivity|]. apply IH. Qed.

Lemma dec_fuel_step f n acc :
  dec_fuel (S f) n acc =
  if (n <? 10)%N then String (digit_char (n mod 10)) acc
  else dec_fuel f (n / 10)%N (String (digit_char (n mod 10)) acc).
Proof. reflexivity. Qed.

Lemma dec_fuel_spec f : forall n acc, (n < 2 ^ N.of_nat (S f))%N ->
  exists ds, dec_fuel (S f) n acc = ds +++ acc /\ ds <> "" /\ all_digits ds = true /\
             exists k, forall a, parse_digits ds a = (a * 10 ^ k + n)%N.
Proof.
  induction f as [|f IH]; intros n acc Hn.
  - assert (Hlt : (n < 10)%N) by (simpl in Hn; lia).
    rewrite dec_fuel_step. apply N.ltb_lt in Hlt. rewrite Hlt. apply N.ltb_lt in Hlt.
    exists (String (digit_char (n mod 10)) ""). split; [reflexivity|]. split; [discriminate|].
    rewrite N.mod_small by assumption. destruct (digit_val_char n Hlt) as [D1 D2].
    split; [simpl; rewrite D2; reflexivity|]. exists 1%N. intros a. simpl. rewrite D1. lia.
  - rewrite dec_fuel_step. destruct (n <? 10)%N eqn:Elt.
    + apply N.ltb_lt in Elt.
      exists (String (digit_char (n mod 10)) ""). split; [reflexivity|]. split; [discriminate|].
      rewrite N.mod_small by assumption. destruct (digit_val_char n Elt) as [D1 D2].
      split; [simpl; rewrite D2; reflexivity|]. exists 1%N. intros a. simpl. rewrite D1. lia.
    + apply N.ltb_ge in Elt.
      assert (Hdiv : (n / 10 < 2 ^ N.of_nat (S f))%N).
      { apply N.div_lt_upper_bound; [lia|].
        replace (N.of_nat (S (S f))) with (N.succ (N.of_nat (S f))) in Hn by lia.
        rewrite N.pow_succ_r' in Hn. lia. }
      destruct (IH (n / 10)%N (String (digit_char (n mod 10)) acc) Hdiv) as [ds [E1 [E2 [E3 [k E4]]]]].
      assert (Hm : (n mod 10 < 10)%N) by (apply N.mod_lt; lia).
      destruct (digit_val_char _ Hm) as [D1 D2].
      exists (ds +++ String (digit_char (n mod 10)) ""). split.
      { rewrite E1. clear. induction ds as [|c ds IHd]; simpl; [reflexivity|]. rewrite IHd. reflexivity. }
      split; [destruct ds; [contradiction|discriminate]|].
      split; [rewrite all_digits_app, E3; simpl; rewrite D2; reflexivity|].
      exists (k + 1)%N. intros a. rewrite parse_digits_app, E4. simpl. rewrite D1.
      rewrite N.pow_add_r. pose proof (N.div_mod n 10). lia.
Qed.

Lemma dec_spec n :
  dec n <> "" /\ all_digits (dec n) = true /\ parse_digits (dec n) 0 = n.
Proof.
  unfold dec.
  destruct (dec_fuel_spec (N.to_nat (N.log2 n)) n "") as [ds [E1 [E2 [E3 [k E4]]]]].
  - rewrite Nat2N.inj_succ, N2Nat.id. destruct n as [|p]; [reflexivity|].
    apply N.log2_spec. lia.
  - rewrite E1. assert (Hds : ds +++ "" = ds) by (clear; induction ds as [|c ds IH]; simpl; [reflexivity|]; rewrite IH; reflexivity).
    rewrite Hds. split; [assumption|]. split; [assumption|]. rewrite E4. lia.
Qed.

Lemma parse_N_dec n : parse_N (dec n) = Some n.
Proof.
  destruct (dec_spec n) as [A [B C]]. unfold parse_N, int_of_string.
  destruct (dec n) as [|c r] eqn:E; [contradiction|]. rewrite B, C. reflexivity.
Qed.

Lemma dec_head_digit n : exists c r, dec n = String c r /\ is_digit c = true.
Proof.
  destruct (dec_spec n) as [A [B _]]. destruct (dec n) as [|c r]; [contradiction|].
  exists c, r. split; [reflexivity|]. simpl in B. apply andb_true_iff in B. apply B.
Qed.

Lemma parse_Z_dec z : parse_Z (dec_Z z) = Some z.
Proof.
  destruct z as [|p|p].
  - reflexivity.
  - change (dec_Z (Z.pos p)) with (dec (N.pos p)).
    destruct (dec_head_digit (Npos p)) as [c [r [E D]]]. unfold parse_Z. rewrite E.
    destruct (Ascii.eqb c "-") eqn:Em.
    + apply Ascii.eqb_eq in Em. subst. discriminate.
    + rewrite <- E, parse_N_dec. reflexivity.
  - change (dec_Z (Z.neg p)) with (String "-" (dec (N.pos p))).
    unfold parse_Z. rewrite Ascii.eqb_refl, parse_N_dec. reflexivity.
Qed.

Lemma dec_Z_not_None z : String.eqb (dec_Z z) "None" = false.
Proof.
  destruct z as [|p|p]; try reflexivity.
  change (dec_Z (Z.pos p)) with (dec (N.pos p)).
  destruct (dec_head_digit (Npos p)) as [c [r [E D]]]. rewrite E. simpl.
  destruct (Ascii.eqb c "N") eqn:En; [|reflexivity].
  apply Ascii.eqb_eq in En. subst. discriminate.
Qed.

Lemma parse_arg_opt_str x : parse_arg (opt_str x) = Some x.
Proof.
  destruct x as [z|]; simpl; [|reflexivity].
  unfold parse_arg. rewrite dec_Z_not_None, parse_Z_dec. reflexivity.
Qed.

(* numerals contain only digits and '-' *)
Lemma all_digits_free c s : is_digit c = false -> all_digits s = true -> free c s.
Proof.
  intros Hc. unfold free. induction s as [|d r IH]; simpl; intros H; [reflexivity|].
  apply andb_true_iff in H. destruct H as [H1 H2]. rewrite (IH H2).
  destruct (Ascii.eqb c d) eqn:E; [|reflexivity]. apply Ascii.eqb_eq in E. subst. congruence.
Qed.

Lemma dec_free c n : is_digit c = false -> free c (dec n).
Proof. intros H. apply all_digits_free; [assumption|]. apply dec_spec. Qed.

Lemma dec_Z_free c z : is_digit c = false -> Ascii.eqb c "-" = false -> free c (dec_Z z).
Proof.
  intros Hd Hm. destruct z as [|p|p].
  - apply all_digits_free; [assumption|reflexivity].
  - apply (dec_free c (N.pos p)). assumption.
  - change (dec_Z (Z.neg p)) with (String "-" (dec (N.pos p))).
    unfold free. simpl. rewrite Hm. apply (dec_free c (N.pos p)). assumption.
Qed.

Lemma take_with_app {A} (f : string -> option A) (g : A -> string) l rest :
  (forall a, f (g a) = Some a) ->
  take_with f (List.length l) (map g l ++ rest) = Some (l, rest).
Proof.
  intros H. induction l as [|a r IH]; simpl; [reflexivity|]. rewrite H, IH. reflexivity.
Qed.
