(* C08 link to C09 (read-only): "normalize_float is idempotent on the stored densities"
   (norm_fixed) is derived from C09_normalize_float_idempotent when the stored density is an
   output of C09's normalize_float (what parse_material / the rho keyword store) and the
   writer's normalisation is that same function. *)
From Coq Require Import List NArith ZArith Bool String Ascii.
From T4V Require C09.Model C09.ProofsIdem.
From T4V Require Import Base.Str C08.Model C08.Spec.
Import ListNotations.

Module M9 := T4V.C09.Model.

(* how the density fields of a cell record arise *)
Definition density_from_c09 (c : cell) : Prop :=
  forall d, c_density c = Some d ->
    (exists s, M9.normalize_float s = M9.Ok d) /\        (* stored by parse_material / rho= *)
    M9.normalize_float d = M9.Ok (c_density_norm c).     (* normalize_float(density) in the writers *)

Theorem norm_fixed_linked (c : cell) : density_from_c09 c -> norm_fixed c.
Proof.
  intros H d Hd. destruct (H d Hd) as [[s Hs] Hn].
  pose proof (T4V.C09.ProofsIdem.normalize_float_idempotent s d Hs) as Hi.
  rewrite Hi in Hn. inversion Hn. reflexivity.
Qed.
