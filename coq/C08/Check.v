(* C08 — boolean versions of wf_file (equivalent) and of wf_state (sound), so
   that the spec can be evaluated on concrete files/tables: in the refutation
   witnesses, in the non-vacuity examples and in the correspondence runs (model
   verdict vs the independent validator of the written bytes). *)
From Coq Require Import List NArith ZArith Bool String Ascii Lia.
From T4V Require Import Base.Str C08.Model C08.Spec C08.ProofsSets C08.ProofsWrite C08.ProofsPrune C08.ProofsTail.
Import ListNotations.

Fixpoint nodupb (l : list Z) : bool :=
  match l with [] => true | x :: r => negb (zmem x r) && nodupb r end.

Lemma nodupb_NoDup l : nodupb l = true <-> NoDup l.
Proof.
  induction l as [|x r IH]; simpl; [split; [constructor|reflexivity]|].
  rewrite andb_true_iff, negb_true_iff, zmem_false, IH. split.
  - intros [A B]. constructor; assumption.
  - intros H. inversion H; subst. split; assumption.
Qed.

Definition declared_okb (x : option (N * list Z)) : bool :=
  match x with None => true | Some (n, l) => (n =? N.of_nat (List.length l))%N end.

Lemma declared_okb_ok x : declared_okb x = true <-> declared_ok x.
Proof. destruct x as [[n l]|]; simpl; [apply N.eqb_eq|tauto]. Qed.

Lemma forallb_In {A} (f : A -> bool) l : forallb f l = true <-> forall x, In x l -> f x = true.
Proof. apply forallb_forall. Qed.

Definition wf_volub (f : file) (v : volu_line) : bool :=
  declared_okb (vl_plus v) && declared_okb (vl_minus v)
  && match vl_op v with None => true | Some (_, n, args) => (n =? N.of_nat (List.length args))%N end
  && forallb (fun s => zmem s (surf_ids f)) (items (vl_plus v) ++ items (vl_minus v))
  && forallb (fun s => negb (zmem s (items (vl_minus v)))) (items (vl_plus v))
  && forallb (fun x => match x with Some k => zmem k (vol_ids f) | None => false end) (op_args v).

Lemma wf_volub_ok f v : wf_volub f v = true <-> wf_volu f v.
Proof.
  unfold wf_volub. rewrite !andb_true_iff, !declared_okb_ok, !forallb_In. split.
  - intros [[[[[A B] C] D] F] G]. constructor; try assumption.
    + destruct (vl_op v) as [[[op n] args]|]; [apply N.eqb_eq; assumption|exact I].
    + intros s Hs. apply zmem_In. apply D. assumption.
    + intros s Hs. apply zmem_false. apply negb_true_iff. apply F. assumption.
    + intros x Hx. specialize (G x Hx). destruct x as [k|]; [|discriminate].
      exists k. split; [reflexivity|apply zmem_In; assumption].
  - intros [A B C D F G]. repeat split; try assumption.
    + destruct (vl_op v) as [[[op n] args]|]; [apply N.eqb_eq; assumption|reflexivity].
    + intros s Hs. apply zmem_In. apply D. assumption.
    + intros s Hs. apply negb_true_iff. apply zmem_false. apply F. assumption.
    + intros x Hx. destruct (G x Hx) as [k [-> Hk]]. apply zmem_In. assumption.
Qed.

Definition wf_compsb (c : N * list comp_block) : bool :=
  (fst c =? N.of_nat (List.length (snd c)))%N
  && forallb (fun b => (cb_count b =? N.of_nat (List.length (cb_items b)))%N) (snd c).

Lemma wf_compsb_ok c : wf_compsb c = true <-> wf_comps c.
Proof.
  unfold wf_compsb, wf_comps. rewrite andb_true_iff, N.eqb_eq, forallb_In, Forall_forall.
  split; intros [A B]; (split; [assumption|]); intros b Hb; apply N.eqb_eq; apply B; assumption.
Qed.

Definition wf_geomcompb (f : file) (g : list gc_line) : bool :=
  forallb (fun l => (gc_count l =? N.of_nat (List.length (gc_vols l)))%N) g
  && forallb (fun k => zmem k (vol_ids f)) (gc_listed g)
  && forallb (fun v => vl_fictive v || Nat.eqb (count_occ Z.eq_dec (gc_listed g) (vl_id v)) 1) (f_vols f)
  && match f_comps f with
     | None => true
     | Some c => forallb (fun l => smem (gc_name l) (map cb_name (snd c))) g
     end.

Lemma wf_geomcompb_ok f g : wf_geomcompb f g = true <-> wf_geomcomp f g.
Proof.
  unfold wf_geomcompb. rewrite !andb_true_iff, !forallb_In. split.
  - intros [[[A B] C] D]. constructor.
    + apply Forall_forall. intros l Hl. apply N.eqb_eq. apply A. assumption.
    + intros k Hk. apply zmem_In. apply B. assumption.
    + intros v Hv Hf. specialize (C v Hv). rewrite Hf in C. simpl in C. apply Nat.eqb_eq. assumption.
    + destruct (f_comps f) as [c|]; [|exact I]. rewrite forallb_In in D.
      intros l Hl. apply smem_In. apply D. assumption.
  - intros [A B C D]. repeat split.
    + intros l Hl. apply N.eqb_eq. rewrite Forall_forall in A. apply A. assumption.
    + intros k Hk. apply zmem_In. apply B. assumption.
    + intros v Hv. destruct (vl_fictive v) eqn:Ef; [reflexivity|]. simpl. apply Nat.eqb_eq. apply C; assumption.
    + destruct (f_comps f) as [c|]; [|reflexivity]. apply forallb_In.
      intros l Hl. apply smem_In. apply D. assumption.
Qed.

Definition wf_bcb (f : file) (b : N * list (string * Z)) : bool :=
  (fst b =? N.of_nat (List.length (snd b)))%N && forallb (fun p => zmem (snd p) (surf_ids f)) (snd b).

Lemma wf_bcb_ok f b : wf_bcb f b = true <-> wf_bc f b.
Proof.
  unfold wf_bcb, wf_bc. rewrite andb_true_iff, N.eqb_eq, forallb_In. split; intros [A B]; (split; [assumption|]).
  - intros p Hp. apply zmem_In. apply B. assumption.
  - intros p Hp. apply zmem_In. apply B. assumption.
Qed.

Definition wf_fileb (f : file) : bool :=
  nodupb (surf_ids f) && nodupb (vol_ids f) && forallb (wf_volub f) (f_vols f)
  && match f_comps f with None => true | Some c => wf_compsb c end
  && match f_geomcomp f with None => true | Some g => wf_geomcompb f g end
  && match f_bc f with None => true | Some b => wf_bcb f b end.

Theorem wf_fileb_ok f : wf_fileb f = true <-> wf_file f.
Proof.
  unfold wf_fileb. rewrite !andb_true_iff, !nodupb_NoDup, forallb_In. split.
  - intros [[[[[A B] C] D] F] G]. constructor; try assumption.
    + apply Forall_forall. intros v Hv. apply wf_volub_ok. apply C. assumption.
    + destruct (f_comps f); [apply wf_compsb_ok; assumption|exact I].
    + destruct (f_geomcomp f); [apply wf_geomcompb_ok; assumption|exact I].
    + destruct (f_bc f); [apply wf_bcb_ok; assumption|exact I].
  - intros [A B C D F G]. repeat split; try assumption.
    + intros v Hv. apply wf_volub_ok. rewrite Forall_forall in C. apply C. assumption.
    + destruct (f_comps f); [apply wf_compsb_ok; assumption|reflexivity].
    + destruct (f_geomcomp f); [apply wf_geomcompb_ok; assumption|reflexivity].
    + destruct (f_bc f); [apply wf_bcb_ok; assumption|reflexivity].
Qed.

Corollary wf_fileb_false f : wf_fileb f = false -> ~ wf_file f.
Proof. intros H W. apply wf_fileb_ok in W. congruence. Qed.

(* ---- tables ------------------------------------------------------------------------ *)
Section StateB.
Context {E : Type}.

Definition refs_okb (surfs : stable E) (vols : vtable) : bool :=
  nodupb (keys vols)
  && forallb (fun p => forallb (fun s => zmem s (keys surfs)) (surface_ids (snd p))
                       && forallb (fun x => match x with Some j => zmem j (keys vols) | None => false end)
                                  (operands (snd p))) vols.

Lemma refs_okb_sound surfs vols : refs_okb surfs vols = true -> refs_ok surfs vols.
Proof.
  unfold refs_okb. rewrite andb_true_iff, nodupb_NoDup, forallb_In. intros [A B]. constructor.
  - assumption.
  - intros k v s Hin Hs. specialize (B (k, v) Hin). apply andb_true_iff in B. destruct B as [B _].
    rewrite forallb_In in B. apply zmem_In. apply B. assumption.
  - intros k v x Hin Hx. specialize (B (k, v) Hin). apply andb_true_iff in B. destruct B as [_ B].
    rewrite forallb_In in B. specialize (B x Hx). destruct x as [j|]; [|discriminate].
    exists j. split; [reflexivity|apply zmem_In; assumption].
Qed.

Definition sides_okb (vols : vtable) : bool := forallb (fun p => negb (vempty (snd p))) vols.

Lemma sides_okb_sound vols : sides_okb vols = true -> sides_ok vols.
Proof.
  unfold sides_okb. rewrite forallb_In. intros H k v s Hin. specialize (H (k, v) Hin).
  apply negb_true_iff in H. apply (proj1 (vempty_false v)). assumption.
Qed.

Definition matint_is (c : cell) (key : Z) : bool :=
  match c_matint c with Some i => (i =? key)%Z | None => false end.

Lemma matint_is_ok c key : matint_is c key = true -> c_matint c = Some key.
Proof.
  unfold matint_is. destruct (c_matint c) as [i|]; [|discriminate].
  intros H. apply Z.eqb_eq in H. subst. reflexivity.
Qed.

Definition cell_namedb (w : wstate E) (c : cell) : bool :=
  match c_density c with
  | None => matint_is c 0
  | Some d =>
      existsb (fun km =>
        matint_is c (fst km)
        && existsb (fun ic => c_live (snd ic) && matint_is (snd ic) (fst km)
                              && match c_density (snd ic) with Some d' => String.eqb d' d | None => false end)
                   (w_cells w)) (w_mats w)
  end.

Lemma cell_namedb_sound w c : cell_namedb w c = true -> cell_named w c.
Proof.
  unfold cell_namedb, cell_named. destruct (c_density c) as [d|]; [|apply matint_is_ok].
  rewrite existsb_exists. intros [[key m] [Hm H]]. simpl in H. apply andb_true_iff in H. destruct H as [H1 H2].
  apply matint_is_ok in H1. apply existsb_exists in H2. destruct H2 as [[cid c'] [Hc H2]]. simpl in H2.
  apply andb_true_iff in H2. destruct H2 as [H2 H3]. apply andb_true_iff in H2. destruct H2 as [H2 H4].
  apply matint_is_ok in H4.
  exists key, m, c', cid. repeat split; try assumption.
  destruct (c_density c') as [d'|]; [|discriminate]. apply String.eqb_eq in H3. subst. reflexivity.
Qed.

Definition wf_stateb (w : wstate E) : bool :=
  refs_okb (w_surfs w) (w_vols w) && sides_okb (w_vols w)
  && existsb (fun p => match surface_ids (snd p) with [] => false | _ => true end) (w_vols w)
  && forallb (fun p => negb (zmem (fst p) (w_skipped w)) || v_fictive (snd p)) (w_vols w)
  && forallb (fun p => forallb (fun x => match x with Some j => negb (zmem j (w_skipped w)) | None => true end)
                               (operands (snd p))) (w_vols w)
  && forallb (fun p => v_fictive (snd p)
                       || match lookup (vol_cell_id (fst p) (snd p)) (w_cells w) with
                          | Some c => cell_namedb w c
                          | None => false
                          end) (w_vols w)
  && forallb (fun ic => match c_density (snd ic) with
                        | Some d => String.eqb (c_density_norm (snd ic)) d
                        | None => true
                        end) (w_cells w).

Theorem wf_stateb_sound w : wf_stateb w = true -> wf_state w.
Proof.
  unfold wf_stateb. rewrite !andb_true_iff, !forallb_In.
  intros [[[[[[A B] C] D] F] G] H]. constructor.
  - apply refs_okb_sound. assumption.
  - apply sides_okb_sound. assumption.
  - apply existsb_exists in C. destruct C as [[k v] [Hin C]]. simpl in C.
    destruct (surface_ids v) as [|s r] eqn:Es; [discriminate|].
    exists k, v, s. split; [assumption|]. rewrite Es. left. reflexivity.
  - intros k v Hin Hsk. specialize (D (k, v) Hin). simpl in D. apply orb_true_iff in D.
    destruct D as [D|D]; [|assumption]. apply negb_true_iff in D. apply zmem_false in D. contradiction.
  - intros k v j Hin Hj. specialize (F (k, v) Hin). simpl in F. rewrite forallb_In in F.
    specialize (F (Some j) Hj). simpl in F. apply negb_true_iff in F. apply zmem_false. assumption.
  - intros k v Hin Hf. specialize (G (k, v) Hin). simpl in G. rewrite Hf in G. simpl in G.
    destruct (lookup (vol_cell_id k v) (w_cells w)) as [c|]; [|discriminate].
    exists c. split; [reflexivity|]. apply cell_namedb_sound. assumption.
  - intros cid c Hin d Hd. specialize (H (cid, c) Hin). simpl in H. rewrite Hd in H.
    apply String.eqb_eq. assumption.
Qed.

End StateB.

(* ---- the hypotheses of the end-to-end theorem, on the tables construct_volume_t4 returns ---- *)
Section Stage0B.
Context {E : Type}.
Variable eeqb : E -> E -> bool.

Definition helpers_okb (surfs : stable E) (u0 u1 : Z) : bool :=
  nodupb (keys surfs) && negb (u0 =? u1)%Z
  && match lookup u0 surfs, lookup u1 surfs with
     | Some s0, Some s1 => negb (eeqb (s_eq s0) (s_eq s1))
     | _, _ => false
     end.

Lemma helpers_okb_sound surfs u0 u1 : helpers_okb surfs u0 u1 = true -> helpers_ok eeqb surfs u0 u1.
Proof.
  unfold helpers_okb. rewrite !andb_true_iff, nodupb_NoDup. intros [[A B] C].
  destruct (lookup u0 surfs) as [s0|] eqn:L0; [|discriminate].
  destruct (lookup u1 surfs) as [s1|] eqn:L1; [|discriminate].
  constructor; [assumption| |].
  - exists s0, s1. split; [apply lookup_Some_In; assumption|]. split; [apply lookup_Some_In; assumption|].
    apply negb_true_iff. assumption.
  - apply negb_true_iff in B. apply Z.eqb_neq. assumption.
Qed.

Definition stage0_okb (u0 u1 : Z) (w : wstate E) : bool :=
  refs_okb (w_surfs w) (w_vols w) && helpers_okb (w_surfs w) u0 u1
  && match w_vols w with [] => false | _ => true end
  && forallb (fun k => negb (zmem k (keys (w_vols w)))) (w_skipped w)
  && forallb (fun p => v_fictive (snd p)
                       || match lookup (vol_cell_id (fst p) (snd p)) (w_cells w) with
                          | Some c => cell_namedb w c
                          | None => false
                          end) (w_vols w)
  && forallb (fun ic => match c_density (snd ic) with
                        | Some d => String.eqb (c_density_norm (snd ic)) d
                        | None => true
                        end) (w_cells w).

Theorem stage0_okb_sound u0 u1 w : stage0_okb u0 u1 w = true -> stage0_ok eeqb u0 u1 w.
Proof.
  unfold stage0_okb. rewrite !andb_true_iff, !forallb_In. intros [[[[[A B] C] D] F] G]. constructor.
  - apply refs_okb_sound. assumption.
  - apply helpers_okb_sound. assumption.
  - destruct (w_vols w); [discriminate|]. intros H. discriminate.
  - intros k Hk. apply zmem_false. apply negb_true_iff. apply D. assumption.
  - intros k v Hin Hf. specialize (F (k, v) Hin). simpl in F. rewrite Hf in F. simpl in F.
    destruct (lookup (vol_cell_id k v) (w_cells w)) as [c|]; [|discriminate].
    exists c. split; [reflexivity|]. apply cell_namedb_sound. assumption.
  - intros cid c Hin d Hd. specialize (G (cid, c) Hin). simpl in G. rewrite Hd in G.
    apply String.eqb_eq. assumption.
Qed.

End Stage0B.
