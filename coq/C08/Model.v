(* C08 — model of the writer layer (what the code DOES, quirks included; follows /repo
   including the repairs a12128b, d8902ad, 540bd39):
     Volume/VolumeT4.py                       [volume, vempty, surface_ids, volu_line_of]
     Surface/SurfaceT4.py                     [surface, surf_line_of]  (__str__, transform_block, comment;
                                               __eq__/__hash__ abstracted as [eeqb] on an opaque payload)
     Surface/Duplicates.py                    [remove_duplicate_surfaces, renumber_surfaces]
     Volume/ConstructVolumeT4.py              [remove_empty_volumes, remove_unused_volumes, extract_used_surfaces]
     FileHandlers/Writer/WriteT4Geometry.py   [prune (tail of convertMCNPGeometry), write_geometry]
     Composition/ConstructCompositionT4.py    [construct_compositions]   (names, grouping, counts; the numbers are C10's)
     FileHandlers/Writer/WriteT4Composition.py[write_compositions]
     GeomComp/ConstructGeomCompT4.py + Writer [construct_geomcomp]
     BoundaryCondition + WriteT4BoundCond.py  [write_bc]
     main.conversion (order of the blocks)    [write_file, print_outcome]
   Python sets are lists here; every observation of a set goes through [mkset]
   (sorted, duplicate free).  Dicts are association lists in insertion order.
   Numeric fields are strings rendered by the implementation (the printer is
   GIVEN finite-number spellings; finiteness is checked on the written file by
   the harness validator, not here).  Executable; proofs are in C08/Proofs*.v *)
From Coq Require Import List NArith ZArith Bool String Ascii.
From T4V Require Import Base.Str.
Import ListNotations.
Open Scope string_scope.
Open Scope list_scope.
Infix "+++" := String.append (right associativity, at level 60).

(* ---- exceptions the layer can raise -------------------------------------- *)
Inductive err := EKey | EValue | EFuel.
Inductive res (A : Type) := Ok (a : A) | Err (e : err).
Arguments Ok {A}. Arguments Err {A}.

(* ---- Python sets of ints as lists ---------------------------------------- *)
Fixpoint zinsert (x : Z) (l : list Z) : list Z :=
  match l with
  | [] => [x]
  | y :: r => if (x <? y)%Z then x :: l else if (x =? y)%Z then l else y :: zinsert x r
  end.

(* sorted(set(l)) *)
Definition mkset (l : list Z) : list Z := fold_right zinsert [] l.

Definition zmem (x : Z) (l : list Z) : bool := existsb (Z.eqb x) l.

(* ---- volumes -------------------------------------------------------------- *)
Inductive opkind := OUnion | OInte.

Record volume := mkVol {
  v_plus : list Z;                              (* set *)
  v_minus : list Z;                             (* set *)
  v_ops : option (opkind * list (option Z));    (* operands may be None (convert_cellref of an empty cell) *)
  v_origin : list (Z * Z);                      (* idorigin: (filler cell, container) pairs *)
  v_fictive : bool }.

(* VolumeT4.empty: bool(pluses & minuses) *)
Definition vempty (v : volume) : bool := existsb (fun s => zmem s (v_minus v)) (v_plus v).

(* VolumeT4.surface_ids *)
Definition surface_ids (v : volume) : list Z := v_plus v ++ v_minus v.

Definition is_union (v : volume) : bool :=
  match v_ops v with Some (OUnion, _) => true | _ => false end.

Definition operands (v : volume) : list (option Z) :=
  match v_ops v with Some (_, l) => l | None => [] end.

Definition vtable := list (Z * volume).   (* DictVolumeT4: insertion order *)

Fixpoint lookup {A} (k : Z) (l : list (Z * A)) : option A :=
  match l with
  | [] => None
  | (k', a) :: r => if (k =? k')%Z then Some a else lookup k r
  end.

Definition keys {A} (l : list (Z * A)) : list Z := map fst l.

(* ---- strings ------------------------------------------------------------------------ *)
Definition nl : string := String (ascii_of_N 10) "".

(* sep.join(l) *)
Fixpoint join (sep : string) (l : list string) : string :=
  match l with
  | [] => ""
  | [x] => x
  | x :: r => x +++ sep +++ join sep r
  end.

(* str((a, b)) *)
Definition origin_str (p : Z * Z) : string := "(" +++ dec_Z (fst p) +++ ", " +++ dec_Z (snd p) +++ ")".

(* comment(): ' // ' + '; '.join(map(str, idorigin)) when idorigin is not empty *)
Definition comment_of (l : list string) : option string :=
  match l with [] => None | _ => Some (join "; " l) end.

(* ---- surfaces -------------------------------------------------------------- *)
Section WithSurfaceEq.
Context {E : Type}.
Variable eeqb : E -> E -> bool.     (* SurfaceT4.__eq__ (type, parameters, transform) *)

Record surface := mkSurf {
  s_type : string;                      (* type_surface.name *)
  s_params : list string;               (* str(p) for p in param_surface *)
  s_transform : option (list string);   (* the 12 entries of transform_block() *)
  s_origin : list string;               (* str(x) for x in idorigin *)
  s_eq : E }.

Definition stable := list (Z * surface).

(* sorted(surfs.items()): keys are distinct, insertion sort by key *)
Fixpoint kinsert {A} (p : Z * A) (l : list (Z * A)) : list (Z * A) :=
  match l with
  | [] => [p]
  | q :: r => if (fst p <=? fst q)%Z then p :: l else q :: kinsert p r
  end.
Definition ksort {A} (l : list (Z * A)) : list (Z * A) := fold_right kinsert [] l.

(* remove_duplicate_surfaces: (new_surfs, renumbering) *)
Fixpoint dedup_go (l news : stable) (ren : list (Z * Z)) : stable * list (Z * Z) :=
  match l with
  | [] => (news, ren)
  | (k, s) :: r =>
      match List.find (fun p => eeqb (s_eq s) (s_eq (snd p))) news with
      | Some (k0, _) => dedup_go r news (ren ++ [(k, k0)])
      | None => dedup_go r (news ++ [(k, s)]) (ren ++ [(k, k)])
      end
  end.

Definition remove_duplicate_surfaces (surfs : stable) : res (stable * list (Z * Z)) :=
  match surfs with
  | [] => Err EValue                       (* max(surfs) of an empty dict *)
  | _ => Ok (dedup_go (ksort surfs) [] [])
  end.

(* set(renumbering[s] for s in l): KeyError when s is not a key *)
Fixpoint renumber_set (ren : list (Z * Z)) (l : list Z) : res (list Z) :=
  match l with
  | [] => Ok []
  | s :: r =>
      match lookup s ren with
      | None => Err EKey
      | Some t => match renumber_set ren r with Ok r' => Ok (t :: r') | Err e => Err e end
      end
  end.

Fixpoint renumber_go (ren : list (Z * Z)) (vols : vtable) : res vtable :=
  match vols with
  | [] => Ok []
  | (k, v) :: r =>
      match renumber_set ren (v_plus v), renumber_set ren (v_minus v) with
      | Ok p, Ok m =>
          match renumber_go ren r with
          | Ok r' => Ok ((k, mkVol (mkset p) (mkset m) (v_ops v) (v_origin v) (v_fictive v)) :: r')
          | Err e => Err e
          end
      | Err e, _ => Err e
      | _, Err e => Err e
      end
  end.

Definition renumber_surfaces (vols : vtable) (ren : list (Z * Z)) : res vtable :=
  match vols with
  | [] => Err EValue                       (* max(volus) of an empty dict *)
  | _ => renumber_go ren vols
  end.

(* ---- remove_empty_volumes --------------------------------------------------- *)
(* one pass over to_remove: volumes that are not UNIONs are deleted, UNIONs get the
   helper planes as their equation. Returns the table and the keys removed now. *)
Fixpoint process_remove (to_remove : list Z) (u0 u1 : Z) (vols : vtable) : vtable * list Z :=
  match vols with
  | [] => ([], [])
  | (k, v) :: r =>
      let '(r', rem) := process_remove to_remove u0 u1 r in
      if zmem k to_remove then
        if is_union v then ((k, mkVol [u0] [u1] (v_ops v) (v_origin v) (v_fictive v)) :: r', rem)
        else (r', k :: rem)
      else ((k, v) :: r', rem)
  end.

Definition opt_in (removed : list Z) (x : option Z) : bool :=
  match x with Some k => zmem k removed | None => false end.

(* the scan at the end of each round: INTE with a removed operand -> to_remove;
   UNION operand lists lose the removed operands (ops = None when nothing is left) *)
Fixpoint scan (removed : list Z) (vols : vtable) : vtable * list Z :=
  match vols with
  | [] => ([], [])
  | (k, v) :: r =>
      let '(r', tr) := scan removed r in
      match v_ops v with
      | None => ((k, v) :: r', tr)
      | Some (OInte, args) =>
          if existsb (opt_in removed) args then ((k, v) :: r', k :: tr) else ((k, v) :: r', tr)
      | Some (OUnion, args) =>
          let args' := filter (fun x => negb (opt_in removed x)) args in
          let ops' := match args' with [] => None | _ => Some (OUnion, args') end in
          ((k, mkVol (v_plus v) (v_minus v) ops' (v_origin v) (v_fictive v)) :: r', tr)
      end
  end.

Fixpoint re_loop (fuel : nat) (u0 u1 : Z) (vols : vtable) (removed to_remove : list Z) : option vtable :=
  match to_remove with
  | [] => Some vols
  | _ =>
      match fuel with
      | O => None
      | S f =>
          let '(vols1, rem) := process_remove to_remove u0 u1 vols in
          let removed' := rem ++ removed in
          let '(vols2, tr) := scan removed' vols1 in
          re_loop f u0 u1 vols2 removed' tr
      end
  end.

Definition initial_to_remove (vols : vtable) : list Z :=
  keys (filter (fun p => vempty (snd p)) vols).

Definition remove_empty_volumes (vols : vtable) (u0 u1 : Z) : option vtable :=
  re_loop (S (S (List.length vols))) u0 u1 vols [] (initial_to_remove vols).

(* ---- remove_unused_volumes -------------------------------------------------- *)
Definition used_ids (vols : vtable) : list (option Z) := flat_map (fun p => operands (snd p)) vols.

Definition remove_unused_volumes (vols : vtable) : vtable :=
  let used := used_ids vols in
  filter (fun p => negb (v_fictive (snd p) && negb (existsb (fun x => match x with Some k => (k =? fst p)%Z | None => false end) used)))
         vols.

(* ---- construct_volume_t4: the two helper planes for unions ------------------------ *)
(* free_surf_id = max(int(k) for k in t4_surf_numbering) + 1
   union_ids = free_surf_id + 1, free_surf_id + 2
   t4_surf_numbering[union_ids[0]] = PLANEX 1; t4_surf_numbering[union_ids[1]] = PLANEX -1 *)
Definition insert_helpers (surfs : stable) (h0 h1 : surface) : res (stable * Z * Z) :=
  match keys surfs with
  | [] => Err EValue                        (* max() of an empty dict *)
  | k :: r =>
      let free := (fold_right Z.max k r + 1)%Z in
      Ok (surfs ++ [((free + 1)%Z, h0); ((free + 2)%Z, h1)], (free + 1)%Z, (free + 2)%Z)
  end.

(* ---- tail of convertMCNPGeometry -------------------------------------------- *)
(* the helper planes are renumbered together with the other surfaces (fix a12128b):
   union_ids = tuple(renumber[surf] for surf in union_ids) *)
Definition prune (skip_dedup : bool) (surfs : stable) (vols : vtable) (u0 u1 : Z)
  : res (stable * vtable * option (list (Z * Z))) :=
  let step1 :=
    if skip_dedup then Ok (surfs, vols, None, u0, u1)
    else match remove_duplicate_surfaces surfs with
         | Err e => Err e
         | Ok (news, ren) =>
             match renumber_surfaces vols ren with
             | Err e => Err e
             | Ok vols' =>
                 match lookup u0 ren, lookup u1 ren with
                 | Some a, Some b => Ok (news, vols', Some ren, a, b)
                 | _, _ => Err EKey
                 end
             end
         end in
  match step1 with
  | Err e => Err e
  | Ok (surfs1, vols1, ren, a, b) =>
      match remove_empty_volumes vols1 a b with
      | None => Err EFuel
      | Some vols2 => Ok (surfs1, remove_unused_volumes vols2, ren)
      end
  end.

(* ---- the abstract file ------------------------------------------------------- *)
Record surf_line := mkSL {
  sl_id : Z; sl_transform : option (list string); sl_type : string; sl_params : list string;
  sl_comment : option string }.            (* the text after " // ", if any *)

Record volu_line := mkVL {
  vl_id : Z;
  vl_plus : option (N * list Z);          (* declared count, items; None when the keyword is absent *)
  vl_minus : option (N * list Z);
  vl_op : option (opkind * N * list (option Z));
  vl_fictive : bool;
  vl_comment : option string }.

Record comp_block := mkCB {
  cb_type : string; cb_name : string; cb_density : option (string * bool);   (* |density| spelling, NB_ATOM *)
  cb_count : N; cb_items : list (string * string) }.

Record gc_line := mkGC { gc_name : string; gc_count : N; gc_vols : list Z }.

Record file := mkFile {
  f_surfs : list surf_line;
  f_vols : list volu_line;
  f_comps : option (N * list comp_block);
  f_geomcomp : option (list gc_line);
  f_bc : option (N * list (string * Z)) }.

(* a run either writes the whole file or dies in the middle of the surface
   block (KeyError of dic_surface_t4[key]) / before it (max() of an empty set),
   leaving what was written so far on disk *)
Inductive outcome :=
| Complete (f : file)
| Died (header_written : bool) (surfs_written : list surf_line) (e : err)
| Raised (f : file) (e : err).   (* f was written, then writeT4BoundCond raised before writing its block *)

(* VolumeT4.__str__ as an abstract line *)
Definition counted (l : list Z) : option (N * list Z) :=
  match mkset l with [] => None | s => Some (N.of_nat (List.length s), s) end.

Definition volu_line_of (k : Z) (v : volume) : volu_line :=
  mkVL k (counted (v_plus v)) (counted (v_minus v))
       (match v_ops v with
        | None => None
        | Some (op, args) => Some (op, N.of_nat (List.length args), args)
        end)
       (v_fictive v) (comment_of (map origin_str (v_origin v))).

Definition surf_line_of (k : Z) (s : surface) : surf_line :=
  mkSL k (s_transform s) (s_type s) (s_params s) (comment_of (s_origin s)).

(* extract_used_surfaces *)
Definition used_surfaces (vols : vtable) : list Z := mkset (flat_map (fun p => surface_ids (snd p)) vols).

Fixpoint write_surfs (surfs : stable) (used : list Z) (acc : list surf_line) : list surf_line * option err :=
  match used with
  | [] => (acc, None)
  | k :: r =>
      match lookup k surfs with
      | None => (acc, Some EKey)
      | Some s => write_surfs surfs r (acc ++ [surf_line_of k s])
      end
  end.

Definition write_vols (vols : vtable) (skipped : list Z) : list volu_line :=
  map (fun p => volu_line_of (fst p) (snd p)) (filter (fun p => negb (zmem (fst p) skipped)) vols).

(* ---- compositions ------------------------------------------------------------- *)
Record cell := mkCell {
  c_mat : string;                 (* materialID, the raw token *)
  c_matint : option Z;            (* int(materialID) *)
  c_density : option string;      (* density as stored on the cell *)
  c_density_norm : string;        (* normalize_float(density) *)
  c_dneg : bool;                  (* float(normalize_float(density)) < 0 *)
  c_live : bool }.                (* importance > 0 and universe == 0 and fillid is None *)

Record matcard := mkMat {
  m_fractions : list (string * string);   (* extract_isotopes_fractions *)
  m_atom : bool }.                        (* bool(val.atom_fracs) *)

Definition ctable := list (Z * cell).

Definition str_fabs (s : string) : string :=
  match s with String "-" r => r | _ => s end.

Fixpoint smem (x : string) (l : list string) : bool :=
  match l with [] => false | y :: r => String.eqb x y || smem x r end.

Fixpoint rescale_lookup (k : Z) (d : string) (t : list (Z * string * list (string * string)))
  : list (string * string) :=
  match t with
  | [] => []
  | (k', d', v) :: r => if (k =? k')%Z && String.eqb d d' then v else rescale_lookup k d r
  end.

Fixpoint comps_of_mat (key : Z) (m : matcard) (rescaled : list (Z * string * list (string * string)))
         (cells : ctable) (seen : list string) : list comp_block :=
  match cells with
  | [] => []
  | (_, c) :: r =>
      match c_density c with
      | Some d =>
          if c_live c && match c_matint c with Some i => (i =? key)%Z | None => false end
             && negb (smem d seen)
          then
            let name := "m" +++ dec_Z key +++ "_" +++ c_density_norm c in
            let blk :=
              if c_dneg c then
                mkCB "DENSITY" name (Some (str_fabs (c_density_norm c), m_atom m))
                     (N.of_nat (List.length (m_fractions m))) (m_fractions m)
              else
                let compo := if m_atom m then rescale_lookup key d rescaled else [] in
                mkCB "POINT_WISE" name None (N.of_nat (List.length compo)) compo in
            blk :: comps_of_mat key m rescaled r (d :: seen)
          else comps_of_mat key m rescaled r seen
      | None => comps_of_mat key m rescaled r seen
      end
  end.

Definition m0_block : comp_block := mkCB "POINT_WISE" "m0" None 1 [("HE4", "1E-30")].

Definition write_compositions (mats : list (Z * matcard)) (rescaled : list (Z * string * list (string * string)))
           (cells : ctable) : N * list comp_block :=
  let groups := map (fun p => comps_of_mat (fst p) (snd p) rescaled cells []) mats in
  ((N.of_nat (fold_right (fun g n => List.length g + n)%nat 0%nat groups) + 1)%N,
   (List.concat groups ++ [m0_block])%list).

(* ---- GEOMCOMP ------------------------------------------------------------------ *)
(* dic_partialGeomComp: OrderedDict name -> list of volume ids *)
Fixpoint gc_add (name : string) (k : Z) (groups : list (string * list Z)) : list (string * list Z) :=
  match groups with
  | [] => [(name, [k])]
  | (n, l) :: r => if String.eqb name n then (n, l ++ [k]) :: r else (n, l) :: gc_add name k r
  end.

(* str(int(materialID)) [+ '_' + density] (fix d8902ad); int() of a token that is not a
   number is a ValueError *)
Definition material_name (c : cell) : res string :=
  match c_matint c with
  | None => Err EValue
  | Some i =>
      Ok (match c_density c with
          | None => dec_Z i
          | Some d => dec_Z i +++ "_" +++ d
          end)
  end.

Fixpoint gc_groups (vols : vtable) (cells : ctable) (groups : list (string * list Z))
  : res (list (string * list Z)) :=
  match vols with
  | [] => Ok groups
  | (k, v) :: r =>
      if v_fictive v then gc_groups r cells groups
      else
        let vol_id := match v_origin v with (a, _) :: _ => a | [] => k end in
        match lookup vol_id cells with
        | None => Err EKey
        | Some c =>
            match material_name c with
            | Err e => Err e
            | Ok name => gc_groups r cells (gc_add name k groups)
            end
        end
  end.

Definition construct_geomcomp (vols : vtable) (cells : ctable) : res (list gc_line) :=
  match gc_groups vols cells [] with
  | Err e => Err e
  | Ok g => Ok (map (fun p => mkGC ("m" +++ fst p) (N.of_nat (List.length (snd p))) (snd p)) g)
  end.

(* ---- boundary conditions --------------------------------------------------------- *)
Definition bc_kind (c : string) : string :=
  if String.eqb c "*" then "REFLECTION" else if String.eqb c "+" then "COSINUS" else "?".

(* writeT4BoundCond (after the fix "write boundary conditions only for surfaces
   present in the written geometry"): flagged numbers go through the
   de-duplication renumbering (renumbering.get(k, k)), those that are not
   written are dropped, the same surface with two kinds is a ValueError *)
Definition bc_target (ren : option (list (Z * Z))) (k : Z) : Z :=
  match ren with
  | None => k
  | Some m => match lookup k m with Some t => t | None => k end
  end.

Fixpoint bc_entries (ren : option (list (Z * Z))) (used : list Z) (bcs : list (Z * string))
         (acc : list (Z * string)) : res (list (Z * string)) :=
  match bcs with
  | [] => Ok acc
  | (k, c) :: r =>
      let new_k := bc_target ren k in
      if zmem new_k used then
        match lookup new_k acc with
        | Some kind0 => if String.eqb kind0 (bc_kind c) then bc_entries ren used r acc else Err EValue
        | None => bc_entries ren used r (acc ++ [(new_k, bc_kind c)])
        end
      else bc_entries ren used r acc
  end.

Definition write_bc (ren : option (list (Z * Z))) (used : list Z) (bcs : list (Z * string))
  : res (option (N * list (string * Z))) :=
  match bc_entries ren used bcs [] with
  | Err e => Err e
  | Ok [] => Ok None
  | Ok l => Ok (Some (N.of_nat (List.length l), map (fun p => (snd p, fst p)) l))
  end.

(* ---- the whole writer -------------------------------------------------------------- *)
Record wstate := mkW {
  w_surfs : stable; w_vols : vtable; w_skipped : list Z;
  w_cells : ctable; w_mats : list (Z * matcard);
  w_rescaled : list (Z * string * list (string * string));
  w_bcs : list (Z * string);
  w_skip_comp : bool; w_skip_geomcomp : bool; w_skip_bc : bool }.

Definition write_file (ren : option (list (Z * Z))) (w : wstate) : outcome :=
  match used_surfaces (w_vols w) with
  | [] => Died false [] EValue                         (* max(surf_used) *)
  | used =>
      match write_surfs (w_surfs w) used [] with
      | (sl, Some e) => Died true sl e
      | (sl, None) =>
          match w_vols w with
          | [] => Died true sl EValue                   (* unreachable: used <> [] *)
          | _ =>
              let vl := write_vols (w_vols w) (w_skipped w) in
              let comps := if w_skip_comp w then None
                           else Some (write_compositions (w_mats w) (w_rescaled w) (w_cells w)) in
              match (if w_skip_geomcomp w then Ok None
                     else match construct_geomcomp (w_vols w) (w_cells w) with
                          | Ok g => Ok (Some g) | Err e => Err e end) with
              | Err e => Died true sl e                 (* KeyError/ValueError in GEOMCOMP: not printed faithfully, see notes *)
              | Ok gc =>
                  match (if w_skip_bc w then Ok None
                         else write_bc ren (used_surfaces (w_vols w)) (w_bcs w)) with
                  | Ok bc => Complete (mkFile sl vl comps gc bc)
                  | Err e => Raised (mkFile sl vl comps gc None) e
                  end
              end
          end
      end
  end.

(* the pipeline from the tables construct_volume_t4 returns to the written file *)
Definition convert_tail (skip_dedup : bool) (u0 u1 : Z) (w : wstate) : res outcome :=
  match prune skip_dedup (w_surfs w) (w_vols w) u0 u1 with
  | Err e => Err e                                      (* no file is opened *)
  | Ok (surfs, vols, ren) =>
      Ok (write_file ren (mkW surfs vols (w_skipped w) (w_cells w) (w_mats w) (w_rescaled w) (w_bcs w)
                          (w_skip_comp w) (w_skip_geomcomp w) (w_skip_bc w)))
  end.

End WithSurfaceEq.

Arguments surface : clear implicits.
Arguments stable : clear implicits.
Arguments wstate : clear implicits.

(* ---- text ------------------------------------------------------------------------------ *)
(* every line is a list of words joined by single blanks, plus the comment *)
Definition op_name (o : opkind) : string := match o with OUnion => "UNION" | OInte => "INTE" end.

Definition opt_str (x : option Z) : string := match x with Some k => dec_Z k | None => "None" end.

Definition comment_str (c : option string) : string :=
  match c with None => "" | Some c => " // " +++ c end.

Definition surf_words (s : surf_line) : list string :=
  ["SURF"; dec_Z (sl_id s)]
  ++ (match sl_transform s with None => [] | Some _ => ["TRANSFORM"; dec_Z (sl_id s)] end)
  ++ sl_type s :: sl_params s.

Definition print_surf (s : surf_line) : list string :=
  (match sl_transform s with
   | None => []
   | Some t => [join " " (["TRANSFORM"; dec_Z (sl_id s); "MATRIX"] ++ t)]
   end)
  ++ [join " " (surf_words s) +++ comment_str (sl_comment s)].

(* VolumeT4.__str__ builds a list of parameters (words and numbers) and joins their str()
   with blanks *)
Definition counted_words (kw : string) (x : option (N * list Z)) : list string :=
  match x with
  | None => []
  | Some (n, l) => kw :: dec n :: map dec_Z l
  end.

Definition volu_words (v : volu_line) : list string :=
  ["EQUA"] ++ counted_words "PLUS" (vl_plus v) ++ counted_words "MINUS" (vl_minus v)
  ++ (match vl_op v with
      | None => []
      | Some (op, n, args) => op_name op :: dec n :: map opt_str args
      end)
  ++ (if vl_fictive v then ["FICTIVE"] else []).

Definition print_volu (v : volu_line) : string :=
  join " " (["VOLU"; dec_Z (vl_id v)] ++ volu_words v ++ ["ENDV"]) +++ comment_str (vl_comment v).

Definition geometry_head : list string :=
  ["LANG ENGLISH"; ""; "GEOMETRY"; ""; "TITLE title"; ""; "HASH_TABLE"; ""].

Definition comp_head_words (b : comp_block) : list string :=
  match cb_density b with
  | None => [cb_type b; "300"; cb_name b; dec (cb_count b)]
  | Some (d, nb) => [cb_type b; "300"; cb_name b; d; (if nb then "NB_ATOM" else ""); dec (cb_count b)]
  end.

(* "\n  ".join(name + ' ' + abd ...) after "\n  ": one line per nuclide, a line of two
   blanks when there is none *)
Definition print_comp (b : comp_block) : list string :=
  join " " (comp_head_words b)
  :: match cb_items b with
     | [] => [join " " [""; ""; ""]]
     | l => map (fun p => join " " [""; ""; fst p; snd p]) l
     end.

(* the m0 block is written literally by the code ("POINT_WISE 300 m0 1\n  HE4 1E-30\n\n") *)
Definition print_comps (c : N * list comp_block) : list string :=
  [""; "COMPOSITION"; dec (fst c)] ++ flat_map print_comp (snd c) ++ [""; "END_COMPOSITION"].

Definition gc_words (g : gc_line) : list string :=
  [gc_name g; dec (gc_count g)] ++ match gc_vols g with [] => [""] | l => map dec_Z l end.

Definition print_gc (g : gc_line) : string := join " " (gc_words g).

Definition print_geomcomp (g : list gc_line) : list string :=
  [""; "GEOMCOMP"] ++ map print_gc g ++ ["END_GEOMCOMP"].

Definition print_bc (b : N * list (string * Z)) : list string :=
  [""; "BOUNDARY_CONDITION"; dec (fst b)]
  ++ map (fun p => join " " ["ALL_COMPLETE"; fst p; dec_Z (snd p)]) (snd b)
  ++ ["END_BOUNDARY_CONDITION"].

Definition opt_lines {A} (f : A -> list string) (x : option A) : list string :=
  match x with Some a => f a | None => [] end.

(* lines of the file after the "//" header; every line is terminated by a newline *)
Definition print_file (f : file) : list string :=
  geometry_head ++ flat_map print_surf (f_surfs f) ++ [""]
  ++ map print_volu (f_vols f) ++ [""; "ENDG"]
  ++ opt_lines print_comps (f_comps f)
  ++ opt_lines print_geomcomp (f_geomcomp f)
  ++ opt_lines print_bc (f_bc f).

Definition print_outcome (o : outcome) : list string :=
  match o with
  | Complete f => print_file f
  | Died false _ _ => []
  | Died true sl _ => geometry_head ++ flat_map print_surf sl
  | Raised f _ => print_file f
  end.

(* the text: every line followed by a newline *)
Definition unlines (l : list string) : string := join nl (l ++ [""]).

Definition print_t4 (f : file) : string := unlines (print_file f).
