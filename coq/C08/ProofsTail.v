(* C08 — end to end: from the tables construct_volume_t4 returns to the written file. *)
From Coq Require Import List NArith ZArith Bool String Ascii Lia Sorted Permutation.
From T4V Require Import Base.Str C08.Model C08.Spec C08.ProofsSets C08.ProofsWrite C08.ProofsPrune.
Import ListNotations.

(* a volume of the pruned table is a volume of the original table as far as its number,
   its virtual flag and its provenance are concerned (only equations and operand lists change) *)
Definition same_shape (v' v : volume) : Prop :=
  v_fictive v' = v_fictive v /\ v_origin v' = v_origin v.

Definition shape_incl (T' T : vtable) : Prop :=
  forall k v', In (k, v') T' -> exists v, In (k, v) T /\ same_shape v' v.

Lemma shape_incl_refl T : shape_incl T T.
Proof. intros k v H. exists v. split; [assumption|split; reflexivity]. Qed.

Lemma shape_incl_trans T1 T2 T3 : shape_incl T1 T2 -> shape_incl T2 T3 -> shape_incl T1 T3.
Proof.
  intros H12 H23 k v1 H1. destruct (H12 k v1 H1) as [v2 [A [B C]]]. destruct (H23 k v2 A) as [v3 [D [F G]]].
  exists v3. split; [assumption|]. split; congruence.
Qed.

Lemma renumber_go_shape ren vols vols' : renumber_go ren vols = Ok vols' -> shape_incl vols' vols.
Proof.
  revert vols'. induction vols as [|[k v] r IH]; intros vols' H; simpl in H.
  - inversion H; subst. intros k v' [].
  - destruct (renumber_set ren (v_plus v)) as [p|e]; [|discriminate].
    destruct (renumber_set ren (v_minus v)) as [m|e]; [|discriminate].
    destruct (renumber_go ren r) as [r'|e]; [|discriminate]. inversion H; subst.
    intros k1 v' [Hin|Hin].
    + inversion Hin; subst. exists v. split; [left; reflexivity|split; reflexivity].
    + destruct (IH r' eq_refl k1 v' Hin) as [v1 [A B]]. exists v1. split; [right; assumption|assumption].
Qed.

Lemma process_remove_shape tr u0 u1 T T1 rem :
  process_remove tr u0 u1 T = (T1, rem) -> shape_incl T1 T.
Proof.
  intros H k v1 Hin. destruct (process_remove_spec _ _ _ _ _ _ H) as [P1 _].
  destruct (P1 k v1 Hin) as [v [A [[_ ->]|[_ [_ ->]]]]]; exists v; (split; [assumption|split; reflexivity]).
Qed.

Lemma scan_shape R T : forall T2 tr2, scan R T = (T2, tr2) -> shape_incl T2 T.
Proof.
  induction T as [|[k v] r IH]; intros T2 tr2 H; simpl in H.
  - inversion H; subst. intros k v' [].
  - destruct (scan R r) as [r' tr] eqn:Er.
    assert (Hr : shape_incl r' r) by (eapply IH; reflexivity).
    assert (Hgen : forall v2 trx, (T2, tr2) = ((k, v2) :: r', trx) -> same_shape v2 v -> shape_incl T2 ((k, v) :: r)).
    { intros v2 trx Heq Hs. inversion Heq; subst. intros k1 v' [Hin|Hin].
      - inversion Hin; subst. exists v. split; [left; reflexivity|assumption].
      - destruct (Hr k1 v' Hin) as [v1 [A B]]. exists v1. split; [right; assumption|assumption]. }
    destruct (v_ops v) as [[[|] args]|].
    + eapply Hgen; [symmetry; exact H|]. split; reflexivity.
    + destruct (existsb (opt_in R) args); (eapply Hgen; [symmetry; exact H|]; split; reflexivity).
    + eapply Hgen; [symmetry; exact H|]. split; reflexivity.
Qed.

Lemma re_loop_shape fuel u0 u1 : forall T R tr T', re_loop fuel u0 u1 T R tr = Some T' -> shape_incl T' T.
Proof.
  induction fuel as [|f IH]; intros T R tr T' H.
  - destruct tr; simpl in H; [|discriminate]. inversion H; subst. apply shape_incl_refl.
  - destruct tr as [|k tr'] eqn:Etr.
    + simpl in H. inversion H; subst. apply shape_incl_refl.
    + rewrite re_loop_step in H. rewrite <- Etr in *.
      destruct (process_remove tr u0 u1 T) as [T1 rem] eqn:Ep.
      destruct (scan (rem ++ R) T1) as [T2 tr2] eqn:Es.
      eapply shape_incl_trans; [eapply IH; exact H|].
      eapply shape_incl_trans; [eapply scan_shape; exact Es|eapply process_remove_shape; exact Ep].
Qed.

Lemma remove_unused_shape vols : shape_incl (remove_unused_volumes vols) vols.
Proof.
  intros k v H. unfold remove_unused_volumes in H. apply filter_In in H. destruct H as [H _].
  exists v. split; [assumption|split; reflexivity].
Qed.

Section Tail.
Context {E : Type}.
Variable eeqb : E -> E -> bool.
Hypothesis eeqb_sym : forall x y, eeqb x y = eeqb y x.
Hypothesis eeqb_trans : forall x y z, eeqb x y = true -> eeqb y z = true -> eeqb x z = true.

Lemma prune_shape skip_dedup (surfs : stable E) vols u0 u1 surfs' vols' ren' :
  prune eeqb skip_dedup surfs vols u0 u1 = Ok (surfs', vols', ren') -> shape_incl vols' vols.
Proof.
  unfold prune. intros H.
  assert (Hstep : forall (s1 : stable E) v1 (r1 : option (list (Z * Z))) a b,
            match remove_empty_volumes v1 a b with
            | Some vols2 => Ok (s1, remove_unused_volumes vols2, r1)
            | None => Err EFuel
            end = Ok (surfs', vols', ren') -> shape_incl vols' v1).
  { intros s1 v1 r1 a b H1. destruct (remove_empty_volumes v1 a b) as [v2|] eqn:E2; [|discriminate].
    inversion H1; subst. eapply shape_incl_trans; [apply remove_unused_shape|].
    unfold remove_empty_volumes in E2. eapply re_loop_shape; exact E2. }
  destruct skip_dedup.
  - eapply Hstep; exact H.
  - destruct (remove_duplicate_surfaces eeqb surfs) as [[news ren]|e]; [|discriminate].
    destruct (renumber_surfaces vols ren) as [v1|e] eqn:Er; [|discriminate].
    destruct (lookup u0 ren) as [a|]; [|discriminate]. destruct (lookup u1 ren) as [b|]; [|discriminate].
    eapply shape_incl_trans; [eapply Hstep; exact H|].
    unfold renumber_surfaces in Er. destruct vols; [discriminate|]. eapply renumber_go_shape; exact Er.
Qed.

(* what is asked of the tables construct_volume_t4 returns (facts about code outside this
   model; tie:stage0 checks refs_ok and helpers_ok on every snapshot, tie:verdict the rest) *)
Record stage0_ok (u0 u1 : Z) (w : wstate E) : Prop := mk_stage0_ok {
  s0_refs : refs_ok (w_surfs w) (w_vols w);
  s0_helpers : helpers_ok eeqb (w_surfs w) u0 u1;
  s0_nonempty : w_vols w <> [];
  (* the cells left out (importance 0) are not keys of the volume table *)
  s0_skipped : forall k, In k (w_skipped w) -> ~ In k (keys (w_vols w));
  s0_cells : forall k v, In (k, v) (w_vols w) -> v_fictive v = false ->
             exists c, lookup (vol_cell_id k v) (w_cells w) = Some c /\ cell_named w c;
  s0_norm : forall cid c, In (cid, c) (w_cells w) -> norm_fixed c }.

Theorem convert_tail_wf skip_dedup u0 u1 (w : wstate E) :
  stage0_ok u0 u1 w ->
  exists o, convert_tail eeqb skip_dedup u0 u1 w = Ok o /\
    ((* every volume was pruned away: nothing but the // header is written and the run raises *)
     o = Died false [] EValue \/
     exists f, wf_file f /\ (o = Complete f \/ exists e, o = Raised f e /\ f_bc f = None)).
Proof.
  intros [Hrefs Hhelp Hne Hsk Hcells Hnorm]. unfold convert_tail.
  destruct (prune_total eeqb skip_dedup (w_surfs w) (w_vols w) u0 u1 Hrefs Hhelp Hne)
    as [[[surfs' vols'] ren'] Hp].
  rewrite Hp. eexists. split; [reflexivity|].
  destruct (prune_preserves_wf eeqb eeqb_sym eeqb_trans skip_dedup _ _ _ _ _ _ _ Hrefs Hhelp Hp) as [R' S'].
  pose proof (prune_shape _ _ _ _ _ _ _ _ Hp) as Hshape.
  set (w' := mkW surfs' vols' (w_skipped w) (w_cells w) (w_mats w) (w_rescaled w) (w_bcs w)
                 (w_skip_comp w) (w_skip_geomcomp w) (w_skip_bc w)).
  destruct (used_surfaces vols') as [|s0 sr] eqn:EU.
  - left. unfold write_file. simpl. rewrite EU. reflexivity.
  - right. apply write_wf. constructor; simpl; try assumption.
    + assert (In s0 (used_surfaces vols')) as Hin by (rewrite EU; left; reflexivity).
      apply used_surfaces_In in Hin. destruct Hin as [k [v [A B]]]. exists k, v, s0. split; assumption.
    + intros k v Hin Hskip. exfalso. destruct (Hshape k v Hin) as [v1 [A _]].
      apply (Hsk k Hskip). eapply in_keys; eassumption.
    + intros k v j Hin Hj Hskip. destruct R' as [_ _ Ho]. destruct (Ho k v (Some j) Hin Hj) as [j' [Ej Hj']].
      inversion Ej; subst j'. apply keys_in in Hj'. destruct Hj' as [vj Hj'].
      destruct (Hshape j vj Hj') as [v1 [A _]]. apply (Hsk j Hskip). eapply in_keys; eassumption.
    + intros k v Hin Hf. destruct (Hshape k v Hin) as [v1 [A [B C]]].
      destruct (Hcells k v1 A) as [c [Hc Hn]]; [congruence|].
      exists c. split; [|exact Hn]. unfold vol_cell_id in *. rewrite C. assumption.
Qed.

End Tail.

(* ---- the same statements for the concrete surface equality of C08/SurfEq.v read at R:
   symmetry and transitivity are theorems there, not hypotheses ------------------------------ *)
From T4V Require Import Base.Scalar C08.SurfEq.
From Coq Require Import Reals.

Theorem prune_preserves_wf_R skip_dedup (surfs : stable (spayload R)) vols u0 u1 surfs' vols' ren' :
  refs_ok surfs vols -> helpers_ok Req_payload surfs u0 u1 ->
  prune Req_payload skip_dedup surfs vols u0 u1 = Ok (surfs', vols', ren') ->
  refs_ok surfs' vols' /\ sides_ok vols'.
Proof. apply (prune_preserves_wf Req_payload Req_payload_sym Req_payload_trans). Qed.

Theorem convert_tail_wf_R skip_dedup u0 u1 (w : wstate (spayload R)) :
  stage0_ok Req_payload u0 u1 w ->
  exists o, convert_tail Req_payload skip_dedup u0 u1 w = Ok o /\
    (o = Died false [] EValue \/
     exists f, wf_file f /\ (o = Complete f \/ exists e, o = Raised f e /\ f_bc f = None)).
Proof. apply (convert_tail_wf Req_payload Req_payload_sym Req_payload_trans). Qed.
