(* C08 — the writers only print what they are given: every numeric field of the written
   file is a numeric string of the tables (so "every numeric field is a finite number"
   reduces to an invariant of the tables, for ANY notion of finite), and the written file is
   printable (word fields are words), hence read back by parse_t4 as itself. *)
From Coq Require Import List NArith ZArith Bool String Ascii Lia Permutation.
From T4V Require Import Base.Str C08.Model C08.Spec C08.ProofsSets C08.ProofsWrite
     C08.Parse C08.ProofsChars C08.ProofsParse.
Import ListNotations.
Open Scope string_scope.
Open Scope list_scope.

(* ---- numeric fields ------------------------------------------------------------------------ *)
Definition transform_numbers (t : option (list string)) : list string :=
  match t with Some l => l | None => [] end.

Definition comp_numbers (b : comp_block) : list string :=
  (match cb_density b with Some (d, _) => [d] | None => [] end) ++ map snd (cb_items b).

(* SURF parameters, TRANSFORM entries, composition densities and amounts (the counts are
   natural numbers and the temperature is the literal 300) *)
Definition file_numbers (f : file) : list string :=
  flat_map (fun s => sl_params s ++ transform_numbers (sl_transform s)) (f_surfs f)
  ++ match f_comps f with Some c => flat_map comp_numbers (snd c) | None => [] end.

Section Given.
Context {E : Type}.

Definition state_numbers (w : wstate E) : list string :=
  flat_map (fun p => s_params (snd p) ++ transform_numbers (s_transform (snd p))) (w_surfs w)
  ++ flat_map (fun p => map snd (m_fractions (snd p))) (w_mats w)
  ++ flat_map (fun r => map snd (snd r)) (w_rescaled w)
  ++ flat_map (fun p => match c_density (snd p) with
                        | Some _ => [str_fabs (c_density_norm (snd p))]
                        | None => []
                        end) (w_cells w)
  ++ ["1E-30"].

(* ---- where the pieces of the file come from --------------------------------------------------- *)
Lemma write_surfs_from (surfs : stable E) used : forall acc sl,
  write_surfs surfs used acc = (sl, None) ->
  forall l, In l sl -> In l acc \/ exists k s, In (k, s) surfs /\ l = surf_line_of k s.
Proof.
  induction used as [|k r IH]; intros acc sl H l Hl; simpl in H.
  - inversion H; subst. left. assumption.
  - destruct (lookup k surfs) as [s|] eqn:El; [|discriminate].
    destruct (IH _ _ H l Hl) as [Hin|Hex]; [|right; assumption].
    apply in_app_or in Hin. destruct Hin as [Hin|[<-|[]]]; [left; assumption|].
    right. exists k, s. split; [apply lookup_Some_In; assumption|reflexivity].
Qed.

Lemma rescale_lookup_from k d t x :
  In x (rescale_lookup k d t) -> exists e, In e t /\ In x (snd e).
Proof.
  induction t as [|[[k' d'] v] r IH]; simpl; [tauto|].
  destruct ((k =? k')%Z && String.eqb d d').
  - intros H. exists (k', d', v). split; [left; reflexivity|assumption].
  - intros H. destruct (IH H) as [e [A B]]. exists e. split; [right; assumption|assumption].
Qed.

Lemma comps_of_mat_from key m resc cells : forall seen b,
  In b (comps_of_mat key m resc cells seen) ->
  exists cid c,
    In (cid, c) cells /\ c_density c <> None /\ cb_name b = "m" +++ dec_Z key +++ "_" +++ c_density_norm c /\
    ((cb_type b = "DENSITY" /\ cb_density b = Some (str_fabs (c_density_norm c), m_atom m) /\
      cb_items b = m_fractions m) \/
     (cb_type b = "POINT_WISE" /\ cb_density b = None /\
      forall x, In x (cb_items b) -> exists e, In e resc /\ In x (snd e))).
Proof.
  induction cells as [|[cid c] r IH]; intros seen b H; simpl in H; [destruct H|].
  assert (Hr : forall seen', In b (comps_of_mat key m resc r seen') ->
            exists cid0 c0, In (cid0, c0) ((cid, c) :: r) /\ c_density c0 <> None /\ cb_name b = "m" +++ dec_Z key +++ "_" +++ c_density_norm c0 /\
              ((cb_type b = "DENSITY" /\ cb_density b = Some (str_fabs (c_density_norm c0), m_atom m) /\
                cb_items b = m_fractions m) \/
               (cb_type b = "POINT_WISE" /\ cb_density b = None /\
                forall x, In x (cb_items b) -> exists e, In e resc /\ In x (snd e)))).
  { intros seen' H'. destruct (IH seen' b H') as [c0 [c1 [A B]]]. exists c0, c1. split; [right; assumption|assumption]. }
  destruct (c_density c) as [d|] eqn:Ed; [|apply (Hr seen); assumption].
  destruct (c_live c && _ && _); [|apply (Hr seen); assumption].
  destruct H as [<-|H]; [|apply (Hr (d :: seen)); assumption].
  exists cid, c. split; [left; reflexivity|]. split; [congruence|]. destruct (c_dneg c); simpl.
  - split; [reflexivity|]. left. repeat split.
  - split; [reflexivity|]. right. repeat split. intros x Hx.
    destruct (m_atom m); [|destruct Hx]. eapply rescale_lookup_from; eassumption.
Qed.

Lemma write_compositions_from (w : wstate E) b :
  In b (snd (write_compositions (w_mats w) (w_rescaled w) (w_cells w))) ->
  b = m0_block \/
  exists key m, In (key, m) (w_mats w) /\ In b (comps_of_mat key m (w_rescaled w) (w_cells w) []).
Proof.
  unfold write_compositions. simpl. intros H. apply in_app_or in H. destruct H as [H|[<-|[]]]; [|left; reflexivity].
  right. apply in_concat in H. destruct H as [g [Hg Hb]]. apply in_map_iff in Hg. destruct Hg as [[key m] [<- Hin]].
  exists key, m. split; assumption.
Qed.

Lemma gc_groups_names vols cells : forall groups g,
  gc_groups vols cells groups = Ok g ->
  forall n, In n (map fst g) ->
    In n (map fst groups) \/ exists cid c, In (cid, c) cells /\ material_name c = Ok n.
Proof.
  induction vols as [|[k v] r IH]; intros groups g H n Hn; simpl in H.
  - inversion H; subst. left. assumption.
  - destruct (v_fictive v); [eapply IH; eassumption|].
    destruct (lookup _ cells) as [c|] eqn:El; [|discriminate].
    destruct (material_name c) as [name|e] eqn:Em; [|discriminate].
    destruct (IH _ _ H n Hn) as [A|A]; [|right; assumption].
    apply gc_add_names in A. destruct A as [->|A]; [|left; assumption].
    right. apply lookup_Some_In in El. eexists. exists c. split; eassumption.
Qed.

Lemma bc_entries_kinds ren used bcs : forall acc l,
  (forall p, In p acc -> exists c, snd p = bc_kind c) ->
  bc_entries ren used bcs acc = Ok l -> forall p, In p l -> exists c, snd p = bc_kind c.
Proof.
  induction bcs as [|[k c] r IH]; intros acc l Hacc H; simpl in H.
  - inversion H; subst. assumption.
  - destruct (zmem (bc_target ren k) used); [|eapply IH; eassumption].
    destruct (lookup (bc_target ren k) acc) as [kind0|].
    + destruct (String.eqb kind0 (bc_kind c)); [|discriminate]. eapply IH; eassumption.
    + eapply IH; [|exact H]. intros p Hp. apply in_app_or in Hp.
      destruct Hp as [Hp|[<-|[]]]; [apply Hacc; assumption|exists c; reflexivity].
Qed.

(* the file a run of the writers leaves behind *)
Definition written (ren : option (list (Z * Z))) (w : wstate E) (f : file) : Prop :=
  write_file ren w = Complete f \/ exists e, write_file ren w = Raised f e.

Lemma written_shape ren w f :
  written ren w f ->
  (forall l, In l (f_surfs f) -> exists k s, In (k, s) (w_surfs w) /\ l = surf_line_of k s) /\
  (forall l, In l (f_vols f) -> exists k v, In (k, v) (w_vols w) /\ l = volu_line_of k v) /\
  (f_comps f = None \/ f_comps f = Some (write_compositions (w_mats w) (w_rescaled w) (w_cells w))) /\
  (f_geomcomp f = None \/ exists g, construct_geomcomp (w_vols w) (w_cells w) = Ok g /\ f_geomcomp f = Some g) /\
  (f_bc f = None \/ exists b, write_bc ren (used_surfaces (w_vols w)) (w_bcs w) = Ok (Some b) /\ f_bc f = Some b).
Proof.
  unfold written, write_file. intros H.
  destruct (used_surfaces (w_vols w)) as [|u1 ur] eqn:EU.
  { destruct H as [H|[e H]]; discriminate. }
  destruct (write_surfs (w_surfs w) (u1 :: ur) []) as [sl [e|]] eqn:Es.
  { destruct H as [H|[e' H]]; discriminate. }
  destruct (w_vols w) as [|p0 vr] eqn:EV.
  { destruct H as [H|[e' H]]; discriminate. }
  rewrite <- EV in *.
  destruct (if w_skip_geomcomp w then Ok None
            else match construct_geomcomp (w_vols w) (w_cells w) with
                 | Ok g => Ok (Some g) | Err e => Err e end) as [gc|e] eqn:Eg.
  2:{ destruct H as [H|[e' H]]; discriminate. }
  assert (Hfile : exists bc, f = mkFile sl (write_vols (w_vols w) (w_skipped w))
                    (if w_skip_comp w then None
                     else Some (write_compositions (w_mats w) (w_rescaled w) (w_cells w))) gc bc /\
                  (bc = None \/ write_bc ren (u1 :: ur) (w_bcs w) = Ok bc)).
  { destruct (if w_skip_bc w then Ok None else write_bc ren (u1 :: ur) (w_bcs w)) as [bc|e] eqn:Eb.
    - destruct H as [H|[e' H]]; [|discriminate]. inversion H; subst. exists bc. split; [reflexivity|].
      destruct (w_skip_bc w); [left; inversion Eb; reflexivity|right; assumption].
    - destruct H as [H|[e' H]]; [discriminate|]. inversion H; subst. exists None. split; [reflexivity|left; reflexivity]. }
  destruct Hfile as [bc [-> Hbc]]. simpl. repeat split.
  - intros l Hl. destruct (write_surfs_from _ _ _ _ Es l Hl) as [[]|Hex]. assumption.
  - intros l Hl. apply write_vols_In in Hl. destruct Hl as [k [v [A [_ B]]]]. exists k, v. split; assumption.
  - destruct (w_skip_comp w); [left|right]; reflexivity.
  - destruct (w_skip_geomcomp w).
    + inversion Eg; subst. left. reflexivity.
    + destruct (construct_geomcomp (w_vols w) (w_cells w)) as [g|e] eqn:Ec; [|discriminate].
      inversion Eg; subst. right. exists g. split; reflexivity.
  - destruct Hbc as [->|Hbc]; [left; reflexivity|]. destruct bc as [b|]; [|left; reflexivity].
    right. exists b. split; [assumption|reflexivity].
Qed.

(* ---- (b) numeric fields are among the numeric strings of the tables ---------------------------- *)
Theorem numbers_given ren w f :
  written ren w f -> forall x, In x (file_numbers f) -> In x (state_numbers w).
Proof.
  intros Hw x Hx. destruct (written_shape ren w f Hw) as [Hs [_ [Hc _]]].
  unfold file_numbers in Hx. unfold state_numbers. apply in_app_or in Hx. destruct Hx as [Hx|Hx].
  - apply in_or_app. left. apply in_flat_map in Hx. destruct Hx as [l [Hl Hx]].
    destruct (Hs l Hl) as [k [s [Hin ->]]]. apply in_flat_map. exists (k, s). split; assumption.
  - apply in_or_app. right. destruct Hc as [Hc|Hc]; rewrite Hc in Hx; [destruct Hx|].
    apply in_flat_map in Hx. destruct Hx as [b [Hb Hx]].
    destruct (write_compositions_from w b Hb) as [->|[key [m [Hm Hb']]]].
    + simpl in Hx. destruct Hx as [<-|[]]. do 3 (apply in_or_app; right). left. reflexivity.
    + destruct (comps_of_mat_from _ _ _ _ _ _ Hb') as [cid [c [Hc1 [Hdn [_ [[_ [D I]]|[_ [D I]]]]]]]];
        unfold comp_numbers in Hx; rewrite D in Hx.
      * destruct Hx as [<-|Hx].
        -- do 2 (apply in_or_app; right). apply in_or_app. left.
           apply in_flat_map. exists (cid, c). split; [assumption|]. simpl.
           destruct (c_density c); [left; reflexivity|congruence].
        -- rewrite I in Hx. apply in_or_app. left. apply in_flat_map. exists (key, m). split; assumption.
      * simpl in Hx. apply in_map_iff in Hx. destruct Hx as [p [<- Hp]].
        destruct (I p Hp) as [e [He1 He2]]. apply in_or_app. right. apply in_or_app. left.
        apply in_flat_map. exists e. split; [assumption|]. apply in_map. assumption.
Qed.

Corollary numbers_finite (finite : string -> Prop) ren w f :
  written ren w f -> Forall finite (state_numbers w) -> Forall finite (file_numbers f).
Proof.
  intros Hw Hs. apply Forall_forall. intros x Hx. rewrite Forall_forall in Hs.
  apply Hs. eapply numbers_given; eassumption.
Qed.

End Given.

(* ---- the written file is printable, hence read back as itself ------------------------------------ *)
Lemma free_join_gen c sep l : free c sep -> Forall (free c) l -> free c (join sep l).
Proof.
  intros Hs. induction l as [|x r IH]; intros Hf; [reflexivity|].
  inversion Hf as [|? ? Hx Hr]; subst. destruct r as [|y r'].
  - simpl. assumption.
  - rewrite join_cons2. apply free_app; [assumption|]. apply free_app; [assumption|]. apply IH. assumption.
Qed.

Lemma cmt_ok_comment_of l : Forall (free nlc) l -> cmt_ok (comment_of l).
Proof.
  intros H. destruct l as [|x r]; [exact I|]. unfold comment_of, cmt_ok.
  apply free_join_gen; [reflexivity|assumption].
Qed.

Lemma tok2_app a b : tok2 a -> tok2 b -> tok2 (a +++ b).
Proof. intros [A1 A2] [B1 B2]. split; apply free_app; assumption. Qed.

Lemma tok2_dec_Z z : tok2 (dec_Z z).
Proof. split; apply dec_Z_free; reflexivity. Qed.

Lemma tok2_dec n : tok2 (dec n).
Proof. split; apply dec_free; reflexivity. Qed.

Lemma tok2_str_fabs s : tok2 s -> tok2 (str_fabs s).
Proof.
  intros [A B]. unfold str_fabs. destruct s as [|c r]; [split; assumption|].
  destruct (Ascii.eqb c "-") eqn:Ec.
  - apply Ascii.eqb_eq in Ec. subst. unfold free in *. simpl in A, B. split; assumption.
  - assert (Hsame : match String c r with String "-" r0 => r0 | _ => String c r end = String c r).
    { destruct c as [[] [] [] [] [] [] [] []]; try reflexivity. discriminate. }
    rewrite Hsame. split; assumption.
Qed.

Lemma origin_str_free p : free nlc (origin_str p).
Proof.
  unfold origin_str. repeat apply free_app; try reflexivity; apply dec_Z_free; reflexivity.
Qed.

Lemma tok2_bc_kind c : tok2 (bc_kind c).
Proof. unfold bc_kind. destruct (String.eqb c "*"); [split; reflexivity|]. destruct (String.eqb c "+"); split; reflexivity. Qed.

Section Printable.
Context {E : Type}.

(* the strings of the tables are words *)
Record words_ok (w : wstate E) : Prop := mk_words_ok {
  wo_surfs : forall k s, In (k, s) (w_surfs w) ->
     tok3 (s_type s) /\ String.eqb (s_type s) "TRANSFORM" = false /\ Forall tok3 (s_params s) /\
     match s_transform s with None => True | Some t => Forall tok2 t end /\
     Forall (free nlc) (s_origin s);
  wo_cells : forall cid c, In (cid, c) (w_cells w) ->
     tok2 (c_density_norm c) /\ forall d, c_density c = Some d -> tok2 d;
  wo_mats : forall key m, In (key, m) (w_mats w) ->
     Forall (fun p => tok2 (fst p) /\ tok2 (snd p)) (m_fractions m);
  wo_resc : forall e, In e (w_rescaled w) -> Forall (fun p => tok2 (fst p) /\ tok2 (snd p)) (snd e) }.

Theorem written_printable ren (w : wstate E) f :
  written ren w f -> words_ok w -> wf_file f -> printable f.
Proof.
  intros Hw [Ws Wc Wm Wr] [_ _ Fv Fc Fg Fb].
  destruct (written_shape ren w f Hw) as [Hs [Hv [Hc [Hg Hb]]]].
  constructor.
  - apply Forall_forall. intros l Hl. destruct (Hs l Hl) as [k [s [Hin ->]]].
    destruct (Ws k s Hin) as [A [B [C [D F]]]]. constructor; simpl; try assumption.
    apply cmt_ok_comment_of. assumption.
  - apply Forall_forall. intros l Hl. rewrite Forall_forall in Fv. destruct (Fv l Hl) as [A B C _ _ _].
    constructor; try assumption. destruct (Hv l Hl) as [k [v [_ ->]]]. simpl.
    apply cmt_ok_comment_of. apply Forall_forall. intros x Hx. apply in_map_iff in Hx.
    destruct Hx as [p [<- _]]. apply origin_str_free.
  - destruct Hc as [Hc|Hc]; rewrite Hc in *; [exact I|]. destruct Fc as [Fc1 Fc2]. split; [assumption|].
    apply Forall_forall. intros b Hb'. rewrite Forall_forall in Fc2. specialize (Fc2 b Hb').
    destruct (write_compositions_from w b Hb') as [->|[key [m [Hm Hb2]]]].
    + constructor; simpl; try (split; reflexivity); try exact I; try reflexivity.
      constructor; [split; split; reflexivity|constructor].
    + destruct (comps_of_mat_from _ _ _ _ _ _ Hb2) as [cid [c [Hc1 [_ [Hn [[T [D It]]|[T [D It]]]]]]]];
        destruct (Wc cid c Hc1) as [Wn _]; constructor; try assumption.
      * rewrite T. split; reflexivity.
      * rewrite Hn. repeat apply tok2_app; try (split; reflexivity); try assumption. apply tok2_dec_Z.
      * rewrite D. apply tok2_str_fabs. assumption.
      * rewrite It. apply (Wm key m Hm).
      * rewrite T. split; reflexivity.
      * rewrite Hn. repeat apply tok2_app; try (split; reflexivity); try assumption. apply tok2_dec_Z.
      * rewrite D. exact I.
      * apply Forall_forall. intros x Hx. destruct (It x Hx) as [e [He1 He2]].
        pose proof (Wr e He1) as We. rewrite Forall_forall in We. apply We. assumption.
  - destruct Hg as [Hg|[g [Hg1 Hg2]]]; rewrite Hg in * || rewrite Hg2 in *; [exact I|].
    destruct Fg as [Fg1 _ _ _]. apply Forall_forall. intros l Hl. rewrite Forall_forall in Fg1.
    split; [|apply Fg1; assumption].
    unfold construct_geomcomp in Hg1. destruct (gc_groups (w_vols w) (w_cells w) []) as [gr|e] eqn:Egr; [|discriminate].
    inversion Hg1; subst g. apply in_map_iff in Hl. destruct Hl as [[n ks] [<- Hl]]. simpl.
    destruct (gc_groups_names _ _ _ _ Egr n) as [[]|[cid [c [Hc1 Hn]]]].
    { apply in_map_iff. exists (n, ks). split; [reflexivity|assumption]. }
    change (tok2 ("m" +++ n)). apply tok2_app; [split; reflexivity|]. unfold material_name in Hn.
    destruct (c_matint c) as [i|]; [|discriminate]. destruct (Wc cid c Hc1) as [_ Wd].
    destruct (c_density c) as [d|]; inversion Hn; subst n.
    + change (tok2 (dec_Z i +++ ("_" +++ d))). apply tok2_app; [apply tok2_dec_Z|].
      apply tok2_app; [split; reflexivity|apply Wd; reflexivity].
    + apply tok2_dec_Z.
  - destruct Hb as [Hb|[b [Hb1 Hb2]]]; rewrite Hb in * || rewrite Hb2 in *; [exact I|].
    destruct Fb as [Fb1 _]. split; [assumption|].
    unfold write_bc in Hb1. destruct (bc_entries ren _ (w_bcs w) []) as [l|e] eqn:El; [|discriminate].
    destruct l as [|p0 r0] eqn:Ell; [discriminate|]. rewrite <- Ell in *. inversion Hb1; subst b. simpl.
    apply Forall_forall. intros p Hp. apply in_map_iff in Hp. destruct Hp as [q [<- Hq]]. simpl.
    destruct (bc_entries_kinds _ _ _ _ _ (fun p0 (H : In p0 []) => match H with end) El q Hq) as [c ->].
    apply tok2_bc_kind.
Qed.

(* END TO END at the text level: under wf_state and words_ok the writers leave a file that
   satisfies every clause of the property AND whose text is read back by the reader as
   exactly that file *)
Theorem written_text_wf ren (w : wstate E) :
  wf_state w -> words_ok w ->
  exists f, written ren w f /\ wf_file f /\ parse_t4 (print_t4 f) = Some f.
Proof.
  intros Hst Hwo. destruct (write_wf ren w Hst) as [f [Hwf Hf]].
  assert (Hw : written ren w f).
  { destruct Hf as [Hf|[e [Hf _]]]; [left; assumption|right; exists e; assumption]. }
  exists f. split; [assumption|]. split; [assumption|].
  apply parse_print_roundtrip. eapply written_printable; eassumption.
Qed.

End Printable.
