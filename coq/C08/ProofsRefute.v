(* C08 — concrete tables (the ones the real runs of the former witness decks produce,
   surface payloads abstracted to naturals) run through the model: non-vacuity examples for
   the theorems. *)
From Coq Require Import List NArith ZArith Bool String Ascii Lia.
From T4V Require Import Base.Str C08.Model C08.Spec C08.ProofsSets C08.ProofsWrite C08.ProofsPrune C08.Check.
Import ListNotations.
Open Scope string_scope.
Open Scope Z_scope.

Definition sph (r : string) (e : nat) : surface nat := mkSurf "SPHERE" ["0"; "0"; "0"; r] None [] e.
Definition plane (t a : string) (o : list string) (e : nat) : surface nat := mkSurf t [a] None o e.
Definition cell_m1 (live : bool) : cell := mkCell "1" (Some 1) (Some "-1.0") "-1.0" true live.
Definition cell_void : cell := mkCell "0" (Some 0) None "" false false.
Definition mat_h : list (Z * matcard) := [(1, mkMat [("H1", "1.0")] true)].

(* The three defects below were found on the unrepaired code (refutation theorems with
   these witnesses were part of this file) and have been repaired in /repo by the commits
   named; the same tables are now positive examples. *)

(* ---- #7 (fix 3f9f4fd): an empty filler cell is a stand-in empty volume (22), removed by
   remove_empty_volumes together with the intersections that use it ---------------------- *)
Definition surfs7 : stable nat :=
  [(1, sph "2.0" 1); (2, plane "PLANEX" "0.5" ["2"] 2); (3, sph "10.0" 3); (4, sph "1.0" 4);
   (6, plane "PLANEX" "1" ["aux plane for unions"] 6); (7, plane "PLANEX" "-1" ["aux plane for unions"] 7)].

Definition vols7 : vtable :=
  [(22, mkVol [6] [6] None [] true);
   (20, mkVol [] [1] (Some (OInte, [Some 22])) [(10, 1)] true);
   (14, mkVol [] [1] (Some (OInte, [Some 22])) [(10, 1)] false);
   (23, mkVol [] [1; 4] None [(11, 1)] true); (15, mkVol [] [1; 4] None [(11, 1)] false);
   (24, mkVol [4] [1] None [(12, 1)] true); (16, mkVol [4] [1] None [(12, 1)] false);
   (26, mkVol [1] [3] (Some (OInte, [Some 22])) [(10, 2)] true);
   (17, mkVol [1] [3] (Some (OInte, [Some 22])) [(10, 2)] false);
   (28, mkVol [1] [3; 4] None [(11, 2)] true); (18, mkVol [1] [3; 4] None [(11, 2)] false);
   (30, mkVol [1; 4] [3] None [(12, 2)] true); (19, mkVol [1; 4] [3] None [(12, 2)] false)].

Definition w7 (surfs : stable nat) (vols : vtable) : wstate nat :=
  mkW surfs vols [3]
      [(1, cell_void); (2, cell_void); (3, cell_void);
       (10, cell_m1 false); (11, cell_m1 false); (12, cell_m1 false);
       (14, cell_m1 true); (15, cell_m1 true); (16, cell_m1 true);
       (17, cell_m1 true); (18, cell_m1 true); (19, cell_m1 true)]
      mat_h [] [] false false false.

Theorem empty_filler_example :
  refs_ok surfs7 vols7 /\ helpers_ok Nat.eqb surfs7 6 7 /\
  exists surfs' vols' ren' f,
    prune Nat.eqb false surfs7 vols7 6 7 = Ok (surfs', vols', ren') /\
    wf_state (w7 surfs' vols') /\
    write_file ren' (w7 surfs' vols') = Complete f /\ wf_file f /\
    vol_ids f = [15; 16; 18; 19] /\ surf_ids f = [1; 3; 4].
Proof.
  split; [apply refs_okb_sound; vm_compute; reflexivity|]. split.
  { constructor; [apply nodupb_NoDup; vm_compute; reflexivity| |lia].
    eexists. eexists. split; [right; right; right; right; left; reflexivity|].
    split; [right; right; right; right; right; left; reflexivity|]. reflexivity. }
  eexists. eexists. eexists. eexists. split; [vm_compute; reflexivity|].
  split; [apply wf_stateb_sound; vm_compute; reflexivity|].
  split; [vm_compute; reflexivity|].
  split; [apply wf_fileb_ok; vm_compute; reflexivity|].
  split; vm_compute; reflexivity.
Qed.

(* ---- #8 (fix a12128b): user plane equal to a union helper plane; the helper numbers
   follow the renumbering (5 -> 1) ------------------------------------------------------------ *)
Definition surfs8 : stable nat :=
  [(1, plane "PLANEX" "1.0" [] 10); (2, plane "PLANEY" "0.0" [] 20); (3, plane "PLANEY" "0.0" [] 20);
   (5, plane "PLANEX" "1" ["aux plane for unions"] 10); (6, plane "PLANEX" "-1" ["aux plane for unions"] 30)].

Definition vols8 : vtable :=
  [(4, mkVol [2] [3] None [] true); (6, mkVol [] [1] None [] true);
   (5, mkVol [2] [3] (Some (OUnion, [Some 6])) [] true);
   (1, mkVol [2] [3] (Some (OUnion, [Some 6])) [] false);
   (9, mkVol [] [2] None [] true); (10, mkVol [3] [] None [] true);
   (7, mkVol [] [2] (Some (OUnion, [Some 10])) [] true);
   (8, mkVol [1] [] (Some (OInte, [Some 7])) [] true);
   (2, mkVol [1] [] (Some (OInte, [Some 7])) [] false)].

Definition w8 (surfs : stable nat) (vols : vtable) : wstate nat :=
  mkW surfs vols [] [(1, cell_m1 true); (2, mkCell "0" (Some 0) None "" false true)] mat_h [] [] false false false.

Theorem helper_plane_example :
  refs_ok surfs8 vols8 /\ helpers_ok Nat.eqb surfs8 5 6 /\
  exists surfs' vols' ren' f,
    prune Nat.eqb false surfs8 vols8 5 6 = Ok (surfs', vols', ren') /\
    write_file ren' (w8 surfs' vols') = Complete f /\ wf_file f /\
    In "VOLU 1 EQUA PLUS 1 1 MINUS 1 6 UNION 1 6 ENDV"%string (print_file f) /\
    surf_ids f = [1; 2; 6].
Proof.
  split; [apply refs_okb_sound; vm_compute; reflexivity|]. split.
  { constructor; [apply nodupb_NoDup; vm_compute; reflexivity| |lia].
    eexists. eexists. split; [right; right; right; left; reflexivity|].
    split; [right; right; right; right; left; reflexivity|]. reflexivity. }
  eexists. eexists. eexists. eexists. split; [vm_compute; reflexivity|].
  split; [vm_compute; reflexivity|].
  split; [apply wf_fileb_ok; vm_compute; reflexivity|].
  split; [vm_compute; tauto|vm_compute; reflexivity].
Qed.

(* ---- #16 (fix d8902ad): material token "01" ------------------------------------------------- *)
Definition w16 : wstate nat :=
  mkW [(1, sph "2.0" 1)] [(1, mkVol [] [1] None [] false)] []
      [(1, mkCell "01" (Some 1) (Some "-1.0") "-1.0" true true); (2, cell_void)]
      mat_h [] [] false false false.

Theorem leading_zero_example :
  wf_state w16 /\
  exists f g c,
    write_file None w16 = Complete f /\ wf_file f /\
    f_geomcomp f = Some g /\ map gc_name g = ["m1_-1.0"%string] /\
    f_comps f = Some c /\ map cb_name (snd c) = ["m1_-1.0"; "m0"]%string.
Proof.
  split; [apply wf_stateb_sound; vm_compute; reflexivity|].
  eexists. eexists. eexists. split; [vm_compute; reflexivity|].
  split; [apply wf_fileb_ok; vm_compute; reflexivity|].
  do 3 (split; [vm_compute; reflexivity|]). vm_compute. reflexivity.
Qed.

(* ---- open defects: the clause "every non-virtual volume is assigned to a composition that is
   written" fails for decks the converter accepts although MCNP would not: a cell material
   without M card, and a cell with a negative importance (converted because importance != 0,
   but no composition because importance <= 0).  They show that the hypothesis s0_cells /
   ws_cells (cell_named) of the positive theorems cannot be dropped ------------------------------ *)
Definition w_nocard : wstate nat :=
  mkW [(1, sph "2.0" 1)] [(1, mkVol [] [1] None [] false)] []
      [(1, mkCell "7" (Some 7) (Some "-1.0") "-1.0" true true); (2, cell_void)]
      mat_h [] [] false false false.

Definition w_negimp : wstate nat :=
  mkW [(1, sph "2.0" 1)] [(1, mkVol [] [1] None [] false)] []
      [(1, cell_m1 false); (2, cell_void)]        (* importance -1: not "live" for constructCompositionT4 *)
      mat_h [] [] false false false.

Theorem composition_missing_refuted :
  forall w, w = w_nocard \/ w = w_negimp ->
  refs_ok (w_surfs w) (w_vols w) /\ sides_ok (w_vols w) /\
  exists f g c,
    write_file None w = Complete f /\ ~ wf_file f /\
    f_geomcomp f = Some g /\ f_comps f = Some c /\
    (map gc_name g = ["m7_-1.0"%string] \/ map gc_name g = ["m1_-1.0"%string]) /\
    map cb_name (snd c) = ["m0"%string].
Proof.
  intros w [-> | ->].
  - split; [apply refs_okb_sound; vm_compute; reflexivity|].
    split; [apply sides_okb_sound; vm_compute; reflexivity|].
    eexists. eexists. eexists. split; [vm_compute; reflexivity|].
    split; [apply wf_fileb_false; vm_compute; reflexivity|].
    do 2 (split; [vm_compute; reflexivity|]). split; [left|]; vm_compute; reflexivity.
  - split; [apply refs_okb_sound; vm_compute; reflexivity|].
    split; [apply sides_okb_sound; vm_compute; reflexivity|].
    eexists. eexists. eexists. split; [vm_compute; reflexivity|].
    split; [apply wf_fileb_false; vm_compute; reflexivity|].
    do 2 (split; [vm_compute; reflexivity|]). split; [right|]; vm_compute; reflexivity.
Qed.

(* ---- flagged surfaces after the repair of writeT4BoundCond: surface 5 is not used by any
   volume (dropped), surface 3 was merged into surface 2 by de-duplication (listed as 2),
   surface 2 itself is flagged with the same kind (listed once) ------------------------------ *)
Definition w12 : wstate nat :=
  mkW [(1, sph "2.0" 1); (2, plane "PLANEX" "0.5" ["2"] 2); (5, plane "PLANEY" "7.0" ["5"] 5)]
      [(1, mkVol [2] [1] None [] false)] []
      [(1, cell_m1 true); (2, cell_void)] mat_h []
      [(2, "*"%string); (3, "*"%string); (5, "*"%string)] false false false.

Theorem bc_example :
  exists f, write_file (Some [(1, 1); (2, 2); (3, 2); (5, 5)]) w12 = Complete f /\ wf_file f /\
            f_bc f = Some (1%N, [("REFLECTION"%string, 2)]) /\ surf_ids f = [1; 2] /\
  (* two kinds on coincident surfaces: the run raises after a well-formed file without the block *)
  exists f' , write_file (Some [(1, 1); (2, 2); (3, 2); (5, 5)])
                (mkW (w_surfs w12) (w_vols w12) [] (w_cells w12) mat_h []
                     [(2, "*"%string); (3, "+"%string)] false false false) = Raised f' EValue /\
              wf_file f' /\ f_bc f' = None.
Proof.
  eexists. split; [vm_compute; reflexivity|]. split; [apply wf_fileb_ok; vm_compute; reflexivity|].
  do 2 (split; [vm_compute; reflexivity|]).
  eexists. split; [vm_compute; reflexivity|]. split; [apply wf_fileb_ok|]; vm_compute; reflexivity.
Qed.

(* ---- orphan FICTIVE volumes (observed by C16): remove_unused_volumes makes a single pass,
   so when an unused virtual volume (2) is deleted its own operand (3) stays in the table and
   in the file although nothing refers to it any more.  Harmless for C08: every clause of
   wf_file is about what IS referenced (C08_prune_preserves_wf and C08_write_wf cover such
   tables); here is one, with the orphan written as VOLU 3 ... FICTIVE ------------------------ *)
Definition surfs_orphan : stable nat :=
  [(1, sph "2.0" 1); (2, sph "10.0" 2);
   (6, plane "PLANEX" "1" ["aux plane for unions"] 6); (7, plane "PLANEX" "-1" ["aux plane for unions"] 7)].

Definition vols_orphan : vtable :=
  [(1, mkVol [1] [1] (Some (OInte, [Some 2])) [] false);      (* patently empty cell *)
   (2, mkVol [] [1] (Some (OUnion, [Some 3])) [] true);      (* used only by 1 *)
   (3, mkVol [2] [] None [] true);                           (* used only by 2 *)
   (4, mkVol [] [2] None [] false)].

Theorem orphan_fictive_harmless :
  refs_ok surfs_orphan vols_orphan /\
  exists surfs' vols' ren' f,
    prune Nat.eqb false surfs_orphan vols_orphan 6 7 = Ok (surfs', vols', ren') /\
    keys vols' = [3; 4] /\ used_ids vols' = [] /\
    write_file ren' (mkW surfs' vols' [] [(4, cell_m1 true)] mat_h [] [] false false false) = Complete f /\
    wf_file f /\ In "VOLU 3 EQUA PLUS 1 2 FICTIVE ENDV"%string (print_file f).
Proof.
  split; [apply refs_okb_sound; vm_compute; reflexivity|].
  eexists. eexists. eexists. eexists. split; [vm_compute; reflexivity|].
  do 2 (split; [vm_compute; reflexivity|]). split; [vm_compute; reflexivity|].
  split; [apply wf_fileb_ok; vm_compute; reflexivity|vm_compute; tauto].
Qed.

(* ---- non-vacuity: a state with a union, an intersection, a duplicate surface, a skipped
   virtual volume, two materials, a flagged surface; all hypotheses of write_wf and of
   prune_preserves_wf hold, and the whole pipeline produces a well-formed file ---------------- *)
Definition surfs_ex : stable nat :=
  [(1, sph "2.0" 1); (2, plane "PLANEX" "0.5" ["2"] 2); (3, sph "10.0" 3); (4, plane "PLANEX" "0.5" ["4"] 2);
   (7, plane "PLANEX" "1" ["aux plane for unions"] 7); (8, plane "PLANEX" "-1" ["aux plane for unions"] 8)].

Definition vols_ex : vtable :=
  [(20, mkVol [] [1] None [] true);
   (21, mkVol [2] [4] None [] true);                           (* empty after de-duplication *)
   (1, mkVol [7] [8] (Some (OUnion, [Some 20; Some 21])) [] false);
   (22, mkVol [1] [3] None [(10, 2)] true);
   (2, mkVol [2] [] (Some (OInte, [Some 22])) [(10, 2)] false);
   (23, mkVol [3] [] None [] true)].                            (* unused virtual volume *)

Definition w_ex (surfs : stable nat) (vols : vtable) : wstate nat :=
  mkW surfs vols [3]
      [(1, cell_m1 true); (2, mkCell "2" (Some 2) (Some "0.05") "0.05" false true);
       (10, mkCell "2" (Some 2) (Some "0.05") "0.05" false false); (3, cell_void)]
      [(1, mkMat [("H1", "1.0")] true); (2, mkMat [("O16", "1"); ("H1", "2")] true)]
      [(2, "0.05"%string, [("O16"%string, "1.666666666666667e-02"%string); ("H1"%string, "3.333333333333333e-02"%string)])]
      [(4, "*"%string)] false false false.

Theorem example_pipeline :
  refs_ok surfs_ex vols_ex /\ helpers_ok Nat.eqb surfs_ex 7 8 /\
  exists surfs' vols' ren' f,
    prune Nat.eqb false surfs_ex vols_ex 7 8 = Ok (surfs', vols', ren') /\
    wf_state (w_ex surfs' vols') /\
    write_file ren' (w_ex surfs' vols') = Complete f /\ wf_file f /\
    f_bc f = Some (1%N, [("REFLECTION"%string, 2)]) /\
    List.length (f_vols f) = 4%nat /\ surf_ids f = [1; 2; 3; 7; 8].
Proof.
  split; [apply refs_okb_sound; vm_compute; reflexivity|]. split.
  { constructor; [apply nodupb_NoDup; vm_compute; reflexivity| |lia].
    eexists. eexists. split; [right; right; right; right; left; reflexivity|].
    split; [right; right; right; right; right; left; reflexivity|]. reflexivity. }
  eexists. eexists. eexists. eexists. split; [vm_compute; reflexivity|].
  split; [apply wf_stateb_sound; vm_compute; reflexivity|].
  split; [vm_compute; reflexivity|].
  split; [apply wf_fileb_ok; vm_compute; reflexivity|].
  split; [vm_compute; reflexivity|].
  split; vm_compute; reflexivity.
Qed.
