(* C08 — a reader of written TRIPOLI-4 text, character level: the inverse of the model
   printer print_t4 (Model.v).  It is count-driven, the way a TRIPOLI-4 reader consumes the
   text: a keyword is followed by its declared count and then by exactly that many items.
   Executable (the correspondence runs apply it to the bytes of the real files); the round
   trip parse_t4 (print_t4 f) = Some f is proved in ProofsParse.v. *)
From Coq Require Import List NArith ZArith Bool String Ascii.
From T4V Require Import Base.Str C08.Model.
Import ListNotations.
Open Scope string_scope.
Open Scope list_scope.

(* ---- characters --------------------------------------------------------------------- *)
(* s.split(c): k separators give k+1 pieces *)
Fixpoint split_on (c : ascii) (s : string) : list string :=
  match s with
  | "" => [""]
  | String d r =>
      match split_on c r with
      | [] => [""]
      | p :: ps => if Ascii.eqb d c then "" :: p :: ps else String d p :: ps
      end
  end.

Definition words (s : string) : list string := split_on " " s.

Definition nlc : ascii := ascii_of_N 10.

Fixpoint strip_prefix (p s : string) : option string :=
  match p with
  | "" => Some s
  | String a p' =>
      match s with
      | String b s' => if Ascii.eqb a b then strip_prefix p' s' else None
      | "" => None
      end
  end.

(* code part and comment: the code ends at the first " // " *)
Fixpoint split_comment (s : string) : string * option string :=
  match s with
  | "" => ("", None)
  | String d r =>
      match (if Ascii.eqb d " " then strip_prefix "// " r else None) with
      | Some c => ("", Some c)
      | None => let '(code, c) := split_comment r in (String d code, c)
      end
  end.

(* ---- numbers ------------------------------------------------------------------------ *)
Definition parse_N (s : string) : option N := int_of_string s.

Definition parse_Z (s : string) : option Z :=
  match s with
  | String c r =>
      if Ascii.eqb c "-" then match parse_N r with Some n => Some (- Z.of_N n)%Z | None => None end
      else match parse_N s with Some n => Some (Z.of_N n) | None => None end
  | "" => None
  end.

Definition parse_arg (s : string) : option (option Z) :=
  if String.eqb s "None" then Some None
  else match parse_Z s with Some z => Some (Some z) | None => None end.

Fixpoint take_with {A} (f : string -> option A) (n : nat) (ws : list string) : option (list A * list string) :=
  match n with
  | O => Some ([], ws)
  | S m =>
      match ws with
      | w :: r =>
          match f w, take_with f m r with
          | Some a, Some (l, r') => Some (a :: l, r')
          | _, _ => None
          end
      | [] => None
      end
  end.

(* ---- VOLU lines ----------------------------------------------------------------------- *)
Definition read_counted (kw : string) (ws : list string) : option (option (N * list Z) * list string) :=
  match ws with
  | k :: rest =>
      if String.eqb k kw then
        match rest with
        | c :: rest' =>
            match parse_N c with
            | Some n =>
                match take_with parse_Z (N.to_nat n) rest' with
                | Some (l, r) => Some (Some (n, l), r)
                | None => None
                end
            | None => None
            end
        | [] => None
        end
      else Some (None, ws)
  | [] => Some (None, ws)
  end.

Definition read_op (ws : list string) : option (option (opkind * N * list (option Z)) * list string) :=
  match ws with
  | k :: rest =>
      let kind := if String.eqb k "UNION" then Some OUnion
                  else if String.eqb k "INTE" then Some OInte else None in
      match kind with
      | None => Some (None, ws)
      | Some op =>
          match rest with
          | c :: rest' =>
              match parse_N c with
              | Some n =>
                  match take_with parse_arg (N.to_nat n) rest' with
                  | Some (l, r) => Some (Some (op, n, l), r)
                  | None => None
                  end
              | None => None
              end
          | [] => None
          end
      end
  | [] => Some (None, ws)
  end.

Definition read_tail (ws : list string) : option bool :=
  match ws with
  | [a] => if String.eqb a "ENDV" then Some false else None
  | [a; b] => if String.eqb a "FICTIVE" && String.eqb b "ENDV" then Some true else None
  | _ => None
  end.

Definition read_volu_body (ws : list string)
  : option (option (N * list Z) * option (N * list Z) * option (opkind * N * list (option Z)) * bool) :=
  match ws with
  | e :: r0 =>
      if String.eqb e "EQUA" then
        match read_counted "PLUS" r0 with
        | Some (p, r1) =>
            match read_counted "MINUS" r1 with
            | Some (m, r2) =>
                match read_op r2 with
                | Some (o, r3) =>
                    match read_tail r3 with
                    | Some f => Some (p, m, o, f)
                    | None => None
                    end
                | None => None
                end
            | None => None
            end
        | None => None
        end
      else None
  | [] => None
  end.

Definition read_volu_line (line : string) : option volu_line :=
  let '(code, cmt) := split_comment line in
  match words code with
  | v :: k :: body =>
      if String.eqb v "VOLU" then
        match parse_Z k, read_volu_body body with
        | Some id, Some (p, m, o, f) => Some (mkVL id p m o f cmt)
        | _, _ => None
        end
      else None
  | _ => None
  end.

(* ---- SURF lines ------------------------------------------------------------------------ *)
(* (number, number after the TRANSFORM marker if present, type, parameters, comment) *)
Definition read_surf_line (line : string)
  : option (Z * option Z * string * list string * option string) :=
  let '(code, cmt) := split_comment line in
  match words code with
  | s :: k :: rest =>
      if String.eqb s "SURF" then
        match parse_Z k with
        | Some id =>
            match rest with
            | t :: rest' =>
                if String.eqb t "TRANSFORM" then
                  match rest' with
                  | k2 :: ty :: params =>
                      match parse_Z k2 with
                      | Some tid => Some (id, Some tid, ty, params, cmt)
                      | None => None
                      end
                  | _ => None
                  end
                else Some (id, None, t, rest', cmt)
            | [] => None
            end
        | None => None
        end
      else None
  | _ => None
  end.

Definition read_transform_line (line : string) : option (Z * list string) :=
  match words line with
  | t :: k :: m :: entries =>
      if String.eqb t "TRANSFORM" && String.eqb m "MATRIX" then
        match parse_Z k with Some id => Some (id, entries) | None => None end
      else None
  | _ => None
  end.

(* SURF block up to and including the empty line that ends it *)
Fixpoint parse_surfs (ls : list string) : option (list surf_line * list string) :=
  match ls with
  | [] => None
  | l :: r =>
      if String.eqb l "" then Some ([], r)
      else
        match read_transform_line l with
        | Some (tid, entries) =>
            match r with
            | l2 :: r2 =>
                match read_surf_line l2 with
                | Some (id, Some tid2, ty, params, cmt) =>
                    if (id =? tid)%Z && (tid2 =? tid)%Z then
                      match parse_surfs r2 with
                      | Some (sl, rest) => Some (mkSL id (Some entries) ty params cmt :: sl, rest)
                      | None => None
                      end
                    else None
                | _ => None
                end
            | [] => None
            end
        | None =>
            match read_surf_line l with
            | Some (id, None, ty, params, cmt) =>
                match parse_surfs r with
                | Some (sl, rest) => Some (mkSL id None ty params cmt :: sl, rest)
                | None => None
                end
            | _ => None
            end
        end
  end.

Fixpoint parse_vols (ls : list string) : option (list volu_line * list string) :=
  match ls with
  | [] => None
  | l :: r =>
      if String.eqb l "" then Some ([], r)
      else
        match read_volu_line l, parse_vols r with
        | Some v, Some (vl, rest) => Some (v :: vl, rest)
        | _, _ => None
        end
  end.

(* ---- COMPOSITION ------------------------------------------------------------------------ *)
Definition read_comp_head (line : string) : option (string * string * option (string * bool) * N) :=
  match words line with
  | [ty; t; name; c] =>
      if String.eqb t "300" then
        match parse_N c with Some n => Some (ty, name, None, n) | None => None end
      else None
  | [ty; t; name; d; nb; c] =>
      if String.eqb t "300" then
        match parse_N c with
        | Some n =>
            if String.eqb nb "NB_ATOM" then Some (ty, name, Some (d, true), n)
            else if String.eqb nb "" then Some (ty, name, Some (d, false), n)
            else None
        | None => None
        end
      else None
  | _ => None
  end.

Definition read_item (line : string) : option (string * string) :=
  match words line with
  | [a; b; iso; amount] => if String.eqb a "" && String.eqb b "" then Some (iso, amount) else None
  | _ => None
  end.

Definition read_comp (ls : list string) : option (comp_block * list string) :=
  match ls with
  | h :: r =>
      match read_comp_head h with
      | Some (ty, name, dens, n) =>
          if (n =? 0)%N then
            match r with
            | e :: r' => if String.eqb e "  " then Some (mkCB ty name dens n [], r') else None
            | [] => None
            end
          else
            match take_with read_item (N.to_nat n) r with
            | Some (items, r') => Some (mkCB ty name dens n items, r')
            | None => None
            end
      | None => None
      end
  | [] => None
  end.

Fixpoint read_comps (fuel : nat) (ls : list string) : option (list comp_block * list string) :=
  match fuel with
  | O => Some ([], ls)
  | S m =>
      match read_comp ls with
      | Some (b, r) =>
          match read_comps m r with
          | Some (bs, r') => Some (b :: bs, r')
          | None => None
          end
      | None => None
      end
  end.

(* an optional block starts with an empty line and its header *)
Definition starts_block (name : string) (ls : list string) : option (list string) :=
  match ls with
  | e :: h :: r => if String.eqb e "" && String.eqb h name then Some r else None
  | _ => None
  end.

Definition parse_comps (ls : list string) : option (option (N * list comp_block) * list string) :=
  match starts_block "COMPOSITION" ls with
  | None => Some (None, ls)
  | Some r =>
      match r with
      | c :: r1 =>
          match parse_N c with
          | Some n =>
              match read_comps (N.to_nat n) r1 with
              | Some (bs, r2) =>
                  match r2 with
                  | e :: t :: r3 =>
                      if String.eqb e "" && String.eqb t "END_COMPOSITION" then Some (Some (n, bs), r3)
                      else None
                  | _ => None
                  end
              | None => None
              end
          | None => None
          end
      | [] => None
      end
  end.

(* ---- GEOMCOMP ----------------------------------------------------------------------------- *)
Definition read_gc (line : string) : option gc_line :=
  match words line with
  | name :: c :: vs =>
      match parse_N c with
      | Some n =>
          if (n =? 0)%N then
            match vs with
            | [e] => if String.eqb e "" then Some (mkGC name n []) else None
            | _ => None
            end
          else
            match take_with parse_Z (N.to_nat n) vs with
            | Some (l, []) => Some (mkGC name n l)
            | _ => None
            end
      | None => None
      end
  | _ => None
  end.

Fixpoint read_gcs (ls : list string) : option (list gc_line * list string) :=
  match ls with
  | [] => None
  | l :: r =>
      if String.eqb l "END_GEOMCOMP" then Some ([], r)
      else
        match read_gc l, read_gcs r with
        | Some g, Some (gs, rest) => Some (g :: gs, rest)
        | _, _ => None
        end
  end.

Definition parse_geomcomp (ls : list string) : option (option (list gc_line) * list string) :=
  match starts_block "GEOMCOMP" ls with
  | None => Some (None, ls)
  | Some r => match read_gcs r with Some (gs, rest) => Some (Some gs, rest) | None => None end
  end.

(* ---- BOUNDARY_CONDITION ---------------------------------------------------------------------- *)
Definition read_bc (line : string) : option (string * Z) :=
  match words line with
  | [a; kind; k] =>
      if String.eqb a "ALL_COMPLETE" then
        match parse_Z k with Some id => Some (kind, id) | None => None end
      else None
  | _ => None
  end.

Definition parse_bc (ls : list string) : option (option (N * list (string * Z)) * list string) :=
  match starts_block "BOUNDARY_CONDITION" ls with
  | None => Some (None, ls)
  | Some r =>
      match r with
      | c :: r1 =>
          match parse_N c with
          | Some n =>
              match take_with read_bc (N.to_nat n) r1 with
              | Some (l, e :: r2) =>
                  if String.eqb e "END_BOUNDARY_CONDITION" then Some (Some (n, l), r2) else None
              | _ => None
              end
          | None => None
          end
      | [] => None
      end
  end.

(* ---- the file ------------------------------------------------------------------------------------ *)
Fixpoint strip_lines (p ls : list string) : option (list string) :=
  match p with
  | [] => Some ls
  | a :: p' =>
      match ls with
      | b :: ls' => if String.eqb a b then strip_lines p' ls' else None
      | [] => None
      end
  end.

Definition parse_lines (ls : list string) : option file :=
  match strip_lines geometry_head ls with
  | None => None
  | Some r0 =>
      match parse_surfs r0 with
      | None => None
      | Some (sl, r1) =>
          match parse_vols r1 with
          | None => None
          | Some (vl, r2) =>
              match r2 with
              | e :: r3 =>
                  if String.eqb e "ENDG" then
                    match parse_comps r3 with
                    | None => None
                    | Some (comps, r4) =>
                        match parse_geomcomp r4 with
                        | None => None
                        | Some (gc, r5) =>
                            match parse_bc r5 with
                            | Some (bc, []) => Some (mkFile sl vl comps gc bc)
                            | _ => None
                            end
                        end
                    end
                  else None
              | [] => None
              end
          end
      end
  end.

(* inverse of unlines: the text must end with a newline *)
Definition lines_of (s : string) : option (list string) :=
  let ps := split_on nlc s in
  match rev ps with
  | last :: _ => if String.eqb last "" then Some (removelast ps) else None
  | [] => None
  end.

Definition parse_t4 (s : string) : option file :=
  match lines_of s with
  | Some ls => parse_lines ls
  | None => None
  end.
