(* C08 — round trip: the reader of Parse.v applied to the text the model printer emits
   gives back the abstract file, for every file whose word fields are words (no blank, no
   newline; no '/' in the code part of SURF lines) and whose declared counts are right. *)
From Coq Require Import List NArith ZArith Bool String Ascii Lia.
From T4V Require Import Base.Str C08.Model C08.Spec C08.Parse C08.ProofsChars.
Import ListNotations.
Open Scope string_scope.
Open Scope list_scope.

(* ---- what the printer is given -------------------------------------------------------- *)
Definition tok2 (s : string) : Prop := free " " s /\ free nlc s.
Definition tok3 (s : string) : Prop := free " " s /\ free nlc s /\ free "/" s.
Definition cmt_ok (c : option string) : Prop := match c with None => True | Some c => free nlc c end.

Record printable_surf (s : surf_line) : Prop := mk_ps {
  ps_type : tok3 (sl_type s);
  ps_not_marker : String.eqb (sl_type s) "TRANSFORM" = false;
  ps_params : Forall tok3 (sl_params s);
  ps_transform : match sl_transform s with None => True | Some t => Forall tok2 t end;
  ps_comment : cmt_ok (sl_comment s) }.

Record printable_volu (v : volu_line) : Prop := mk_pv {
  pv_plus : declared_ok (vl_plus v);
  pv_minus : declared_ok (vl_minus v);
  pv_op : match vl_op v with None => True | Some (_, n, args) => n = N.of_nat (List.length args) end;
  pv_comment : cmt_ok (vl_comment v) }.

Record printable_comp (b : comp_block) : Prop := mk_pc {
  pc_type : tok2 (cb_type b);
  pc_name : tok2 (cb_name b);
  pc_density : match cb_density b with None => True | Some (d, _) => tok2 d end;
  pc_items : Forall (fun p => tok2 (fst p) /\ tok2 (snd p)) (cb_items b);
  pc_count : cb_count b = N.of_nat (List.length (cb_items b)) }.

Definition printable_gc (g : gc_line) : Prop :=
  tok2 (gc_name g) /\ gc_count g = N.of_nat (List.length (gc_vols g)).

Record printable (f : file) : Prop := mk_printable {
  pr_surfs : Forall printable_surf (f_surfs f);
  pr_vols : Forall printable_volu (f_vols f);
  pr_comps : match f_comps f with
             | None => True
             | Some c => fst c = N.of_nat (List.length (snd c)) /\ Forall printable_comp (snd c)
             end;
  pr_gc : match f_geomcomp f with None => True | Some g => Forall printable_gc g end;
  pr_bc : match f_bc f with
          | None => True
          | Some b => fst b = N.of_nat (List.length (snd b)) /\ Forall (fun p => tok2 (fst p)) (snd b)
          end }.

(* ---- generic ---------------------------------------------------------------------------- *)
Lemma words_join ws : ws <> [] -> Forall (free " ") ws -> words (join " " ws) = ws.
Proof. intros. unfold words. apply (split_join " "); assumption. Qed.

Lemma append_assoc a b c : (a +++ b) +++ c = a +++ (b +++ c).
Proof. induction a as [|x a IH]; simpl; [reflexivity|]. rewrite IH. reflexivity. Qed.

(* freeness of the generated words, for a separator character c *)
Section WordsFree.
Variable c : ascii.
Hypothesis c_digit : is_digit c = false.
Hypothesis c_minus : Ascii.eqb c "-" = false.
Hypothesis c_kw : forall k, In k ["SURF"; "TRANSFORM"; "MATRIX"; "VOLU"; "EQUA"; "PLUS"; "MINUS"; "UNION"; "INTE";
                                   "FICTIVE"; "ENDV"; "None"; "300"; "NB_ATOM"; ""; "ALL_COMPLETE"] -> free c k.

Lemma counted_words_free kw x : free c kw -> Forall (free c) (counted_words kw x).
Proof.
  intros Hk. destruct x as [[n l]|]; simpl; [|constructor].
  constructor; [assumption|]. constructor; [apply dec_free; assumption|].
  apply Forall_forall. intros w Hw. apply in_map_iff in Hw. destruct Hw as [z [<- _]].
  apply dec_Z_free; assumption.
Qed.

Lemma volu_words_free v : Forall (free c) (volu_words v).
Proof.
  unfold volu_words. repeat (apply Forall_app; split).
  - constructor; [apply c_kw; simpl; tauto|constructor].
  - apply counted_words_free. apply c_kw. simpl. tauto.
  - apply counted_words_free. apply c_kw. simpl. tauto.
  - destruct (vl_op v) as [[[op n] args]|]; [|constructor].
    constructor; [destruct op; apply c_kw; simpl; tauto|].
    constructor; [apply dec_free; assumption|].
    apply Forall_forall. intros w Hw. apply in_map_iff in Hw. destruct Hw as [[z|] [<- _]]; simpl.
    + apply dec_Z_free; assumption.
    + apply c_kw. simpl. tauto.
  - destruct (vl_fictive v); [constructor; [apply c_kw; simpl; tauto|constructor]|constructor].
Qed.

Lemma volu_line_words_free v : Forall (free c) (["VOLU"; dec_Z (vl_id v)] ++ volu_words v ++ ["ENDV"]).
Proof.
  constructor; [apply c_kw; simpl; tauto|]. constructor; [apply dec_Z_free; assumption|].
  apply Forall_app. split; [apply volu_words_free|]. constructor; [apply c_kw; simpl; tauto|constructor].
Qed.

Lemma surf_words_free s :
  free c (sl_type s) -> Forall (free c) (sl_params s) -> Forall (free c) (surf_words s).
Proof.
  intros Ht Hp. unfold surf_words.
  constructor; [apply c_kw; simpl; tauto|]. constructor; [apply dec_Z_free; assumption|].
  apply Forall_app. split.
  - destruct (sl_transform s); [|constructor].
    constructor; [apply c_kw; simpl; tauto|]. constructor; [apply dec_Z_free; assumption|constructor].
  - constructor; assumption.
Qed.

Lemma gc_words_free g : free c (gc_name g) -> Forall (free c) (gc_words g).
Proof.
  intros Hn. unfold gc_words. constructor; [assumption|]. constructor; [apply dec_free; assumption|].
  destruct (gc_vols g) as [|z l] eqn:E.
  - constructor; [apply c_kw; simpl; tauto|constructor].
  - rewrite <- E. apply Forall_forall. intros w Hw. apply in_map_iff in Hw. destruct Hw as [z' [<- _]].
    apply dec_Z_free; assumption.
Qed.
End WordsFree.

Lemma blank_facts :
  is_digit " " = false /\ Ascii.eqb " " "-" = false /\
  forall k, In k ["SURF"; "TRANSFORM"; "MATRIX"; "VOLU"; "EQUA"; "PLUS"; "MINUS"; "UNION"; "INTE";
                  "FICTIVE"; "ENDV"; "None"; "300"; "NB_ATOM"; ""; "ALL_COMPLETE"] -> free " " k.
Proof.
  split; [reflexivity|]. split; [reflexivity|]. intros k Hk. simpl in Hk.
  repeat (destruct Hk as [<-|Hk]; [reflexivity|]). destruct Hk.
Qed.

Lemma nl_facts :
  is_digit nlc = false /\ Ascii.eqb nlc "-" = false /\
  forall k, In k ["SURF"; "TRANSFORM"; "MATRIX"; "VOLU"; "EQUA"; "PLUS"; "MINUS"; "UNION"; "INTE";
                  "FICTIVE"; "ENDV"; "None"; "300"; "NB_ATOM"; ""; "ALL_COMPLETE"] -> free nlc k.
Proof.
  split; [reflexivity|]. split; [reflexivity|]. intros k Hk. simpl in Hk.
  repeat (destruct Hk as [<-|Hk]; [reflexivity|]). destruct Hk.
Qed.

Lemma slash_facts :
  is_digit "/" = false /\ Ascii.eqb "/" "-" = false /\
  forall k, In k ["SURF"; "TRANSFORM"; "MATRIX"; "VOLU"; "EQUA"; "PLUS"; "MINUS"; "UNION"; "INTE";
                  "FICTIVE"; "ENDV"; "None"; "300"; "NB_ATOM"; ""; "ALL_COMPLETE"] -> free "/" k.
Proof.
  split; [reflexivity|]. split; [reflexivity|]. intros k Hk. simpl in Hk.
  repeat (destruct Hk as [<-|Hk]; [reflexivity|]). destruct Hk.
Qed.

Ltac facts F := destruct F as [?Fd [?Fm ?Fk]].

(* a line made of a code part (words joined by blanks) and a comment *)
Lemma code_line_read ws cmt :
  ws <> [] -> Forall (free " ") ws -> Forall (free "/") ws ->
  split_comment (join " " ws +++ comment_str cmt) = (join " " ws, cmt) /\ words (join " " ws) = ws.
Proof.
  intros Hne Hb Hs. split; [|apply words_join; assumption].
  apply split_comment_spec. apply (free_join "/" " "); [reflexivity|assumption].
Qed.

Lemma code_line_free ws cmt :
  Forall (free nlc) ws -> cmt_ok cmt -> free nlc (join " " ws +++ comment_str cmt).
Proof.
  intros Hw Hc. apply free_app; [apply (free_join nlc " "); [reflexivity|assumption]|].
  destruct cmt as [c|]; simpl; [|reflexivity]. unfold free. simpl. exact Hc.
Qed.

(* ---- VOLU --------------------------------------------------------------------------------- *)
Lemma read_counted_words kw x rest :
  declared_ok x ->
  (forall k r, rest = k :: r -> String.eqb k kw = false) ->
  read_counted kw (counted_words kw x ++ rest) = Some (x, rest).
Proof.
  intros Hd Hrest. destruct x as [[n l]|]; simpl.
  - rewrite String.eqb_refl, parse_N_dec. simpl in Hd. subst n. rewrite Nat2N.id.
    rewrite (take_with_app parse_Z dec_Z l rest parse_Z_dec). reflexivity.
  - destruct rest as [|k r]; [reflexivity|]. unfold read_counted. rewrite (Hrest k r eq_refl). reflexivity.
Qed.

Lemma read_volu_body_words v :
  printable_volu v ->
  read_volu_body (volu_words v ++ ["ENDV"]) = Some (vl_plus v, vl_minus v, vl_op v, vl_fictive v).
Proof.
  intros [Hp Hm Ho _]. unfold volu_words, read_volu_body. cbn [app]. rewrite String.eqb_refl.
  rewrite <- !app_assoc.
  rewrite read_counted_words; [|assumption|].
  2:{ intros k r Hr. destruct (vl_minus v) as [[n l]|]; simpl in Hr.
      - inversion Hr; subst. reflexivity.
      - destruct (vl_op v) as [[[[|] n] args]|]; simpl in Hr.
        + inversion Hr; subst. reflexivity.
        + inversion Hr; subst. reflexivity.
        + destruct (vl_fictive v); simpl in Hr; inversion Hr; subst; reflexivity. }
  rewrite read_counted_words; [|assumption|].
  2:{ intros k r Hr. destruct (vl_op v) as [[[[|] n] args]|]; simpl in Hr.
      - inversion Hr; subst. reflexivity.
      - inversion Hr; subst. reflexivity.
      - destruct (vl_fictive v); simpl in Hr; inversion Hr; subst; reflexivity. }
  destruct (vl_op v) as [[[op n] args]|].
  - subst n. destruct op; simpl; rewrite parse_N_dec, Nat2N.id;
      rewrite (take_with_app parse_arg opt_str args _ parse_arg_opt_str);
      destruct (vl_fictive v); reflexivity.
  - simpl. destruct (vl_fictive v); reflexivity.
Qed.

Lemma read_volu_line_print v : printable_volu v -> read_volu_line (print_volu v) = Some v.
Proof.
  intros Hv. unfold read_volu_line, print_volu.
  facts blank_facts. facts slash_facts.
  destruct (code_line_read (["VOLU"; dec_Z (vl_id v)] ++ volu_words v ++ ["ENDV"]) (vl_comment v)) as [E1 E2].
  - discriminate.
  - apply volu_line_words_free; assumption.
  - apply volu_line_words_free; assumption.
  - rewrite E1, E2. cbn [app]. rewrite String.eqb_refl, parse_Z_dec, read_volu_body_words by assumption.
    destruct v; reflexivity.
Qed.

Lemma print_volu_nonempty v : String.eqb (print_volu v) "" = false.
Proof. reflexivity. Qed.

Lemma parse_vols_print vl rest :
  Forall printable_volu vl -> parse_vols (map print_volu vl ++ "" :: rest) = Some (vl, rest).
Proof.
  induction vl as [|v r IH]; intros H; [reflexivity|].
  inversion H as [|? ? Hv Hr]; subst. cbn [map app parse_vols].
  rewrite print_volu_nonempty, read_volu_line_print by assumption. rewrite IH by assumption. reflexivity.
Qed.

(* ---- SURF --------------------------------------------------------------------------------- *)
Lemma tok3_lists s : printable_surf s ->
  Forall (free " ") (surf_words s) /\ Forall (free "/") (surf_words s) /\ Forall (free nlc) (surf_words s).
Proof.
  intros [[T1 [T2 T3]] _ Hp _ _].
  facts blank_facts. facts slash_facts. facts nl_facts.
  repeat split; apply surf_words_free; try assumption;
    apply Forall_forall; intros w Hw; rewrite Forall_forall in Hp; destruct (Hp w Hw) as [A [B C]]; assumption.
Qed.

Lemma read_surf_line_print s : printable_surf s ->
  read_surf_line (join " " (surf_words s) +++ comment_str (sl_comment s)) =
  Some (sl_id s, match sl_transform s with None => None | Some _ => Some (sl_id s) end,
        sl_type s, sl_params s, sl_comment s).
Proof.
  intros Hs. destruct (tok3_lists s Hs) as [Hb [Hsl _]].
  unfold read_surf_line.
  destruct (code_line_read (surf_words s) (sl_comment s)) as [E1 E2]; try assumption.
  { unfold surf_words. discriminate. }
  rewrite E1, E2. unfold surf_words. cbn [app]. rewrite String.eqb_refl, parse_Z_dec.
  destruct (sl_transform s) as [t|]; cbn [app].
  - rewrite String.eqb_refl, parse_Z_dec. reflexivity.
  - rewrite (ps_not_marker s Hs). reflexivity.
Qed.

Lemma words_head w rest : free " " w -> words (w +++ String " " rest) = w :: words rest.
Proof. intros. unfold words. apply split_on_app. assumption. Qed.

(* a SURF line is not a TRANSFORM line *)
Lemma surf_line_not_transform s :
  read_transform_line (join " " (surf_words s) +++ comment_str (sl_comment s)) = None.
Proof.
  unfold read_transform_line, surf_words. cbn [app]. rewrite join_cons2.
  rewrite append_assoc. change (" " +++ ?x) with (String " " x).
  change (" " +++ join " " (dec_Z (sl_id s)
     :: (match sl_transform s with Some _ => ["TRANSFORM"; dec_Z (sl_id s)] | None => [] end) ++
        sl_type s :: sl_params s)) with
    (String " " (join " " (dec_Z (sl_id s)
     :: (match sl_transform s with Some _ => ["TRANSFORM"; dec_Z (sl_id s)] | None => [] end) ++
        sl_type s :: sl_params s))).
  simpl String.append at 1.
  match goal with |- context [words (String "S" (String "U" (String "R" (String "F" (String " " ?r)))))] =>
    change (String "S" (String "U" (String "R" (String "F" (String " " r))))) with ("SURF" +++ String " " r)
  end.
  rewrite words_head by reflexivity.
  match goal with |- context [words ?x] => destruct (words x) as [|k [|m e]] end; reflexivity.
Qed.

Lemma transform_line_read id t :
  Forall tok2 t ->
  read_transform_line (join " " ("TRANSFORM" :: dec_Z id :: "MATRIX" :: t)) = Some (id, t).
Proof.
  intros Ht. unfold read_transform_line. facts blank_facts.
  rewrite words_join.
  - rewrite !String.eqb_refl, parse_Z_dec. reflexivity.
  - discriminate.
  - constructor; [reflexivity|]. constructor; [apply dec_Z_free; assumption|]. constructor; [reflexivity|].
    apply Forall_forall. intros w Hw. rewrite Forall_forall in Ht. apply (Ht w Hw).
Qed.

Lemma parse_surfs_print sl rest :
  Forall printable_surf sl -> parse_surfs (flat_map print_surf sl ++ "" :: rest) = Some (sl, rest).
Proof.
  induction sl as [|s r IH]; intros H; [reflexivity|].
  inversion H as [|? ? Hs Hr]; subst. specialize (IH Hr).
  cbn [flat_map]. unfold print_surf at 1. destruct (sl_transform s) as [t|] eqn:Et.
  - rewrite <- ?app_assoc. cbn [app parse_surfs].
    assert (Hne : String.eqb (join " " ("TRANSFORM" :: dec_Z (sl_id s) :: "MATRIX" :: t)) "" = false).
    { rewrite join_cons2. reflexivity. }
    rewrite Hne. rewrite transform_line_read.
    2:{ pose proof (ps_transform s Hs) as P. rewrite Et in P. exact P. }
    rewrite (read_surf_line_print s Hs), Et. rewrite !Z.eqb_refl. cbn [andb]. rewrite IH.
    destruct s; simpl in *; subst; reflexivity.
  - rewrite <- ?app_assoc. cbn [app parse_surfs].
    assert (Hne : String.eqb (join " " (surf_words s) +++ comment_str (sl_comment s)) "" = false).
    { unfold surf_words. cbn [app]. rewrite join_cons2. reflexivity. }
    rewrite Hne, surf_line_not_transform, (read_surf_line_print s Hs), Et, IH.
    destruct s; simpl in *; subst; reflexivity.
Qed.

(* ---- COMPOSITION ---------------------------------------------------------------------------- *)
Lemma read_item_print p : tok2 (fst p) /\ tok2 (snd p) ->
  read_item (join " " [""; ""; fst p; snd p]) = Some p.
Proof.
  intros [[A _] [B _]]. unfold read_item. rewrite words_join.
  - destruct p; reflexivity.
  - discriminate.
  - repeat constructor; assumption.
Qed.

Lemma read_comp_head_print b : printable_comp b ->
  read_comp_head (join " " (comp_head_words b)) = Some (cb_type b, cb_name b, cb_density b, cb_count b).
Proof.
  intros [[T _] [Nm _] Hd _ _]. unfold read_comp_head, comp_head_words. facts blank_facts.
  destruct (cb_density b) as [[d nb]|].
  - destruct Hd as [Hd _]. rewrite words_join.
    + rewrite String.eqb_refl, parse_N_dec. destruct nb; reflexivity.
    + discriminate.
    + repeat constructor; try assumption; try (apply dec_free; assumption); destruct nb; reflexivity.
  - rewrite words_join.
    + rewrite String.eqb_refl, parse_N_dec. reflexivity.
    + discriminate.
    + repeat constructor; try assumption; apply dec_free; assumption.
Qed.

Lemma read_comp_print b rest : printable_comp b -> read_comp (print_comp b ++ rest) = Some (b, rest).
Proof.
  intros Hb. unfold read_comp, print_comp. cbn [app]. rewrite read_comp_head_print by assumption.
  pose proof (pc_count b Hb) as Hc. pose proof (pc_items b Hb) as Hi.
  destruct (cb_items b) as [|it its] eqn:Ei.
  - simpl in Hc. rewrite Hc. cbn [N.eqb app]. simpl.
    destruct b; simpl in *; subst; reflexivity.
  - rewrite <- Ei in *. assert (Hn : (cb_count b =? 0)%N = false).
    { rewrite Hc, Ei. simpl. reflexivity. }
    rewrite Hn, Hc, Nat2N.id.
    assert (Ht : take_with read_item (List.length (cb_items b))
                   (map (fun p => join " " [""; ""; fst p; snd p]) (cb_items b) ++ rest) = Some (cb_items b, rest)).
    { clear - Hi. induction (cb_items b) as [|p r IH]; [reflexivity|].
      inversion Hi as [|? ? Hp Hr]; subst. cbn [List.length map app take_with].
      rewrite read_item_print by assumption. rewrite IH by assumption. reflexivity. }
    rewrite Ei in *. cbn [app] in *. rewrite <- Ei in Ht.
    match goal with |- context [take_with read_item ?n ?l] =>
      replace (take_with read_item n l) with (Some (cb_items b, rest)) end.
    + destruct b; simpl in *; subst; reflexivity.
    + rewrite <- Ht. rewrite Ei. reflexivity.
Qed.

Lemma read_comps_print bs rest :
  Forall printable_comp bs -> read_comps (List.length bs) (flat_map print_comp bs ++ rest) = Some (bs, rest).
Proof.
  induction bs as [|b r IH]; intros H; [reflexivity|].
  inversion H as [|? ? Hb Hr]; subst. cbn [List.length flat_map read_comps].
  rewrite <- app_assoc, read_comp_print by assumption. rewrite IH by assumption. reflexivity.
Qed.

Lemma parse_comps_print c rest :
  fst c = N.of_nat (List.length (snd c)) -> Forall printable_comp (snd c) ->
  parse_comps (print_comps c ++ rest) = Some (Some c, rest).
Proof.
  intros Hc Hb. unfold parse_comps, print_comps. cbn [app starts_block]. simpl String.eqb. cbn [andb].
  rewrite parse_N_dec, Hc, Nat2N.id, <- app_assoc, read_comps_print by assumption.
  cbn [app]. simpl String.eqb. cbn [andb]. destruct c; simpl in *; subst; reflexivity.
Qed.

(* ---- GEOMCOMP ---------------------------------------------------------------------------------- *)
Lemma read_gc_print g : printable_gc g -> read_gc (print_gc g) = Some g.
Proof.
  intros [[Hn _] Hc]. unfold read_gc, print_gc. facts blank_facts.
  rewrite words_join; [|unfold gc_words; discriminate|apply gc_words_free; assumption].
  unfold gc_words. cbn [app]. rewrite parse_N_dec.
  destruct (gc_vols g) as [|z l] eqn:E.
  - simpl in Hc. rewrite Hc. simpl. destruct g; simpl in *; subst; reflexivity.
  - rewrite <- E in *. assert (Hz : (gc_count g =? 0)%N = false) by (rewrite Hc, E; reflexivity).
    rewrite Hz, Hc, Nat2N.id.
    pose proof (take_with_app parse_Z dec_Z (gc_vols g) [] parse_Z_dec) as Ht. rewrite app_nil_r in Ht.
    rewrite Ht. destruct g; simpl in *; subst; reflexivity.
Qed.

Lemma print_gc_not_end g : String.eqb (print_gc g) "END_GEOMCOMP" = false.
Proof.
  destruct (String.eqb (print_gc g) "END_GEOMCOMP") eqn:E; [|reflexivity].
  apply String.eqb_eq in E. exfalso.
  assert (H : contains_char " " (print_gc g) = true).
  { unfold print_gc, gc_words. cbn [app]. rewrite join_cons2, contains_app.
    apply orb_true_iff. right. reflexivity. }
  rewrite E in H. discriminate.
Qed.

Lemma read_gcs_print gs rest :
  Forall printable_gc gs -> read_gcs (map print_gc gs ++ "END_GEOMCOMP" :: rest) = Some (gs, rest).
Proof.
  induction gs as [|g r IH]; intros H; [reflexivity|].
  inversion H as [|? ? Hg Hr]; subst. cbn [map app read_gcs].
  rewrite print_gc_not_end, read_gc_print by assumption. rewrite IH by assumption. reflexivity.
Qed.

Lemma parse_geomcomp_print gs rest :
  Forall printable_gc gs -> parse_geomcomp (print_geomcomp gs ++ rest) = Some (Some gs, rest).
Proof.
  intros H. unfold parse_geomcomp, print_geomcomp. cbn [app starts_block]. simpl String.eqb. cbn [andb].
  rewrite <- app_assoc. cbn [app]. rewrite read_gcs_print by assumption. reflexivity.
Qed.

(* ---- BOUNDARY_CONDITION ------------------------------------------------------------------------ *)
Lemma read_bc_print p : tok2 (fst p) -> read_bc (join " " ["ALL_COMPLETE"; fst p; dec_Z (snd p)]) = Some p.
Proof.
  intros [Hk _]. unfold read_bc. facts blank_facts. rewrite words_join.
  - rewrite String.eqb_refl, parse_Z_dec. destruct p; reflexivity.
  - discriminate.
  - repeat constructor; try assumption. apply dec_Z_free; assumption.
Qed.

Lemma parse_bc_print b rest :
  fst b = N.of_nat (List.length (snd b)) -> Forall (fun p => tok2 (fst p)) (snd b) ->
  parse_bc (print_bc b ++ rest) = Some (Some b, rest).
Proof.
  intros Hc Hk. unfold parse_bc, print_bc. cbn [app starts_block]. simpl String.eqb. cbn [andb].
  rewrite parse_N_dec, Hc, Nat2N.id, <- app_assoc.
  assert (Ht : forall l, Forall (fun p => tok2 (fst p)) l -> forall tl,
            take_with read_bc (List.length l)
              (map (fun p => join " " ["ALL_COMPLETE"; fst p; dec_Z (snd p)]) l ++ tl) = Some (l, tl)).
  { induction l as [|p r IH]; intros H tl; [reflexivity|].
    inversion H as [|? ? Hp Hr]; subst. cbn [List.length map app take_with].
    rewrite read_bc_print by assumption. rewrite IH by assumption. reflexivity. }
  rewrite Ht by assumption. cbn [app]. simpl String.eqb. destruct b; simpl in *; subst; reflexivity.
Qed.

(* ---- the file -------------------------------------------------------------------------------------- *)
Lemma parse_comps_skip ls :
  (forall r, ls <> "" :: "COMPOSITION" :: r) ->
  (ls = [] \/ exists h r, ls = "" :: h :: r /\ String.eqb h "COMPOSITION" = false) ->
  parse_comps ls = Some (None, ls).
Proof.
  intros _ [->|[h [r [-> Hh]]]]; [reflexivity|]. unfold parse_comps, starts_block.
  simpl String.eqb at 1. cbn [andb]. rewrite Hh. reflexivity.
Qed.

Theorem parse_lines_print f : printable f -> parse_lines (print_file f) = Some f.
Proof.
  intros [Hs Hv Hc Hg Hb]. unfold parse_lines, print_file.
  change (strip_lines geometry_head (geometry_head ++ ?x)) with (strip_lines geometry_head (geometry_head ++ x)).
  assert (Hstrip : forall x, strip_lines geometry_head (geometry_head ++ x) = Some x) by (intros x; reflexivity).
  rewrite Hstrip. cbn [app]. rewrite parse_surfs_print by assumption.
  rewrite parse_vols_print by assumption. simpl String.eqb at 1.
  destruct f as [sl vl comps gc bc]. cbn [f_comps f_geomcomp f_bc f_surfs f_vols opt_lines] in *.
  destruct comps as [c|]; cbn [opt_lines app].
  - destruct Hc as [Hc1 Hc2]. rewrite parse_comps_print by assumption.
    destruct gc as [g|]; cbn [opt_lines].
    + rewrite parse_geomcomp_print by assumption.
      destruct bc as [b|]; cbn [opt_lines].
      * destruct Hb as [Hb1 Hb2]. pose proof (parse_bc_print b [] Hb1 Hb2) as P. rewrite app_nil_r in P.
        rewrite P. reflexivity.
      * reflexivity.
    + cbn [app]. destruct bc as [b|]; cbn [opt_lines app].
      * destruct Hb as [Hb1 Hb2]. pose proof (parse_bc_print b [] Hb1 Hb2) as P. rewrite app_nil_r in P.
        assert (Hgc : parse_geomcomp (print_bc b) = Some (None, print_bc b)) by reflexivity.
        rewrite Hgc, P. reflexivity.
      * reflexivity.
  - destruct gc as [g|]; cbn [opt_lines].
    + assert (Hcs : forall x, parse_comps (print_geomcomp g ++ x) = Some (None, print_geomcomp g ++ x)) by (intros; reflexivity).
      rewrite Hcs, parse_geomcomp_print by assumption.
      destruct bc as [b|]; cbn [opt_lines].
      * destruct Hb as [Hb1 Hb2]. pose proof (parse_bc_print b [] Hb1 Hb2) as P. rewrite app_nil_r in P.
        rewrite P. reflexivity.
      * reflexivity.
    + destruct bc as [b|]; cbn [opt_lines app].
      * destruct Hb as [Hb1 Hb2]. pose proof (parse_bc_print b [] Hb1 Hb2) as P. rewrite app_nil_r in P.
        assert (Hcs : parse_comps (print_bc b) = Some (None, print_bc b)) by reflexivity.
        assert (Hgc : parse_geomcomp (print_bc b) = Some (None, print_bc b)) by reflexivity.
        rewrite Hcs, Hgc, P. reflexivity.
      * reflexivity.
Qed.

(* ---- no printed line contains a newline ----------------------------------------------------------- *)
Lemma words_line_free ws : Forall (free nlc) ws -> free nlc (join " " ws).
Proof. intros H. apply (free_join nlc " "); [reflexivity|assumption]. Qed.

Lemma print_file_lines_free f : printable f -> Forall (free nlc) (print_file f).
Proof.
  intros [Hs Hv Hc Hg Hb]. facts nl_facts. unfold print_file.
  repeat (apply Forall_app; split).
  - repeat constructor.
  - apply Forall_forall. intros l Hl. apply in_flat_map in Hl. destruct Hl as [s [Hin Hl]].
    rewrite Forall_forall in Hs. specialize (Hs s Hin). unfold print_surf in Hl.
    apply in_app_or in Hl. destruct Hl as [Hl|[<-|[]]].
    + pose proof (ps_transform s Hs) as Pt. destruct (sl_transform s) as [t|]; [|destruct Hl].
      destruct Hl as [<-|[]]. apply words_line_free.
      constructor; [reflexivity|]. constructor; [apply dec_Z_free; assumption|]. constructor; [reflexivity|].
      apply Forall_forall. intros w Hw. rewrite Forall_forall in Pt. apply (Pt w Hw).
    + apply code_line_free; [apply (tok3_lists s Hs)|apply (ps_comment s Hs)].
  - repeat constructor.
  - apply Forall_forall. intros l Hl. apply in_map_iff in Hl. destruct Hl as [v [<- Hin]].
    rewrite Forall_forall in Hv. unfold print_volu.
    apply code_line_free; [apply volu_line_words_free; assumption|apply (pv_comment v (Hv v Hin))].
  - repeat constructor.
  - destruct (f_comps f) as [c|]; [|constructor]. destruct Hc as [_ Hc]. cbn [opt_lines]. unfold print_comps.
    repeat (apply Forall_app; split).
    + constructor; [reflexivity|]. constructor; [reflexivity|]. constructor; [apply dec_free; assumption|constructor].
    + apply Forall_forall. intros l Hl. apply in_flat_map in Hl. destruct Hl as [b [Hin Hl]].
      rewrite Forall_forall in Hc. destruct (Hc b Hin) as [[_ T] [_ Nm] Hd Hi _]. unfold print_comp in Hl.
      destruct Hl as [<-|Hl].
      * apply words_line_free. unfold comp_head_words. destruct (cb_density b) as [[d nb]|].
        -- destruct Hd as [_ Hd]. repeat constructor; try assumption; try (apply dec_free; assumption).
           destruct nb; reflexivity.
        -- repeat constructor; try assumption. apply dec_free; assumption.
      * destruct (cb_items b) as [|it its] eqn:Ei.
        -- destruct Hl as [<-|[]]. reflexivity.
        -- rewrite <- Ei in *. apply in_map_iff in Hl. destruct Hl as [p [<- Hp]].
           rewrite Forall_forall in Hi. destruct (Hi p Hp) as [[_ A] [_ B]].
           apply words_line_free. repeat constructor; assumption.
    + repeat constructor.
  - destruct (f_geomcomp f) as [g|]; [|constructor]. cbn [opt_lines]. unfold print_geomcomp.
    repeat (apply Forall_app; split).
    + repeat constructor.
    + apply Forall_forall. intros l Hl. apply in_map_iff in Hl. destruct Hl as [x [<- Hin]].
      rewrite Forall_forall in Hg. destruct (Hg x Hin) as [[_ Nm] _].
      apply words_line_free. apply gc_words_free; assumption.
    + repeat constructor.
  - destruct (f_bc f) as [b|]; [|constructor]. destruct Hb as [_ Hb]. cbn [opt_lines]. unfold print_bc.
    repeat (apply Forall_app; split).
    + constructor; [reflexivity|]. constructor; [reflexivity|]. constructor; [apply dec_free; assumption|constructor].
    + apply Forall_forall. intros l Hl. apply in_map_iff in Hl. destruct Hl as [p [<- Hin]].
      rewrite Forall_forall in Hb. destruct (Hb p Hin) as [_ K].
      apply words_line_free. constructor; [reflexivity|]. constructor; [assumption|].
      constructor; [apply dec_Z_free; assumption|constructor].
    + repeat constructor.
Qed.

(* ---- the round trip, character level, all blocks -------------------------------------------------- *)
Theorem parse_print_roundtrip f : printable f -> parse_t4 (print_t4 f) = Some f.
Proof.
  intros Hf. unfold parse_t4, print_t4.
  rewrite lines_of_unlines by (apply print_file_lines_free; assumption).
  apply parse_lines_print. assumption.
Qed.
