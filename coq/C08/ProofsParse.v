(* C08 — a count-driven reader of the token stream of a VOLU line (the way a TRIPOLI-4
   reader consumes it: each keyword is followed by a count and then by exactly that many
   items), and the round trip with the model printer's token stream. *)
From Coq Require Import List NArith ZArith Bool String Ascii Lia.
From T4V Require Import Base.Str C08.Model C08.Spec.
Import ListNotations.
Open Scope string_scope.

(* exactly n surface numbers *)
Fixpoint take_ids (n : nat) (toks : list tok) : option (list Z * list tok) :=
  match n with
  | O => Some ([], toks)
  | S m =>
      match toks with
      | TZ z :: r => match take_ids m r with Some (l, r') => Some (z :: l, r') | None => None end
      | _ => None
      end
  end.

(* exactly n operands: a number, or the word None the unrepaired code could print *)
Fixpoint take_args (n : nat) (toks : list tok) : option (list (option Z) * list tok) :=
  match n with
  | O => Some ([], toks)
  | S m =>
      match toks with
      | TZ z :: r => match take_args m r with Some (l, r') => Some (Some z :: l, r') | None => None end
      | TNone :: r => match take_args m r with Some (l, r') => Some (None :: l, r') | None => None end
      | _ => None
      end
  end.

Definition read_counted (kw : string) (toks : list tok) : option (option (N * list Z) * list tok) :=
  match toks with
  | TW k :: rest =>
      if String.eqb k kw then
        match rest with
        | TN n :: rest' =>
            match take_ids (N.to_nat n) rest' with
            | Some (l, r) => Some (Some (n, l), r)
            | None => None
            end
        | _ => None
        end
      else Some (None, toks)
  | _ => Some (None, toks)
  end.

Definition read_op (toks : list tok) : option (option (opkind * N * list (option Z)) * list tok) :=
  match toks with
  | TW k :: rest =>
      let kind := if String.eqb k "UNION" then Some OUnion
                  else if String.eqb k "INTE" then Some OInte else None in
      match kind with
      | None => Some (None, toks)
      | Some op =>
          match rest with
          | TN n :: rest' =>
              match take_args (N.to_nat n) rest' with
              | Some (l, r) => Some (Some (op, n, l), r)
              | None => None
              end
          | _ => None
          end
      end
  | _ => Some (None, toks)
  end.

(* the body of a VOLU line between the number and ENDV: (plus, minus, operator, FICTIVE) *)
Definition read_volu (toks : list tok)
  : option (option (N * list Z) * option (N * list Z) * option (opkind * N * list (option Z)) * bool) :=
  match toks with
  | TW "EQUA" :: r0 =>
      match read_counted "PLUS" r0 with
      | None => None
      | Some (p, r1) =>
          match read_counted "MINUS" r1 with
          | None => None
          | Some (m, r2) =>
              match read_op r2 with
              | None => None
              | Some (o, r3) =>
                  match r3 with
                  | [] => Some (p, m, o, false)
                  | [TW "FICTIVE"] => Some (p, m, o, true)
                  | _ => None
                  end
              end
          end
      end
  | _ => None
  end.

Lemma take_ids_app l rest : take_ids (List.length l) (map TZ l ++ rest) = Some (l, rest).
Proof. induction l as [|z r IH]; simpl; [reflexivity|]. rewrite IH. reflexivity. Qed.

Lemma take_args_app l rest : take_args (List.length l) (map opt_tok l ++ rest) = Some (l, rest).
Proof.
  induction l as [|[z|] r IH]; simpl; [reflexivity| |]; rewrite IH; reflexivity.
Qed.

Lemma read_counted_tokens kw x rest :
  declared_ok x ->
  (forall k r, rest = TW k :: r -> String.eqb k kw = false) ->
  read_counted kw (counted_tokens kw x ++ rest) = Some (x, rest).
Proof.
  intros Hd Hrest. destruct x as [[n l]|]; simpl.
  - rewrite String.eqb_refl. simpl in Hd. subst n. rewrite Nat2N.id, take_ids_app. reflexivity.
  - destruct rest as [|[k| | |] r]; try reflexivity.
    unfold read_counted. rewrite (Hrest k r eq_refl). reflexivity.
Qed.

(* every line the model printer emits is read back by the count-driven reader: the declared
   counts delimit the lists exactly (with a wrong count the reader stops in the wrong place) *)
Theorem volu_tokens_roundtrip (v : volu_line) :
  declared_ok (vl_plus v) -> declared_ok (vl_minus v) ->
  match vl_op v with None => True | Some (_, n, args) => n = N.of_nat (List.length args) end ->
  read_volu (volu_tokens v) = Some (vl_plus v, vl_minus v, vl_op v, vl_fictive v).
Proof.
  intros Hp Hm Ho. unfold volu_tokens, read_volu. cbn [app].
  rewrite read_counted_tokens; [|assumption|].
  2:{ intros k r Hr. destruct (vl_minus v) as [[n l]|]; simpl in Hr.
      - inversion Hr; subst. reflexivity.
      - destruct (vl_op v) as [[[[|] n] args]|]; simpl in Hr.
        + inversion Hr; subst. reflexivity.
        + inversion Hr; subst. reflexivity.
        + destruct (vl_fictive v); simpl in Hr; [inversion Hr; subst; reflexivity|discriminate]. }
  rewrite read_counted_tokens; [|assumption|].
  2:{ intros k r Hr. destruct (vl_op v) as [[[[|] n] args]|]; simpl in Hr.
      - inversion Hr; subst. reflexivity.
      - inversion Hr; subst. reflexivity.
      - destruct (vl_fictive v); simpl in Hr; [inversion Hr; subst; reflexivity|discriminate]. }
  destruct (vl_op v) as [[[op n] args]|].
  - subst n. destruct op; simpl; rewrite Nat2N.id, take_args_app; destruct (vl_fictive v); reflexivity.
  - simpl. destruct (vl_fictive v); reflexivity.
Qed.

(* in particular every volume of every table: volu_line_of always declares the right counts *)
Corollary volu_line_of_roundtrip k v :
  let l := volu_line_of k v in
  read_volu (volu_tokens l) = Some (vl_plus l, vl_minus l, vl_op l, vl_fictive l).
Proof.
  cbv zeta. apply volu_tokens_roundtrip.
  - unfold volu_line_of, counted. simpl. destruct (mkset (v_plus v)); simpl; [exact I|reflexivity].
  - unfold volu_line_of, counted. simpl. destruct (mkset (v_minus v)); simpl; [exact I|reflexivity].
  - unfold volu_line_of. simpl. destruct (v_ops v) as [[op args]|]; [reflexivity|exact I].
Qed.

(* and a wrong count is detected: one item more than declared leaves a number where a
   keyword (or the end) is expected *)
Example wrong_count_rejected :
  read_volu [TW "EQUA"; TW "MINUS"; TN 0; TZ 7] = None /\
  read_volu [TW "EQUA"; TW "PLUS"; TN 2; TZ 7; TW "FICTIVE"] = None.
Proof. split; reflexivity. Qed.
