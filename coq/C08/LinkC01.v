(* C08 link to C01: the volume-number part of stage0_ok (distinct keys, no None operand,
   every operand is a key of the table) is DERIVED from C01's theorems for the table that
   C01's model of construct_volume_t4's conversion loop produces (C01.Model.convert_cells from
   the empty state), instead of being assumed; C08's end-to-end theorem then runs from cell
   trees to the characters of the file.  C01's files are imported read-only. *)
From Coq Require Import List NArith ZArith Bool String Ascii Lia Reals.
From T4V Require C01.Model C01.Spec C01.ProofsT4 C01.ProofsCells C01.ProofsWritten.
From T4V Require Import C08.LinkC01a C08.LinkC01b.
From T4V Require Import Base.Str Base.Scalar C08.Model C08.Spec C08.ProofsSets C08.ProofsPrune C08.ProofsTail
     C08.SurfEq C08.Parse C08.ProofsGiven C08.ProofsEnd.
Import ListNotations.

Module M1 := T4V.C01.Model.

(* ---- C01's VolumeT4 table read as C08's ------------------------------------------------ *)
Definition tr_op (o : M1.op) : opkind := match o with M1.OInter => OInte | M1.OUnion => OUnion end.

Definition tr_vol (v : M1.vol) : volume :=
  mkVol (M1.v_plus v) (M1.v_minus v)
        (match M1.v_ops v with Some (o, ids) => Some (tr_op o, ids) | None => None end)
        (M1.v_orig v) (M1.v_fict v).

Definition tr_table (d : M1.dict M1.vol) : vtable := map (fun kv => (fst kv, tr_vol (snd kv))) d.

Lemma tr_keys d : keys (tr_table d) = M1.keys d.
Proof. unfold tr_table, keys, M1.keys. rewrite map_map. reflexivity. Qed.

Lemma tr_In k v d : In (k, v) (tr_table d) -> exists v1, In (k, v1) d /\ v = tr_vol v1.
Proof.
  unfold tr_table. intros H. apply in_map_iff in H. destruct H as [[k1 v1] [E H]].
  inversion E; subst. exists v1. split; [assumption|reflexivity].
Qed.

Lemma tr_operands v1 : operands (tr_vol v1) = ops_ids (M1.v_ops v1).
Proof. unfold operands, tr_vol, ops_ids. simpl. destruct (M1.v_ops v1) as [[o ids]|]; reflexivity. Qed.

Lemma m1_lookup_In {V} k (v : V) (d : M1.dict V) :
  NoDup (M1.keys d) -> In (k, v) d -> M1.lookup k d = Some v.
Proof.
  induction d as [|[k1 v1] r IH]; simpl; intros Hnd Hin; [destruct Hin|].
  inversion Hnd as [|? ? Hn Hr]; subst. destruct Hin as [Hin|Hin].
  - inversion Hin; subst. rewrite Z.eqb_refl. reflexivity.
  - destruct (k =? k1)%Z eqn:E; [|apply IH; assumption].
    apply Z.eqb_eq in E. subst. exfalso. apply Hn. unfold M1.keys. apply in_map_iff.
    exists (k1, v). split; [reflexivity|assumption].
Qed.

Lemma m1_lookup_keys {V} k (d : M1.dict V) : M1.lookup k d <> None -> In k (M1.keys d).
Proof.
  induction d as [|[k1 v1] r IH]; simpl; [congruence|].
  destruct (k =? k1)%Z eqn:E; [apply Z.eqb_eq in E; subst; left; reflexivity|].
  intros H. right. apply IH. assumption.
Qed.

(* the part of refs_ok that concerns volume numbers, for C01's table *)
Theorem c01_table_refs fuel cells matching u0 u1 todo cnt0 s' :
  M1.convert_cells fuel cells matching u0 u1 todo (M1.mkSt cnt0 [] [] []) = M1.Ok s' ->
  NoDup (keys (tr_table (M1.vols s'))) /\
  forall k v x, In (k, v) (tr_table (M1.vols s')) -> In x (operands v) ->
    exists j, x = Some j /\ In j (keys (tr_table (M1.vols s'))).
Proof.
  intros H.
  pose proof (T4V.C01.ProofsWritten.convert_cells_keys _ _ _ _ _ _ _ _ H) as Hnd.
  assert (Hnone : T4V.C01.ProofsT4.nonone (M1.vols s')).
  { apply (T4V.C01.ProofsCells.convert_cells_nonone _ _ _ _ _ _ _ _ H). intros k v Hl. discriminate. }
  pose proof (convert_cells_closed _ _ _ _ _ _ _ _ H) as Hcl.
  rewrite tr_keys. split; [assumption|].
  intros k v x Hin Hx. destruct (tr_In _ _ _ Hin) as [v1 [Hin1 ->]]. rewrite tr_operands in Hx.
  pose proof (m1_lookup_In k v1 _ Hnd Hin1) as Hl.
  specialize (Hnone k v1 Hl). unfold T4V.C01.Spec.ops_ok in Hnone. unfold ops_ids in Hx.
  destruct (M1.v_ops v1) as [[o ids]|] eqn:Eo; [|destruct Hx].
  rewrite forallb_forall in Hnone. specialize (Hnone x Hx). destruct x as [j|]; [|discriminate].
  exists j. split; [reflexivity|]. apply m1_lookup_keys. apply (Hcl k v1 Hl j).
  unfold ops_ids. rewrite Eo. assumption.
Qed.

(* ---- the linked end-to-end theorem ---------------------------------------------------------- *)
(* what is still asked of the tables beside the volume table: surface numbers are entries of
   the surface dictionary, the helper planes, the skip list, the cells behind the non-virtual
   volumes, word-ness of the strings *)
Record stage0_rest (u0 u1 : Z) (w : wstate (spayload R)) : Prop := mk_stage0_rest {
  sr_surfs : forall k v s, In (k, v) (w_vols w) -> In s (surface_ids v) -> In s (keys (w_surfs w));
  sr_helpers : helpers_ok Req_payload (w_surfs w) u0 u1;
  sr_nonempty : w_vols w <> [];
  sr_skipped : forall k, In k (w_skipped w) -> ~ In k (keys (w_vols w));
  sr_cells : forall k v, In (k, v) (w_vols w) -> v_fictive v = false ->
             exists c, lookup (vol_cell_id k v) (w_cells w) = Some c /\ cell_named w c;
  sr_norm : forall cid c, In (cid, c) (w_cells w) -> norm_fixed c;
  sr_words : words_ok w }.

Theorem convert_wf_linked :
  forall fuel cells matching u0 u1 todo cnt0 s' skip_dedup (w : wstate (spayload R)),
  (* the volume table is the one C01's model of the conversion loop builds from the cell trees *)
  M1.convert_cells fuel cells matching u0 u1 todo (M1.mkSt cnt0 [] [] []) = M1.Ok s' ->
  w_vols w = tr_table (M1.vols s') ->
  stage0_rest u0 u1 w ->
  exists o, convert_tail Req_payload skip_dedup u0 u1 w = Ok o /\
    (o = Died false [] EValue \/
     exists f, (o = Complete f \/ exists e, o = Raised f e) /\
               wf_file f /\ parse_t4 (print_t4 f) = Some f /\
               forall finite : string -> Prop,
                 Forall finite (state_numbers w) -> Forall finite (file_numbers f)).
Proof.
  intros fuel cells matching u0 u1 todo cnt0 s' skip_dedup w Hrun Hv [Hs Hh Hne Hsk Hc Hn Hw].
  destruct (c01_table_refs _ _ _ _ _ _ _ _ Hrun) as [Hnd Hops]. rewrite <- Hv in *.
  apply (convert_tail_text_wf Req_payload Req_payload_sym Req_payload_trans); [|assumption].
  constructor; try assumption. constructor; assumption.
Qed.

(* the surface numbers too: they are TRIPOLI-4 numbers of `matching` (number_items) or the
   helper planes (C08/LinkC01b.v), so "entries of the surface dictionary" is asked of
   `matching` only *)
Theorem c01_table_surfs fuel cells matching u0 u1 todo cnt0 s' (allowed : list Z) :
  (forall key ids, M1.lookup key matching = Some ids -> Forall (fun x => In (Z.abs x) allowed) ids) ->
  (0 < u0)%Z -> (0 < u1)%Z -> In u0 allowed -> In u1 allowed ->
  M1.convert_cells fuel cells matching u0 u1 todo (M1.mkSt cnt0 [] [] []) = M1.Ok s' ->
  forall k v s, In (k, v) (tr_table (M1.vols s')) -> In s (surface_ids v) -> In s allowed.
Proof.
  intros Hm H0 H1 I0 I1 H k v s Hin Hs.
  pose proof (T4V.C01.ProofsWritten.convert_cells_keys _ _ _ _ _ _ _ _ H) as Hnd.
  destruct (tr_In _ _ _ Hin) as [v1 [Hin1 ->]].
  pose proof (m1_lookup_In k v1 _ Hnd Hin1) as Hl.
  eapply (convert_cells_surfs allowed matching Hm u0 u1 H0 H1 I0 I1 _ _ _ _ _ H); eassumption.
Qed.

Record stage0_rest2 (u0 u1 : Z) (matching : M1.dict (list Z)) (w : wstate (spayload R)) : Prop := mk_stage0_rest2 {
  s2_matching : forall key ids, M1.lookup key matching = Some ids ->
                Forall (fun x => In (Z.abs x) (keys (w_surfs w))) ids;
  s2_pos : (0 < u0)%Z /\ (0 < u1)%Z;
  s2_helpers : helpers_ok Req_payload (w_surfs w) u0 u1;
  s2_nonempty : w_vols w <> [];
  s2_skipped : forall k, In k (w_skipped w) -> ~ In k (keys (w_vols w));
  s2_cells : forall k v, In (k, v) (w_vols w) -> v_fictive v = false ->
             exists c, lookup (vol_cell_id k v) (w_cells w) = Some c /\ cell_named w c;
  s2_norm : forall cid c, In (cid, c) (w_cells w) -> norm_fixed c;
  s2_words : words_ok w }.

Theorem convert_wf_linked_surfaces :
  forall fuel cells matching u0 u1 todo cnt0 s' skip_dedup (w : wstate (spayload R)),
  M1.convert_cells fuel cells matching u0 u1 todo (M1.mkSt cnt0 [] [] []) = M1.Ok s' ->
  w_vols w = tr_table (M1.vols s') ->
  stage0_rest2 u0 u1 matching w ->
  exists o, convert_tail Req_payload skip_dedup u0 u1 w = Ok o /\
    (o = Died false [] EValue \/
     exists f, (o = Complete f \/ exists e, o = Raised f e) /\
               wf_file f /\ parse_t4 (print_t4 f) = Some f /\
               forall finite : string -> Prop,
                 Forall finite (state_numbers w) -> Forall finite (file_numbers f)).
Proof.
  intros fuel cells matching u0 u1 todo cnt0 s' skip_dedup w Hrun Hv [Hm [P0 P1] Hh Hne Hsk Hc Hn Hw].
  apply (convert_wf_linked fuel cells matching u0 u1 todo cnt0 s' skip_dedup w Hrun Hv).
  constructor; try assumption.
  destruct Hh as [_ [s0 [s1 [A [B _]]]] _].
  intros k v s Hin Hs. rewrite Hv in Hin.
  eapply (c01_table_surfs fuel cells matching u0 u1 todo cnt0 s' (keys (w_surfs w)) Hm P0 P1);
    try eassumption; eapply in_keys; eassumption.
Qed.

(* ---- non-vacuity: C01's example deck (five cells, a union, a cell reference) run through
   C01's model, its table handed to C08's pipeline ------------------------------------------- *)
From T4V Require Import C08.Check C08.CheckText.
From Coq Require Import Lra.
Open Scope string_scope.

Definition ex_s' : M1.st :=
  match M1.convert_cells 6 T4V.C01.ProofsCells.ex_cells T4V.C01.ProofsCells.ex_matching 6 7
                         T4V.C01.ProofsCells.ex_todo (M1.mkSt 50 [] [] []) with
  | M1.Ok s => s
  | M1.Err _ => M1.mkSt 0 [] [] []
  end.

Definition ex_sph (k : string) (r : string) (x : R) : surface (spayload R) :=
  mkSurf "SPHERE" ["0"; "0"; "0"; r] None [k] ("SPHERE", [0%R; 0%R; 0%R; x], None).
Definition ex_px (a : string) (x : R) : surface (spayload R) :=
  mkSurf "PLANEX" [a] None ["aux plane for unions"] ("PLANEX", [x], None).

Definition ex_surfs : stable (spayload R) :=
  [(1%Z, ex_sph "1" "1.0" 1%R); (2%Z, ex_sph "2" "2.0" 2%R); (3%Z, ex_sph "3" "3.0" 3%R);
   (4%Z, ex_sph "4" "4.0" 4%R); (6%Z, ex_px "1" 1%R); (7%Z, ex_px "-1" (-1)%R)].

Definition ex_cell (live : bool) : cell := mkCell "1" (Some 1%Z) (Some "-1.0") "-1.0" true live.

Definition ex_w : wstate (spayload R) :=
  mkW ex_surfs (tr_table (M1.vols ex_s')) [40%Z]
      [(10%Z, ex_cell true); (20%Z, ex_cell true); (30%Z, ex_cell true); (40%Z, ex_cell false);
       (50%Z, ex_cell false)]
      [(1%Z, mkMat [("H1", "1.0")] true)] [] [] false false false.

Lemma ex_run_ok :
  M1.convert_cells 6 T4V.C01.ProofsCells.ex_cells T4V.C01.ProofsCells.ex_matching 6 7
                   T4V.C01.ProofsCells.ex_todo (M1.mkSt 50 [] [] []) = M1.Ok ex_s'.
Proof. vm_compute. reflexivity. Qed.

Lemma ex_rest : stage0_rest 6 7 ex_w.
Proof.
  constructor.
  - assert (H : forallb (fun p => forallb (fun s => zmem s (keys (w_surfs ex_w))) (surface_ids (snd p)))
                        (w_vols ex_w) = true) by (vm_compute; reflexivity).
    intros k v s Hin Hs. rewrite forallb_forall in H. specialize (H (k, v) Hin). simpl in H.
    rewrite forallb_forall in H. apply zmem_In. apply H. assumption.
  - constructor.
    + apply nodupb_NoDup. vm_compute. reflexivity.
    + exists (ex_px "1" 1%R), (ex_px "-1" (-1)%R). split; [simpl; tauto|]. split; [simpl; tauto|].
      unfold Req_payload, spayload_eqb, ex_px. simpl.
      assert (Reqb 1 (-1) = false) as -> by (apply Reqb_false; lra). reflexivity.
    + lia.
  - vm_compute. discriminate.
  - assert (H : forallb (fun k => negb (zmem k (keys (w_vols ex_w)))) (w_skipped ex_w) = true) by (vm_compute; reflexivity).
    intros k Hk. rewrite forallb_forall in H. apply zmem_false. apply negb_true_iff. apply H. assumption.
  - assert (H : forallb (fun p => v_fictive (snd p)
                       || match lookup (vol_cell_id (fst p) (snd p)) (w_cells ex_w) with
                          | Some c => cell_namedb ex_w c
                          | None => false
                          end) (w_vols ex_w) = true) by (vm_compute; reflexivity).
    intros k v Hin Hf. rewrite forallb_forall in H. specialize (H (k, v) Hin). cbn [fst snd] in H.
    rewrite Hf in H. cbn [orb] in H. destruct (lookup (vol_cell_id k v) (w_cells ex_w)) as [c|]; [|discriminate].
    exists c. split; [reflexivity|]. apply cell_namedb_sound. assumption.
  - intros cid c Hin d Hd. simpl in Hin.
    repeat (destruct Hin as [Hin|Hin]; [inversion Hin; subst; simpl in Hd; inversion Hd; reflexivity|]).
    destruct Hin.
  - apply words_okb_sound. vm_compute. reflexivity.
Qed.

Example convert_wf_linked_example :
  M1.convert_cells 6 T4V.C01.ProofsCells.ex_cells T4V.C01.ProofsCells.ex_matching 6 7
                   T4V.C01.ProofsCells.ex_todo (M1.mkSt 50 [] [] []) = M1.Ok ex_s' /\
  w_vols ex_w = tr_table (M1.vols ex_s') /\ stage0_rest 6 7 ex_w /\
  List.length (w_vols ex_w) = 9%nat /\
  map fst (filter (fun p => negb (v_fictive (snd p))) (w_vols ex_w)) = [10; 20; 30]%Z.
Proof.
  split; [exact ex_run_ok|]. split; [reflexivity|]. split; [exact ex_rest|].
  split; vm_compute; reflexivity.
Qed.
