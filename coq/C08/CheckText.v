(* C08 — executable versions of the text-level hypotheses: words_ok (sound) and a concrete
   "finite number" predicate on numeric spellings, for the correspondence runs. *)
From Coq Require Import List NArith ZArith Bool String Ascii Lia.
From T4V Require Import Base.Str C08.Model C08.Spec C08.Parse C08.ProofsChars C08.ProofsParse C08.ProofsGiven.
Import ListNotations.
Open Scope string_scope.
Open Scope list_scope.

(* ---- a plain finite decimal number: [+-] digits [. digits] [(e|E) [+-] digits], at least one
   digit in the mantissa; conservative magnitude bound (integer part <= 10 digits and
   exponent <= 290, or no exponent and <= 300 digits): everything accepted is a finite
   binary64 value; inf, nan, 1e999 are rejected ------------------------------------------------ *)
Fixpoint span_digits (s : string) : nat * string :=
  match s with
  | String c r => if is_digit c then let '(n, rest) := span_digits r in (S n, rest) else (O, s)
  | "" => (O, "")
  end.

Definition strip_sign (s : string) : bool * string :=
  match s with
  | String c r => if Ascii.eqb c "-" then (true, r) else if Ascii.eqb c "+" then (false, r) else (false, s)
  | "" => (false, "")
  end.

Definition finiteb (s : string) : bool :=
  let '(_, s1) := strip_sign s in
  let '(n1, r1) := span_digits s1 in
  let '(n2, r2) := match r1 with
                   | String c r => if Ascii.eqb c "." then span_digits r else (O, r1)
                   | "" => (O, r1)
                   end in
  if Nat.eqb (n1 + n2) 0 then false
  else match r2 with
       | "" => Nat.leb n1 300
       | String c r =>
           if Ascii.eqb c "e" || Ascii.eqb c "E" then
             let '(neg, r3) := strip_sign r in
             let '(n3, r4) := span_digits r3 in
             String.eqb r4 "" && negb (Nat.eqb n3 0)
             && (neg || (Nat.leb n1 10 && match parse_N r3 with Some e => (e <=? 290)%N | None => false end))
           else false
       end.

Example finiteb_samples :
  map finiteb ["0"; "2.0"; "-0.5"; ".5"; "6.e-2"; "1.666666666666667e-02"; "1E-30"; "300"; "1e+20"]
  = [true; true; true; true; true; true; true; true; true] /\
  map finiteb ["inf"; "-inf"; "nan"; "1e999"; ""; "-"; "."; "1e"; "1.0.0"; "None"; "0x10"]
  = [false; false; false; false; false; false; false; false; false; false; false].
Proof. split; reflexivity. Qed.

Definition file_numbers_okb (f : file) : bool := forallb finiteb (file_numbers f).

(* ---- words ---------------------------------------------------------------------------------- *)
Definition freeb (c : ascii) (s : string) : bool := negb (contains_char c s).

Lemma freeb_ok c s : freeb c s = true -> free c s.
Proof. unfold freeb, free. intros H. apply negb_true_iff in H. assumption. Qed.

Definition tok2b (s : string) : bool := freeb " " s && freeb nlc s.
Definition tok3b (s : string) : bool := tok2b s && freeb "/" s.

Lemma tok2b_ok s : tok2b s = true -> tok2 s.
Proof. unfold tok2b. intros H. apply andb_true_iff in H. destruct H. split; apply freeb_ok; assumption. Qed.

Lemma tok3b_ok s : tok3b s = true -> tok3 s.
Proof.
  unfold tok3b. intros H. apply andb_true_iff in H. destruct H as [H1 H2]. apply tok2b_ok in H1.
  destruct H1. repeat split; try assumption. apply freeb_ok. assumption.
Qed.

Lemma forallb_Forall {A} (p : A -> bool) (P : A -> Prop) l :
  (forall x, p x = true -> P x) -> forallb p l = true -> Forall P l.
Proof.
  intros H Hf. apply Forall_forall. intros x Hx. apply H. rewrite forallb_forall in Hf. apply Hf. assumption.
Qed.

Section WordsB.
Context {E : Type}.

Definition pairs_tok2b (l : list (string * string)) : bool :=
  forallb (fun p => tok2b (fst p) && tok2b (snd p)) l.

Lemma pairs_tok2b_ok l : pairs_tok2b l = true -> Forall (fun p => tok2 (fst p) /\ tok2 (snd p)) l.
Proof.
  apply forallb_Forall. intros p H. apply andb_true_iff in H. destruct H. split; apply tok2b_ok; assumption.
Qed.

Definition words_okb (w : wstate E) : bool :=
  forallb (fun p => let s := snd p in
             tok3b (s_type s) && negb (String.eqb (s_type s) "TRANSFORM") && forallb tok3b (s_params s)
             && match s_transform s with None => true | Some t => forallb tok2b t end
             && forallb (freeb nlc) (s_origin s)) (w_surfs w)
  && forallb (fun p => tok2b (c_density_norm (snd p))
                       && match c_density (snd p) with Some d => tok2b d | None => true end) (w_cells w)
  && forallb (fun p => pairs_tok2b (m_fractions (snd p))) (w_mats w)
  && forallb (fun e => pairs_tok2b (snd e)) (w_rescaled w).

Theorem words_okb_sound w : words_okb w = true -> words_ok w.
Proof.
  unfold words_okb. rewrite !andb_true_iff, !forallb_forall. intros [[[A B] C] D]. constructor.
  - intros k s Hin. specialize (A (k, s) Hin). simpl in A. rewrite !andb_true_iff in A.
    destruct A as [[[[A1 A2] A3] A4] A5]. split; [apply tok3b_ok; assumption|].
    split; [apply negb_true_iff; assumption|]. split; [eapply forallb_Forall; [apply tok3b_ok|assumption]|].
    split.
    + destruct (s_transform s); [|exact I]. eapply forallb_Forall; [apply tok2b_ok|assumption].
    + eapply forallb_Forall; [apply freeb_ok|assumption].
  - intros cid c Hin. specialize (B (cid, c) Hin). simpl in B. apply andb_true_iff in B. destruct B as [B1 B2].
    split; [apply tok2b_ok; assumption|]. intros d Hd. rewrite Hd in B2. apply tok2b_ok. assumption.
  - intros key m Hin. apply pairs_tok2b_ok. apply (C (key, m) Hin).
  - intros e Hin. apply pairs_tok2b_ok. apply (D e Hin).
Qed.

Definition state_numbers_okb (w : wstate E) : bool := forallb finiteb (state_numbers w).

End WordsB.
