(* C08 link to C01, part a (over C01's model only; C01's files are imported read-only):
   the volume table built by C01's model of the conversion loop is CLOSED — every operand of
   every volume is the number of a volume of the table — and the ids held by the two caches
   are defined.  Together with C01's own results (no operand is None: convert_cells_nonone;
   distinct keys: convert_cells_keys) this is the refs_ok part of C08's stage0_ok that
   concerns volume numbers.  Same induction scheme as C01's to_t4_some. *)
From Coq Require Import List ZArith Bool Lia.
From T4V Require Import C01.Model C01.Spec C01.ProofsTree C01.ProofsT4 C01.ProofsCells.
Import ListNotations.
Open Scope Z_scope.

Definition ops_ids (o : option (op * list (option Z))) : list (option Z) :=
  match o with Some (_, ids) => ids | None => [] end.

Definition defined (d : dict vol) (k : Z) : Prop := lookup k d <> None.

Definition closed (d : dict vol) : Prop :=
  forall k v, lookup k d = Some v -> forall j, In (Some j) (ops_ids (v_ops v)) -> defined d j.

(* the state invariant: closed table, cache entries defined *)
Definition cinv (s : st) : Prop :=
  closed (vols s) /\
  (forall n id, lookup n (scache s) = Some id -> defined (vols s) id) /\
  (forall c id, lookup c (ccache s) = Some id -> defined (vols s) id).

Definition mono (s s' : st) : Prop := forall k, defined (vols s) k -> defined (vols s') k.

Definition cspec {X} (f : X -> st -> res (option Z * st)) (x : X) : Prop :=
  forall s r s', f x s = Ok (r, s') -> cinv s ->
    cinv s' /\ mono s s' /\ forall id, r = Some id -> defined (vols s') id.

Lemma defined_dset_same k (V : vol) d : defined (dset k V d) k.
Proof. unfold defined. rewrite lookup_dset_same. discriminate. Qed.

Lemma defined_dset k (V : vol) d j : defined d j -> defined (dset k V d) j.
Proof.
  unfold defined. intros H. destruct (Z.eq_dec j k) as [->|Hne].
  - rewrite lookup_dset_same. discriminate.
  - rewrite lookup_dset_other by assumption. assumption.
Qed.

Lemma closed_dset k V d :
  closed d -> (forall j, In (Some j) (ops_ids (v_ops V)) -> defined d j \/ j = k) -> closed (dset k V d).
Proof.
  intros Hc HV k' v Hl j Hj. destruct (Z.eq_dec k' k) as [->|Hne].
  - rewrite lookup_dset_same in Hl. inversion Hl; subst v.
    destruct (HV j Hj) as [H| ->]; [apply defined_dset; assumption|apply defined_dset_same].
  - rewrite lookup_dset_other in Hl by assumption. apply defined_dset. eapply Hc; eassumption.
Qed.

Lemma mono_refl s : mono s s.
Proof. intros k H. exact H. Qed.

Lemma mono_trans a b c : mono a b -> mono b c -> mono a c.
Proof. intros H1 H2 k H. apply H2, H1, H. Qed.

Lemma ops_ids_mk o ids : ops_ids (mk_ops o ids) = ids.
Proof. destruct ids; reflexivity. Qed.

(* set_vol keeps the invariant when the operands of the new volume are defined *)
Lemma cinv_set_vol k V s :
  cinv s -> (forall j, In (Some j) (ops_ids (v_ops V)) -> defined (vols s) j \/ j = k) ->
  cinv (set_vol k V s) /\ mono s (set_vol k V s).
Proof.
  intros [C [S1 S2]] HV. split; [|intros j Hj; simpl; apply defined_dset; assumption].
  split; [simpl; apply closed_dset; assumption|]. split; simpl; intros x id H; apply defined_dset; eauto.
Qed.

Lemma conv_all_c {X} (f : X -> st -> res (option Z * st)) (l : list X) :
  Forall (cspec f) l ->
  forall s rs s', conv_all f l s = Ok (rs, s') -> cinv s ->
    cinv s' /\ mono s s' /\ forall id, In (Some id) rs -> defined (vols s') id.
Proof.
  induction 1 as [|x r Hx Hr IH]; intros s rs s' H Hi; simpl in H.
  - inversion H; subst. split; [assumption|]. split; [apply mono_refl|]. intros id [].
  - destruct (f x s) as [[y s1]|] eqn:Ef; [|discriminate].
    destruct (conv_all f r s1) as [[ys s2]|] eqn:Er; [|discriminate].
    inversion H; subst. destruct (Hx _ _ _ Ef Hi) as [I1 [M1 D1]].
    destruct (IH _ _ _ Er I1) as [I2 [M2 D2]]. split; [assumption|].
    split; [eapply mono_trans; eassumption|]. intros id [Hid|Hid].
    + apply M2. apply D1. assumption.
    + apply D2. assumption.
Qed.

Section Closed.
  Variable cref : Z -> st -> res (option Z * st).
  Variable orig : list (Z * Z).
  Variables u0 u1 : Z.
  Hypothesis cref_c : forall c, cspec cref c.

  Lemma crefs_c (l : list Z) : Forall (cspec cref) l.
  Proof. induction l; constructor; auto. Qed.

  Lemma to_t4_c t : cspec (to_t4 cref orig u0 u1) t.
  Proof.
    induction t as [n|c|pid o args IH] using tree_ind2; intros s r s' H Hi.
    - simpl in H. unfold convert_surface in H.
      destruct (lookup n (scache s)) as [id0|] eqn:Ec.
      + inversion H; subst. split; [assumption|]. split; [apply mono_refl|].
        intros id Hid. inversion Hid; subst. destruct Hi as [_ [S1 _]]. eapply S1; eassumption.
      + destruct (conv_equa [n]) as [p m]. inversion H; subst. destruct Hi as [C [S1 S2]].
        split.
        * split; [simpl; apply closed_dset; [assumption|intros j []]|].
          split; simpl; intros x id Hx.
          -- destruct (Z.eq_dec x n) as [->|Hne].
             ++ rewrite lookup_dset_same in Hx. inversion Hx; subst. apply defined_dset_same.
             ++ rewrite lookup_dset_other in Hx by assumption. apply defined_dset. eauto.
          -- apply defined_dset. eauto.
        * split; [intros k Hk; simpl; apply defined_dset; assumption|].
          intros id Hid. inversion Hid; subst. simpl. apply defined_dset_same.
    - simpl in H. exact (cref_c c s r s' H Hi).
    - cbn [to_t4] in H.
      assert (forall sel s rs s', conv_sel (to_t4 cref orig u0 u1) sel 0 args s = Ok (rs, s') ->
                cinv s -> cinv s' /\ mono s s' /\ forall id, In (Some id) rs -> defined (vols s') id) as Hsel.
      { intros sel s0 rs s0' Hc. rewrite conv_sel_select in Hc.
        eapply conv_all_c; [|exact Hc]. now apply Forall_select. }
      assert (forall s rs s', conv_sel cref (fun _ _ => true) 0 (refs_of args) s = Ok (rs, s') ->
                cinv s -> cinv s' /\ mono s s' /\ forall id, In (Some id) rs -> defined (vols s') id) as Hrefs.
      { intros s0 rs s0' Hc. rewrite conv_sel_select, select_all in Hc.
        eapply conv_all_c; [|exact Hc]. apply crefs_c. }
      assert (Hfin : forall ids1 ids2 sa sb V,
                 (forall id, In (Some id) ids1 -> defined (vols sa) id) -> mono sa sb ->
                 (forall id, In (Some id) ids2 -> defined (vols sb) id) -> cinv sb ->
                 (forall j, In (Some j) (ops_ids (v_ops V)) -> In (Some j) (ids1 ++ ids2)) ->
                 forall s0, mono s0 sb ->
                 cinv (set_vol pid V sb) /\ mono s0 (set_vol pid V sb) /\
                 forall id, Some pid = Some id -> defined (vols (set_vol pid V sb)) id).
      { intros ids1 ids2 sa sb V D1 M D2 Ib HV s0 M0.
        destruct (cinv_set_vol pid V sb Ib) as [I' M'].
        - intros j Hj. left. apply HV in Hj. apply in_app_or in Hj. destruct Hj as [Hj|Hj]; [apply M, D1|apply D2]; assumption.
        - split; [assumption|]. split; [eapply mono_trans; eassumption|].
          intros id Hid. inversion Hid; subst. simpl. apply defined_dset_same. }
      destruct o.
      + destruct (conv_equa (leaves_of args)) as [p m].
        destruct (conv_sel _ _ 0 args s) as [[ids1 s1]|] eqn:E1; [|discriminate].
        destruct (conv_sel cref _ 0 (refs_of args) s1) as [[ids2 s2]|] eqn:E2; [|discriminate].
        inversion H; subst.
        destruct (Hsel _ _ _ _ E1 Hi) as [I1 [M1 D1]]. destruct (Hrefs _ _ _ E2 I1) as [I2 [M2 D2]].
        apply (Hfin ids1 ids2 s1 s2 _ D1 M2 D2 I2);
          [simpl; rewrite ops_ids_mk; tauto|eapply mono_trans; eassumption].
      + destruct (largest args) as [k|].
        * destruct (conv_sel _ (fun i _ => Nat.eqb i k) 0 args s) as [[ids0 s0]|] eqn:E0; [|discriminate].
          destruct ids0 as [|[main|] [|? ?]]; try discriminate.
          destruct (lookup main (vols s0)) as [mv|]; [|discriminate].
          destruct (conv_sel _ (fun i _ => negb (Nat.eqb i k)) 0 args s0) as [[ids1 s1]|] eqn:E1; [|discriminate].
          destruct (conv_sel cref _ 0 (refs_of args) s1) as [[ids2 s2]|] eqn:E2; [|discriminate].
          inversion H; subst.
          destruct (Hsel _ _ _ _ E0 Hi) as [I0 [M0 _]]. destruct (Hsel _ _ _ _ E1 I0) as [I1 [M1 D1]].
          destruct (Hrefs _ _ _ E2 I1) as [I2 [M2 D2]].
          apply (Hfin ids1 ids2 s1 s2 _ D1 M2 D2 I2);
            [simpl; rewrite ops_ids_mk; tauto|].
          eapply mono_trans; [exact M0|]. eapply mono_trans; eassumption.
        * destruct (conv_sel _ _ 0 args s) as [[ids1 s1]|] eqn:E1; [|discriminate].
          destruct (conv_sel cref _ 0 (refs_of args) s1) as [[ids2 s2]|] eqn:E2; [|discriminate].
          destruct (conv_equa [u0; - u1]) as [p m]. inversion H; subst.
          destruct (Hsel _ _ _ _ E1 Hi) as [I1 [M1 D1]]. destruct (Hrefs _ _ _ E2 I1) as [I2 [M2 D2]].
          apply (Hfin ids1 ids2 s1 s2 _ D1 M2 D2 I2);
            [simpl; tauto|eapply mono_trans; eassumption].
  Qed.
End Closed.

Lemma cinv_set_cnt n s : cinv (set_cnt n s) <-> cinv s.
Proof. unfold cinv. simpl. tauto. Qed.

Lemma pot_convert_c cref matching u0 u1 cl : (forall c, cspec cref c) ->
  forall s r s', pot_convert cref matching u0 u1 cl s = Ok (r, s') -> cinv s ->
    cinv s' /\ mono s s' /\ forall id, r = Some id -> defined (vols s') id.
Proof.
  intros Hc s r s' H Hi. unfold pot_convert in H. destruct cl as [g orig].
  destruct (flag g (cnt s)) as [t1 n1]. destruct (expand matching t1 n1) as [[t2 n2]|]; [|discriminate].
  destruct (optimise t2) as [t3|].
  - destruct (to_t4_c cref orig u0 u1 Hc t3 _ _ _ H (proj2 (cinv_set_cnt n2 s) Hi)) as [A [B C]].
    split; [assumption|]. split; [intros k Hk; apply B; exact Hk|assumption].
  - inversion H; subst. split; [apply cinv_set_cnt; assumption|]. split; [intros k Hk; exact Hk|discriminate].
Qed.

Lemma convert_cellref_c fuel cells matching u0 u1 : forall c,
  cspec (convert_cellref fuel cells matching u0 u1) c.
Proof.
  induction fuel as [|f IH]; intros c s r s' H Hi; simpl in H.
  - destruct (lookup c (ccache s)) as [id0|] eqn:Ec; [|discriminate]. inversion H; subst.
    split; [assumption|]. split; [apply mono_refl|]. intros id Hid. inversion Hid; subst.
    destruct Hi as [_ [_ S2]]. eapply S2; eassumption.
  - destruct (lookup c (ccache s)) as [id0|] eqn:Ec.
    { inversion H; subst. split; [assumption|]. split; [apply mono_refl|]. intros id Hid. inversion Hid; subst.
      destruct Hi as [_ [_ S2]]. eapply S2; eassumption. }
    destruct (lookup c cells) as [cl|]; [|discriminate].
    destruct (pot_convert _ matching u0 u1 cl s) as [[[id1|] s1]|] eqn:Ep; [| |discriminate].
    + inversion H; subst. destruct (pot_convert_c _ _ _ _ _ IH _ _ _ Ep Hi) as [[C [S1 S2]] [M D]].
      split.
      * split; [exact C|]. split; [exact S1|]. simpl. intros x id Hx.
        destruct (Z.eq_dec x c) as [->|Hne].
        -- rewrite lookup_dset_same in Hx. inversion Hx; subst. apply D. reflexivity.
        -- rewrite lookup_dset_other in Hx by assumption. eauto.
      * split; [exact M|]. intros id Hid. inversion Hid; subst. apply D. reflexivity.
    + inversion H; subst. destruct (pot_convert_c _ _ _ _ _ IH _ _ _ Ep Hi) as [[C [S1 S2]] [M _]].
      split.
      * split; [simpl; apply closed_dset; [assumption|intros j []]|].
        split; simpl; intros x id Hx.
        -- apply defined_dset. eauto.
        -- destruct (Z.eq_dec x c) as [->|Hne].
           ++ rewrite lookup_dset_same in Hx. inversion Hx; subst. apply defined_dset_same.
           ++ rewrite lookup_dset_other in Hx by assumption. apply defined_dset. eauto.
      * split; [intros k Hk; simpl; apply defined_dset; apply M; assumption|].
        intros id Hid. inversion Hid; subst. simpl. apply defined_dset_same.
Qed.

Lemma convert_cells_c fuel cells matching u0 u1 : forall todo s s',
  convert_cells fuel cells matching u0 u1 todo s = Ok s' -> cinv s -> cinv s'.
Proof.
  induction todo as [|key r IH]; intros s s' H Hi; simpl in H; [inversion H; subst; exact Hi|].
  destruct (lookup key cells) as [cl|]; [|discriminate].
  destruct (pot_convert _ matching u0 u1 cl s) as [[[j|] s1]|] eqn:Ep; [| |discriminate].
  - destruct (lookup j (vols s1)) as [vj|] eqn:Ej; [|discriminate].
    destruct (pot_convert_c _ _ _ _ _ (convert_cellref_c fuel cells matching u0 u1) _ _ _ Ep Hi) as [I1 _].
    apply (IH _ _ H). apply cinv_set_vol; [assumption|].
    intros x Hx. left. destruct I1 as [C _]. simpl in Hx. eapply C; eassumption.
  - apply (IH _ _ H).
    exact (proj1 (pot_convert_c _ _ _ _ _ (convert_cellref_c fuel cells matching u0 u1) _ _ _ Ep Hi)).
Qed.

(* the table of the conversion loop, from the empty state: distinct keys (C01), no None
   operand (C01), every operand is a key (here) *)
Theorem convert_cells_closed fuel cells matching u0 u1 todo cnt0 s' :
  convert_cells fuel cells matching u0 u1 todo (mkSt cnt0 [] [] []) = Ok s' ->
  closed (vols s').
Proof.
  intros H. apply (convert_cells_c _ _ _ _ _ _ _ _ H).
  split; [intros k v Hl; discriminate|]. split; intros x id Hx; discriminate.
Qed.
