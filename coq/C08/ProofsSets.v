(* C08 — lemmas on the list representation of Python sets and dicts. *)
From Coq Require Import List NArith ZArith Bool String Ascii Lia Sorted Permutation.
From T4V Require Import Base.Str C08.Model.
Import ListNotations.

(* ---- zinsert / mkset --------------------------------------------------------- *)
Lemma zinsert_In x l y : In y (zinsert x l) <-> y = x \/ In y l.
Proof.
  induction l as [|z r IH]; simpl.
  - intuition.
  - destruct (x <? z)%Z eqn:E1; simpl.
    + intuition.
    + destruct (x =? z)%Z eqn:E2; simpl.
      * apply Z.eqb_eq in E2. subst. intuition.
      * rewrite IH. intuition.
Qed.

Lemma zinsert_sorted x l : StronglySorted Z.lt l -> StronglySorted Z.lt (zinsert x l).
Proof.
  induction l as [|z r IH]; simpl; intros H.
  - constructor; constructor.
  - inversion H as [|? ? Hr Hz]; subst.
    destruct (x <? z)%Z eqn:E1.
    + apply Z.ltb_lt in E1. constructor; [assumption|].
      constructor; [assumption|].
      rewrite Forall_forall in *. intros y Hy. specialize (Hz y Hy). lia.
    + destruct (x =? z)%Z eqn:E2; [assumption|].
      apply Z.ltb_ge in E1. apply Z.eqb_neq in E2.
      constructor; [apply IH; assumption|].
      rewrite Forall_forall in *. intros y Hy. apply zinsert_In in Hy.
      destruct Hy as [->|Hy]; [lia|apply Hz; assumption].
Qed.

Lemma mkset_In l y : In y (mkset l) <-> In y l.
Proof.
  induction l as [|x r IH]; simpl; [tauto|].
  unfold mkset in *. simpl. rewrite zinsert_In, IH. intuition.
Qed.

Lemma mkset_sorted l : StronglySorted Z.lt (mkset l).
Proof.
  induction l as [|x r IH]; unfold mkset in *; simpl; [constructor|].
  apply zinsert_sorted; assumption.
Qed.

Lemma sorted_NoDup l : StronglySorted Z.lt l -> NoDup l.
Proof.
  induction l as [|x r IH]; intros H; [constructor|].
  inversion H as [|? ? Hr Hx]; subst. constructor; [|apply IH; assumption].
  intros Hin. rewrite Forall_forall in Hx. specialize (Hx x Hin). lia.
Qed.

Lemma mkset_NoDup l : NoDup (mkset l).
Proof. apply sorted_NoDup, mkset_sorted. Qed.

Lemma zmem_In x l : zmem x l = true <-> In x l.
Proof.
  unfold zmem. rewrite existsb_exists. split.
  - intros [y [Hy E]]. apply Z.eqb_eq in E. subst. assumption.
  - intros H. exists x. split; [assumption|apply Z.eqb_refl].
Qed.

Lemma zmem_false x l : zmem x l = false <-> ~ In x l.
Proof.
  rewrite <- zmem_In. destruct (zmem x l).
  - split; [discriminate|]. intros H. exfalso. apply H. reflexivity.
  - split; [|reflexivity]. intros _ H. discriminate.
Qed.

Lemma vempty_false v : vempty v = false <-> (forall s, In s (v_plus v) -> ~ In s (v_minus v)).
Proof.
  unfold vempty. split.
  - intros H s Hs Hm.
    assert (existsb (fun s0 => zmem s0 (v_minus v)) (v_plus v) = true) as C.
    { apply existsb_exists. exists s. split; [assumption|]. apply zmem_In. assumption. }
    congruence.
  - intros H. destruct (existsb _ _) eqn:Ex; [|reflexivity].
    apply existsb_exists in Ex. destruct Ex as [s [Hs Hm]]. apply zmem_In in Hm.
    exfalso. eapply H; eassumption.
Qed.

(* ---- association lists --------------------------------------------------------- *)
Lemma lookup_Some_In {A} k (l : list (Z * A)) a : lookup k l = Some a -> In (k, a) l.
Proof.
  induction l as [|[k' a'] r IH]; simpl; [discriminate|].
  destruct (k =? k')%Z eqn:E.
  - apply Z.eqb_eq in E. intros [= ->]. subst. left. reflexivity.
  - intros H. right. apply IH. assumption.
Qed.

Lemma lookup_in_keys {A} k (l : list (Z * A)) : In k (keys l) -> exists a, lookup k l = Some a.
Proof.
  induction l as [|[k' a'] r IH]; simpl; [tauto|].
  intros H. destruct (k =? k')%Z eqn:E; [eexists; reflexivity|].
  apply Z.eqb_neq in E. destruct H as [H|H]; [congruence|]. apply IH. assumption.
Qed.

Lemma in_keys {A} k (a : A) l : In (k, a) l -> In k (keys l).
Proof. intros H. unfold keys. apply in_map_iff. exists (k, a). split; [reflexivity|assumption]. Qed.

Lemma keys_in {A} k (l : list (Z * A)) : In k (keys l) -> exists a, In (k, a) l.
Proof.
  unfold keys. rewrite in_map_iff. intros [[k' a] [E H]]. simpl in E. subst. exists a. assumption.
Qed.

Lemma NoDup_keys_unique {A} (l : list (Z * A)) k a b :
  NoDup (keys l) -> In (k, a) l -> In (k, b) l -> a = b.
Proof.
  induction l as [|[k' c] r IH]; simpl; intros Hnd Ha Hb; [tauto|].
  inversion Hnd as [|? ? Hnotin Hnd']; subst.
  destruct Ha as [Ha|Ha]; destruct Hb as [Hb|Hb].
  - congruence.
  - inversion Ha; subst. exfalso. apply Hnotin. eapply in_keys; eassumption.
  - inversion Hb; subst. exfalso. apply Hnotin. eapply in_keys; eassumption.
  - apply IH; assumption.
Qed.

Lemma keys_app {A} (l1 l2 : list (Z * A)) : keys (l1 ++ l2) = keys l1 ++ keys l2.
Proof. unfold keys. apply map_app. Qed.

Lemma keys_filter_incl {A} f (l : list (Z * A)) k : In k (keys (filter f l)) -> In k (keys l).
Proof.
  intros H. apply keys_in in H. destruct H as [a H]. apply filter_In in H. destruct H as [H _].
  eapply in_keys; eassumption.
Qed.

Lemma NoDup_keys_filter {A} f (l : list (Z * A)) : NoDup (keys l) -> NoDup (keys (filter f l)).
Proof.
  induction l as [|[k a] r IH]; simpl; intros H; [constructor|].
  inversion H as [|? ? Hn Hr]; subst.
  destruct (f (k, a)); simpl; [|apply IH; assumption].
  constructor; [|apply IH; assumption].
  intros Hin. apply Hn. eapply keys_filter_incl; eassumption.
Qed.

Lemma NoDup_app_single {A} (l : list A) x : NoDup l -> ~ In x l -> NoDup (l ++ [x]).
Proof.
  induction l as [|y r IH]; simpl; intros Hnd Hx.
  - constructor; [intros []|constructor].
  - inversion Hnd as [|? ? Hy Hr]; subst. constructor.
    + intros Hin. apply in_app_or in Hin. destruct Hin as [Hin|[Hin|[]]]; [contradiction|].
      subst. apply Hx. left. reflexivity.
    + apply IH; [assumption|]. intros Hin. apply Hx. right. assumption.
Qed.
