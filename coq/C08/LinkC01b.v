(* C08 link to C01, part b (over C01's model only): the surface numbers of the volumes of
   the table built by C01's conversion loop are the TRIPOLI-4 surface numbers of `matching`
   (the output of number_items) or the two helper planes.  So C08's hypothesis "surface
   numbers of the volumes are entries of the surface dictionary" reduces to the same
   statement about `matching` and the helper ids. *)
From Coq Require Import List ZArith Bool Lia.
From T4V Require Import C01.Model C01.Spec C01.ProofsTree C01.ProofsT4 C01.ProofsCells.
Import ListNotations.
Open Scope Z_scope.

Section Surfs.
Variable allowed : list Z.

Definition okz (n : Z) : Prop := In (Z.abs n) allowed.

Definition surfs_in (d : dict vol) : Prop :=
  forall k v, lookup k d = Some v -> forall s, In s (v_plus v ++ v_minus v) -> In s allowed.

Definition sspec {X} (f : X -> st -> res (option Z * st)) (x : X) : Prop :=
  forall s r s', f x s = Ok (r, s') -> surfs_in (vols s) -> surfs_in (vols s').

Lemma conv_equa_from_in l : forall seen p m,
  conv_equa_from seen l = (p, m) -> Forall okz l -> forall s, In s (p ++ m) -> In s allowed.
Proof.
  induction l as [|x r IH]; intros seen p m H Hok s Hs; simpl in H.
  - inversion H; subst. destruct Hs.
  - inversion Hok as [|? ? Hx Hr]; subst. destruct (mem x seen); [eapply IH; eassumption|].
    destruct (conv_equa_from (x :: seen) r) as [p' m'] eqn:E.
    assert (Hrec : forall s0, In s0 (p' ++ m') -> In s0 allowed) by (intros s0; eapply IH; eassumption).
    unfold okz in Hx. destruct (x <? 0) eqn:E1.
    + inversion H; subst. apply in_app_or in Hs. destruct Hs as [Hs|[Hs|Hs]].
      * apply Hrec. apply in_or_app. left. assumption.
      * subst. apply Z.ltb_lt in E1. replace (- x) with (Z.abs x) by lia. assumption.
      * apply Hrec. apply in_or_app. right. assumption.
    + destruct (0 <? x) eqn:E2.
      * inversion H; subst. destruct Hs as [Hs|Hs].
        -- subst. apply Z.ltb_lt in E2. replace s with (Z.abs s) by lia. assumption.
        -- apply Hrec. assumption.
      * inversion H; subst. apply Hrec. assumption.
Qed.

Lemma conv_equa_in l p m : conv_equa l = (p, m) -> Forall okz l -> forall s, In s (p ++ m) -> In s allowed.
Proof. unfold conv_equa. apply conv_equa_from_in. Qed.

Lemma surfs_in_dset k V d :
  surfs_in d -> (forall s, In s (v_plus V ++ v_minus V) -> In s allowed) -> surfs_in (dset k V d).
Proof.
  intros Hd HV k' v Hl s Hs. destruct (Z.eq_dec k' k) as [->|Hne].
  - rewrite lookup_dset_same in Hl. inversion Hl; subst. apply HV. assumption.
  - rewrite lookup_dset_other in Hl by assumption. eapply Hd; eassumption.
Qed.

Lemma conv_all_s {X} (f : X -> st -> res (option Z * st)) (l : list X) :
  Forall (sspec f) l ->
  forall s rs s', conv_all f l s = Ok (rs, s') -> surfs_in (vols s) -> surfs_in (vols s').
Proof.
  induction 1 as [|x r Hx Hr IH]; intros s rs s' H Hi; simpl in H.
  - inversion H; subst. assumption.
  - destruct (f x s) as [[y s1]|] eqn:Ef; [|discriminate].
    destruct (conv_all f r s1) as [[ys s2]|] eqn:Er; [|discriminate].
    inversion H; subst. eapply IH; [eassumption|]. eapply Hx; eassumption.
Qed.

Lemma leaves_of_ok (args : list (tree Z)) : Forall (leaves_ok okz) args -> Forall okz (leaves_of args).
Proof.
  induction 1 as [|x r Hx Hr IH]; simpl; [constructor|].
  destruct x; simpl in *; [constructor; assumption|assumption|assumption].
Qed.

Section ToT4.
  Variable cref : Z -> st -> res (option Z * st).
  Variable orig : list (Z * Z).
  Variables u0 u1 : Z.
  Hypothesis cref_s : forall c, sspec cref c.
  Hypothesis Hu0 : okz u0.
  Hypothesis Hu1 : okz u1.

  Lemma crefs_s (l : list Z) : Forall (sspec cref) l.
  Proof. induction l; constructor; auto. Qed.

  Lemma to_t4_s t : leaves_ok okz t -> sspec (to_t4 cref orig u0 u1) t.
  Proof.
    induction t as [n|c|pid o args IH] using tree_ind2; intros Hok s r s' H Hi.
    - simpl in H. unfold convert_surface in H.
      destruct (lookup n (scache s)); [inversion H; subst; assumption|].
      destruct (conv_equa [n]) as [p m] eqn:Ec. inversion H; subst. simpl.
      apply surfs_in_dset; [assumption|]. simpl.
      eapply conv_equa_in; [exact Ec|]. constructor; [exact Hok|constructor].
    - simpl in H. exact (cref_s c s r s' H Hi).
    - apply leaves_ok_node in Hok.
      assert (Hargs : Forall (sspec (to_t4 cref orig u0 u1)) args).
      { clear - IH Hok. induction IH as [|x r Hx Hr IHr]; [constructor|].
        inversion Hok; subst. constructor; [apply Hx; assumption|apply IHr; assumption]. }
      cbn [to_t4] in H.
      assert (forall sel s rs s', conv_sel (to_t4 cref orig u0 u1) sel 0 args s = Ok (rs, s') ->
                surfs_in (vols s) -> surfs_in (vols s')) as Hsel.
      { intros sel s0 rs s0' Hc. rewrite conv_sel_select in Hc.
        eapply conv_all_s; [|exact Hc]. now apply Forall_select. }
      assert (forall s rs s', conv_sel cref (fun _ _ => true) 0 (refs_of args) s = Ok (rs, s') ->
                surfs_in (vols s) -> surfs_in (vols s')) as Hrefs.
      { intros s0 rs s0' Hc. rewrite conv_sel_select, select_all in Hc.
        eapply conv_all_s; [|exact Hc]. apply crefs_s. }
      destruct o.
      + destruct (conv_equa (leaves_of args)) as [p m] eqn:Ec.
        destruct (conv_sel _ _ 0 args s) as [[ids1 s1]|] eqn:E1; [|discriminate].
        destruct (conv_sel cref _ 0 (refs_of args) s1) as [[ids2 s2]|] eqn:E2; [|discriminate].
        inversion H; subst. simpl. apply surfs_in_dset.
        * eapply Hrefs; [eassumption|]. eapply Hsel; eassumption.
        * simpl. eapply conv_equa_in; [exact Ec|]. apply leaves_of_ok. assumption.
      + destruct (largest args) as [k|].
        * destruct (conv_sel _ (fun i _ => Nat.eqb i k) 0 args s) as [[ids0 s0]|] eqn:E0; [|discriminate].
          destruct ids0 as [|[main|] [|? ?]]; try discriminate.
          destruct (lookup main (vols s0)) as [mv|] eqn:Em; [|discriminate].
          destruct (conv_sel _ (fun i _ => negb (Nat.eqb i k)) 0 args s0) as [[ids1 s1]|] eqn:E1; [|discriminate].
          destruct (conv_sel cref _ 0 (refs_of args) s1) as [[ids2 s2]|] eqn:E2; [|discriminate].
          inversion H; subst. simpl.
          assert (I0 : surfs_in (vols s0)) by (eapply Hsel; eassumption).
          apply surfs_in_dset.
          -- eapply Hrefs; [eassumption|]. eapply Hsel; eassumption.
          -- simpl. intros x Hx. eapply I0; eassumption.
        * destruct (conv_sel _ _ 0 args s) as [[ids1 s1]|] eqn:E1; [|discriminate].
          destruct (conv_sel cref _ 0 (refs_of args) s1) as [[ids2 s2]|] eqn:E2; [|discriminate].
          destruct (conv_equa [u0; - u1]) as [p m] eqn:Ec. inversion H; subst. simpl.
          apply surfs_in_dset.
          -- eapply Hrefs; [eassumption|]. eapply Hsel; eassumption.
          -- simpl. eapply conv_equa_in; [exact Ec|]. constructor; [assumption|].
             constructor; [|constructor]. unfold okz in *. rewrite Z.abs_opp. assumption.
  Qed.
End ToT4.

(* ---- pot_expand_surfs: the leaves of the expanded tree are numbers of `matching` ---------- *)
Variable matching : dict (list Z).
Hypothesis matching_ok : forall key ids, lookup key matching = Some ids -> Forall okz ids.

Lemma okz_signed s x : okz x -> okz (signed s x).
Proof. unfold okz, signed. destruct (0 <? s); [tauto|]. rewrite Z.abs_opp. tauto. Qed.

Lemma py_index_In {X} (l : list X) i x : py_index l i = Some x -> In x l.
Proof.
  unfold py_index. destruct (0 <=? i); [apply nth_error_In|].
  destruct (0 <=? Z.of_nat (List.length l) + i); [apply nth_error_In|discriminate].
Qed.

Lemma expand_leaf_leaves a n t' n' : expand_leaf matching a n = Ok (t', n') -> leaves_ok okz t'.
Proof.
  unfold expand_leaf. destruct a as [s sub]. destruct (lookup (Z.abs s) matching) as [ids|] eqn:El; [|discriminate].
  pose proof (matching_ok _ _ El) as Hids. destruct sub as [k|].
  - destruct (Z.of_nat (List.length ids) <? k); [discriminate|].
    destruct (py_index ids (k - 1)) as [x|] eqn:Ep; [|discriminate]. intros H. inversion H; subst. simpl.
    apply okz_signed. rewrite Forall_forall in Hids. apply Hids. eapply py_index_In; eassumption.
  - assert (Hneg : Forall (leaves_ok okz) (map (fun x => Leaf (- x)) ids)).
    { clear - Hids. induction Hids; simpl; constructor; auto. simpl. unfold okz in *. rewrite Z.abs_opp. assumption. }
    assert (Hpos : Forall (leaves_ok okz) (map (fun x => Leaf x) ids)).
    { clear - Hids. induction Hids; simpl; constructor; auto. }
    destruct ids as [|x [|y r]].
    + destruct (s <? 0); intros H; inversion H; subst; apply leaves_ok_node; constructor.
    + intros H. inversion H; subst. simpl. apply okz_signed. inversion Hids; assumption.
    + destruct (s <? 0); intros H; inversion H; subst; apply leaves_ok_node; assumption.
Qed.

Lemma expand_leaves t : forall n t' n', expand matching t n = Ok (t', n') -> leaves_ok okz t'.
Proof.
  induction t as [a|c|id o args IH] using tree_ind2; intros n t' n' H.
  - simpl in H. eapply expand_leaf_leaves; eassumption.
  - simpl in H. inversion H; subst. exact I.
  - cbn [expand] in H. destruct (map_state_res (expand matching) args n) as [[args' n1]|] eqn:Em; [|discriminate].
    inversion H; subst. apply leaves_ok_node.
    clear H. revert n args' n' Em. induction IH as [|x r Hx Hr IHr]; intros n args' n' Em; simpl in Em.
    + inversion Em; subst. constructor.
    + destruct (expand matching x n) as [[y s1]|] eqn:Ex; [|discriminate].
      destruct (map_state_res (expand matching) r s1) as [[ys s2]|] eqn:Er; [|discriminate].
      inversion Em; subst. constructor; [eapply Hx; eassumption|eapply IHr; eassumption].
Qed.

Variables u0 u1 : Z.
Hypothesis Hp0 : 0 < u0.
Hypothesis Hp1 : 0 < u1.
Hypothesis Hin0 : In u0 allowed.
Hypothesis Hin1 : In u1 allowed.

Lemma Hu0 : okz u0.
Proof. unfold okz. rewrite Z.abs_eq by lia. assumption. Qed.
Lemma Hu1 : okz u1.
Proof. unfold okz. rewrite Z.abs_eq by lia. assumption. Qed.

Lemma pot_convert_s cref cl : (forall c, sspec cref c) ->
  forall s r s', pot_convert cref matching u0 u1 cl s = Ok (r, s') -> surfs_in (vols s) -> surfs_in (vols s').
Proof.
  intros Hc s r s' H Hi. unfold pot_convert in H. destruct cl as [g orig].
  destruct (flag g (cnt s)) as [t1 n1]. destruct (expand matching t1 n1) as [[t2 n2]|] eqn:Ee; [|discriminate].
  destruct (optimise t2) as [t3|] eqn:Eo.
  - eapply (to_t4_s cref orig u0 u1 Hc Hu0 Hu1 t3); [|exact H|exact Hi].
    eapply optimise_leaves; [exact Eo|]. eapply expand_leaves; eassumption.
  - inversion H; subst. exact Hi.
Qed.

Lemma convert_cellref_s fuel cells : forall c, sspec (convert_cellref fuel cells matching u0 u1) c.
Proof.
  induction fuel as [|f IH]; intros c s r s' H Hi; simpl in H.
  - destruct (lookup c (ccache s)); [inversion H; subst; assumption|discriminate].
  - destruct (lookup c (ccache s)); [inversion H; subst; assumption|].
    destruct (lookup c cells) as [cl|]; [|discriminate].
    destruct (pot_convert _ matching u0 u1 cl s) as [[[id1|] s1]|] eqn:Ep; [| |discriminate].
    + inversion H; subst. simpl. eapply pot_convert_s; eassumption.
    + inversion H; subst. simpl. apply surfs_in_dset; [eapply pot_convert_s; eassumption|].
      simpl. intros x [<-|[<-|[]]]; assumption.
Qed.

Lemma convert_cells_s fuel cells : forall todo s s',
  convert_cells fuel cells matching u0 u1 todo s = Ok s' -> surfs_in (vols s) -> surfs_in (vols s').
Proof.
  induction todo as [|key r IH]; intros s s' H Hi; simpl in H; [inversion H; subst; exact Hi|].
  destruct (lookup key cells) as [cl|]; [|discriminate].
  destruct (pot_convert _ matching u0 u1 cl s) as [[[j|] s1]|] eqn:Ep; [| |discriminate].
  - destruct (lookup j (vols s1)) as [vj|] eqn:Ej; [|discriminate].
    pose proof (pot_convert_s _ _ (convert_cellref_s fuel cells) _ _ _ Ep Hi) as I1.
    apply (IH _ _ H). simpl. apply surfs_in_dset; [assumption|]. simpl. intros x Hx. eapply I1; eassumption.
  - apply (IH _ _ H). exact (pot_convert_s _ _ (convert_cellref_s fuel cells) _ _ _ Ep Hi).
Qed.

Theorem convert_cells_surfs fuel cells todo cnt0 s' :
  convert_cells fuel cells matching u0 u1 todo (mkSt cnt0 [] [] []) = Ok s' -> surfs_in (vols s').
Proof. intros H. apply (convert_cells_s _ _ _ _ _ H). intros k v Hl. discriminate. Qed.

End Surfs.
