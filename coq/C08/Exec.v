(* C08 — executable comparison functions used by the generated correspondence
   files: the model pipeline (prune + writer + printer) against the bytes of
   the file written by the real run. *)
From Coq Require Import List NArith ZArith Bool String Ascii PrimFloat.
From T4V Require Import Base.Str Base.Cases Base.Scalar C08.Model C08.SurfEq C08.Parse.
From Coq Require Import Uint63.
Import ListNotations.
Open Scope string_scope.

(* ---- compact string literals for the generated files: 9 ASCII characters per
   primitive integer, 7 bits each, first character in the low bits (elaborating
   "..." literals costs ~65 us per character, an int63 literal is one node) ---- *)
Fixpoint unpack (fuel : nat) (i : int) (tail : string) : string :=
  match fuel with
  | O => tail
  | S f =>
      let c := (i land 127)%uint63 in
      if (c =? 0)%uint63 then tail
      else String (ascii_of_N (Z.to_N (Uint63.to_Z c))) (unpack f (i >> 7)%uint63 tail)
  end.

Definition U (l : list int) : string := fold_right (unpack 9) "" l.

(* mirrors harness/c08_capture.pack (the harness checks its packer against the
   same samples before using it) *)
Example U_selftest :
  U [] = "" /\ U [97]%uint63 = "a" /\ U [31768959712549169]%uint63 = "12345678" /\
  U [4139051819874441521]%uint63 = "123456789" /\ U [4139051819874441521; 48]%uint63 = "1234567890" /\
  U [4990218777941714902; 6028976627815312081; 5019607349286410400; 4990436399355795616;
     3553482471076373070; 11109144112]%uint63 = "VOLU 14 EQUA MINUS 1 1 INTE 1 None ENDV // (10, 1)" /\
  U [2904427216515928224; 3558052006529258793; 4211676796542589362; 4865301586555919931;
     5518926376569250500; 6172551166582581069; 6826175956595911638; 7479800746609242207;
     8133425536622572776; 8787050326635903345; 34087058938]%uint63
  = " !""#$%&'()*+,-./0123456789:;<=>?@ABCDEFGHIJKLMNOPQRSTUVWXYZ[\]^_`abcdefghijklmnopqrstuvwxyz{|}~".
Proof. vm_compute. repeat split. Qed.

(* SurfaceT4.__eq__: type, parameters (numeric ==), transform (numpy ==): the scalar-generic
   definition of C08/SurfEq.v at binary64 (at R it is proved symmetric and transitive) *)
Definition payload := spayload float.

Definition payload_eqb : payload -> payload -> bool := spayload_eqb FS.

Definition err_name (e : err) : string :=
  match e with EKey => "KeyError" | EValue => "ValueError" | EFuel => "fuel" end.

(* what the real run did: exception class name ("" = none) and the text of the written file
   after the // header, as ONE string (None = no file); the lines are recovered by the
   reader's own lines_of *)
Definition observed := (string * option string)%type.

Definition model_result := (string * option (list string))%type.

Definition run_model (c : bool * Z * Z * wstate payload) : model_result :=
  let '(skip_dedup, u0, u1, w) := c in
  match convert_tail payload_eqb skip_dedup u0 u1 w with
  | Err e => (err_name e, None)
  | Ok (Complete f) => ("", Some (print_file f))
  | Ok (Died hw sl e) => (err_name e, Some (print_outcome (Died hw sl e)))
  | Ok (Raised f e) => (err_name e, Some (print_file f))
  end.

Definition obs_lines (o : observed) : option (option (list string)) :=
  match snd o with
  | None => Some None
  | Some t => match lines_of t with Some ls => Some (Some ls) | None => None end
  end.

Definition observed_eqb (a : model_result) (b : observed) : bool :=
  String.eqb (fst a) (fst b)
  && match obs_lines b with
     | Some ls => option_eqb (list_eqb String.eqb) (snd a) ls
     | None => false            (* the text does not end with a newline *)
     end.

Definition check_case (c : (bool * Z * Z * wstate payload) * observed) : bool :=
  observed_eqb (run_model (fst c)) (snd c).

(* ---- verdicts: the spec evaluated on the model's file vs the independent
   validator of the written bytes; and the guard of C08_write_wf ------------- *)
From T4V Require Import C08.Spec C08.Check C08.ProofsGiven C08.CheckText.

Definition final_state (c : bool * Z * Z * wstate payload)
  : option (option (list (Z * Z)) * wstate payload) :=
  let '(skip_dedup, u0, u1, w) := c in
  match prune payload_eqb skip_dedup (w_surfs w) (w_vols w) u0 u1 with
  | Err _ => None
  | Ok (surfs, vols, ren) =>
      Some (ren, mkW surfs vols (w_skipped w) (w_cells w) (w_mats w) (w_rescaled w) (w_bcs w)
                     (w_skip_comp w) (w_skip_geomcomp w) (w_skip_bc w))
  end.

(* hypotheses of C08_write_wf hold on the tables handed to the writers *)
Definition in_guard (c : bool * Z * Z * wstate payload) : bool :=
  match final_state c with Some (_, w) => wf_stateb w | None => false end.

(* validator verdict (true = structurally valid) of the file the real run wrote *)
Definition check_verdict (c : (bool * Z * Z * wstate payload) * observed * bool) : bool :=
  let '(inp, _, valid) := c in
  match final_state inp with
  | None => true
  | Some (ren, w) =>
      match write_file ren w with
      | Complete f => Bool.eqb (wf_fileb f && file_numbers_okb f) valid
      | Raised f _ => Bool.eqb (wf_fileb f && file_numbers_okb f) valid
      | Died _ _ _ => negb valid
      end
  end.

Definition check_both (c : (bool * Z * Z * wstate payload) * observed * bool) : bool :=
  let '(inp, obs, valid) := c in check_case (inp, obs) && check_verdict c.

Definition outside_guard (c : (bool * Z * Z * wstate payload) * observed * bool) : bool :=
  let '(inp, _, _) := c in negb (in_guard inp).

Definition check_file (c : (bool * Z * Z * wstate payload) * observed * bool) : bool :=
  let '(inp, obs, _) := c in check_case (inp, obs).

(* hypotheses of C08_convert_tail_wf on the tables construct_volume_t4 returned (facts about
   code outside this model; checked on every snapshot) *)
Definition stage0_ok (c : (bool * Z * Z * wstate payload) * observed * bool) : bool :=
  let '((_, u0, u1, w), _, _) := c in
  match w_vols w with
  | [] => true     (* every cell is empty: the run raises before the file is opened *)
  | _ => stage0_okb payload_eqb u0 u1 w
  end.

Definition stage0_or_invalid (c : (bool * Z * Z * wstate payload) * observed * bool) : bool :=
  let '(_, _, valid) := c in stage0_ok c || negb valid.

(* ---- the Coq reader on the bytes of the real file: it must accept exactly the files the
   independent validator accepts, re-printing what it read must give the same bytes, and
   the spec evaluated on what it read must agree with the validator ---------------------- *)
Definition check_reader (c : (bool * Z * Z * wstate payload) * observed * bool) : bool :=
  let '(_, obs, valid) := c in
  match snd obs with
  | None => true
  | Some t =>
      match parse_t4 t with
      | Some f => String.eqb (print_t4 f) t && Bool.eqb (wf_fileb f && file_numbers_okb f) valid
      | None => negb valid
      end
  end.

(* hypotheses of the text-level theorems on the snapshot: the strings of the tables are
   words (C08_written_text_wf) and the numeric strings are finite numbers (C08_numbers_finite) *)
Definition text_ok (c : (bool * Z * Z * wstate payload) * observed * bool) : bool :=
  let '((_, _, _, w), _, _) := c in words_okb w && state_numbers_okb w.

(* construct_volume_t4's helper-plane insertion (Model.insert_helpers) against the snapshot:
   the surface dictionary is its first entries followed by the two planes PLANEX 1 /
   PLANEX -1 under the numbers max+2, max+3, and these are the union ids *)
Definition is_helper (s : surface payload) (x : float) : bool :=
  payload_eqb (s_eq s) ("PLANEX", [x], None).

Definition check_helpers (c : (bool * Z * Z * wstate payload) * observed * bool) : bool :=
  let '((_, u0, u1, w), _, _) := c in
  let surfs := w_surfs w in
  let n := List.length surfs in
  match skipn (n - 2) surfs with
  | [(k0, h0); (k1, h1)] =>
      match insert_helpers (firstn (n - 2) surfs) h0 h1 with
      | Ok (surfs', a, b) =>
          list_eqb Z.eqb (keys surfs') (keys surfs) && (a =? u0)%Z && (b =? u1)%Z
          && (k0 =? u0)%Z && (k1 =? u1)%Z && is_helper h0 1%float && is_helper h1 (-1)%float
      | Err _ => false
      end
  | _ => false
  end.

(* C09's normalize_float against the snapshot: every stored density is a fixed point of it and
   the writers' normalisation of it is what the implementation computed (hypothesis
   density_from_c09 of C08_convert_wf_all_linked) *)
From T4V Require C09.Model.

Definition check_density (c : (bool * Z * Z * wstate payload) * observed * bool) : bool :=
  let '((_, _, _, w), _, _) := c in
  forallb (fun ic =>
             match c_density (snd ic) with
             | None => true
             | Some d =>
                 match T4V.C09.Model.normalize_float d with
                 | T4V.C09.Model.Ok n => String.eqb n (c_density_norm (snd ic)) && String.eqb n d
                 | T4V.C09.Model.Err _ => false
                 end
             end) (w_cells w).
