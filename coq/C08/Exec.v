(* C08 — executable comparison functions used by the generated correspondence
   files: the model pipeline (prune + writer + printer) against the bytes of
   the file written by the real run. *)
From Coq Require Import List NArith ZArith Bool String Ascii PrimFloat.
From T4V Require Import Base.Str Base.Cases C08.Model.
Import ListNotations.
Open Scope string_scope.

(* SurfaceT4.__eq__: type, parameters (numeric ==), transform (numpy ==) *)
Definition payload := (string * list float * option (list float))%type.

Definition payload_eqb (a b : payload) : bool :=
  let '(ta, pa, xa) := a in
  let '(tb, pb, xb) := b in
  String.eqb ta tb && list_eqb PrimFloat.eqb pa pb && option_eqb (list_eqb PrimFloat.eqb) xa xb.

Definition err_name (e : err) : string :=
  match e with EKey => "KeyError" | EValue => "ValueError" | EFuel => "fuel" end.

(* what the real run did: exception class name ("" = none) and the lines of
   the written file after the // header (None = no file) *)
Definition observed := (string * option (list string))%type.

Definition run_model (c : bool * Z * Z * wstate payload) : observed :=
  let '(skip_dedup, u0, u1, w) := c in
  match convert_tail payload_eqb skip_dedup u0 u1 w with
  | Err e => (err_name e, None)
  | Ok (Complete f) => ("", Some (print_file f))
  | Ok (Died hw sl e) => (err_name e, Some (print_outcome (Died hw sl e)))
  end.

Definition observed_eqb (a b : observed) : bool :=
  String.eqb (fst a) (fst b) && option_eqb (list_eqb String.eqb) (snd a) (snd b).

Definition check_case (c : (bool * Z * Z * wstate payload) * observed) : bool :=
  observed_eqb (run_model (fst c)) (snd c).
