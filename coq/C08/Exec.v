(* C08 — executable comparison functions used by the generated correspondence
   files: the model pipeline (prune + writer + printer) against the bytes of
   the file written by the real run. *)
From Coq Require Import List NArith ZArith Bool String Ascii PrimFloat.
From T4V Require Import Base.Str Base.Cases C08.Model.
Import ListNotations.
Open Scope string_scope.

(* SurfaceT4.__eq__: type, parameters (numeric ==), transform (numpy ==) *)
Definition payload := (string * list float * option (list float))%type.

Definition payload_eqb (a b : payload) : bool :=
  let '(ta, pa, xa) := a in
  let '(tb, pb, xb) := b in
  String.eqb ta tb && list_eqb PrimFloat.eqb pa pb && option_eqb (list_eqb PrimFloat.eqb) xa xb.

Definition err_name (e : err) : string :=
  match e with EKey => "KeyError" | EValue => "ValueError" | EFuel => "fuel" end.

(* what the real run did: exception class name ("" = none) and the lines of
   the written file after the // header (None = no file) *)
Definition observed := (string * option (list string))%type.

Definition run_model (c : bool * Z * Z * wstate payload) : observed :=
  let '(skip_dedup, u0, u1, w) := c in
  match convert_tail payload_eqb skip_dedup u0 u1 w with
  | Err e => (err_name e, None)
  | Ok (Complete f) => ("", Some (print_file f))
  | Ok (Died hw sl e) => (err_name e, Some (print_outcome (Died hw sl e)))
  end.

Definition observed_eqb (a b : observed) : bool :=
  String.eqb (fst a) (fst b) && option_eqb (list_eqb String.eqb) (snd a) (snd b).

Definition check_case (c : (bool * Z * Z * wstate payload) * observed) : bool :=
  observed_eqb (run_model (fst c)) (snd c).

(* ---- verdicts: the spec evaluated on the model's file vs the independent
   validator of the written bytes; and the guard of C08_write_wf ------------- *)
From T4V Require Import C08.Spec C08.Check.

Definition final_state (c : bool * Z * Z * wstate payload) : option (wstate payload) :=
  let '(skip_dedup, u0, u1, w) := c in
  match prune payload_eqb skip_dedup (w_surfs w) (w_vols w) u0 u1 with
  | Err _ => None
  | Ok (surfs, vols) =>
      Some (mkW surfs vols (w_skipped w) (w_cells w) (w_mats w) (w_rescaled w) (w_bcs w)
                (w_skip_comp w) (w_skip_geomcomp w) (w_skip_bc w))
  end.

(* hypotheses of C08_write_wf hold on the tables handed to the writers *)
Definition in_guard (c : bool * Z * Z * wstate payload) : bool :=
  match final_state c with Some w => wf_stateb w | None => false end.

(* validator verdict (true = structurally valid) of the file the real run wrote *)
Definition check_verdict (c : (bool * Z * Z * wstate payload) * observed * bool) : bool :=
  let '(inp, _, valid) := c in
  match final_state inp with
  | None => true
  | Some w =>
      match write_file w with
      | Complete f => Bool.eqb (wf_fileb f) valid
      | Died _ _ _ => negb valid
      end
  end.

Definition check_both (c : (bool * Z * Z * wstate payload) * observed * bool) : bool :=
  let '(inp, obs, valid) := c in check_case (inp, obs) && check_verdict c.

Definition outside_guard (c : (bool * Z * Z * wstate payload) * observed * bool) : bool :=
  let '(inp, _, _) := c in negb (in_guard inp).

Definition check_file (c : (bool * Z * Z * wstate payload) * observed * bool) : bool :=
  let '(inp, obs, _) := c in check_case (inp, obs).
