(* C08 — SurfaceT4.__eq__ made concrete: type name, parameter tuple and optional transform
   compared with the scalar equality of Base/Scalar.v.  One definition, two readings: at
   binary64 it is what the correspondence runs execute (Exec.payload_eqb), at R it is
   symmetric and transitive, which removes that hypothesis from the pipeline theorems. *)
From Coq Require Import List Bool String Ascii Reals.
From T4V Require Import Base.Scalar Base.Cases.
Import ListNotations.

Definition spayload (T : Type) : Type := (string * list T * option (list T))%type.

Definition spayload_eqb {T} (S : Scalar T) (a b : spayload T) : bool :=
  let '(ta, pa, xa) := a in
  let '(tb, pb, xb) := b in
  String.eqb ta tb && list_eqb (seqb S) pa pb && option_eqb (list_eqb (seqb S)) xa xb.

Section Equivalence.
Context {A : Type} (e : A -> A -> bool).
Hypothesis e_sym : forall x y, e x y = e y x.
Hypothesis e_trans : forall x y z, e x y = true -> e y z = true -> e x z = true.

Lemma list_eqb_sym (a b : list A) : list_eqb e a b = list_eqb e b a.
Proof.
  revert b. induction a as [|x a IH]; intros [|y b]; simpl; try reflexivity.
  rewrite e_sym, IH. reflexivity.
Qed.

Lemma list_eqb_trans (a b c : list A) :
  list_eqb e a b = true -> list_eqb e b c = true -> list_eqb e a c = true.
Proof.
  revert b c. induction a as [|x a IH]; intros [|y b] [|z c]; simpl; try discriminate; try reflexivity.
  intros H1 H2. apply andb_true_iff in H1. apply andb_true_iff in H2.
  destruct H1 as [H1 H1']. destruct H2 as [H2 H2']. apply andb_true_iff. split.
  - eapply e_trans; eassumption.
  - eapply IH; eassumption.
Qed.
End Equivalence.

Lemma Reqb_sym x y : Reqb x y = Reqb y x.
Proof.
  destruct (Reqb x y) eqn:E1.
  - apply Reqb_true in E1. subst. symmetry. apply Reqb_true. reflexivity.
  - apply Reqb_false in E1. symmetry. apply Reqb_false. intros H. apply E1. symmetry. assumption.
Qed.

Lemma Reqb_trans x y z : Reqb x y = true -> Reqb y z = true -> Reqb x z = true.
Proof. intros H1 H2. apply Reqb_true in H1. apply Reqb_true in H2. apply Reqb_true. congruence. Qed.

Lemma string_eqb_sym a b : String.eqb a b = String.eqb b a.
Proof. apply String.eqb_sym. Qed.

Definition Req_payload : spayload R -> spayload R -> bool := spayload_eqb RS.

Lemma Req_payload_sym x y : Req_payload x y = Req_payload y x.
Proof.
  destruct x as [[ta pa] xa]. destruct y as [[tb pb] xb]. unfold Req_payload, spayload_eqb. simpl.
  rewrite String.eqb_sym, (list_eqb_sym Reqb Reqb_sym pa pb). f_equal.
  destruct xa, xb; simpl; try reflexivity. apply (list_eqb_sym Reqb Reqb_sym).
Qed.

Lemma Req_payload_trans x y z :
  Req_payload x y = true -> Req_payload y z = true -> Req_payload x z = true.
Proof.
  destruct x as [[ta pa] xa]. destruct y as [[tb pb] xb]. destruct z as [[tc pc] xc].
  unfold Req_payload, spayload_eqb. simpl. rewrite !andb_true_iff.
  intros [[A1 A2] A3] [[B1 B2] B3]. repeat split.
  - apply String.eqb_eq in A1. apply String.eqb_eq in B1. apply String.eqb_eq. congruence.
  - eapply (list_eqb_trans Reqb Reqb_trans); eassumption.
  - destruct xa, xb, xc; simpl in *; try discriminate; try reflexivity.
    eapply (list_eqb_trans Reqb Reqb_trans); eassumption.
Qed.
