(* C08 — what "structurally valid" means for an abstract written file (the
   clauses of the property text), and the invariant on the converter's tables
   under which the writer produces such a file.  Written against the abstract
   file only; it does not look at how the writer works. *)
From Coq Require Import List NArith ZArith Bool String Ascii.
From T4V Require Import Base.Str C08.Model.
Import ListNotations.

(* ---- the written file --------------------------------------------------------- *)
Definition surf_ids (f : file) : list Z := map sl_id (f_surfs f).
Definition vol_ids (f : file) : list Z := map vl_id (f_vols f).

Definition declared_ok (x : option (N * list Z)) : Prop :=
  match x with None => True | Some (n, l) => n = N.of_nat (List.length l) end.

Definition items (x : option (N * list Z)) : list Z :=
  match x with None => [] | Some (_, l) => l end.

Definition op_args (v : volu_line) : list (option Z) :=
  match vl_op v with None => [] | Some (_, _, args) => args end.

Record wf_volu (f : file) (v : volu_line) : Prop := mk_wf_volu {
  (* every declared count equals the number of items that follow *)
  wv_plus_count : declared_ok (vl_plus v);
  wv_minus_count : declared_ok (vl_minus v);
  wv_op_count : match vl_op v with None => True | Some (_, n, args) => n = N.of_nat (List.length args) end;
  (* every surface number referenced from the equation is defined in the file *)
  wv_surfs : forall s, In s (items (vl_plus v) ++ items (vl_minus v)) -> In s (surf_ids f);
  (* no volume lists one surface on both sides *)
  wv_sides : forall s, In s (items (vl_plus v)) -> ~ In s (items (vl_minus v));
  (* every UNION/INTE operand is a number, and that volume is defined in the file *)
  wv_ops : forall x, In x (op_args v) -> exists k, x = Some k /\ In k (vol_ids f) }.

Definition wf_comps (c : N * list comp_block) : Prop :=
  fst c = N.of_nat (List.length (snd c)) /\
  Forall (fun b => cb_count b = N.of_nat (List.length (cb_items b))) (snd c).

Definition gc_listed (g : list gc_line) : list Z := List.concat (map gc_vols g).

Record wf_geomcomp (f : file) (g : list gc_line) : Prop := mk_wf_gc {
  wg_counts : Forall (fun l => gc_count l = N.of_nat (List.length (gc_vols l))) g;
  wg_defined : forall k, In k (gc_listed g) -> In k (vol_ids f);
  (* every non-virtual volume is assigned to exactly one composition ... *)
  wg_once : forall v, In v (f_vols f) -> vl_fictive v = false ->
            count_occ Z.eq_dec (gc_listed g) (vl_id v) = 1%nat;
  (* ... which is one of the compositions written (when they are written) *)
  wg_names : match f_comps f with
             | None => True
             | Some c => forall l, In l g -> In (gc_name l) (map cb_name (snd c))
             end }.

Definition wf_bc (f : file) (b : N * list (string * Z)) : Prop :=
  fst b = N.of_nat (List.length (snd b)) /\ forall p, In p (snd b) -> In (snd p) (surf_ids f).

Record wf_file (f : file) : Prop := mk_wf_file {
  wf_surf_once : NoDup (surf_ids f);          (* each surface number is defined once *)
  wf_vol_once : NoDup (vol_ids f);            (* each volume number is defined once *)
  wf_volumes : Forall (wf_volu f) (f_vols f);
  wf_composition : match f_comps f with None => True | Some c => wf_comps c end;
  wf_gc : match f_geomcomp f with None => True | Some g => wf_geomcomp f g end;
  wf_bcs : match f_bc f with None => True | Some b => wf_bc f b end }.

(* ---- the tables ------------------------------------------------------------------ *)
Section State.
Context {E : Type}.

(* references of the volume table are closed: operands are numbers of volumes of
   the table, surfaces are keys of the surface table, keys are distinct *)
Record refs_ok (surfs : stable E) (vols : vtable) : Prop := mk_refs_ok {
  ro_keys : NoDup (keys vols);
  ro_surfs : forall k v s, In (k, v) vols -> In s (surface_ids v) -> In s (keys surfs);
  ro_ops : forall k v x, In (k, v) vols -> In x (operands v) -> exists j, x = Some j /\ In j (keys vols) }.

Definition sides_ok (vols : vtable) : Prop :=
  forall k v s, In (k, v) vols -> In s (v_plus v) -> ~ In s (v_minus v).

(* the cell a GEOMCOMP line is computed from *)
Definition vol_cell_id (k : Z) (v : volume) : Z :=
  match v_origin v with (a, _) :: _ => a | [] => k end.

(* the composition a cell names exists: void -> "m0"; otherwise the material number is
   the number of a card and some live cell carries this material and density (this is
   what makes constructCompositionT4 emit the block).  No condition on the spelling of
   the material token any more (fix d8902ad) *)
Definition cell_named (w : wstate E) (c : cell) : Prop :=
  match c_density c with
  | None => c_matint c = Some 0%Z
  | Some d =>
      exists key m c' cid,
        In (key, m) (w_mats w) /\ c_matint c = Some key /\
        In (cid, c') (w_cells w) /\ c_live c' = true /\ c_matint c' = Some key /\ c_density c' = Some d
  end.

Definition norm_fixed (c : cell) : Prop :=
  forall d, c_density c = Some d -> c_density_norm c = d.

Record wf_state (w : wstate E) : Prop := mk_wf_state {
  ws_refs : refs_ok (w_surfs w) (w_vols w);
  ws_sides : sides_ok (w_vols w);
  ws_some_surface : exists k v s, In (k, v) (w_vols w) /\ In s (surface_ids v);
  (* volumes left out of the file are virtual and nobody refers to them *)
  ws_skipped_fictive : forall k v, In (k, v) (w_vols w) -> In k (w_skipped w) -> v_fictive v = true;
  ws_skipped_unused : forall k v j, In (k, v) (w_vols w) -> In (Some j) (operands v) -> ~ In j (w_skipped w);
  (* every non-virtual volume comes from a cell whose composition is written *)
  ws_cells : forall k v, In (k, v) (w_vols w) -> v_fictive v = false ->
             exists c, lookup (vol_cell_id k v) (w_cells w) = Some c /\ cell_named w c;
  ws_norm : forall cid c, In (cid, c) (w_cells w) -> norm_fixed c }.

End State.
