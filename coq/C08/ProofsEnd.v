(* C08 — the end-to-end statement at the text level: from the tables construct_volume_t4
   returns to the characters of the file. *)
From Coq Require Import List NArith ZArith Bool String Ascii Lia Permutation.
From T4V Require Import Base.Str C08.Model C08.Spec C08.ProofsSets C08.ProofsWrite C08.ProofsPrune
     C08.ProofsTail C08.Parse C08.ProofsChars C08.ProofsParse C08.ProofsGiven.
Import ListNotations.

Section End.
Context {E : Type}.
Variable eeqb : E -> E -> bool.
Hypothesis eeqb_sym : forall x y, eeqb x y = eeqb y x.
Hypothesis eeqb_trans : forall x y z, eeqb x y = true -> eeqb y z = true -> eeqb x z = true.

(* de-duplication only drops entries of the surface dictionary *)
Lemma dedup_incl (surfs news : stable E) ren :
  remove_duplicate_surfaces eeqb surfs = Ok (news, ren) -> forall p, In p news -> In p surfs.
Proof.
  unfold remove_duplicate_surfaces. destruct surfs as [|p0 r0] eqn:ES; [discriminate|]. rewrite <- ES.
  intros H. inversion H as [H'].
  destruct (dedup_go_rel eeqb surfs (ksort surfs) [] [] news ren) as [_ [R2 _]]; try assumption.
  - intros p Hp. apply (Permutation_in _ (ksort_perm surfs)). assumption.
  - intros p [].
  - intros k t [].
Qed.

Lemma prune_surfs_incl skip_dedup (surfs : stable E) vols u0 u1 surfs' vols' ren' :
  prune eeqb skip_dedup surfs vols u0 u1 = Ok (surfs', vols', ren') -> forall p, In p surfs' -> In p surfs.
Proof.
  unfold prune. intros H. destruct skip_dedup.
  - destruct (remove_empty_volumes vols u0 u1); [|discriminate]. inversion H; subst. tauto.
  - destruct (remove_duplicate_surfaces eeqb surfs) as [[news ren]|e] eqn:Ed; [|discriminate].
    destruct (renumber_surfaces vols ren) as [v1|e]; [|discriminate].
    destruct (lookup u0 ren) as [a|]; [|discriminate]. destruct (lookup u1 ren) as [b|]; [|discriminate].
    destruct (remove_empty_volumes v1 a b); [|discriminate]. inversion H; subst.
    eapply dedup_incl; eassumption.
Qed.

Theorem convert_tail_text_wf skip_dedup u0 u1 (w : wstate E) :
  stage0_ok eeqb u0 u1 w -> words_ok w ->
  exists o, convert_tail eeqb skip_dedup u0 u1 w = Ok o /\
    (o = Died false [] EValue \/
     exists f, (o = Complete f \/ exists e, o = Raised f e) /\
               wf_file f /\ parse_t4 (print_t4 f) = Some f /\
               forall finite : string -> Prop,
                 Forall finite (state_numbers w) -> Forall finite (file_numbers f)).
Proof.
  intros Hst Hwo. pose proof Hst as [Hrefs Hhelp Hne Hsk Hcells Hnorm]. unfold convert_tail.
  destruct (prune_total eeqb skip_dedup (w_surfs w) (w_vols w) u0 u1 Hrefs Hhelp Hne)
    as [[[surfs' vols'] ren'] Hp].
  rewrite Hp. eexists. split; [reflexivity|].
  set (w' := mkW surfs' vols' (w_skipped w) (w_cells w) (w_mats w) (w_rescaled w) (w_bcs w)
                 (w_skip_comp w) (w_skip_geomcomp w) (w_skip_bc w)).
  (* reuse the abstract end-to-end theorem through convert_tail itself *)
  destruct (convert_tail_wf eeqb eeqb_sym eeqb_trans skip_dedup u0 u1 w Hst) as [o [Ho Hcase]].
  unfold convert_tail in Ho. rewrite Hp in Ho. inversion Ho as [Ho']. clear Ho.
  fold w' in Ho' |- *. rewrite Ho'.
  destruct Hcase as [->|[f [Hwf Hf]]]; [left; reflexivity|]. right. exists f.
  assert (Hw : written ren' w' f).
  { destruct Hf as [->|[e [-> _]]]; [left; exact Ho'|right; exists e; exact Ho']. }
  assert (Hwo' : words_ok w').
  { destruct Hwo as [Ws Wc Wm Wr]. constructor; simpl; try assumption.
    intros k s Hin. apply (Ws k s). eapply prune_surfs_incl; eassumption. }
  split; [destruct Hf as [->|[e [-> _]]]; [left; reflexivity|right; exists e; reflexivity]|].
  split; [assumption|]. split.
  - apply parse_print_roundtrip. eapply written_printable; eassumption.
  - intros finite Hfin. eapply numbers_finite; [exact Hw|].
    apply Forall_forall. intros x Hx. rewrite Forall_forall in Hfin. apply Hfin.
    unfold state_numbers in *. simpl in Hx. apply in_app_or in Hx. apply in_or_app.
    destruct Hx as [Hx|Hx]; [left|right; assumption].
    apply in_flat_map in Hx. destruct Hx as [p [Hp1 Hp2]]. apply in_flat_map. exists p.
    split; [eapply prune_surfs_incl; eassumption|assumption].
Qed.

End End.
