(* C08 — the empty volume table (every cell of the deck is empty): the tail raises
   ValueError before the file is opened, or leaves the // header only.  This removes the
   hypothesis "the volume table is not empty" from the end-to-end theorems. *)
From Coq Require Import List NArith ZArith Bool String Ascii Lia Reals.
From T4V Require Import Base.Str Base.Scalar C08.Model C08.Spec C08.ProofsSets C08.ProofsPrune C08.ProofsTail
     C08.SurfEq C08.Parse C08.ProofsGiven C08.ProofsEnd C08.ProofsHelpers C08.LinkC01 C08.LinkC09 C08.LinkFull.
Import ListNotations.

Lemma convert_tail_empty {E} (eeqb : E -> E -> bool) skip_dedup u0 u1 (w : wstate E) :
  w_vols w = [] ->
  convert_tail eeqb skip_dedup u0 u1 w = Err EValue \/
  convert_tail eeqb skip_dedup u0 u1 w = Ok (Died false [] EValue).
Proof.
  intros Hv. unfold convert_tail, prune. rewrite Hv. destruct skip_dedup.
  - right. reflexivity.
  - left. destruct (remove_duplicate_surfaces eeqb (w_surfs w)) as [[news ren]|e] eqn:Ed.
    + reflexivity.
    + unfold remove_duplicate_surfaces in Ed. destruct (w_surfs w); inversion Ed. reflexivity.
Qed.

Record stage0_rest5 (cnt0 : Z) (todo : list Z) (w : wstate (spayload R)) : Prop := mk_stage0_rest5 {
  s5_skipped : forall k, In k (w_skipped w) -> (k <= cnt0)%Z /\ ~ In k todo;
  s5_cells : forall k v, In (k, v) (w_vols w) -> v_fictive v = false ->
             exists c, lookup (vol_cell_id k v) (w_cells w) = Some c /\ cell_named w c;
  s5_density : forall cid c, In (cid, c) (w_cells w) -> density_from_c09 c;
  s5_words : words_ok w }.

Theorem convert_wf_all_linked_total :
  forall (A : Type) (dic : list (Z * list (A * Z))) num mat
         (surfs0 : stable (spayload R)) fuel cells u0 u1 todo cnt0 s' skip_dedup (w : wstate (spayload R)),
  M2.number_items dic = M2.Ok (num, mat) ->
  (forall k, In k (P2.keys dic) -> (0 < k)%Z) -> NoDup (P2.keys dic) ->
  Forall (fun kv => P2.unit_sides (snd kv)) dic ->
  keys surfs0 = map fst num -> (exists k, In k (keys surfs0) /\ (0 < k)%Z) ->
  insert_helpers surfs0 (helper_plane "1" 1%R) (helper_plane "-1" (-1)%R) = Ok (w_surfs w, u0, u1) ->
  M1.convert_cells fuel cells mat u0 u1 todo (M1.mkSt cnt0 [] [] []) = M1.Ok s' ->
  w_vols w = tr_table (M1.vols s') ->
  stage0_rest5 cnt0 todo w ->
  (* every cell is empty: ValueError before the file is opened *)
  convert_tail Req_payload skip_dedup u0 u1 w = Err EValue \/
  exists o, convert_tail Req_payload skip_dedup u0 u1 w = Ok o /\
    (o = Died false [] EValue \/
     exists f, (o = Complete f \/ exists e, o = Raised f e) /\
               wf_file f /\ parse_t4 (print_t4 f) = Some f /\
               forall finite : string -> Prop,
                 Forall finite (state_numbers w) -> Forall finite (file_numbers f)).
Proof.
  intros A dic num mat surfs0 fuel cells u0 u1 todo cnt0 s' skip_dedup w
         Hnum Hpos Hnd Hu Hkeys Hkp Hins Hrun Hv [Hsk Hc Hd Hw].
  destruct (w_vols w) as [|p0 r0] eqn:Ev.
  - destruct (convert_tail_empty Req_payload skip_dedup u0 u1 w Ev) as [H|H]; [left; assumption|].
    right. eexists. split; [exact H|]. left. reflexivity.
  - right. rewrite <- Ev in *.
    eapply (convert_wf_all_linked A dic num mat surfs0 fuel cells u0 u1 todo cnt0 s' skip_dedup w); try eassumption.
    constructor; try assumption. rewrite Ev. discriminate.
Qed.
