(* C08 — de-duplication, renumbering, remove_empty_volumes, remove_unused_volumes:
   closed references are preserved, "no surface on both sides" is established. *)
From Coq Require Import List NArith ZArith Bool String Ascii Lia Sorted Permutation.
From T4V Require Import Base.Str C08.Model C08.Spec C08.ProofsSets.
Import ListNotations.

Section P.
Context {E : Type}.
Variable eeqb : E -> E -> bool.
Implicit Types (surfs news : stable E).

(* ---- remove_duplicate_surfaces ------------------------------------------------------ *)
Lemma dedup_go_inv l : forall news ren news' ren',
  dedup_go eeqb l news ren = (news', ren') ->
  (forall k t, In (k, t) ren -> In t (keys news)) ->
  (forall k t, In (k, t) ren' -> In t (keys news')) /\
  (forall k, In k (keys news) -> In k (keys news')).
Proof.
  induction l as [|[k s] r IH]; intros news ren news' ren' H Hren; simpl in H.
  - inversion H; subst. split; [assumption|tauto].
  - destruct (List.find _ news) as [[k0 s0]|] eqn:Ef.
    + apply find_some in Ef. destruct Ef as [Ef _].
      apply IH in H; [assumption|].
      intros k1 t Hin. apply in_app_or in Hin. destruct Hin as [Hin|[Hin|[]]].
      * eapply Hren; eassumption.
      * inversion Hin; subst. eapply in_keys; eassumption.
    + apply IH in H.
      * destruct H as [H1 H2]. split; [assumption|].
        intros k1 Hk1. apply H2. rewrite keys_app. apply in_or_app. left. assumption.
      * intros k1 t Hin. rewrite keys_app. apply in_or_app.
        apply in_app_or in Hin. destruct Hin as [Hin|[Hin|[]]].
        -- left. eapply Hren; eassumption.
        -- inversion Hin; subst. right. left. reflexivity.
Qed.

Lemma remove_duplicate_surfaces_spec surfs news ren :
  remove_duplicate_surfaces eeqb surfs = Ok (news, ren) ->
  forall k t, In (k, t) ren -> In t (keys news).
Proof.
  unfold remove_duplicate_surfaces. destruct surfs as [|p r]; [discriminate|].
  intros H. inversion H as [H']. apply dedup_go_inv in H'; [apply H'|].
  intros k t [].
Qed.

(* sorted(surfs.items()) is a permutation *)
Lemma kinsert_perm {A} (p : Z * A) l : Permutation (kinsert p l) (p :: l).
Proof.
  induction l as [|q r IH]; simpl; [reflexivity|].
  destruct (fst p <=? fst q)%Z; [reflexivity|].
  eapply Permutation_trans; [apply perm_skip; exact IH|]. apply perm_swap.
Qed.

Lemma ksort_perm {A} (l : list (Z * A)) : Permutation (ksort l) l.
Proof.
  induction l as [|p r IH]; simpl; [reflexivity|].
  eapply Permutation_trans; [apply kinsert_perm|]. apply perm_skip. exact IH.
Qed.

(* what the renumbering relates: a surface to itself (it was kept) or to an earlier kept
   surface it is equal to; every processed key gets an entry *)
Definition ren_rel (L news : stable E) (k t : Z) : Prop :=
  exists sk st, In (k, sk) L /\ In (t, st) news /\
    (eeqb (s_eq sk) (s_eq st) = true \/ (t = k /\ st = sk)).

Lemma dedup_go_rel (L : stable E) l : forall news ren news' ren',
  (forall p, In p l -> In p L) -> (forall p, In p news -> In p L) ->
  (forall k t, In (k, t) ren -> ren_rel L news k t) ->
  dedup_go eeqb l news ren = (news', ren') ->
  (forall k t, In (k, t) ren' -> ren_rel L news' k t) /\
  (forall p, In p news' -> In p L) /\
  (forall k, In k (keys ren) \/ In k (keys l) -> In k (keys ren')).
Proof.
  induction l as [|[k s] r IH]; intros news ren news' ren' Hl Hn Hr H; simpl in H.
  - inversion H; subst. repeat split; try assumption. intros k [A|[]]. assumption.
  - assert (Hl' : forall p, In p r -> In p L) by (intros p Hp; apply Hl; right; assumption).
    destruct (List.find _ news) as [[k0 s0]|] eqn:Ef.
    + apply find_some in Ef. destruct Ef as [Ef1 Ef2]. simpl in Ef2.
      apply IH in H; try assumption.
      * destruct H as [H1 [H2 H3]]. repeat split; try assumption.
        intros k1 [A|[A|A]]; apply H3.
        -- left. rewrite keys_app. apply in_or_app. left. assumption.
        -- left. rewrite keys_app. apply in_or_app. right. left. assumption.
        -- right. assumption.
      * intros k1 t Hin. apply in_app_or in Hin. destruct Hin as [Hin|[Hin|[]]]; [apply Hr; assumption|].
        inversion Hin; subst. exists s, s0. split; [apply Hl; left; reflexivity|]. split; [assumption|].
        left. assumption.
    + apply IH in H; try assumption.
      * destruct H as [H1 [H2 H3]]. repeat split; try assumption.
        intros k1 [A|[A|A]]; apply H3.
        -- left. rewrite keys_app. apply in_or_app. left. assumption.
        -- left. rewrite keys_app. apply in_or_app. right. left. assumption.
        -- right. assumption.
      * intros p Hp. apply in_app_or in Hp. destruct Hp as [Hp|[<-|[]]]; [apply Hn; assumption|].
        apply Hl. left. reflexivity.
      * intros k1 t Hin. apply in_app_or in Hin. destruct Hin as [Hin|[Hin|[]]].
        -- destruct (Hr k1 t Hin) as [sk [st [A [B C]]]]. exists sk, st.
           split; [assumption|]. split; [apply in_or_app; left; assumption|assumption].
        -- inversion Hin; subst. exists s, s. split; [apply Hl; left; reflexivity|].
           split; [apply in_or_app; right; left; reflexivity|]. right. split; reflexivity.
Qed.

(* the helper planes survive de-duplication under their new numbers, and the two numbers
   stay different as long as the two planes are different surfaces *)
Lemma helpers_renumbered surfs news ren u0 u1 s0 s1 a b :
  NoDup (keys surfs) -> In (u0, s0) surfs -> In (u1, s1) surfs -> u0 <> u1 ->
  eeqb (s_eq s0) (s_eq s1) = false ->
  (forall x y, eeqb x y = eeqb y x) ->
  (forall x y z, eeqb x y = true -> eeqb y z = true -> eeqb x z = true) ->
  remove_duplicate_surfaces eeqb surfs = Ok (news, ren) ->
  lookup u0 ren = Some a -> lookup u1 ren = Some b ->
  In a (keys news) /\ In b (keys news) /\ a <> b.
Proof.
  intros Hnd H0 H1 Hne Hdiff Hsym Htrans Hd La Lb.
  unfold remove_duplicate_surfaces in Hd. destruct surfs as [|p0 r0] eqn:ES; [discriminate|].
  rewrite <- ES in *. inversion Hd as [Hd']. clear Hd.
  destruct (dedup_go_rel surfs (ksort surfs) [] [] news ren) as [R1 [R2 _]]; try assumption.
  { intros p Hp. apply (Permutation_in _ (ksort_perm surfs)). assumption. }
  { intros p []. }
  { intros k t []. }
  apply lookup_Some_In in La. apply lookup_Some_In in Lb.
  destruct (R1 u0 a La) as [sa [ta [A1 [A2 A3]]]]. destruct (R1 u1 b Lb) as [sb [tb [B1 [B2 B3]]]].
  assert (sa = s0) by (eapply NoDup_keys_unique; eassumption). subst sa.
  assert (sb = s1) by (eapply NoDup_keys_unique; eassumption). subst sb.
  split; [eapply in_keys; eassumption|]. split; [eapply in_keys; eassumption|].
  intros Heq. subst b.
  assert (ta = tb).
  { eapply NoDup_keys_unique; [exact Hnd| |]; apply R2; eassumption. }
  subst tb.
  destruct A3 as [A3|[A3 A4]]; destruct B3 as [B3|[B3 B4]].
  - rewrite (Hsym (s_eq s1) (s_eq ta)) in B3. rewrite (Htrans _ _ _ A3 B3) in Hdiff. discriminate.
  - subst. rewrite A3 in Hdiff. discriminate.
  - subst. rewrite Hsym, B3 in Hdiff. discriminate.
  - subst. contradiction.
Qed.

Lemma dedup_keys_total surfs news ren k :
  remove_duplicate_surfaces eeqb surfs = Ok (news, ren) -> In k (keys surfs) -> In k (keys ren).
Proof.
  unfold remove_duplicate_surfaces. destruct surfs as [|p0 r0] eqn:ES; [discriminate|]. rewrite <- ES.
  intros H Hk. inversion H as [H'].
  destruct (dedup_go_rel surfs (ksort surfs) [] [] news ren) as [_ [_ R3]]; try assumption.
  { intros p Hp. apply (Permutation_in _ (ksort_perm surfs)). assumption. }
  { intros p []. }
  { intros k1 t []. }
  apply R3. right. apply keys_in in Hk. destruct Hk as [s Hk].
  apply in_keys with (a := s). apply (Permutation_in _ (Permutation_sym (ksort_perm surfs))). assumption.
Qed.

(* ---- renumber_surfaces ---------------------------------------------------------------- *)
Lemma renumber_set_spec ren l l' :
  renumber_set ren l = Ok l' -> forall t, In t l' -> exists s, In s l /\ lookup s ren = Some t.
Proof.
  revert l'. induction l as [|s r IH]; intros l' H; simpl in H.
  - inversion H; subst. intros t [].
  - destruct (lookup s ren) as [t0|] eqn:El; [|discriminate].
    destruct (renumber_set ren r) as [r'|e]; [|discriminate]. inversion H; subst.
    intros t [Ht|Ht].
    + subst. exists s. split; [left; reflexivity|assumption].
    + destruct (IH r' eq_refl t Ht) as [s1 [A B]]. exists s1. split; [right; assumption|assumption].
Qed.

Lemma renumber_go_spec ren vols vols' :
  renumber_go ren vols = Ok vols' ->
  keys vols' = keys vols /\
  forall k v', In (k, v') vols' ->
    exists v, In (k, v) vols /\ operands v' = operands v /\
      forall s, In s (surface_ids v') -> exists s0, In s0 (surface_ids v) /\ lookup s0 ren = Some s.
Proof.
  revert vols'. induction vols as [|[k v] r IH]; intros vols' H; simpl in H.
  - inversion H; subst. split; [reflexivity|]. intros k v' [].
  - destruct (renumber_set ren (v_plus v)) as [p|e] eqn:Ep; [|discriminate].
    destruct (renumber_set ren (v_minus v)) as [m|e] eqn:Em; [|discriminate].
    destruct (renumber_go ren r) as [r'|e]; [|discriminate]. inversion H; subst.
    destruct (IH r' eq_refl) as [IH1 IH2]. split; [simpl; rewrite IH1; reflexivity|].
    intros k1 v' [Hin|Hin].
    + inversion Hin; subst. exists v. split; [left; reflexivity|]. split; [reflexivity|].
      unfold surface_ids. simpl. intros s Hs. apply in_app_or in Hs.
      destruct Hs as [Hs|Hs]; apply (proj1 (mkset_In _ _)) in Hs.
      * destruct (renumber_set_spec _ _ _ Ep s Hs) as [s0 [A B]]. exists s0.
        split; [apply in_or_app; left; assumption|assumption].
      * destruct (renumber_set_spec _ _ _ Em s Hs) as [s0 [A B]]. exists s0.
        split; [apply in_or_app; right; assumption|assumption].
    + destruct (IH2 k1 v' Hin) as [v1 [A [B C]]]. exists v1. split; [right; assumption|]. split; assumption.
Qed.

Lemma renumber_set_total ren l :
  (forall s, In s l -> In s (keys ren)) -> exists l', renumber_set ren l = Ok l'.
Proof.
  induction l as [|s r IH]; intros H; simpl; [eexists; reflexivity|].
  destruct (lookup_in_keys s ren (H s (or_introl eq_refl))) as [t Ht]. rewrite Ht.
  destruct IH as [r' Hr']; [intros s1 Hs1; apply H; right; assumption|]. rewrite Hr'. eexists. reflexivity.
Qed.

Lemma renumber_go_total ren vols :
  (forall k v s, In (k, v) vols -> In s (surface_ids v) -> In s (keys ren)) ->
  exists vols', renumber_go ren vols = Ok vols'.
Proof.
  induction vols as [|[k v] r IH]; intros H; simpl; [eexists; reflexivity|].
  destruct (renumber_set_total ren (v_plus v)) as [p Hp].
  { intros s Hs. apply (H k v s (or_introl eq_refl)). unfold surface_ids. apply in_or_app. left. assumption. }
  destruct (renumber_set_total ren (v_minus v)) as [m Hm].
  { intros s Hs. apply (H k v s (or_introl eq_refl)). unfold surface_ids. apply in_or_app. right. assumption. }
  rewrite Hp, Hm. destruct IH as [r' Hr'].
  { intros k1 v1 s1 Hin. apply (H k1 v1 s1). right. assumption. }
  rewrite Hr'. eexists. reflexivity.
Qed.

Lemma dedup_refs_ok surfs vols news ren vols' :
  refs_ok surfs vols ->
  remove_duplicate_surfaces eeqb surfs = Ok (news, ren) ->
  renumber_surfaces vols ren = Ok vols' ->
  refs_ok news vols'.
Proof.
  intros [Hk Hs Ho] Hd Hr.
  unfold renumber_surfaces in Hr. destruct vols as [|p0 r0] eqn:EV; [discriminate|]. rewrite <- EV in *.
  apply renumber_go_spec in Hr. destruct Hr as [R1 R2].
  constructor.
  - rewrite R1. assumption.
  - intros k v' s Hin Hs'. destruct (R2 k v' Hin) as [v [A [B C]]].
    destruct (C s Hs') as [s0 [D F]]. apply lookup_Some_In in F.
    eapply remove_duplicate_surfaces_spec; eassumption.
  - intros k v' x Hin Hx. destruct (R2 k v' Hin) as [v [A [B C]]]. rewrite B in Hx.
    rewrite R1. eapply Ho; eassumption.
Qed.

End P.

(* ---- remove_empty_volumes ----------------------------------------------------------------- *)
Definition helper (v : volume) (u0 u1 : Z) : volume :=
  mkVol [u0] [u1] (v_ops v) (v_origin v) (v_fictive v).

Lemma process_remove_spec tr u0 u1 T : forall T1 rem,
  process_remove tr u0 u1 T = (T1, rem) ->
  (forall k v1, In (k, v1) T1 ->
     exists v, In (k, v) T /\ ((~ In k tr /\ v1 = v) \/ (In k tr /\ is_union v = true /\ v1 = helper v u0 u1))) /\
  (forall k, In k (keys T) -> In k (keys T1) \/ In k rem) /\
  (forall k, In k (keys T1) -> In k (keys T)) /\
  (NoDup (keys T) -> NoDup (keys T1)) /\
  (forall k v, In (k, v) T -> In k tr -> is_union v = false -> In k rem) /\
  (List.length T1 + List.length rem = List.length T)%nat.
Proof.
  induction T as [|[k v] r IH]; intros T1 rem H; simpl in H.
  - inversion H; subst. repeat split; simpl; try tauto; try (intros; constructor).
  - destruct (process_remove tr u0 u1 r) as [r' rem'] eqn:Er.
    destruct (IH r' rem' eq_refl) as [I1 [I2 [I3 [I4 [I5 I6]]]]].
    destruct (zmem k tr) eqn:Ez.
    + apply zmem_In in Ez. destruct (is_union v) eqn:Eu; inversion H; subst; clear H.
      * repeat split.
        -- intros k1 v1 [Hin|Hin].
           ++ inversion Hin; subst. exists v. split; [left; reflexivity|]. right. repeat split; assumption.
           ++ destruct (I1 k1 v1 Hin) as [v2 [A B]]. exists v2. split; [right; assumption|assumption].
        -- simpl. intros k1 [->|Hk]; [left; left; reflexivity|].
           destruct (I2 k1 Hk) as [A|A]; [left; right; assumption|right; assumption].
        -- simpl. intros k1 [->|Hk]; [left; reflexivity|right; apply I3; assumption].
        -- simpl. intros Hnd. inversion Hnd as [|? ? Hn Hr]; subst. constructor; [|apply I4; assumption].
           intros Hin. apply Hn. apply I3. assumption.
        -- intros k1 v1 [Hin|Hin] Hk Hu.
           ++ inversion Hin; subst. congruence.
           ++ eapply I5; eassumption.
        -- simpl. lia.
      * repeat split.
        -- intros k1 v1 Hin. destruct (I1 k1 v1 Hin) as [v2 [A B]]. exists v2. split; [right; assumption|assumption].
        -- simpl. intros k1 [->|Hk]; [right; left; reflexivity|].
           destruct (I2 k1 Hk) as [A|A]; [left; assumption|right; right; assumption].
        -- simpl. intros k1 Hk. right. apply I3. assumption.
        -- simpl. intros Hnd. inversion Hnd; subst. apply I4. assumption.
        -- intros k1 v1 [Hin|Hin] Hk Hu.
           ++ inversion Hin; subst. left. reflexivity.
           ++ right. eapply I5; eassumption.
        -- simpl. lia.
    + apply zmem_false in Ez. inversion H; subst; clear H. repeat split.
      * intros k1 v1 [Hin|Hin].
        -- inversion Hin; subst. exists v1. split; [left; reflexivity|]. left. split; [assumption|reflexivity].
        -- destruct (I1 k1 v1 Hin) as [v2 [A B]]. exists v2. split; [right; assumption|assumption].
      * simpl. intros k1 [->|Hk]; [left; left; reflexivity|].
        destruct (I2 k1 Hk) as [A|A]; [left; right; assumption|right; assumption].
      * simpl. intros k1 [->|Hk]; [left; reflexivity|right; apply I3; assumption].
      * simpl. intros Hnd. inversion Hnd as [|? ? Hn Hr]; subst. constructor; [|apply I4; assumption].
        intros Hin. apply Hn. apply I3. assumption.
      * intros k1 v1 [Hin|Hin] Hk Hu.
        -- inversion Hin; subst. contradiction.
        -- eapply I5; eassumption.
      * simpl. lia.
Qed.

Lemma scan_spec R T : forall T2 tr2,
  scan R T = (T2, tr2) ->
  keys T2 = keys T /\
  (forall k v2, In (k, v2) T2 ->
     exists v, In (k, v) T /\ v_plus v2 = v_plus v /\ v_minus v2 = v_minus v /\
       (forall x, In x (operands v2) -> In x (operands v)) /\
       (~ In k tr2 -> forall x, In x (operands v2) -> opt_in R x = false)) /\
  (forall k, In k tr2 -> exists v2, In (k, v2) T2 /\ is_union v2 = false) /\
  List.length T2 = List.length T.
Proof.
  induction T as [|[k v] r IH]; intros T2 tr2 H; simpl in H.
  - inversion H; subst. repeat split; try reflexivity. + intros k v2 []. + intros k [].
  - destruct (scan R r) as [r' tr] eqn:Er.
    destruct (IH r' tr eq_refl) as [I1 [I2 [I3 I4]]].
    assert (Htail : forall tr2', (forall j, In j tr -> In j tr2') ->
              forall k1 v2, In (k1, v2) r' ->
              exists v0, In (k1, v0) ((k, v) :: r) /\ v_plus v2 = v_plus v0 /\ v_minus v2 = v_minus v0 /\
                (forall x, In x (operands v2) -> In x (operands v0)) /\
                (~ In k1 tr2' -> forall x, In x (operands v2) -> opt_in R x = false)).
    { intros tr2' Hsub k1 v2 Hin. destruct (I2 k1 v2 Hin) as [v0 [A [B [C [D F]]]]].
      exists v0. repeat split; try assumption; [right; assumption|].
      intros Hn. apply F. intros Hj. apply Hn. apply Hsub. assumption. }
    destruct (v_ops v) as [[[|] args]|] eqn:Eo.
    + (* UNION *)
      inversion H; subst; clear H. repeat split.
      * simpl. rewrite I1. reflexivity.
      * intros k1 v2 [Hin|Hin]; [|apply (Htail tr2); [tauto|assumption]].
        inversion Hin; subst. exists v. split; [left; reflexivity|].
        split; [reflexivity|]. split; [reflexivity|]. unfold operands. cbn [v_ops]. rewrite Eo.
        split.
        -- intros x Hx. destruct (filter _ args) eqn:Ef; [destruct Hx|].
           rewrite <- Ef in Hx. apply filter_In in Hx. apply Hx.
        -- intros _ x Hx. destruct (filter _ args) eqn:Ef; [destruct Hx|].
           rewrite <- Ef in Hx. apply filter_In in Hx. destruct Hx as [_ Hx].
           apply negb_true_iff in Hx. assumption.
      * intros k1 Hk. destruct (I3 k1 Hk) as [v2 [A B]]. exists v2. split; [right; assumption|assumption].
      * simpl. rewrite I4. reflexivity.
    + (* INTE *)
      destruct (existsb (opt_in R) args) eqn:Ex; inversion H; subst; clear H; repeat split.
      * simpl. rewrite I1. reflexivity.
      * intros k1 v2 [Hin|Hin]; [|apply (Htail (k :: tr)); [intros j Hj; right; assumption|assumption]].
        inversion Hin; subst. exists v2. split; [left; reflexivity|]. repeat split; try tauto.
        intros Hn. exfalso. apply Hn. left. reflexivity.
      * intros k1 [->|Hk].
        -- exists v. split; [left; reflexivity|]. unfold is_union. rewrite Eo. reflexivity.
        -- destruct (I3 k1 Hk) as [v2 [A B]]. exists v2. split; [right; assumption|assumption].
      * simpl. rewrite I4. reflexivity.
      * simpl. rewrite I1. reflexivity.
      * intros k1 v2 [Hin|Hin]; [|apply (Htail tr2); [tauto|assumption]].
        inversion Hin; subst. exists v2. split; [left; reflexivity|]. repeat split; try tauto.
        intros _ x Hx. unfold operands in Hx. rewrite Eo in Hx.
        destruct (opt_in R x) eqn:Eox; [|reflexivity].
        assert (existsb (opt_in R) args = true) as C by (apply existsb_exists; exists x; split; assumption).
        congruence.
      * intros k1 Hk. destruct (I3 k1 Hk) as [v2 [A B]]. exists v2. split; [right; assumption|assumption].
      * simpl. rewrite I4. reflexivity.
    + (* no operator *)
      inversion H; subst; clear H. repeat split.
      * simpl. rewrite I1. reflexivity.
      * intros k1 v2 [Hin|Hin]; [|apply (Htail tr2); [tauto|assumption]].
        inversion Hin; subst. exists v2. split; [left; reflexivity|]. repeat split; try tauto.
        intros _ x Hx. unfold operands in Hx. rewrite Eo in Hx. destruct Hx.
      * intros k1 Hk. destruct (I3 k1 Hk) as [v2 [A B]]. exists v2. split; [right; assumption|assumption].
      * simpl. rewrite I4. reflexivity.
Qed.

Lemma re_loop_step f u0 u1 T R k tr' :
  re_loop (S f) u0 u1 T R (k :: tr') =
  let '(T1, rem) := process_remove (k :: tr') u0 u1 T in
  let '(T2, tr2) := scan (rem ++ R) T1 in
  re_loop f u0 u1 T2 (rem ++ R) tr2.
Proof. reflexivity. Qed.

Section Loop.
Variables (S K0 : list Z) (u0 u1 : Z).
Hypothesis Hu0 : In u0 S.
Hypothesis Hu1 : In u1 S.
Hypothesis Hne : u0 <> u1.

Record inv (T : vtable) (R tr : list Z) : Prop := mk_inv {
  i_nodup : NoDup (keys T);
  i_cover : forall k, In k K0 -> In k (keys T) \/ In k R;
  i_ops : forall k v x, In (k, v) T -> In x (operands v) -> exists j, x = Some j /\ In j K0;
  i_surfs : forall k v s, In (k, v) T -> In s (surface_ids v) -> In s S;
  i_nonempty : forall k v, In (k, v) T -> ~ In k tr -> vempty v = false;
  i_clean : forall k v x, In (k, v) T -> ~ In k tr -> In x (operands v) -> opt_in R x = false }.

Definition final (T : vtable) : Prop :=
  NoDup (keys T) /\
  (forall k v x, In (k, v) T -> In x (operands v) -> exists j, x = Some j /\ In j (keys T)) /\
  (forall k v s, In (k, v) T -> In s (surface_ids v) -> In s S) /\
  (forall k v, In (k, v) T -> vempty v = false).

Lemma helper_nonempty v : vempty (helper v u0 u1) = false.
Proof.
  unfold vempty, helper, zmem. simpl. destruct (u0 =? u1)%Z eqn:Eq; [|reflexivity].
  apply Z.eqb_eq in Eq. contradiction.
Qed.

Lemma opt_in_app R1 R2 x : opt_in (R1 ++ R2) x = opt_in R1 x || opt_in R2 x.
Proof. destruct x as [j|]; simpl; [|reflexivity]. unfold zmem. apply existsb_app. Qed.

Lemma inv_step T R tr T1 rem T2 tr2 :
  inv T R tr ->
  process_remove tr u0 u1 T = (T1, rem) ->
  scan (rem ++ R) T1 = (T2, tr2) ->
  inv T2 (rem ++ R) tr2.
Proof.
  intros [N C O SF NE CL] Hp Hs.
  destruct (process_remove_spec _ _ _ _ _ _ Hp) as [P1 [P2 [P3 [P4 [P5 P6]]]]].
  destruct (scan_spec _ _ _ _ Hs) as [S1 [S2 [S3 S4]]].
  (* facts about T1 *)
  assert (T1ops : forall k v1, In (k, v1) T1 -> exists v, In (k, v) T /\ operands v1 = operands v).
  { intros k v1 Hin. destruct (P1 k v1 Hin) as [v [A [[_ ->]|[_ [_ ->]]]]]; exists v; split; auto. }
  assert (T1ne : forall k v1, In (k, v1) T1 -> vempty v1 = false).
  { intros k v1 Hin. destruct (P1 k v1 Hin) as [v [A [[B ->]|[_ [_ ->]]]]].
    - eapply NE; eassumption. - apply helper_nonempty. }
  assert (T1sf : forall k v1 s, In (k, v1) T1 -> In s (surface_ids v1) -> In s S).
  { intros k v1 s Hin Hs1. destruct (P1 k v1 Hin) as [v [A [[B ->]|[_ [_ ->]]]]].
    - eapply SF; eassumption.
    - unfold surface_ids, helper in Hs1. simpl in Hs1. destruct Hs1 as [<-|[<-|[]]]; assumption. }
  constructor.
  - rewrite S1. apply P4. assumption.
  - intros k Hk. rewrite S1. destruct (C k Hk) as [A|A].
    + destruct (P2 k A) as [B|B]; [left; assumption|right; apply in_or_app; left; assumption].
    + right. apply in_or_app. right. assumption.
  - intros k v2 x Hin Hx. destruct (S2 k v2 Hin) as [v1 [A [_ [_ [D _]]]]].
    destruct (T1ops k v1 A) as [v [B F]]. eapply O; [exact B|]. rewrite <- F. apply D. assumption.
  - intros k v2 s Hin Hs2. destruct (S2 k v2 Hin) as [v1 [A [B [C2 _]]]].
    eapply T1sf; [exact A|]. unfold surface_ids in *. rewrite <- B, <- C2. assumption.
  - intros k v2 Hin _. destruct (S2 k v2 Hin) as [v1 [A [B [C2 _]]]].
    specialize (T1ne k v1 A). unfold vempty in *. rewrite B, C2. assumption.
  - intros k v2 x Hin Hn Hx. destruct (S2 k v2 Hin) as [v1 [A [_ [_ [_ F]]]]]. apply F; assumption.
Qed.

Lemma inv_final T R : inv T R [] -> final T.
Proof.
  intros [N C O SF NE CL]. repeat split; try assumption.
  - intros k v x Hin Hx. destruct (O k v x Hin Hx) as [j [-> Hj]]. exists j. split; [reflexivity|].
    destruct (C j Hj) as [A|A]; [assumption|].
    specialize (CL k v (Some j) Hin (fun f => f) Hx). simpl in CL. apply zmem_false in CL. contradiction.
  - intros k v Hin. apply (NE k v Hin). intros [].
Qed.

Lemma re_loop_sound fuel : forall T R tr T',
  inv T R tr -> re_loop fuel u0 u1 T R tr = Some T' -> final T'.
Proof.
  induction fuel as [|f IH]; intros T R tr T' Hinv H.
  - destruct tr; simpl in H; [|discriminate]. inversion H; subst. eapply inv_final; eassumption.
  - destruct tr as [|k tr'] eqn:Etr.
    + simpl in H. inversion H; subst. eapply inv_final; eassumption.
    + cbn [re_loop] in H. rewrite <- Etr in *.
      destruct (process_remove tr u0 u1 T) as [T1 rem] eqn:Ep.
      destruct (scan (rem ++ R) T1) as [T2 tr2] eqn:Es.
      eapply IH; [|exact H]. eapply inv_step; eassumption.
Qed.

Definition tr_ok (T : vtable) (tr : list Z) : Prop :=
  forall k, In k tr -> exists v, In (k, v) T /\ is_union v = false.

Lemma re_loop_fuel fuel : forall T R tr,
  tr_ok T tr -> (List.length T < fuel)%nat -> exists T', re_loop fuel u0 u1 T R tr = Some T'.
Proof.
  induction fuel as [|f IH]; intros T R tr Hok Hlen; [lia|].
  destruct tr as [|k tr'] eqn:Etr; [exists T; reflexivity|].
  cbn [re_loop]. rewrite <- Etr in *.
  destruct (process_remove tr u0 u1 T) as [T1 rem] eqn:Ep.
  destruct (scan (rem ++ R) T1) as [T2 tr2] eqn:Es.
  destruct (process_remove_spec _ _ _ _ _ _ Ep) as [_ [_ [_ [_ [P5 P6]]]]].
  destruct (scan_spec _ _ _ _ Es) as [_ [_ [S3 S4]]].
  apply IH; [exact S3|].
  destruct (Hok k) as [v [A B]]; [rewrite Etr; left; reflexivity|].
  assert (In k rem) as Hr by (eapply P5; [exact A|rewrite Etr; left; reflexivity|exact B]).
  destruct rem; [destruct Hr|]. simpl in P6. lia.
Qed.

End Loop.

Lemma remove_empty_volumes_ok {E} (surfs : stable E) vols u0 u1 :
  refs_ok surfs vols -> In u0 (keys surfs) -> In u1 (keys surfs) -> u0 <> u1 ->
  exists vols', remove_empty_volumes vols u0 u1 = Some vols' /\ refs_ok surfs vols' /\ sides_ok vols'.
Proof.
  intros [Hk Hs Ho] Hu0 Hu1 Hne.
  assert (Hinv : inv (keys surfs) (keys vols) vols [] (initial_to_remove vols)).
  { constructor; try assumption.
    - intros k Hk0. left. assumption.
    - intros k v Hin Hn. destruct (vempty v) eqn:Ev; [|reflexivity]. exfalso. apply Hn.
      unfold initial_to_remove. apply in_keys with (a := v). apply filter_In. split; assumption.
    - intros k v x _ _ _. destruct x; reflexivity. }
  assert (Hfin : forall T', remove_empty_volumes vols u0 u1 = Some T' -> final (keys surfs) T').
  { intros T' H. unfold remove_empty_volumes in H.
    eapply (re_loop_sound (keys surfs) (keys vols) u0 u1 Hu0 Hu1 Hne); [exact Hinv|exact H]. }
  assert (Hterm : exists T', remove_empty_volumes vols u0 u1 = Some T').
  { unfold remove_empty_volumes.
    destruct (initial_to_remove vols) as [|k tr'] eqn:Etr; [exists vols; reflexivity|].
    rewrite re_loop_step. rewrite <- Etr.
    destruct (process_remove (initial_to_remove vols) u0 u1 vols) as [T1 rem] eqn:Ep.
    destruct (scan (rem ++ []) T1) as [T2 tr2] eqn:Es.
    destruct (process_remove_spec _ _ _ _ _ _ Ep) as [_ [_ [_ [_ [_ P6]]]]].
    destruct (scan_spec _ _ _ _ Es) as [_ [_ [S3 S4]]].
    apply re_loop_fuel; [exact S3|]. lia. }
  destruct Hterm as [T' HT']. exists T'. split; [assumption|].
  destruct (Hfin T' HT') as [F1 [F2 [F3 F4]]]. split.
  - constructor; assumption.
  - intros k v s Hin Hp. apply (proj1 (vempty_false v)); [eapply F4; eassumption|assumption].
Qed.

(* ---- remove_unused_volumes --------------------------------------------------------------------- *)
Lemma remove_unused_volumes_ok {E} (surfs : stable E) vols :
  refs_ok surfs vols -> sides_ok vols ->
  refs_ok surfs (remove_unused_volumes vols) /\ sides_ok (remove_unused_volumes vols).
Proof.
  intros [Hk Hs Ho] Hsd. unfold remove_unused_volumes. split.
  - constructor.
    + apply NoDup_keys_filter. assumption.
    + intros k v s Hin. apply filter_In in Hin. destruct Hin as [Hin _]. eapply Hs; eassumption.
    + intros k v x Hin Hx. apply filter_In in Hin. destruct Hin as [Hin _].
      destruct (Ho k v x Hin Hx) as [j [-> Hj]]. exists j. split; [reflexivity|].
      apply keys_in in Hj. destruct Hj as [vj Hj]. apply in_keys with (a := vj).
      apply filter_In. split; [assumption|]. simpl. apply negb_true_iff. apply andb_false_iff. right.
      apply negb_false_iff. apply existsb_exists. exists (Some j). split; [|apply Z.eqb_refl].
      unfold used_ids. apply in_flat_map. exists (k, v). split; assumption.
  - intros k v s Hin. apply filter_In in Hin. destruct Hin as [Hin _]. eapply Hsd; eassumption.
Qed.

(* ---- the tail of convertMCNPGeometry -------------------------------------------------------------- *)
Lemma remove_empty_volumes_terminates vols u0 u1 :
  exists vols', remove_empty_volumes vols u0 u1 = Some vols'.
Proof.
  unfold remove_empty_volumes.
  destruct (initial_to_remove vols) as [|k tr'] eqn:Etr; [exists vols; reflexivity|].
  rewrite re_loop_step. rewrite <- Etr.
  destruct (process_remove (initial_to_remove vols) u0 u1 vols) as [T1 rem] eqn:Ep.
  destruct (scan (rem ++ []) T1) as [T2 tr2] eqn:Es.
  destruct (process_remove_spec _ _ _ _ _ _ Ep) as [_ [_ [_ [_ [_ P6]]]]].
  destruct (scan_spec _ _ _ _ Es) as [_ [_ [S3 S4]]].
  apply re_loop_fuel; [exact S3|]. lia.
Qed.

Section Tail.
Context {E : Type}.
Variable eeqb : E -> E -> bool.
(* SurfaceT4.__eq__ is symmetric and transitive (numeric equality of tuples) *)
Hypothesis eeqb_sym : forall x y, eeqb x y = eeqb y x.
Hypothesis eeqb_trans : forall x y z, eeqb x y = true -> eeqb y z = true -> eeqb x z = true.

(* what construct_volume_t4 guarantees about the two helper planes it inserts: they are
   entries of the surface dictionary under two different numbers and are different surfaces *)
Record helpers_ok (surfs : stable E) (u0 u1 : Z) : Prop := mk_helpers_ok {
  ho_dict : NoDup (keys surfs);
  ho_0 : exists s0 s1, In (u0, s0) surfs /\ In (u1, s1) surfs /\ eeqb (s_eq s0) (s_eq s1) = false;
  ho_ne : u0 <> u1 }.

Theorem prune_preserves_wf skip_dedup (surfs : stable E) vols u0 u1 surfs' vols' ren' :
  refs_ok surfs vols -> helpers_ok surfs u0 u1 ->
  prune eeqb skip_dedup surfs vols u0 u1 = Ok (surfs', vols', ren') ->
  refs_ok surfs' vols' /\ sides_ok vols'.
Proof.
  intros Hrefs [Hnd [s0 [s1 [H0 [H1 Hdiff]]]] Hne] H. unfold prune in H.
  assert (Hstep : forall s1' v1 (r1 : option (list (Z * Z))) a b, refs_ok s1' v1 ->
            In a (keys s1') -> In b (keys s1') -> a <> b ->
            match remove_empty_volumes v1 a b with
            | Some vols2 => Ok (s1', remove_unused_volumes vols2, r1)
            | None => Err EFuel
            end = Ok (surfs', vols', ren') -> refs_ok surfs' vols' /\ sides_ok vols').
  { intros s1' v1 r1 a b R1 A B Hab H1'.
    destruct (remove_empty_volumes_ok s1' v1 a b R1 A B Hab) as [v2 [E2 [R2 S2]]].
    rewrite E2 in H1'. inversion H1'; subst. apply remove_unused_volumes_ok; assumption. }
  destruct skip_dedup.
  - apply (Hstep surfs vols None u0 u1); try assumption; eapply in_keys; eassumption.
  - destruct (remove_duplicate_surfaces eeqb surfs) as [[news ren]|e] eqn:Ed; [|discriminate].
    destruct (renumber_surfaces vols ren) as [v1|e] eqn:Er; [|discriminate].
    destruct (lookup u0 ren) as [a|] eqn:La; [|discriminate].
    destruct (lookup u1 ren) as [b|] eqn:Lb; [|discriminate].
    destruct (helpers_renumbered eeqb surfs news ren u0 u1 s0 s1 a b) as [A [B C]]; try assumption.
    apply (Hstep news v1 (Some ren) a b); try assumption.
    eapply dedup_refs_ok; eassumption.
Qed.

(* and the tail never raises on a non-empty volume table *)
Theorem prune_total skip_dedup (surfs : stable E) vols u0 u1 :
  refs_ok surfs vols -> helpers_ok surfs u0 u1 -> vols <> [] ->
  exists r, prune eeqb skip_dedup surfs vols u0 u1 = Ok r.
Proof.
  intros [Hk Hs Ho] [Hnd [s0 [s1 [H0 [H1 Hdiff]]]] Hne] Hv. unfold prune.
  destruct skip_dedup.
  - destruct (remove_empty_volumes_terminates vols u0 u1) as [v2 ->]. eexists. reflexivity.
  - destruct surfs as [|p0 r0] eqn:ES; [destruct H0|]. rewrite <- ES in *.
    destruct (remove_duplicate_surfaces eeqb surfs) as [[news ren]|e] eqn:Ed.
    2:{ unfold remove_duplicate_surfaces in Ed. rewrite ES in Ed. discriminate. }
    assert (Hren : exists v1, renumber_surfaces vols ren = Ok v1).
    { unfold renumber_surfaces. destruct vols as [|q0 vr] eqn:EV; [contradiction|]. rewrite <- EV in *.
      apply renumber_go_total. intros k v s Hin Hs'. eapply dedup_keys_total; [exact Ed|].
      eapply Hs; eassumption. }
    destruct Hren as [v1 ->].
    destruct (lookup_in_keys u0 ren) as [a ->]; [eapply dedup_keys_total; [exact Ed|eapply in_keys; eassumption]|].
    destruct (lookup_in_keys u1 ren) as [b ->]; [eapply dedup_keys_total; [exact Ed|eapply in_keys; eassumption]|].
    destruct (remove_empty_volumes_terminates v1 a b) as [v2 ->]. eexists. reflexivity.
Qed.

End Tail.
