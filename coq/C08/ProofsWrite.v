(* C08 — the writer: declared counts, and wf_state -> wf_file. *)
From Coq Require Import List NArith ZArith Bool String Ascii Lia Sorted Permutation.
From T4V Require Import Base.Str C08.Model C08.Spec C08.ProofsSets.
Import ListNotations.

(* ---- VolumeT4.__str__: declared counts equal the list lengths ------------------- *)
Lemma counted_items l : items (counted l) = mkset l.
Proof. unfold counted. destruct (mkset l); reflexivity. Qed.

Lemma counted_declared l : declared_ok (counted l).
Proof. unfold counted. destruct (mkset l); simpl; [exact I|reflexivity]. Qed.

Lemma volume_str_counts k v :
  let l := volu_line_of k v in
  declared_ok (vl_plus l) /\ declared_ok (vl_minus l) /\
  match vl_op l with None => True | Some (_, n, args) => n = N.of_nat (List.length args) end /\
  items (vl_plus l) = mkset (v_plus v) /\ items (vl_minus l) = mkset (v_minus v) /\
  op_args l = operands v /\ vl_id l = k /\ vl_fictive l = v_fictive v.
Proof.
  cbv zeta. unfold volu_line_of, op_args, operands. simpl.
  repeat split; try apply counted_declared; try apply counted_items.
  - destruct (v_ops v) as [[op args]|]; [reflexivity|exact I].
  - destruct (v_ops v) as [[op args]|]; reflexivity.
Qed.

Section W.
Context {E : Type}.
Implicit Types (surfs : stable E) (w : wstate E).

(* ---- surfaces ---------------------------------------------------------------------- *)
Lemma used_surfaces_In vols s :
  In s (used_surfaces vols) <-> exists k v, In (k, v) vols /\ In s (surface_ids v).
Proof.
  unfold used_surfaces. rewrite mkset_In, in_flat_map. split.
  - intros [[k v] [H1 H2]]. exists k, v. split; assumption.
  - intros [k [v [H1 H2]]]. exists (k, v). split; assumption.
Qed.

Lemma write_surfs_ok surfs used acc :
  (forall k, In k used -> In k (keys surfs)) ->
  exists sl, write_surfs surfs used acc = (sl, None) /\ map sl_id sl = map sl_id acc ++ used.
Proof.
  revert acc. induction used as [|k r IH]; intros acc H; simpl.
  - exists acc. rewrite app_nil_r. split; reflexivity.
  - destruct (lookup_in_keys k surfs (H k (or_introl eq_refl))) as [s Hs]. rewrite Hs.
    destruct (IH (acc ++ [surf_line_of k s])) as [sl [H1 H2]].
    { intros j Hj. apply H. right. assumption. }
    exists sl. split; [assumption|]. rewrite H2, map_app. simpl. rewrite <- app_assoc. reflexivity.
Qed.

Lemma write_surfs_ids surfs used : forall acc sl,
  write_surfs surfs used acc = (sl, None) -> map sl_id sl = map sl_id acc ++ used.
Proof.
  induction used as [|k r IH]; intros acc sl H; simpl in H.
  - inversion H; subst. rewrite app_nil_r. reflexivity.
  - destruct (lookup k surfs) as [s|]; [|discriminate].
    apply IH in H. rewrite H, map_app. simpl. rewrite <- app_assoc. reflexivity.
Qed.

(* ---- boundary conditions (repaired writeT4BoundCond) --------------------------------- *)
Lemma bc_entries_spec ren used bcs : forall acc l,
  (forall p, In p acc -> In (fst p) used) -> NoDup (keys acc) ->
  bc_entries ren used bcs acc = Ok l ->
  (forall p, In p l -> In (fst p) used) /\ NoDup (keys l).
Proof.
  induction bcs as [|[k c] r IH]; intros acc l Hacc Hnd H; simpl in H.
  - inversion H; subst. split; assumption.
  - destruct (zmem (bc_target ren k) used) eqn:Eu; [|eapply IH; eassumption].
    apply zmem_In in Eu.
    destruct (lookup (bc_target ren k) acc) as [kind0|] eqn:El.
    + destruct (String.eqb kind0 (bc_kind c)); [|discriminate]. eapply IH; eassumption.
    + eapply IH; [| |exact H].
      * intros p Hp. apply in_app_or in Hp. destruct Hp as [Hp|[<-|[]]]; [apply Hacc; assumption|assumption].
      * rewrite keys_app. simpl. apply NoDup_app_single; [assumption|].
        intros Hin. apply lookup_in_keys in Hin. destruct Hin as [a Ha]. congruence.
Qed.

Lemma write_bc_spec ren used bcs b :
  write_bc ren used bcs = Ok (Some b) ->
  fst b = N.of_nat (List.length (snd b)) /\ (forall p, In p (snd b) -> In (snd p) used) /\
  NoDup (map snd (snd b)).
Proof.
  unfold write_bc. destruct (bc_entries ren used bcs []) as [l|e] eqn:Eb; [|discriminate].
  destruct (bc_entries_spec ren used bcs [] l) as [H1 H2]; [intros p []|constructor|assumption|].
  destruct l as [|p0 r0] eqn:El; [discriminate|]. rewrite <- El in *. intros H. inversion H; subst b; clear H.
  simpl. split; [rewrite map_length; reflexivity|]. split.
  - intros p Hp. apply in_map_iff in Hp. destruct Hp as [q [<- Hq]]. simpl. apply H1. assumption.
  - rewrite map_map. simpl. exact H2.
Qed.

(* ---- volumes ------------------------------------------------------------------------ *)
Definition not_skipped (skipped : list Z) (p : Z * volume) : bool := negb (zmem (fst p) skipped).

Lemma write_vols_ids vols skipped :
  map vl_id (write_vols vols skipped) = keys (filter (not_skipped skipped) vols).
Proof.
  unfold write_vols, keys. rewrite map_map. apply map_ext. intros [k v]. reflexivity.
Qed.

Lemma write_vols_In vols skipped l :
  In l (write_vols vols skipped) <->
  exists k v, In (k, v) vols /\ ~ In k skipped /\ l = volu_line_of k v.
Proof.
  unfold write_vols. rewrite in_map_iff. split.
  - intros [[k v] [H1 H2]]. apply filter_In in H2. destruct H2 as [H2 H3].
    exists k, v. repeat split; [assumption| |symmetry; assumption].
    apply negb_true_iff in H3. apply zmem_false in H3. assumption.
  - intros [k [v [H1 [H2 H3]]]]. exists (k, v). split; [symmetry; assumption|].
    apply filter_In. split; [assumption|]. apply negb_true_iff. apply zmem_false. assumption.
Qed.

Lemma key_not_skipped vols skipped k :
  In k (keys vols) -> ~ In k skipped -> In k (keys (filter (not_skipped skipped) vols)).
Proof.
  intros H1 H2. apply keys_in in H1. destruct H1 as [v H1].
  apply in_keys with (a := v). apply filter_In. split; [assumption|].
  unfold not_skipped. simpl. apply negb_true_iff. apply zmem_false. assumption.
Qed.

(* ---- compositions ------------------------------------------------------------------- *)
Lemma length_concat {A} (g : list (list A)) :
  List.length (List.concat g) = fold_right (fun x n => (List.length x + n)%nat) 0%nat g.
Proof. induction g as [|x r IH]; simpl; [reflexivity|]. rewrite app_length, IH. reflexivity. Qed.

Lemma comps_of_mat_counts key m resc cells seen :
  Forall (fun b => cb_count b = N.of_nat (List.length (cb_items b))) (comps_of_mat key m resc cells seen).
Proof.
  revert seen. induction cells as [|[cid c] r IH]; intros seen; simpl; [constructor|].
  destruct (c_density c) as [d|]; [|apply IH].
  destruct (c_live c && _ && _); [|apply IH].
  constructor; [|apply IH].
  destruct (c_dneg c); reflexivity.
Qed.

Lemma write_compositions_wf mats resc cells : wf_comps (write_compositions mats resc cells).
Proof.
  unfold write_compositions, wf_comps. simpl. split.
  - rewrite app_length, length_concat. simpl. lia.
  - apply Forall_app. split.
    + apply Forall_concat. apply Forall_forall. intros g Hg. apply in_map_iff in Hg.
      destruct Hg as [[key m] [<- _]]. apply comps_of_mat_counts.
    + constructor; [reflexivity|constructor].
Qed.

Lemma smem_In x l : smem x l = true <-> In x l.
Proof.
  induction l as [|y r IH]; simpl; [split; [discriminate|tauto]|].
  rewrite orb_true_iff, IH, String.eqb_eq. intuition.
Qed.

Lemma comps_of_mat_has key m resc cells seen d cid c' :
  (forall i c, In (i, c) cells -> norm_fixed c) ->
  In (cid, c') cells -> c_live c' = true -> c_matint c' = Some key -> c_density c' = Some d ->
  ~ In d seen ->
  In ("m" +++ dec_Z key +++ "_" +++ d)%string (map cb_name (comps_of_mat key m resc cells seen)).
Proof.
  revert seen. induction cells as [|[i c] r IH]; intros seen Hn Hin Hl Hm Hd Hs; simpl; [destruct Hin|].
  assert (Hn' : forall i0 c0, In (i0, c0) r -> norm_fixed c0).
  { intros i0 c0 H0. eapply Hn. right. eassumption. }
  destruct Hin as [Hin|Hin].
  - inversion Hin; subst i c. rewrite Hd, Hl, Hm. rewrite Z.eqb_refl. simpl.
    destruct (smem d seen) eqn:Es.
    { exfalso. apply Hs. apply smem_In. assumption. }
    simpl. left. rewrite (Hn cid c' (or_introl eq_refl) d Hd).
    destruct (c_dneg c'); reflexivity.
  - destruct (c_density c) as [d0|] eqn:Ed0; [|apply IH; assumption].
    destruct (c_live c && _ && negb (smem d0 seen)) eqn:Ec; [|apply IH; assumption].
    simpl. destruct (String.eqb d0 d) eqn:Edd.
    + apply String.eqb_eq in Edd. subst d0. left.
      rewrite (Hn i c (or_introl eq_refl) d Ed0). destruct (c_dneg c); reflexivity.
    + right. apply IH; try assumption. simpl. intros [H|H]; [|apply Hs; assumption].
      subst. rewrite String.eqb_refl in Edd. discriminate.
Qed.

Lemma write_compositions_names mats resc cells key m name :
  In (key, m) mats -> In name (map cb_name (comps_of_mat key m resc cells [])) ->
  In name (map cb_name (snd (write_compositions mats resc cells))).
Proof.
  intros H1 H2. unfold write_compositions. simpl. rewrite map_app. apply in_or_app. left.
  apply in_map_iff in H2. destruct H2 as [b [Hb1 Hb2]]. apply in_map_iff. exists b. split; [assumption|].
  apply in_concat. exists (comps_of_mat key m resc cells []). split; [|assumption].
  apply in_map_iff. exists (key, m). split; [reflexivity|assumption].
Qed.

Lemma write_compositions_m0 mats resc cells :
  In "m0"%string (map cb_name (snd (write_compositions mats resc cells))).
Proof.
  unfold write_compositions. simpl. rewrite map_app. apply in_or_app. right. left. reflexivity.
Qed.

(* ---- GEOMCOMP -------------------------------------------------------------------------- *)
Lemma gc_add_perm name k groups :
  Permutation (List.concat (map snd (gc_add name k groups))) (List.concat (map snd groups) ++ [k]).
Proof.
  induction groups as [|[n l] r IH]; simpl; [reflexivity|].
  destruct (String.eqb name n); simpl.
  - rewrite <- !app_assoc. apply Permutation_app_head. apply Permutation_app_comm.
  - rewrite <- app_assoc. apply Permutation_app_head. assumption.
Qed.

Lemma gc_add_names name k groups n :
  In n (map fst (gc_add name k groups)) -> n = name \/ In n (map fst groups).
Proof.
  induction groups as [|[n0 l] r IH]; simpl.
  - intros [H|[]]. left. symmetry. assumption.
  - destruct (String.eqb name n0); simpl; intros [H|H]; try (right; left; assumption).
    + right. right. assumption.
    + destruct (IH H) as [H'|H']; [left; assumption|right; right; assumption].
Qed.

Definition live_keys (vols : vtable) : list Z := keys (filter (fun p => negb (v_fictive (snd p))) vols).

Lemma gc_groups_spec vols cells groups :
  (forall k v, In (k, v) vols -> v_fictive v = false ->
     exists c i, lookup (vol_cell_id k v) cells = Some c /\ c_matint c = Some i) ->
  exists g, gc_groups vols cells groups = Ok g /\
    Permutation (List.concat (map snd g)) (List.concat (map snd groups) ++ live_keys vols) /\
    (forall n, In n (map fst g) ->
       In n (map fst groups) \/
       exists k v c, In (k, v) vols /\ v_fictive v = false /\
                     lookup (vol_cell_id k v) cells = Some c /\ material_name c = Ok n).
Proof.
  revert groups. induction vols as [|[k v] r IH]; intros groups H; simpl.
  - exists groups. unfold live_keys. simpl. rewrite app_nil_r. repeat split; [reflexivity|]. intros n Hn. left. assumption.
  - assert (Hr : forall k0 v0, In (k0, v0) r -> v_fictive v0 = false ->
                 exists c i, lookup (vol_cell_id k0 v0) cells = Some c /\ c_matint c = Some i).
    { intros k0 v0 H0. apply H. right. assumption. }
    unfold live_keys. simpl. destruct (v_fictive v) eqn:Ef; simpl.
    + destruct (IH groups Hr) as [g [G1 [G2 G3]]]. exists g. repeat split; try assumption.
      intros n Hn. destruct (G3 n Hn) as [G|[k0 [v0 [c [A [B [C D]]]]]]]; [left; assumption|].
      right. exists k0, v0, c. repeat split; try assumption. right. assumption.
    + destruct (H k v (or_introl eq_refl) Ef) as [c [i [Hc Hi]]].
      unfold vol_cell_id in Hc. rewrite Hc.
      assert (Hname : exists name, material_name c = Ok name).
      { unfold material_name. rewrite Hi. eexists. reflexivity. }
      destruct Hname as [name Hname]. rewrite Hname.
      destruct (IH (gc_add name k groups) Hr) as [g [G1 [G2 G3]]].
      exists g. repeat split; [assumption| |].
      * eapply Permutation_trans; [exact G2|].
        eapply Permutation_trans; [apply Permutation_app_tail; apply gc_add_perm|].
        rewrite <- app_assoc. reflexivity.
      * intros n Hn. destruct (G3 n Hn) as [G|[k0 [v0 [c0 [A [B [C D]]]]]]].
        -- apply gc_add_names in G. destruct G as [G|G]; [|left; assumption].
           right. exists k, v, c. subst n. repeat split; try assumption. left. reflexivity.
        -- right. exists k0, v0, c0. repeat split; try assumption. right. assumption.
Qed.

Lemma gc_groups_perm vols cells : forall groups g,
  gc_groups vols cells groups = Ok g ->
  Permutation (List.concat (map snd g)) (List.concat (map snd groups) ++ live_keys vols).
Proof.
  induction vols as [|[k v] r IH]; intros groups g H; simpl in H.
  - inversion H; subst. unfold live_keys. simpl. rewrite app_nil_r. reflexivity.
  - unfold live_keys. simpl. destruct (v_fictive v) eqn:Ef; simpl.
    + apply IH. assumption.
    + destruct (lookup _ cells) as [c|]; [|discriminate].
      destruct (material_name c) as [name|e]; [|discriminate].
      apply IH in H. eapply Permutation_trans; [exact H|].
      eapply Permutation_trans; [apply Permutation_app_tail; apply gc_add_perm|].
      rewrite <- app_assoc. reflexivity.
Qed.

(* every non-virtual volume of the table appears in exactly one GEOMCOMP group, and
   nothing else is listed *)
Theorem geomcomp_partition vols cells g :
  NoDup (keys vols) -> construct_geomcomp vols cells = Ok g ->
  Permutation (gc_listed g) (live_keys vols) /\
  (forall k v, In (k, v) vols -> v_fictive v = false -> count_occ Z.eq_dec (gc_listed g) k = 1%nat) /\
  (forall k, In k (gc_listed g) -> exists v, In (k, v) vols /\ v_fictive v = false) /\
  Forall (fun l => gc_count l = N.of_nat (List.length (gc_vols l))) g.
Proof.
  intros Hnd H. unfold construct_geomcomp in H.
  destruct (gc_groups vols cells []) as [gr|e] eqn:Eg; [|discriminate]. inversion H; subst; clear H.
  apply gc_groups_perm in Eg. simpl in Eg.
  assert (Hp : Permutation (gc_listed (map (fun p => mkGC ("m" +++ fst p) (N.of_nat (List.length (snd p))) (snd p)) gr))
                           (live_keys vols)).
  { unfold gc_listed. rewrite map_map. simpl. exact Eg. }
  split; [exact Hp|]. split; [|split].
  - intros k v Hin Hf.
    assert (Hnd' : NoDup (gc_listed (map (fun p => mkGC ("m" +++ fst p) (N.of_nat (List.length (snd p))) (snd p)) gr))).
    { apply (Permutation_NoDup (Permutation_sym Hp)). unfold live_keys. apply NoDup_keys_filter. assumption. }
    apply (proj1 (NoDup_count_occ' Z.eq_dec _) Hnd' k).
    apply (Permutation_in _ (Permutation_sym Hp)). unfold live_keys.
    apply in_keys with (a := v). apply filter_In. split; [assumption|]. simpl. rewrite Hf. reflexivity.
  - intros k Hk. apply (Permutation_in _ Hp) in Hk. unfold live_keys in Hk.
    apply keys_in in Hk. destruct Hk as [v Hk]. apply filter_In in Hk. destruct Hk as [A B].
    exists v. split; [assumption|]. simpl in B. apply negb_true_iff in B. assumption.
  - apply Forall_forall. intros l Hl. apply in_map_iff in Hl. destruct Hl as [[n ks] [<- _]]. reflexivity.
Qed.

(* ---- the theorem ---------------------------------------------------------------------------- *)
Lemma append_assoc3 a b c : ((a +++ b) +++ c = a +++ (b +++ c))%string.
Proof. induction a as [|x a IH]; simpl; [reflexivity|]. rewrite IH. reflexivity. Qed.

Theorem write_wf ren w :
  wf_state w ->
  exists f, wf_file f /\
    (write_file ren w = Complete f \/ exists e, write_file ren w = Raised f e /\ f_bc f = None).
Proof.
  intros [Hrefs Hsides Hsome Hskf Hsku Hcells Hnorm].
  destruct Hrefs as [Hkeys Hsurfs Hops].
  unfold write_file.
  destruct Hsome as [k0 [v0 [s0 [Hv0 Hs0]]]].
  assert (Hu0 : In s0 (used_surfaces (w_vols w))).
  { apply used_surfaces_In. exists k0, v0. split; assumption. }
  destruct (used_surfaces (w_vols w)) as [|u1 ur] eqn:EU; [destruct Hu0|].
  destruct (write_surfs_ok (w_surfs w) (u1 :: ur) []) as [sl [Hsl1 Hsl2]].
  { intros k Hk. rewrite <- EU in Hk. apply used_surfaces_In in Hk.
    destruct Hk as [kv [v [A B]]]. eapply Hsurfs; eassumption. }
  rewrite Hsl1. simpl in Hsl2.
  destruct (w_vols w) as [|p0 vr] eqn:EV; [destruct Hv0|]. rewrite <- EV in *.
  (* GEOMCOMP never raises *)
  assert (Hgc : exists g, construct_geomcomp (w_vols w) (w_cells w) = Ok g /\
            Permutation (gc_listed g) (live_keys (w_vols w)) /\
            (forall l, In l g -> exists k v c, In (k, v) (w_vols w) /\ v_fictive v = false /\
                lookup (vol_cell_id k v) (w_cells w) = Some c /\
                exists n, material_name c = Ok n /\ gc_name l = ("m" +++ n)%string) /\
            Forall (fun l => gc_count l = N.of_nat (List.length (gc_vols l))) g).
  { destruct (gc_groups_spec (w_vols w) (w_cells w) []) as [g [G1 [G2 G3]]].
    { intros k v A B. destruct (Hcells k v A B) as [c [C Hn]]. exists c.
      unfold cell_named in Hn. destruct (c_density c) as [d|].
      - destruct Hn as [key [m [c2 [cid [_ [M2 _]]]]]]. exists key. split; assumption.
      - exists 0%Z. split; assumption. }
    unfold construct_geomcomp. rewrite G1. eexists. split; [reflexivity|]. repeat split.
    - unfold gc_listed. rewrite map_map. simpl. simpl in G2. exact G2.
    - intros l Hl. apply in_map_iff in Hl. destruct Hl as [[n ks] [<- Hl]]. simpl.
      destruct (G3 n) as [[]|[k [v [c [A [B [C D]]]]]]].
      { apply in_map_iff. exists (n, ks). split; [reflexivity|assumption]. }
      exists k, v, c. repeat split; try assumption. exists n. split; [assumption|reflexivity].
    - apply Forall_forall. intros l Hl. apply in_map_iff in Hl. destruct Hl as [[n ks] [<- Hl]]. reflexivity. }
  destruct Hgc as [g [Hg1 [Hg2 [Hg3 Hg4]]]].
  set (vl := write_vols (w_vols w) (w_skipped w)).
  set (comps := if w_skip_comp w then None
                else Some (write_compositions (w_mats w) (w_rescaled w) (w_cells w))).
  assert (Hgcm : exists gc, (if w_skip_geomcomp w then Ok None
                 else match construct_geomcomp (w_vols w) (w_cells w) with
                      | Ok g0 => Ok (Some g0) | Err e => Err e end) = Ok gc /\
                 (gc = None \/ gc = Some g)).
  { destruct (w_skip_geomcomp w); [exists None; split; [reflexivity|left; reflexivity]|].
    rewrite Hg1. exists (Some g). split; [reflexivity|right; reflexivity]. }
  destruct Hgcm as [gc [Hgc1 Hgc2]]. rewrite Hgc1.
  (* the file is well formed whatever boundary block is written, as long as it is one
     write_bc can produce *)
  assert (Hsurf_ids : forall s, In s (map sl_id sl) <-> In s (u1 :: ur)).
  { intros s. rewrite Hsl2. tauto. }
  assert (Hvol_ids : map vl_id vl = keys (filter (not_skipped (w_skipped w)) (w_vols w))).
  { apply write_vols_ids. }
  assert (Hwf : forall bc,
            match bc with
            | None => True
            | Some b => fst b = N.of_nat (List.length (snd b)) /\ forall p, In p (snd b) -> In (snd p) (u1 :: ur)
            end -> wf_file (mkFile sl vl comps gc bc)).
  { intros bc Hbc. constructor; unfold surf_ids, vol_ids; simpl.
  - rewrite Hsl2, <- EU. apply mkset_NoDup.
  - fold vl. rewrite Hvol_ids. apply NoDup_keys_filter. assumption.
  - apply Forall_forall. intros l Hl. fold vl in Hl. unfold vl in Hl. apply write_vols_In in Hl.
    destruct Hl as [k [v [A [B ->]]]].
    destruct (volume_str_counts k v) as [C1 [C2 [C3 [C4 [C5 [C6 [C7 C8]]]]]]].
    constructor; try assumption; unfold surf_ids, vol_ids; cbn [f_surfs f_vols].
    + intros s Hs. apply Hsurf_ids. rewrite <- EU. apply used_surfaces_In. exists k, v. split; [assumption|].
      unfold surface_ids. rewrite C4, C5 in Hs. apply in_app_or in Hs. apply in_or_app.
      destruct Hs as [Hs|Hs]; apply (proj1 (mkset_In _ _)) in Hs; [left|right]; assumption.
    + intros s Hp Hm. rewrite C4 in Hp. rewrite C5 in Hm. apply (proj1 (mkset_In _ _)) in Hp. apply (proj1 (mkset_In _ _)) in Hm.
      eapply Hsides; eassumption.
    + intros x Hx. rewrite C6 in Hx. destruct (Hops k v x A Hx) as [j [-> Hj]].
      exists j. split; [reflexivity|]. fold vl. rewrite Hvol_ids. apply key_not_skipped; [assumption|].
      eapply Hsku; eassumption.
  - unfold comps. destruct (w_skip_comp w); [exact I|apply write_compositions_wf].
  - destruct Hgc2 as [->| ->]; [exact I|].
    constructor; unfold surf_ids, vol_ids; simpl.
    + assumption.
    + intros k Hk. fold vl. rewrite Hvol_ids.
      apply (Permutation_in _ Hg2) in Hk. unfold live_keys in Hk.
      apply keys_in in Hk. destruct Hk as [v Hk]. apply filter_In in Hk. destruct Hk as [A B].
      simpl in B. apply negb_true_iff in B.
      apply key_not_skipped; [eapply in_keys; eassumption|].
      intros Hsk. rewrite (Hskf k v A Hsk) in B. discriminate.
    + intros l Hl Hf. fold vl in Hl. unfold vl in Hl. apply write_vols_In in Hl.
      destruct Hl as [k [v [A [B ->]]]]. simpl in *.
      assert (Hin : In k (gc_listed g)).
      { apply (Permutation_in _ (Permutation_sym Hg2)). unfold live_keys.
        apply in_keys with (a := v). apply filter_In. split; [assumption|]. simpl. rewrite Hf. reflexivity. }
      assert (Hnd : NoDup (gc_listed g)).
      { apply (Permutation_NoDup (Permutation_sym Hg2)). unfold live_keys. apply NoDup_keys_filter. assumption. }
      apply (proj1 (NoDup_count_occ' Z.eq_dec (gc_listed g)) Hnd k Hin).
    + unfold comps. destruct (w_skip_comp w); [exact I|].
      intros l Hl. destruct (Hg3 l Hl) as [k [v [c [A [B [C [n [Dn D]]]]]]]]. rewrite D.
      destruct (Hcells k v A B) as [c' [C' Hnamed]]. rewrite C in C'. inversion C'; subst c'.
      unfold cell_named in Hnamed. unfold material_name in Dn.
      destruct (c_density c) as [d|] eqn:Ed.
      * destruct Hnamed as [key [m [c2 [cid [M1 [M2 [M3 [M4 [M5 M6]]]]]]]]].
        rewrite M2 in Dn. inversion Dn; subst n. eapply write_compositions_names; [exact M1|].
        eapply comps_of_mat_has; try eassumption. intros [].
      * rewrite Hnamed in Dn. inversion Dn; subst n. apply write_compositions_m0.
  - destruct bc as [b|]; [|exact I]. destruct Hbc as [B1 B2]. split; [assumption|].
    intros p Hp. apply Hsurf_ids. apply B2. assumption. }
  destruct (if w_skip_bc w then Ok None else write_bc ren (u1 :: ur) (w_bcs w)) as [bc|e] eqn:Ebc.
  - exists (mkFile sl vl comps gc bc). split; [|left; reflexivity].
    apply Hwf. destruct bc as [b|]; [|exact I].
    destruct (w_skip_bc w); [discriminate|].
    destruct (write_bc_spec _ _ _ _ Ebc) as [B1 [B2 _]]. split; assumption.
  - exists (mkFile sl vl comps gc None). split; [apply Hwf; exact I|].
    right. exists e. split; reflexivity.
Qed.

(* the boundary-condition clause holds for EVERY complete run of the writers, without any
   hypothesis on the tables: each listed surface is defined in the file, listed once, and
   the declared count is the number of entries *)
Theorem bc_defined ren w f :
  write_file ren w = Complete f ->
  match f_bc f with
  | None => True
  | Some b => wf_bc f b /\ NoDup (map snd (snd b))
  end.
Proof.
  unfold write_file. intros H.
  destruct (used_surfaces (w_vols w)) as [|u1 ur] eqn:EU; [discriminate|].
  destruct (write_surfs (w_surfs w) (u1 :: ur) []) as [sl [e|]] eqn:Es; [discriminate|].
  apply write_surfs_ids in Es. simpl in Es.
  destruct (w_vols w) as [|p0 vr] eqn:EV; [discriminate|]. rewrite <- EV in *.
  destruct (if w_skip_geomcomp w then Ok None
            else match construct_geomcomp (w_vols w) (w_cells w) with
                 | Ok g => Ok (Some g) | Err e => Err e end) as [gc|e]; [|discriminate].
  destruct (if w_skip_bc w then Ok None else write_bc ren (u1 :: ur) (w_bcs w)) as [bc|e] eqn:Ebc; [|discriminate].
  inversion H; subst f; clear H. simpl.
  destruct bc as [b|]; [|exact I].
  destruct (w_skip_bc w); [discriminate|].
  destruct (write_bc_spec _ _ _ _ Ebc) as [B1 [B2 B3]].
  split; [|assumption]. split; [assumption|].
  intros p Hp. unfold surf_ids. simpl. rewrite Es. apply B2. assumption.
Qed.

End W.
