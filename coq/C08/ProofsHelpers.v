(* C08 — construct_volume_t4's insertion of the two helper planes: helpers_ok is a
   consequence, not a hypothesis. *)
From Coq Require Import List NArith ZArith Bool String Ascii Lia Reals Lra.
From T4V Require Import Base.Str Base.Scalar C08.Model C08.Spec C08.ProofsSets C08.ProofsPrune C08.SurfEq.
Import ListNotations.

Lemma fold_max_ge k r : forall x, In x (k :: r) -> (x <= fold_right Z.max k r)%Z.
Proof.
  induction r as [|y r IH]; intros x Hx; simpl in *.
  - destruct Hx as [->|[]]. lia.
  - destruct Hx as [->|[->|Hx]].
    + specialize (IH x (or_introl eq_refl)). lia.
    + lia.
    + specialize (IH x (or_intror Hx)). lia.
Qed.

Section H.
Context {E : Type}.
Variable eeqb : E -> E -> bool.

Theorem insert_helpers_ok (surfs surfs' : stable E) h0 h1 u0 u1 :
  insert_helpers surfs h0 h1 = Ok (surfs', u0, u1) ->
  NoDup (keys surfs) -> eeqb (s_eq h0) (s_eq h1) = false ->
  helpers_ok eeqb surfs' u0 u1 /\
  (forall k, In k (keys surfs) -> (k < u0)%Z) /\ (u1 = u0 + 1)%Z /\
  keys surfs' = keys surfs ++ [u0; u1] /\
  (forall p, In p surfs -> In p surfs').
Proof.
  unfold insert_helpers. remember (keys surfs) as ks eqn:Ek. destruct ks as [|k r]; [discriminate|].
  intros H Hnd Hdiff. inversion H; subst; clear H.
  assert (Hlt : forall x, In x (k :: r) -> (x < fold_right Z.max k r + 1 + 1)%Z).
  { intros x Hx. pose proof (fold_max_ge k r x Hx). lia. }
  split; [|split; [exact Hlt|split; [lia|split]]].
  - constructor.
    + rewrite keys_app, <- Ek. cbn [keys map fst].
      change ((k :: r) ++ [(fold_right Z.max k r + 1 + 1)%Z; (fold_right Z.max k r + 1 + 2)%Z])
        with (((k :: r) ++ [(fold_right Z.max k r + 1 + 1)%Z]) ++ [(fold_right Z.max k r + 1 + 2)%Z]) || idtac.
      replace ((k :: r) ++ [(fold_right Z.max k r + 1 + 1)%Z; (fold_right Z.max k r + 1 + 2)%Z])
        with (((k :: r) ++ [(fold_right Z.max k r + 1 + 1)%Z]) ++ [(fold_right Z.max k r + 1 + 2)%Z])
        by (rewrite <- app_assoc; reflexivity).
      apply NoDup_app_single; [apply NoDup_app_single; [assumption|]|].
      * intros Hin. apply Hlt in Hin. lia.
      * intros Hin. apply in_app_or in Hin. destruct Hin as [Hin|[Hin|[]]]; [apply Hlt in Hin; lia|lia].
    + exists h0, h1. split; [apply in_or_app; right; left; reflexivity|].
      split; [apply in_or_app; right; right; left; reflexivity|assumption].
    + lia.
  - rewrite keys_app, <- Ek. reflexivity.
  - intros p Hp. apply in_or_app. left. assumption.
Qed.
End H.

(* the two planes construct_volume_t4 inserts: PLANEX 1 and PLANEX -1 *)
Definition helper_plane (a : string) (x : R) : surface (spayload R) :=
  mkSurf "PLANEX" [a] None ["aux plane for unions"%string] ("PLANEX"%string, [x], None).

Lemma helper_planes_differ :
  Req_payload (s_eq (helper_plane "1" 1%R)) (s_eq (helper_plane "-1" (-1)%R)) = false.
Proof.
  unfold Req_payload, spayload_eqb, helper_plane. simpl.
  assert (Reqb 1 (-1) = false) as -> by (apply Reqb_false; lra). reflexivity.
Qed.
