(* C08 — all links together: C02's number_items (the matching and the numbering), the model
   of construct_volume_t4's helper-plane insertion, C01's conversion loop; from the surface
   collections and the cell trees to the characters of the file. *)
From Coq Require Import List NArith ZArith Bool String Ascii Lia Reals.
From T4V Require C02.Model C02.ProofsNum.
From T4V Require C01.Model C01.ProofsCells.
From T4V Require Import C08.LinkC01a C08.LinkC01c.
From T4V Require Import Base.Str Base.Scalar C08.Model C08.Spec C08.ProofsSets C08.ProofsPrune C08.ProofsTail
     C08.SurfEq C08.Parse C08.ProofsGiven C08.ProofsEnd C08.ProofsHelpers C08.LinkC01.
Import ListNotations.

Module M2 := T4V.C02.Model.
Module P2 := T4V.C02.ProofsNum.

(* ---- C02: every TRIPOLI-4 number of the matching is a key of the numbering ------------------- *)
Lemma m1_lookup_In' {V} k (v : V) (d : M1.dict V) : M1.lookup k d = Some v -> In (k, v) d.
Proof.
  induction d as [|[k1 v1] r IH]; simpl; [discriminate|].
  destruct (k =? k1)%Z eqn:E.
  - apply Z.eqb_eq in E. intros H. inversion H; subst. left. reflexivity.
  - intros H. right. apply IH. assumption.
Qed.

Theorem c02_matching_numbers {A : Type} (dic : list (Z * list (A * Z))) num mat :
  M2.number_items dic = M2.Ok (num, mat) ->
  (forall k, In k (P2.keys dic) -> (0 < k)%Z) -> NoDup (P2.keys dic) ->
  Forall (fun kv => P2.unit_sides (snd kv)) dic ->
  NoDup (map fst num) /\
  forall key ids, M1.lookup key mat = Some ids -> Forall (fun x => In (Z.abs x) (map fst num)) ids.
Proof.
  intros H Hp Hnd Hu. destruct (P2.number_items_spec dic num mat H Hp Hnd Hu) as [N F].
  split; [assumption|]. intros key ids Hl. apply m1_lookup_In' in Hl.
  clear - F Hl. induction F as [|kv km dr mr Hk Hr IH]; [destruct Hl|].
  destruct Hl as [Hl|Hl]; [|apply IH; assumption].
  subst km. destruct Hk as [_ Hd]. simpl in Hd.
  clear - Hd. induction Hd as [|ss id l l' Hx Hl IH]; constructor; [|assumption].
  destruct Hx as [Hin _]. apply in_map_iff. exists (Z.abs id, fst ss). split; [reflexivity|assumption].
Qed.

(* ---- what is still asked, beside the three linked pieces ------------------------------------- *)
Record stage0_rest3 (cnt0 : Z) (todo : list Z) (w : wstate (spayload R)) : Prop := mk_stage0_rest3 {
  s3_nonempty : w_vols w <> [];
  (* cells of importance 0: numbers below the counter, not in the conversion list *)
  s3_skipped : forall k, In k (w_skipped w) -> (k <= cnt0)%Z /\ ~ In k todo;
  s3_cells : forall k v, In (k, v) (w_vols w) -> v_fictive v = false ->
             exists c, lookup (vol_cell_id k v) (w_cells w) = Some c /\ cell_named w c;
  s3_norm : forall cid c, In (cid, c) (w_cells w) -> norm_fixed c;
  s3_words : words_ok w }.

Theorem convert_wf_full_linked :
  forall (A : Type) (dic : list (Z * list (A * Z))) num mat
         (surfs0 : stable (spayload R)) fuel cells u0 u1 todo cnt0 s' skip_dedup (w : wstate (spayload R)),
  (* C02: number_items on the dictionary of surface collections *)
  M2.number_items dic = M2.Ok (num, mat) ->
  (forall k, In k (P2.keys dic) -> (0 < k)%Z) -> NoDup (P2.keys dic) ->
  Forall (fun kv => P2.unit_sides (snd kv)) dic ->
  (* the surface dictionary has the keys of the numbering; one of them is positive *)
  keys surfs0 = map fst num -> (exists k, In k (keys surfs0) /\ (0 < k)%Z) ->
  (* construct_volume_t4 inserts the two helper planes *)
  insert_helpers surfs0 (helper_plane "1" 1%R) (helper_plane "-1" (-1)%R) = Ok (w_surfs w, u0, u1) ->
  (* C01: the conversion loop with that matching and those helper ids *)
  M1.convert_cells fuel cells mat u0 u1 todo (M1.mkSt cnt0 [] [] []) = M1.Ok s' ->
  w_vols w = tr_table (M1.vols s') ->
  stage0_rest3 cnt0 todo w ->
  exists o, convert_tail Req_payload skip_dedup u0 u1 w = Ok o /\
    (o = Died false [] EValue \/
     exists f, (o = Complete f \/ exists e, o = Raised f e) /\
               wf_file f /\ parse_t4 (print_t4 f) = Some f /\
               forall finite : string -> Prop,
                 Forall finite (state_numbers w) -> Forall finite (file_numbers f)).
Proof.
  intros A dic num mat surfs0 fuel cells u0 u1 todo cnt0 s' skip_dedup w
         Hnum Hpos Hnd Hu Hkeys [kp [Hkp1 Hkp2]] Hins Hrun Hv [Hne Hsk Hc Hn Hw].
  destruct (c02_matching_numbers dic num mat Hnum Hpos Hnd Hu) as [Nn Hm].
  destruct (insert_helpers_ok Req_payload surfs0 (w_surfs w) _ _ u0 u1 Hins) as [Hh [Hlt [Hu1 [Hk' Hincl]]]].
  { rewrite Hkeys. assumption. }
  { apply helper_planes_differ. }
  apply (convert_wf_linked_surfaces fuel cells mat u0 u1 todo cnt0 s' skip_dedup w Hrun Hv).
  constructor; try assumption.
  - intros key ids Hl. specialize (Hm key ids Hl). apply Forall_forall. intros x Hx.
    rewrite Forall_forall in Hm. rewrite Hk'. apply in_or_app. left. rewrite Hkeys. apply Hm. assumption.
  - specialize (Hlt kp Hkp1). lia.
  - intros k Hk Hin. destruct (Hsk k Hk) as [Hle Hnt]. rewrite Hv, tr_keys in Hin.
    assert (Hdef : defined (M1.vols s') k).
    { unfold defined. clear - Hin. induction (M1.vols s') as [|[k1 v1] r IH]; simpl in *; [destruct Hin|].
      destruct (k =? k1)%Z eqn:E; [discriminate|]. destruct Hin as [Hin|Hin]; [apply Z.eqb_neq in E; congruence|].
      apply IH. assumption. }
    destruct (convert_cells_table_keys _ _ _ _ _ _ _ _ Hrun k Hdef) as [H1|H1]; [contradiction|lia].
Qed.

(* ---- with C09: normalize_float -------------------------------------------------------------- *)
From T4V Require Import C08.LinkC09.

Record stage0_rest4 (cnt0 : Z) (todo : list Z) (w : wstate (spayload R)) : Prop := mk_stage0_rest4 {
  s4_nonempty : w_vols w <> [];
  s4_skipped : forall k, In k (w_skipped w) -> (k <= cnt0)%Z /\ ~ In k todo;
  s4_cells : forall k v, In (k, v) (w_vols w) -> v_fictive v = false ->
             exists c, lookup (vol_cell_id k v) (w_cells w) = Some c /\ cell_named w c;
  (* the density fields come from C09's normalize_float *)
  s4_density : forall cid c, In (cid, c) (w_cells w) -> density_from_c09 c;
  s4_words : words_ok w }.

Theorem convert_wf_all_linked :
  forall (A : Type) (dic : list (Z * list (A * Z))) num mat
         (surfs0 : stable (spayload R)) fuel cells u0 u1 todo cnt0 s' skip_dedup (w : wstate (spayload R)),
  M2.number_items dic = M2.Ok (num, mat) ->
  (forall k, In k (P2.keys dic) -> (0 < k)%Z) -> NoDup (P2.keys dic) ->
  Forall (fun kv => P2.unit_sides (snd kv)) dic ->
  keys surfs0 = map fst num -> (exists k, In k (keys surfs0) /\ (0 < k)%Z) ->
  insert_helpers surfs0 (helper_plane "1" 1%R) (helper_plane "-1" (-1)%R) = Ok (w_surfs w, u0, u1) ->
  M1.convert_cells fuel cells mat u0 u1 todo (M1.mkSt cnt0 [] [] []) = M1.Ok s' ->
  w_vols w = tr_table (M1.vols s') ->
  stage0_rest4 cnt0 todo w ->
  exists o, convert_tail Req_payload skip_dedup u0 u1 w = Ok o /\
    (o = Died false [] EValue \/
     exists f, (o = Complete f \/ exists e, o = Raised f e) /\
               wf_file f /\ parse_t4 (print_t4 f) = Some f /\
               forall finite : string -> Prop,
                 Forall finite (state_numbers w) -> Forall finite (file_numbers f)).
Proof.
  intros A dic num mat surfs0 fuel cells u0 u1 todo cnt0 s' skip_dedup w
         Hnum Hpos Hnd Hu Hkeys Hkp Hins Hrun Hv [Hne Hsk Hc Hd Hw].
  eapply (convert_wf_full_linked A dic num mat surfs0 fuel cells u0 u1 todo cnt0 s' skip_dedup w); try eassumption.
  constructor; try assumption.
  intros cid c Hin. apply norm_fixed_linked. eapply Hd; eassumption.
Qed.
