(* C08 link to C01, part c (over C01's model only): where the keys of the volume table built
   by C01's conversion loop come from — a key is a cell of the conversion list or a number
   above the initial counter.  (C01 proves this inside a Section that carries semantic
   hypotheses on the cell regions; the fact is purely structural and is re-proved here from
   C01's structural lemmas flag_ids, expand_ok, optimise_ids.)  Hence the writer's skip list
   — cells of importance 0: numbers below the counter that are not in the conversion list —
   is disjoint from the keys of the table. *)
From Coq Require Import List ZArith Bool Lia.
From T4V Require Import C01.Model C01.Spec C01.ProofsTree C01.ProofsT4 C01.ProofsCells C08.LinkC01a.
Import ListNotations.
Open Scope Z_scope.

(* the counter grows and every new key is listed in [ids] or lies above the old counter *)
Definition kpost (ids : list Z) (s s' : st) : Prop :=
  cnt s <= cnt s' /\
  forall k, defined (vols s') k -> defined (vols s) k \/ In k ids \/ cnt s < k.

Definition kspec {X} (f : X -> st -> res (option Z * st)) (idsf : X -> list Z) (x : X) : Prop :=
  forall s r s', f x s = Ok (r, s') -> kpost (idsf x) s s'.

Lemma defined_dset_inv k (V : vol) d j : defined (dset k V d) j -> j = k \/ defined d j.
Proof.
  unfold defined. intros H. destruct (Z.eq_dec j k) as [->|Hne]; [left; reflexivity|].
  rewrite lookup_dset_other in H by assumption. right. assumption.
Qed.

Lemma kpost_refl ids s : kpost ids s s.
Proof. split; [lia|]. intros k H. left. assumption. Qed.

Lemma kpost_trans ids1 ids2 a b c :
  kpost ids1 a b -> kpost ids2 b c -> kpost (ids1 ++ ids2) a c.
Proof.
  intros [C1 K1] [C2 K2]. split; [lia|]. intros k H.
  destruct (K2 k H) as [H2|[H2|H2]].
  - destruct (K1 k H2) as [H1|[H1|H1]]; [left; assumption|right; left; apply in_or_app; left; assumption|right; right; assumption].
  - right. left. apply in_or_app. right. assumption.
  - right. right. lia.
Qed.

Lemma kpost_weaken ids ids' s s' : (forall k, In k ids -> In k ids') -> kpost ids s s' -> kpost ids' s s'.
Proof. intros Hi [C K]. split; [assumption|]. intros k H. destruct (K k H) as [A|[A|A]]; auto. Qed.

Lemma conv_all_k {X} (f : X -> st -> res (option Z * st)) idsf (l : list X) :
  Forall (kspec f idsf) l ->
  forall s rs s', conv_all f l s = Ok (rs, s') -> kpost (flat_map idsf l) s s'.
Proof.
  induction 1 as [|x r Hx Hr IH]; intros s rs s' H; simpl in H.
  - inversion H; subst. apply kpost_refl.
  - destruct (f x s) as [[y s1]|] eqn:Ef; [|discriminate].
    destruct (conv_all f r s1) as [[ys s2]|] eqn:Er; [|discriminate].
    inversion H; subst. simpl. eapply kpost_trans; [eapply Hx; eassumption|eapply IH; eassumption].
Qed.

Lemma select_In {X} (sel : nat -> X -> bool) l : forall i x, In x (select sel i l) -> In x l.
Proof.
  induction l as [|y r IH]; intros i x H; simpl in H; [destruct H|].
  destruct (sel i y); [destruct H as [<-|H]; [left; reflexivity|right; eapply IH; eassumption]|right; eapply IH; eassumption].
Qed.

Lemma kpost_set_vol pid V s : kpost [pid] s (set_vol pid V s).
Proof.
  split; [simpl; lia|]. intros k H. simpl in H. apply defined_dset_inv in H.
  destruct H as [->|H]; [right; left; left; reflexivity|left; assumption].
Qed.

Section Keys.
  Variable cref : Z -> st -> res (option Z * st).
  Variable orig : list (Z * Z).
  Variables u0 u1 : Z.
  Hypothesis cref_k : forall c, kspec cref (fun _ => []) c.

  Lemma crefs_k (l : list Z) : Forall (kspec cref (fun _ => [])) l.
  Proof. induction l; constructor; auto. Qed.

  Lemma flat_map_nil {X} (l : list X) : flat_map (fun _ : X => @nil Z) l = [].
  Proof. induction l; simpl; auto. Qed.

  Lemma to_t4_k t : kspec (to_t4 cref orig u0 u1) ids_of t.
  Proof.
    induction t as [n|c|pid o args IH] using tree_ind2; intros s r s' H.
    - simpl in H. unfold convert_surface in H.
      destruct (lookup n (scache s)); [inversion H; subst; apply kpost_refl|].
      destruct (conv_equa [n]) as [p m]. inversion H; subst. split; [simpl; lia|].
      intros k Hk. simpl in Hk. apply defined_dset_inv in Hk. destruct Hk as [->|Hk]; [right; right; lia|left; assumption].
    - simpl in H. exact (cref_k c s r s' H).
    - cbn [to_t4] in H.
      assert (forall sel s rs s', conv_sel (to_t4 cref orig u0 u1) sel 0 args s = Ok (rs, s') ->
                kpost (flat_map ids_of args) s s') as Hsel.
      { intros sel s0 rs s0' Hc. rewrite conv_sel_select in Hc.
        pose proof (conv_all_k (to_t4 cref orig u0 u1) ids_of _ (Forall_select _ sel args 0%nat IH) _ _ _ Hc) as P.
        eapply kpost_weaken; [|exact P].
        intros k Hk. apply in_flat_map in Hk. destruct Hk as [x [Hx Hk]]. apply in_flat_map.
        exists x. split; [eapply select_In; eassumption|assumption]. }
      assert (forall s rs s', conv_sel cref (fun _ _ => true) 0 (refs_of args) s = Ok (rs, s') ->
                kpost [] s s') as Hrefs.
      { intros s0 rs s0' Hc. rewrite conv_sel_select, select_all in Hc.
        pose proof (conv_all_k cref (fun _ => []) (refs_of args) (crefs_k _) _ _ _ Hc) as P.
        rewrite flat_map_nil in P. exact P. }
      assert (Hfin : forall sa sb V, kpost (flat_map ids_of args) s sa -> kpost [] sa sb ->
                 kpost (ids_of (Node pid o args)) s (set_vol pid V sb)).
      { intros sa sb V P1 P2. simpl.
        eapply kpost_weaken; [|eapply kpost_trans; [eapply kpost_trans; [exact P1|exact P2]|apply kpost_set_vol]].
        intros k Hk. apply in_app_or in Hk. destruct Hk as [Hk|[<-|[]]]; [|left; reflexivity].
        rewrite app_nil_r in Hk. right. assumption. }
      destruct o.
      + destruct (conv_equa (leaves_of args)) as [p m].
        destruct (conv_sel _ _ 0 args s) as [[ids1 s1]|] eqn:E1; [|discriminate].
        destruct (conv_sel cref _ 0 (refs_of args) s1) as [[ids2 s2]|] eqn:E2; [|discriminate].
        inversion H; subst. eapply Hfin; [eapply Hsel; eassumption|eapply Hrefs; eassumption].
      + destruct (largest args) as [k|].
        * destruct (conv_sel _ (fun i _ => Nat.eqb i k) 0 args s) as [[ids0 s0]|] eqn:E0; [|discriminate].
          destruct ids0 as [|[main|] [|? ?]]; try discriminate.
          destruct (lookup main (vols s0)) as [mv|]; [|discriminate].
          destruct (conv_sel _ (fun i _ => negb (Nat.eqb i k)) 0 args s0) as [[ids1 s1]|] eqn:E1; [|discriminate].
          destruct (conv_sel cref _ 0 (refs_of args) s1) as [[ids2 s2]|] eqn:E2; [|discriminate].
          inversion H; subst. eapply Hfin; [|eapply Hrefs; eassumption].
          eapply kpost_weaken; [|eapply kpost_trans; [eapply Hsel; exact E0|eapply Hsel; exact E1]].
          intros x Hx. apply in_app_or in Hx. destruct Hx; assumption.
        * destruct (conv_sel _ _ 0 args s) as [[ids1 s1]|] eqn:E1; [|discriminate].
          destruct (conv_sel cref _ 0 (refs_of args) s1) as [[ids2 s2]|] eqn:E2; [|discriminate].
          destruct (conv_equa [u0; - u1]) as [p m]. inversion H; subst.
          eapply Hfin; [eapply Hsel; eassumption|eapply Hrefs; eassumption].
  Qed.
End Keys.

(* pot_convert: every new key lies above the counter it started from *)
Lemma pot_convert_k cref matching u0 u1 cl : (forall c, kspec cref (fun _ => []) c) ->
  forall s r s', pot_convert cref matching u0 u1 cl s = Ok (r, s') -> kpost [] s s'.
Proof.
  intros Hc s r s' H. unfold pot_convert in H. destruct cl as [g orig].
  pose proof (flag_ids g (cnt s)) as [F1 [_ F3]].
  destruct (flag g (cnt s)) as [t1 n1] eqn:Ef. simpl in F1, F3.
  destruct (expand matching t1 n1) as [[t2 n2]|] eqn:Ee; [|discriminate].
  destruct (expand_ok matching t1 n1 t2 n2 Ee) as [X1 [X2 _]].
  destruct (optimise t2) as [t3|] eqn:Eo.
  - pose proof (to_t4_k cref orig u0 u1 Hc t3 _ _ _ H) as [C K]. simpl in C.
    split; [lia|]. intros k Hk. destruct (K k Hk) as [A|[A|A]].
    + left. exact A.
    + right. right. apply (subseq_In _ _ _ (optimise_ids _ _ Eo)) in A.
      destruct (X2 k A) as [B|B]; [apply F3 in B; lia|lia].
    + right. right. simpl in A. lia.
  - inversion H; subst. split; [simpl; lia|]. intros k Hk. left. exact Hk.
Qed.

Lemma convert_cellref_k fuel cells matching u0 u1 : forall c,
  kspec (convert_cellref fuel cells matching u0 u1) (fun _ => []) c.
Proof.
  induction fuel as [|f IH]; intros c s r s' H; simpl in H.
  - destruct (lookup c (ccache s)); [inversion H; subst; apply kpost_refl|discriminate].
  - destruct (lookup c (ccache s)); [inversion H; subst; apply kpost_refl|].
    destruct (lookup c cells) as [cl|]; [|discriminate].
    destruct (pot_convert _ matching u0 u1 cl s) as [[[id1|] s1]|] eqn:Ep; [| |discriminate].
    + inversion H; subst. exact (pot_convert_k _ _ _ _ _ IH _ _ _ Ep).
    + inversion H; subst. destruct (pot_convert_k _ _ _ _ _ IH _ _ _ Ep) as [C K].
      split; [simpl; lia|]. intros k Hk. simpl in Hk. apply defined_dset_inv in Hk.
      destruct Hk as [->|Hk]; [right; right; lia|]. destruct (K k Hk) as [A|[[]|A]]; [left; assumption|right; right; assumption].
Qed.

Lemma convert_cells_k fuel cells matching u0 u1 (all : list Z) (cnt0 : Z) : forall todo s s',
  (forall k, In k todo -> In k all) ->
  convert_cells fuel cells matching u0 u1 todo s = Ok s' ->
  cnt0 <= cnt s -> (forall k, defined (vols s) k -> In k all \/ cnt0 < k) ->
  forall k, defined (vols s') k -> In k all \/ cnt0 < k.
Proof.
  induction todo as [|key r IH]; intros s s' Hsub H Hc Hi; simpl in H; [inversion H; subst; exact Hi|].
  assert (Hsub' : forall k, In k r -> In k all) by (intros k Hk; apply Hsub; right; assumption).
  destruct (lookup key cells) as [cl|]; [|discriminate].
  destruct (pot_convert _ matching u0 u1 cl s) as [[[j|] s1]|] eqn:Ep; [| |discriminate].
  - destruct (lookup j (vols s1)) as [vj|] eqn:Ej; [|discriminate].
    destruct (pot_convert_k _ _ _ _ _ (convert_cellref_k fuel cells matching u0 u1) _ _ _ Ep) as [C K].
    apply (IH _ _ Hsub' H); [simpl; lia|]. intros k Hk. simpl in Hk. apply defined_dset_inv in Hk.
    destruct Hk as [->|Hk]; [left; apply Hsub; left; reflexivity|].
    destruct (K k Hk) as [A|[[]|A]]; [apply Hi; assumption|right; lia].
  - destruct (pot_convert_k _ _ _ _ _ (convert_cellref_k fuel cells matching u0 u1) _ _ _ Ep) as [C K].
    apply (IH _ _ Hsub' H); [lia|]. intros k Hk.
    destruct (K k Hk) as [A|[[]|A]]; [apply Hi; assumption|right; lia].
Qed.

Theorem convert_cells_table_keys fuel cells matching u0 u1 todo cnt0 s' :
  convert_cells fuel cells matching u0 u1 todo (mkSt cnt0 [] [] []) = Ok s' ->
  forall k, defined (vols s') k -> In k todo \/ cnt0 < k.
Proof.
  intros H. apply (convert_cells_k fuel cells matching u0 u1 todo cnt0 todo _ _ (fun k Hk => Hk) H).
  - simpl. lia.
  - intros k Hk. exfalso. apply Hk. reflexivity.
Qed.
