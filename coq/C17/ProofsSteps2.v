(* C17 — more options the keyword loop is proved to consume exactly: TRCL=n,
   FILL arrays of exactly size(ranges) numbers with or without a transformation. *)
From Coq Require Import List NArith ZArith Bool String Ascii Lia ZifyBool.
From T4V Require Import Base.Str Base.Scalar C17.Model C17.Proofs C17.ProofsSteps C17.ProofsClasses.
Import ListNotations.
Open Scope string_scope.

Section MoreArrives.
  Context {T : Type} (S : Scalar T).

  (* a TR number in parentheses *)
  Lemma fill_params_trnum isfill star trs (p : tok (T:=T)) rest k :
    numeric_lead p = true -> num_lit (tsp p) = true -> stops rest ->
    lookup (tint p) trs = Some k ->
    fill_params S isfill star trs (p :: rest) = Ok (Nat.min k 12, rest).
  Proof.
    intros Hn Hf Hs Hl. unfold fill_params.
    change (p :: rest) with ([p] ++ rest)%list.
    rewrite (span_app numeric_lead [p] rest); [|simpl; rewrite Hn; reflexivity|exact Hs].
    simpl forallb. rewrite Hf. simpl. rewrite Hl. reflexivity.
  Qed.

  Lemma arrives_trcl_num trs e p rest k n :
    prefix "imp" (tsp e) = false -> contains_sub "fill" (tsp e) = false ->
    contains_sub "lat" (tsp e) = false -> contains_sub "trcl" (tsp e) = true ->
    numeric_lead p = true -> num_lit (tsp p) = true -> stops rest ->
    lookup (tint p) trs = Some n ->
    exists k', arrives S trs (e :: p :: rest) k rest k' 1.
  Proof.
    intros H1 H2 H3 H4 Hn Hf Hs Hl.
    eexists. eapply ar_turn; [|apply ar_here].
    unfold kw_step. cbv zeta. rewrite H1, H2, H3, H4. unfold parse_trcl.
    rewrite (fill_params_trnum false _ trs p rest n Hn Hf Hs Hl). reflexivity.
  Qed.

  (* a FILL array of exactly size(ranges) plain numbers, with or without an
     inline transformation of an accepted length behind it *)
  Lemma arrives_fill_array trs e first rs nums ps rest b k :
    prefix "imp" (tsp e) = false -> contains_sub "fill" (tsp e) = true ->
    has_colon first = true -> forallb has_colon rs = true ->
    Forall (fun t => has_colon t = false) nums -> Forall (plain (T:=T)) nums ->
    parse_ranges (map tsp (first :: rs)) = Ok b ->
    Z.of_nat (List.length nums) = bounds_size b -> nums <> [] ->
    forallb numeric_lead ps = true -> forallb (fun p => num_lit (tsp p)) ps = true ->
    stops rest -> List.length ps <> 1%nat -> List.length ps <> 13%nat ->
    tr_len_ok (List.length ps) = true ->
    exists k', arrives S trs (e :: first :: rs ++ nums ++ ps ++ rest)%list k rest k' 1.
  Proof.
    intros H1 H2 Hc Hrs Hnc Hp Hb Hlen Hne Hn Hf Hs L1 L13 Hok.
    destruct (fill_params_consumes S true (contains_char "*" (tsp e)) trs ps rest Hn Hf Hs L1 L13 Hok) as [n Hfp].
    eexists. eapply ar_turn; [|apply ar_here].
    unfold kw_step. cbv zeta. rewrite H1, H2.
    rewrite (fill_array_trailing_numbers S _ trs first rs nums (ps ++ rest)%list b Hc Hrs Hnc Hp Hb Hlen Hne).
    rewrite Hfp. reflexivity.
  Qed.
End MoreArrives.

Lemma p_C17_arrives_options_more : forall T (S : Scalar T) trs,
  (forall e p rest k n,
     prefix "imp" (tsp e) = false -> contains_sub "fill" (tsp e) = false ->
     contains_sub "lat" (tsp e) = false -> contains_sub "trcl" (tsp e) = true ->
     numeric_lead p = true -> num_lit (tsp p) = true -> stops rest ->
     lookup (tint p) trs = Some n ->
     exists k', arrives S trs (e :: p :: rest) k rest k' 1) /\
  (forall e first rs nums ps rest b k,
     prefix "imp" (tsp e) = false -> contains_sub "fill" (tsp e) = true ->
     has_colon first = true -> forallb has_colon rs = true ->
     Forall (fun t => has_colon t = false) nums -> Forall (plain (T:=T)) nums ->
     parse_ranges (map tsp (first :: rs)) = Ok b ->
     Z.of_nat (List.length nums) = bounds_size b -> nums <> [] ->
     forallb numeric_lead ps = true -> forallb (fun p => num_lit (tsp p)) ps = true ->
     stops rest -> List.length ps <> 1%nat -> List.length ps <> 13%nat ->
     tr_len_ok (List.length ps) = true ->
     exists k', arrives S trs (e :: first :: rs ++ nums ++ ps ++ rest)%list k rest k' 1).
Proof. intros T S trs. split; [apply arrives_trcl_num|apply arrives_fill_array]. Qed.
