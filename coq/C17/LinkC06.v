(* C17 <-> C06: the FILL-array fault classes stated over BOTH models.

   C06 models parse_fill_kw on the token STRINGS and proves that the first
   size(ranges) tokens are the universes and ALL the other numeric tokens are one
   transformation (C06_parse_fill_kw_flat).  C17 models the same function on
   tokens carrying their values and proves that those other tokens go to the
   transformation reader (C17_fill_array_trailing_numbers).  Here the two are
   stated together, over C06's hypotheses on the spellings, C06's [size] and
   the same ranges: the surplus of a FILL array is [skipn (size bs) tokens] in
   both models, so the two properties cannot drift apart on this fault class.

   Bridges: C06.split_char = C17.split_on; C06.int_of_signed <= C17.py_int
   (Python's int() accepts every spelling C06 accepts); hence every range list
   C06 reads is read by C17's parse_ranges with the same result; C06.size =
   C17.bounds_size; C06.has_colon = C17.has_colon on the token string.
   Where the link stops: C06's model answers EOutOfModel on non-integer
   universe spellings and keeps the parameter TOKENS; C17 reads them (to_float)
   and keeps their number; the [plain] hypothesis on the universe tokens is
   C17's (C06's ends_plain does not imply num_lit). *)
From Coq Require Import List NArith ZArith Bool String Ascii Lia ZifyBool.
From T4V Require Import Base.Str Base.Scalar C17.Model C17.Proofs C17.ProofsStrings C17.ProofsClasses.
From T4V Require C06.Model C06.ProofsText.
Import ListNotations.
Open Scope string_scope.

Module M6 := T4V.C06.Model.
Module T6 := T4V.C06.ProofsText.

Lemma split_char_is_split_on c s : M6.split_char c s = split_on c s.
Proof.
  induction s as [|d r IH]; [reflexivity|].
  cbn [M6.split_char split_on]. rewrite IH, Ascii.eqb_sym. reflexivity.
Qed.

Lemma int_of_string_facts s n :
  int_of_string s = Some n -> s <> "" /\ all_digits s = true /\ n = parse_digits s 0%N.
Proof.
  unfold int_of_string. destruct s as [|d r]; [discriminate|].
  destruct (all_digits (String d r)) eqn:E; [|discriminate].
  intros [= <-]. split; [discriminate|split; reflexivity].
Qed.

Lemma py_int_plain s n : int_of_string s = Some n -> py_int s = Some (Z.of_N n).
Proof.
  intros H. destruct (int_of_string_facts s n H) as [Hne [Hd ->]].
  apply (py_int_spelling (mkSp false s)). split; assumption.
Qed.

Lemma py_int_minus r n : int_of_string r = Some n -> py_int (String "-" r) = Some (- Z.of_N n)%Z.
Proof.
  intros H. destruct (int_of_string_facts r n H) as [Hne [Hd ->]].
  apply (py_int_spelling (mkSp true r)). split; assumption.
Qed.

Lemma py_int_plus r n : int_of_string r = Some n -> py_int (String "+" r) = Some (Z.of_N n).
Proof.
  intros H. destruct (int_of_string_facts r n H) as [Hne [Hd ->]].
  unfold py_int. rewrite strip_no_space; [|simpl; rewrite (digits_no_space _ Hd); reflexivity].
  rewrite (digits_us_digits _ false 0%N Hd (or_introl Hne)). reflexivity.
Qed.

(* Python's int() reads every integer spelling of C06's model, with its value *)
Lemma int_of_signed_py_int s z : M6.int_of_signed s = Some z -> py_int s = Some z.
Proof.
  intros H. destruct s as [|d r]; [discriminate H|].
  destruct d as [[] [] [] [] [] [] [] []]; cbn [M6.int_of_signed] in H;
    match type of H with
    | match int_of_string ?x with _ => _ end = _ =>
        destruct (int_of_string x) as [n|] eqn:E; [injection H as <-|discriminate H]
    end;
    first [exact (py_int_minus _ _ E) | exact (py_int_plus _ _ E) | exact (py_int_plain _ _ E)].
Qed.

Lemma spelled_ranges_read (strs : list string) (bs : bounds) :
  Forall2 T6.spells_range strs bs -> parse_ranges strs = Ok bs.
Proof.
  destruct T6.colon_facts as (Hd & Hm & Hp).
  induction 1 as [|s [lo hi] strs bs (a & c & -> & Ha & Hc) _ IH]; [reflexivity|].
  cbn [fst snd] in Ha, Hc. cbn [parse_ranges].
  rewrite (split_on_app ":" a c (T6.int_of_signed_no_char _ _ _ Hd Hm Hp Ha)).
  rewrite (split_on_none ":" c (T6.int_of_signed_no_char _ _ _ Hd Hm Hp Hc)).
  rewrite (int_of_signed_py_int _ _ Ha), (int_of_signed_py_int _ _ Hc), IH. reflexivity.
Qed.

Lemma size_is_bounds_size (bs : bounds) : M6.size bs = bounds_size bs.
Proof. reflexivity. Qed.

Section Linked.
  Context {T : Type} (S : Scalar T).

  Theorem fill_array_surplus_linked star trs (ft : tok (T:=T)) (rts nts tl : list (tok (T:=T))) (bs : bounds) :
    let n := Z.to_nat (M6.size bs) in
    Forall2 T6.spells_range (map tsp (ft :: rts)) bs ->
    Forall (fun b : Z * Z => (fst b <= snd b)%Z) bs ->
    Forall (fun t => T6.ends_plain t /\ M6.is_num_start t = true /\ M6.has_colon t = false) (map tsp nts) ->
    (M6.size bs <= Z.of_nat (List.length nts))%Z -> T6.keyword_or_end (map tsp tl) ->
    Forall (plain (T:=T)) (firstn n nts) ->
    (* C06's model: the transformation tokens are the surplus *)
    (forall k, M6.parse_fill_kw (tsp ft) (map tsp rts ++ map tsp nts ++ map tsp tl)%list = M6.Ok k ->
               M6.fk_params k = map tsp (skipn n nts) /\ M6.fk_rest k = map tsp tl /\
               M6.fk_bounds k = Some bs) /\
    (* C17's model: the surplus goes to the transformation reader *)
    parse_fill S star trs (ft :: rts ++ nts ++ tl)%list =
    bind (fill_params S true star trs (skipn n nts ++ tl)%list)
         (fun p => Ok (mkFill (Some bs) (map (fun t => Some (tint t)) (firstn n nts)) (fst p), snd p)).
  Proof.
    intros n Hr Hwf Ht Hsz Htail Hplain.
    pose proof (T6.size_pos_text bs Hwf) as Hpos.
    split.
    - intros k Hk.
      destruct (T6.parse_fill_kw_flat (tsp ft) (map tsp rts) bs (map tsp nts) (map tsp tl) k) as [H1 [H2 H3]];
        try assumption.
      + rewrite map_length. exact Hsz.
      + repeat split; try assumption. rewrite H1. unfold n. rewrite skipn_map. reflexivity.
    - assert (Hcolon : forall (t : tok (T:=T)) b, T6.spells_range (tsp t) b -> has_colon t = true).
      { intros t b Hs. exact (T6.spells_range_has_colon _ _ Hs). }
      inversion Hr as [|s0 b0 l0 bs0 Hs0 Hrest]; subst.
      assert (Hrs : forallb has_colon rts = true).
      { clear - Hrest Hcolon. revert bs0 Hrest. induction rts as [|t rts IH]; intros bs0 Hrest; [reflexivity|].
        inversion Hrest as [|s b l bs' Hs Hr']; subst. simpl. rewrite (Hcolon t b Hs). eapply IH; eauto. }
      assert (Hlen : List.length (firstn n nts) = n) by (apply firstn_length_le; unfold n; lia).
      assert (Hnc : Forall (fun t => has_colon t = false) (firstn n nts)).
      { apply Forall_forall. intros t Hin.
        rewrite Forall_forall in Ht.
        assert (Hin' : In (tsp t) (map tsp nts)).
        { apply in_map. rewrite <- (firstn_skipn n nts). apply in_or_app. left. exact Hin. }
        destruct (Ht (tsp t) Hin') as [_ [_ Hc]]. exact Hc. }
      rewrite <- (firstn_skipn n nts) at 1. rewrite <- app_assoc.
      apply (fill_array_trailing_numbers S star trs ft rts (firstn n nts) (skipn n nts ++ tl)%list (b0 :: bs0)).
      + exact (Hcolon ft b0 Hs0).
      + exact Hrs.
      + exact Hnc.
      + exact Hplain.
      + apply spelled_ranges_read. exact Hr.
      + rewrite Hlen. unfold n. pose proof (size_is_bounds_size (b0 :: bs0)) as Hsame. lia.
      + intros E. rewrite E in Hlen. simpl in Hlen. unfold n in Hlen. lia.
  Qed.
End Linked.
