(* C17 — "usable --lattice ranges": every argument written from integers
   (optional minus sign, decimal digits, leading zeros allowed) with one to
   three ranges is accepted by the model of main.parse_lattice and yields those
   integers.  Together with C17_latopt_exact this characterises the accepted
   arguments from both sides. *)
From Coq Require Import List NArith ZArith Bool String Ascii Lia ZifyBool.
From T4V Require Import Base.Str Base.Scalar C17.Model C17.Proofs.
Import ListNotations.
Open Scope string_scope.

(* ---- characters ---- *)
Lemma digit_char_facts a :
  is_digit a = true ->
  is_space a = false /\ Ascii.eqb a "," = false /\ Ascii.eqb a ":" = false /\
  Ascii.eqb a "-" = false /\ Ascii.eqb a "+" = false /\ Ascii.eqb a "_" = false.
Proof.
  destruct a as [[] [] [] [] [] [] [] []]; intros H; try discriminate H; repeat split; reflexivity.
Qed.

(* ---- reversal, strip ---- *)
Lemma append_nil_r s : s ++ "" = s.
Proof. induction s as [|a s IH]; simpl; [reflexivity|rewrite IH; reflexivity]. Qed.

Lemma srev_acc_inv s acc acc' : srev_acc (srev_acc s acc) acc' = srev_acc acc (s ++ acc').
Proof.
  revert acc acc'; induction s as [|a s IH]; intros acc acc'; simpl; [reflexivity|].
  rewrite IH. reflexivity.
Qed.

Lemma srev_involutive s : srev (srev s) = s.
Proof. unfold srev. rewrite srev_acc_inv. simpl. apply append_nil_r. Qed.

Fixpoint no_space (s : string) : bool :=
  match s with EmptyString => true | String a r => negb (is_space a) && no_space r end.

Lemma no_space_srev_acc s acc : no_space s = true -> no_space acc = true -> no_space (srev_acc s acc) = true.
Proof.
  revert acc; induction s as [|a s IH]; intros acc Hs Ha; simpl in *; [exact Ha|].
  apply andb_true_iff in Hs as [H1 H2]. apply IH; [exact H2|]. simpl. rewrite H1, Ha. reflexivity.
Qed.

Lemma lstrip_no_space s : no_space s = true -> lstrip_ws s = s.
Proof.
  destruct s as [|a r]; [reflexivity|]. simpl. intros H. apply andb_true_iff in H as [H _].
  destruct (is_space a); [discriminate|reflexivity].
Qed.

Lemma strip_no_space s : no_space s = true -> strip_ws s = s.
Proof.
  intros H. unfold strip_ws. rewrite (lstrip_no_space s H).
  rewrite lstrip_no_space; [apply srev_involutive|].
  unfold srev. apply no_space_srev_acc; [exact H|reflexivity].
Qed.

(* ---- integers as the user spells them: optional minus, digits ---- *)
Record spelling := mkSp { sp_neg : bool; sp_digits : string }.
Definition sp_wf (p : spelling) : Prop := sp_digits p <> "" /\ all_digits (sp_digits p) = true.
Definition sp_text (p : spelling) : string :=
  if sp_neg p then String "-" (sp_digits p) else sp_digits p.
Definition sp_value (p : spelling) : Z :=
  if sp_neg p then (- Z.of_N (parse_digits (sp_digits p) 0))%Z else Z.of_N (parse_digits (sp_digits p) 0).

Lemma digits_us_digits s pd acc :
  all_digits s = true -> (s <> "" \/ pd = true) -> digits_us s pd acc = Some (parse_digits s acc).
Proof.
  revert pd acc; induction s as [|a s IH]; intros pd acc Hd Hne; simpl in *.
  - destruct Hne as [Hne | ->]; [contradiction|reflexivity].
  - apply andb_true_iff in Hd as [Ha Hs]. rewrite Ha. apply IH; [exact Hs|right; reflexivity].
Qed.

Lemma digits_no_space s : all_digits s = true -> no_space s = true.
Proof.
  induction s as [|a s IH]; simpl; intros H; [reflexivity|].
  apply andb_true_iff in H as [Ha Hs]. destruct (digit_char_facts a Ha) as [H1 _].
  rewrite H1, (IH Hs). reflexivity.
Qed.

Lemma digits_no_char c s :
  all_digits s = true -> (c = "," \/ c = ":")%char -> contains_char c s = false.
Proof.
  intros Hd Hc. induction s as [|a s IH]; simpl in *; [reflexivity|].
  apply andb_true_iff in Hd as [Ha Hs]. destruct (digit_char_facts a Ha) as [_ [H2 [H3 _]]].
  rewrite (IH Hs). destruct Hc as [-> | ->].
  - rewrite Ascii.eqb_sym, H2. reflexivity.
  - rewrite Ascii.eqb_sym, H3. reflexivity.
Qed.

Lemma py_int_spelling p : sp_wf p -> py_int (sp_text p) = Some (sp_value p).
Proof.
  intros [Hne Hd]. unfold py_int, sp_text, sp_value.
  destruct (sp_neg p).
  - rewrite strip_no_space; [|simpl; rewrite (digits_no_space _ Hd); reflexivity].
    rewrite (digits_us_digits _ false 0%N Hd (or_introl Hne)). reflexivity.
  - rewrite (strip_no_space _ (digits_no_space _ Hd)).
    destruct (sp_digits p) as [|a r] eqn:E; [contradiction|].
    simpl in Hd. apply andb_true_iff in Hd as [Ha Hr].
    destruct (digit_char_facts a Ha) as [_ [_ [_ [Hm [Hp _]]]]].
    assert (Hd' : all_digits (String a r) = true) by (simpl; rewrite Ha, Hr; reflexivity).
    assert (Hgoal : option_map Z.of_N (digits_us (String a r) false 0) = Some (Z.of_N (parse_digits (String a r) 0))).
    { rewrite (digits_us_digits _ false 0%N Hd'); [reflexivity|left; discriminate]. }
    destruct a as [[] [] [] [] [] [] [] []]; try discriminate Hm; try discriminate Hp; exact Hgoal.
Qed.

Lemma sp_text_no_char c p :
  sp_wf p -> (c = "," \/ c = ":")%char -> contains_char c (sp_text p) = false.
Proof.
  intros [_ Hd] Hc. unfold sp_text. destruct (sp_neg p); simpl.
  - rewrite (digits_no_char c _ Hd Hc). destruct Hc as [-> | ->]; reflexivity.
  - apply digits_no_char; assumption.
Qed.

(* ---- split ---- *)
Lemma split_on_none c s : contains_char c s = false -> split_on c s = [s].
Proof.
  induction s as [|a s IH]; simpl; intros H; [reflexivity|].
  apply orb_false_iff in H as [H1 H2]. rewrite Ascii.eqb_sym, H1, (IH H2). reflexivity.
Qed.

Lemma split_on_app c a b :
  contains_char c a = false -> split_on c (a ++ String c b) = a :: split_on c b.
Proof.
  induction a as [|x a IH]; simpl; intros H.
  - rewrite Ascii.eqb_refl. reflexivity.
  - apply orb_false_iff in H as [H1 H2]. rewrite Ascii.eqb_sym, H1, (IH H2). reflexivity.
Qed.

Lemma contains_char_app c a b : contains_char c (a ++ b) = contains_char c a || contains_char c b.
Proof. induction a as [|x a IH]; simpl; [reflexivity|rewrite IH, orb_assoc; reflexivity]. Qed.

(* ---- a --lattice argument written from integers ---- *)
Definition range_text (r : spelling * spelling) : string :=
  sp_text (fst r) ++ String ":" (sp_text (snd r)).
Fixpoint ranges_tail (rs : list (spelling * spelling)) : string :=
  match rs with [] => "" | r :: t => String "," (range_text r ++ ranges_tail t) end.
Definition latopt_text (cell : spelling) (rs : list (spelling * spelling)) : string :=
  sp_text cell ++ ranges_tail rs.
Definition range_wf2 (r : spelling * spelling) : Prop := sp_wf (fst r) /\ sp_wf (snd r).

Lemma range_text_no_comma r : range_wf2 r -> contains_char "," (range_text r) = false.
Proof.
  intros [H1 H2]. unfold range_text. rewrite contains_char_app. simpl.
  rewrite (sp_text_no_char "," _ H1 (or_introl eq_refl)), (sp_text_no_char "," _ H2 (or_introl eq_refl)).
  reflexivity.
Qed.

Lemma split_ranges_tail a rs :
  contains_char "," a = false -> Forall range_wf2 rs ->
  split_on "," (a ++ ranges_tail rs) = a :: map range_text rs.
Proof.
  revert a; induction rs as [|r rs IH]; intros a Ha Hrs; simpl.
  - rewrite append_nil_r. apply split_on_none. exact Ha.
  - inversion Hrs as [|r' rs' Hr Hrest]; subst.
    rewrite (split_on_app "," a _ Ha). f_equal. apply IH; [apply range_text_no_comma; exact Hr|exact Hrest].
Qed.

Lemma parse_ranges_texts rs :
  Forall range_wf2 rs ->
  parse_ranges (map range_text rs) = Ok (map (fun r => (sp_value (fst r), sp_value (snd r))) rs).
Proof.
  induction rs as [|r rs IH]; intros H; [reflexivity|].
  inversion H as [|r' rs' [H1 H2] Hrest]; subst.
  cbn [map parse_ranges]. unfold range_text at 1.
  rewrite (split_on_app ":" _ _ (sp_text_no_char ":" _ H1 (or_intror eq_refl))).
  rewrite (split_on_none ":" _ (sp_text_no_char ":" _ H2 (or_intror eq_refl))).
  rewrite (py_int_spelling _ H1), (py_int_spelling _ H2), (IH Hrest). reflexivity.
Qed.

Theorem latopt_wellformed_accepted cell rs :
  sp_wf cell -> Forall range_wf2 rs -> (1 <= List.length rs <= 3)%nat ->
  parse_lattice [latopt_text cell rs]
  = Ok [(sp_value cell, map (fun r => (sp_value (fst r), sp_value (snd r))) rs)].
Proof.
  intros Hc Hrs Hn. unfold parse_lattice, latopt_text. cbn [parse_lattice_acc].
  rewrite (split_ranges_tail _ rs (sp_text_no_char "," _ Hc (or_introl eq_refl)) Hrs).
  rewrite map_length.
  destruct (Nat.eqb_spec (List.length rs) 0); [lia|].
  destruct (Nat.ltb_spec 3 (List.length rs)); [lia|].
  rewrite (py_int_spelling _ Hc), (parse_ranges_texts rs Hrs). reflexivity.
Qed.

(* ---- small statements restated in Properties/C17.v ---- *)
Definition tk {T} (S : Scalar T) (s : string) (z : Z) : tok (T:=T) := mkTok s (sofZ S z) z.

Lemma p_C17_tr_lengths_never_13 : forall T (S : Scalar T) (l : list (trc (T:=T))) r,
  stage_trs S l [] = Ok r -> forall p, In p r -> snd p <> 13%nat.
Proof. intros T S l r H. eapply stage_trs_lengths; [exact H|]. intros p []. Qed.

Lemma p_C17_inline_m_rejected : forall T (S : Scalar T) isfill star trs (ps rest : list (tok (T:=T))),
  forallb numeric_lead ps = true -> forallb (fun p => num_lit (tsp p)) ps = true ->
  stops rest -> List.length ps = 13%nat ->
  seqb S (last (map tval ps) (s1 S)) (s1 S) = false ->
  parse_trcl S star trs (ps ++ rest) = Err ETransformation /\
  fill_params S isfill star trs (ps ++ rest) = Err ETransformation.
Proof. intros; split; [apply trcl_m_rejected|apply inline_m_rejected]; assumption. Qed.

Lemma p_C17_macro_arity_exact : forall T (S : Scalar T) mn (p : list T),
  In mn macros ->
  (In (List.length p) (macro_arities mn) -> is_ok (surface_check S mn p) = true) /\
  (~ In (List.length p) (macro_arities mn) -> is_ok (surface_check S mn p) = false) /\
  (p <> [] -> ~ In (List.length p) (macro_arities mn) -> surface_check S mn p = Err EMacroBody).
Proof.
  intros T S mn p Hm. split; [|split].
  - apply macro_arity_accepted; assumption.
  - apply macro_arity_rejected; assumption.
  - intros; apply macro_arity_error; assumption.
Qed.

Lemma p_C17_surplus_surface_params_refuted : forall T (S : Scalar T) (x : T) (surplus : list T),
  surface_check S "so" (x :: surplus) = Ok (1%nat, 1%nat) /\
  surface_check S "px" (x :: surplus) = Ok (1%nat, 1%nat) /\
  surface_check S "cz" (x :: surplus) = Ok (1%nat, 1%nat) /\
  surface_check S "c/z" (x :: x :: x :: surplus) = Ok (1%nat, 1%nat) /\
  surface_check S "sx" (x :: x :: surplus) = Ok (1%nat, 1%nat) /\
  is_ok (surface_check S "sq" (x :: x :: x :: x :: x :: x :: x :: x :: x :: x :: surplus)) = true.
Proof. intros; repeat split; reflexivity. Qed.

Lemma p_C17_gq_short_params_refuted : forall T (S : Scalar T) (x : T) (p : list T),
  surface_check S "gq" (x :: p) = Ok (1%nat, 1%nat).
Proof. intros; reflexivity. Qed.

Lemma p_C17_facet_check_exact : forall nt4 k,
  (facet_check nt4 k = Ok tt <-> (k <= nt4)%nat) /\
  ((nt4 < k)%nat -> facet_check nt4 k = Err ECellConversion).
Proof. intros; split; [apply facet_check_exact|apply facet_range_rejected]. Qed.

Lemma p_C17_facet_zero_refuted : forall nt4, facet_check nt4 0 = Ok tt.
Proof. intros; reflexivity. Qed.

Lemma p_C17_fill_array_surplus_3_refuted : forall T (S : Scalar T),
  parse_fill S false []
    [tk S "0:1" 0; tk S "0:1" 0; tk S "0:0" 0; tk S "2" 2; tk S "2" 2; tk S "2" 2; tk S "2" 2;
     tk S "7" 7; tk S "8" 8; tk S "9" 9]%Z
  = Ok (mkFill (Some [(0, 1); (0, 1); (0, 0)]%Z) [Some 2; Some 2; Some 2; Some 2]%Z 12, []).
Proof. intros; vm_compute; reflexivity. Qed.

