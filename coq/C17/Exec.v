(* C17 — executable comparison functions used by the generated correspondence
   files (model at binary64 vs what was observed on the implementation). *)
From Coq Require Import List NArith ZArith Bool String Ascii PrimFloat.
From T4V Require Import Base.Str Base.Scalar Base.Cases C17.Model.
Import ListNotations.
Open Scope string_scope.

Definition err_eqb (a b : err) : bool :=
  match a, b with
  | ETransformation, ETransformation | ENotImplemented, ENotImplemented
  | EMissingLatticeOpt, EMissingLatticeOpt | ELattice, ELattice | EParseCell, EParseCell
  | EMacroBody, EMacroBody | ECellConversion, ECellConversion | EValue, EValue
  | EIndex, EIndex | EType, EType | EKey, EKey | EStopIteration, EStopIteration
  | EAssertion, EAssertion | ELatNoRanges, ELatNoRanges | ELatTooMany, ELatTooMany
  | ELatCellNotInt, ELatCellNotInt | ELatNeeds2, ELatNeeds2 | ELatBoundNotInt, ELatBoundNotInt
  | EMixedSigns, EMixedSigns | EOther, EOther | EUnmodelled, EUnmodelled => true
  | _, _ => false
  end.

Definition unmodelled {A} (r : res A) : bool :=
  match r with Err EUnmodelled => true | _ => false end.

(* generic: equal error classes, or both Ok with [e] on the payloads; a case the
   model does not cover is not a disagreement (counted by [is_modelled]) *)
Definition res_eqb {A B} (e : A -> B -> bool) (m : res A) (i : res B) : bool :=
  match m, i with
  | Err EUnmodelled, _ => true
  | Ok a, Ok b => e a b
  | Err x, Err y => err_eqb x y
  | _, _ => false
  end.

Definition unit_eqb (_ _ : unit) : bool := true.
Definition zz_eqb (a b : Z * Z) : bool := (fst a =? fst b)%Z && (snd a =? snd b)%Z.
Definition bounds_eqb : bounds -> bounds -> bool := list_eqb zz_eqb.
Definition nn_eqb (a b : nat * nat) : bool := (fst a =? fst b)%nat && (snd a =? snd b)%nat.

(* (a) --lattice strings: the final dictionary, as the implementation's items *)
Definition dict_eqb (m : list (Z * bounds)) (i : list (Z * bounds)) : bool :=
  forallb (fun kv => option_eqb bounds_eqb (lookup (fst kv) m) (Some (snd kv))) i
  && forallb (fun kv => match lookup (fst kv) i with Some _ => true | None => false end) m.

Definition check_lattice_opt (c : list string * res (list (Z * bounds))) : bool :=
  res_eqb dict_eqb (parse_lattice (fst c)) (snd c).

Definition check_ranges (c : list string * res bounds) : bool :=
  res_eqb bounds_eqb (parse_ranges (fst c)) (snd c).

(* python int() *)
Definition check_int (c : string * option Z) : bool :=
  option_eqb Z.eqb (py_int (fst c)) (snd c).
Definition check_float_lit (c : string * bool) : bool := Bool.eqb (float_lit (fst c)) (snd c).
Definition check_num_lit (c : string * bool) : bool := Bool.eqb (num_lit (fst c)) (snd c).

(* (b) surfaces: mnemonic, number of parameters -> counts or exception *)
Definition check_surface (c : (string * list float) * res (nat * nat)) : bool :=
  res_eqb nn_eqb (surface_check FS (fst (fst c)) (snd (fst c))) (snd c).

(* (c) normalize_transform: entries -> length of the result or exception *)
Definition check_normtr (c : list float * res nat) : bool :=
  res_eqb Nat.eqb (norm_tr_len FS (fst c)) (snd c).

(* (d) develop_lattice dimension check *)
Definition check_dims (c : (nat * bounds) * res unit) : bool :=
  res_eqb unit_eqb (lattice_dims_check (fst (fst c)) (snd (fst c))) (snd c).

Definition check_dims_surfs (c : (nat * bounds) * res unit) : bool :=
  res_eqb unit_eqb (do nb <- square_nb (fst (fst c)); lattice_dims_check nb (snd (fst c))) (snd c).

(* facet check *)
Definition check_facet (c : (nat * nat) * res unit) : bool :=
  res_eqb unit_eqb (facet_check (fst (fst c)) (snd (fst c))) (snd c).

(* (e) one cell's options *)
Definition ftok := tok (T:=float).
Definition optz_eqb := option_eqb Z.eqb.

Definition fillid_eqb (a b : fillid) : bool :=
  match a, b with
  | FUniv u, FUniv v => (u =? v)%Z
  | FLat b1 u1, FLat b2 u2 => bounds_eqb b1 b2 && list_eqb optz_eqb u1 u2
  | _, _ => false
  end.

Definition f_same (a b : float) : bool := (a =? b)%float.

Definition cellsum_eqb (a b : cellsum (T:=float)) : bool :=
  f_same (cs_imp a) (cs_imp b) && (cs_u a =? cs_u b)%Z
  && option_eqb fillid_eqb (cs_fill a) (cs_fill b)
  && (cs_filltr a =? cs_filltr b)%nat
  && optz_eqb (cs_lat a) (cs_lat b)
  && option_eqb Nat.eqb (cs_trcl a) (cs_trcl b).

Record cellcase := mkCellCase {
  cc_trs : list (Z * nat); cc_imps : list (option float); cc_rank : nat;
  cc_latopt : option bounds; cc_toks : list ftok }.

(* the values the harness attaches to the tokens are checked where the model
   can read the spelling itself: a token that is an integer to Python's int()
   must carry that integer *)
Definition tok_ok (t : ftok) : bool :=
  match py_int (tsp t) with
  | Some z => (tint t =? z)%Z
  | None => true
  end.

Definition check_cellopts (c : cellcase * res (cellsum (T:=float))) : bool :=
  let i := fst c in
  forallb tok_ok (cc_toks i) &&
  res_eqb cellsum_eqb (parse_cell FS (cc_trs i) (cc_imps i) (cc_rank i) (cc_latopt i) (cc_toks i)) (snd c).

(* (f) IMP data cards *)
Definition check_impcards (c : list (list ftok) * res (list (option float))) : bool :=
  res_eqb (list_eqb (option_eqb f_same)) (imp_cards_check FS (fst c)) (snd c).

(* (h) material cards *)
Definition check_material (c : list string * res unit) : bool :=
  res_eqb unit_eqb (material_check (fst c)) (snd c).

(* (i) a whole deck *)
Definition fdeck := deckm (T:=float).
Definition check_deck (c : fdeck * res unit) : bool :=
  forallb (fun cl => forallb tok_ok (c_toks cl)) (d_cells (fst c)) &&
  forallb (forallb tok_ok) (d_imps (fst c)) &&
  res_eqb unit_eqb (validate FS (fst c)) (snd c).
Definition deck_modelled (c : fdeck * res unit) : bool := negb (unmodelled (validate FS (fst c))).
Definition cell_modelled (c : cellcase * res (cellsum (T:=float))) : bool :=
  let i := fst c in
  negb (unmodelled (parse_cell FS (cc_trs i) (cc_imps i) (cc_rank i) (cc_latopt i) (cc_toks i))).
