(* C17 — validation-layer model: which checks the converter performs, where, and
   what they answer (Ok / Err with the Python exception class), written from
     t4_geom_convert/main.py                         [parse_lattice]
     Kernel/Volume/Lattice.py                        [parse_ranges, LatticeBounds.size/dims, LatticeSpec]
     Kernel/Transformation/Transformation.py         [normalize_transform, normalize_matrix: arity level]
     MIP/geom/transforms.py                          [TR cards: the 13th entry survives *TR]
     Kernel/FileHandlers/Parser/ParseMCNPCell.py     [parse_keywords, parse_fill_kw, parse_trcl_kw,
                                                      to_fillid, parse_importance_cards]
     MIP/mip/datacard.py                             [expand_data_card: plain numbers, nR, nJ]
     Kernel/FileHandlers/Parser/ParseMCNPSurface.py  [normalize_surface, to_surface_mcnp]
     MIP/geom/forcad.py                              [every mcnp2cad entry: arity level]
     Kernel/Surface/MacroBodies.py                   [check_params_length]
     Kernel/Surface/ESurfaceTypeMCNP.py              [string_to_enum]
     Kernel/Volume/CellConversion.py                 [pot_expand_surfs facet check, develop_lattice]
     Kernel/Composition/CompositionConversionMCNPToT4.py [same-sign check]
   The model is at the level of ARITIES and STRUCTURE: parameter values are
   assumed non-degenerate (see notes/C17.md).  Executable; proofs are in
   C17/Proofs.v. *)
From Coq Require Import List NArith ZArith Bool String Ascii Lia.
From T4V Require Import Base.Str Base.Scalar.
Import ListNotations.
Open Scope string_scope.

(* Python exception classes (ValueError of parse_lattice/parse_ranges split by
   message; the same-sign ValueError of the material cards apart) *)
Inductive err :=
| ETransformation | ENotImplemented | EMissingLatticeOpt | ELattice | EParseCell
| EMacroBody | ECellConversion | EValue | EIndex | EType | EKey | EStopIteration
| EAssertion
| ELatNoRanges | ELatTooMany | ELatCellNotInt | ELatNeeds2 | ELatBoundNotInt
| EMixedSigns
| EOther         (* any other exception class *)
| EUnmodelled.   (* outside what the model covers: the harness skips the case *)

Inductive res (A : Type) := Ok (a : A) | Err (e : err).
Arguments Ok {A}. Arguments Err {A}.

Definition bind {A B} (r : res A) (f : A -> res B) : res B :=
  match r with Ok a => f a | Err e => Err e end.
Notation "'do' x <- r ; k" := (bind r (fun x => k))
  (at level 200, x pattern, r at level 100, k at level 200).

Definition is_ok {A} (r : res A) : bool := match r with Ok _ => true | Err _ => false end.

(* ====================================================================== *)
(* 1. Strings: str.split(sep), str.strip(), int(str)                       *)
(* ====================================================================== *)

(* Python s.split(c) for a one-character separator: never empty *)
Fixpoint split_on (c : ascii) (s : string) : list string :=
  match s with
  | EmptyString => [EmptyString]
  | String a r =>
      let l := split_on c r in
      if Ascii.eqb a c then EmptyString :: l
      else match l with
           | h :: t => String a h :: t
           | [] => [String a EmptyString]
           end
  end.

(* ASCII whitespace of str.strip(): blank, \t \n \v \f \r, \x1c..\x1f *)
Definition is_space (a : ascii) : bool :=
  let n := nat_of_ascii a in
  (n =? 32)%nat || ((9 <=? n)%nat && (n <=? 13)%nat) || ((28 <=? n)%nat && (n <=? 31)%nat).

Fixpoint srev_acc (s acc : string) : string :=
  match s with EmptyString => acc | String a r => srev_acc r (String a acc) end.
Definition srev (s : string) : string := srev_acc s EmptyString.

Fixpoint lstrip_ws (s : string) : string :=
  match s with
  | EmptyString => EmptyString
  | String a r => if is_space a then lstrip_ws r else s
  end.
Definition strip_ws (s : string) : string := srev (lstrip_ws (srev (lstrip_ws s))).

(* digit+ ('_' digit+)*  *)
Fixpoint digits_us (s : string) (prev_digit : bool) (acc : N) : option N :=
  match s with
  | EmptyString => if prev_digit then Some acc else None
  | String a r =>
      if is_digit a then digits_us r true (acc * 10 + digit_val a)%N
      else if Ascii.eqb a "_" then (if prev_digit then digits_us r false acc else None)
      else None
  end.

(* int(s) on ASCII text: blanks around, one optional sign, digits with single
   underscores between them *)
Definition py_int (s : string) : option Z :=
  match strip_ws s with
  | String "-" r => option_map (fun n => (- Z.of_N n)%Z) (digits_us r false 0%N)
  | String "+" r => option_map Z.of_N (digits_us r false 0%N)
  | t => option_map Z.of_N (digits_us t false 0%N)
  end.

(* does float(s) succeed?  decimal syntax, optional exponent; no underscores,
   no inf/nan (assumption) *)
Fixpoint skip_digits (s : string) : nat * string :=
  match s with
  | String a r => if is_digit a then let '(n, t) := skip_digits r in (S n, t) else (O, s)
  | EmptyString => (O, EmptyString)
  end.

Definition drop_sign (s : string) : string :=
  match s with String "+" r => r | String "-" r => r | _ => s end.

Definition float_lit (s : string) : bool :=
  let s := drop_sign (strip_ws s) in
  let '(n1, r1) := skip_digits s in
  let '(n2, r2) := match r1 with String "." r => skip_digits r | _ => (O, r1) end in
  if (n1 + n2 =? 0)%nat then false else
  match r2 with
  | EmptyString => true
  | String c r =>
      if Ascii.eqb c "e" || Ascii.eqb c "E" then
        let '(n3, r3) := skip_digits (drop_sign r) in
        (0 <? n3)%nat && match r3 with EmptyString => true | _ => false end
      else false
  end.

(* MIP.mip.datacard.to_float: float() first, else the Fortran spellings
   mantissa [dD]? [-+]? digits+ (5.0+0, 5.0d0, 6.40875-2); mantissa = digits+
   with an optional point and more digits, or a point followed by digits+ *)
Definition exp_part (r : string) : bool :=
  let '(n3, r3) := skip_digits (drop_sign r) in
  (0 <? n3)%nat && match r3 with EmptyString => true | _ => false end.

Definition fortran_lit (s : string) : bool :=
  let s := drop_sign s in
  let '(n1, r1) := skip_digits s in
  let '(dot, n2, r2) := match r1 with
                        | String "." r => let '(n, t) := skip_digits r in (true, n, t)
                        | _ => (false, O, r1)
                        end in
  if ((0 <? n1)%nat || (dot && (0 <? n2)%nat)) then
    match r2 with
    | String c r => if Ascii.eqb c "d" || Ascii.eqb c "D" then exp_part r else exp_part r2
    | EmptyString => false
    end
  else false.

Definition num_lit (s : string) : bool := float_lit s || fortran_lit s.

Fixpoint contains_sub (sub s : string) : bool :=
  prefix sub s || match s with EmptyString => false | String _ r => contains_sub sub r end.

Definition last_char (s : string) : option ascii :=
  match srev s with String a _ => Some a | EmptyString => None end.
Definition but_last (s : string) : string :=
  match srev s with String _ r => srev r | EmptyString => EmptyString end.

(* ====================================================================== *)
(* 2. --lattice: Lattice.parse_ranges, main.parse_lattice                  *)
(* ====================================================================== *)

Definition bounds := list (Z * Z).

Fixpoint parse_ranges (l : list string) : res bounds :=
  match l with
  | [] => Ok []
  | r :: rest =>
      match split_on ":" r with
      | [a; b] =>
          match py_int a with
          | None => Err ELatBoundNotInt
          | Some lo =>
              match py_int b with
              | None => Err ELatBoundNotInt
              | Some hi => do t <- parse_ranges rest; Ok ((lo, hi) :: t)
              end
          end
      | _ => Err ELatNeeds2
      end
  end.

(* the dictionary is kept newest first; [lookup] returns the newest entry *)
Fixpoint lookup {V} (k : Z) (d : list (Z * V)) : option V :=
  match d with
  | [] => None
  | (k', v) :: r => if (k =? k')%Z then Some v else lookup k r
  end.

Fixpoint parse_lattice_acc (opts : list string) (acc : list (Z * bounds))
  : res (list (Z * bounds)) :=
  match opts with
  | [] => Ok acc
  | o :: rest =>
      match split_on "," o with
      | [] => Err EValue
      | head :: rs =>
          if (List.length rs =? 0)%nat then Err ELatNoRanges
          else if (3 <? List.length rs)%nat then Err ELatTooMany
          else match py_int head with
               | None => Err ELatCellNotInt
               | Some cell => do b <- parse_ranges rs; parse_lattice_acc rest ((cell, b) :: acc)
               end
      end
  end.
Definition parse_lattice (opts : list string) : res (list (Z * bounds)) :=
  parse_lattice_acc opts [].

(* LatticeBounds.size / dims *)
Definition bounds_size (b : bounds) : Z :=
  fold_left (fun x y => (x * (snd y - fst y + 1))%Z) b 1%Z.
Definition nontrivial (r : Z * Z) : bool := negb (fst r =? snd r)%Z.
Definition bounds_dims (b : bounds) : nat := List.length (filter nontrivial b).

(* ====================================================================== *)
(* 3. develop_lattice: dimension checks                                    *)
(* ====================================================================== *)

(* (repaired code, 9b5a8f0) at least as many ranges as lattice directions, and
   only the ranges beyond them must be trivial *)
Definition lattice_dims_check (nb : nat) (b : bounds) : res unit :=
  if (List.length b <? nb)%nat then Err ELattice
  else if existsb nontrivial (skipn nb b) then Err ELattice
  else Ok tt.

(* hexLatticeBaseVectors: six side planes, optionally two axial ones (other
   counts fail in hexVertices/hexSortSides in value-dependent ways) *)
Definition hex_nb (nsurf : nat) : res nat :=
  if (nsurf =? 6)%nat then Ok 2%nat else if (nsurf =? 8)%nat then Ok 3%nat else Err EUnmodelled.

(* squareLatticeReciprocalVecs: 2, 4 or 6 sub-surfaces *)
Definition square_nb (nsurf : nat) : res nat :=
  if (nsurf =? 2)%nat || (nsurf =? 4)%nat || (nsurf =? 6)%nat then Ok (Nat.div nsurf 2)
  else Err ELattice.

(* ====================================================================== *)
(* 4. Surfaces: string_to_enum, check_params_length, normalize_surface,    *)
(*    every mcnp2cad entry, the conversion to T4 (arity level)             *)
(* ====================================================================== *)

Definition mem (s : string) (l : list string) : bool := existsb (String.eqb s) l.

Definition elementary : list string :=
  ["px";"py";"pz";"p";"so";"s";"sx";"sy";"sz";"c/x";"c/y";"c/z";"cx";"cy";"cz";"c";
   "k/x";"k/y";"k/z";"kx";"ky";"kz";"k";"sq";"gq";"t";"tx";"ty";"tz";"x";"y";"z"].
Definition macros : list string :=
  ["box";"rpp";"sph";"rcc";"hex";"rhp";"rec";"trc";"ell";"wed";"arb"].

(* result: (number of MCNP sub-surfaces, number of T4 sub-surfaces) *)
Definition macro_check (mn : string) (n : nat) : res (nat * nat) :=
  let chk (ok : bool) (k : nat) := if ok then Ok (k, k) else Err EMacroBody in
  if mn =? "box" then chk (n =? 12)%nat 6%nat
  else if mn =? "rpp" then chk (n =? 6)%nat 6%nat
  else if mn =? "sph" then chk (n =? 4)%nat 1%nat
  else if mn =? "rcc" then chk (n =? 7)%nat 3%nat
  else if (mn =? "rhp") || (mn =? "hex") then chk ((n =? 9)%nat || (n =? 15)%nat) 8%nat
  else if mn =? "rec" then chk ((n =? 10)%nat || (n =? 12)%nat) 3%nat
  else if mn =? "trc" then chk (n =? 8)%nat 3%nat
  else if mn =? "ell" then chk (n =? 7)%nat 1%nat
  else if mn =? "wed" then chk (n =? 12)%nat 5%nat
  else if mn =? "arb" then chk (n =? 30)%nat 6%nat
  else Err ENotImplemented.

(* arity level of every elementary mnemonic; [two] says whether a cone comes
   with a non-zero nappe selector (then TRIPOLI-4 gets cone + auxiliary plane) *)
Definition elem_check (mn : string) (n : nat) (two5 two3 two8 twoxz : bool) : res (nat * nat) :=
  let one := Ok (1%nat, 1%nat) in
  let cnt (b : bool) := Ok (1%nat, if b then 2%nat else 1%nat) in
  if mn =? "p" then (if (n =? 4)%nat || (n =? 9)%nat then one else Err EValue)
  else if mem mn ["px";"py";"pz";"so";"cx";"cy";"cz"] then one
  else if mn =? "s" then (if (n =? 4)%nat then one else Err EType)
  else if mem mn ["sx";"sy";"sz"] then (if (2 <=? n)%nat then one else Err EIndex)
  else if mem mn ["c/x";"c/y";"c/z"] then (if (3 <=? n)%nat then one else Err EIndex)
  else if mem mn ["k/x";"k/y";"k/z"] then
    (if (4 <=? n)%nat then cnt ((n =? 5)%nat && two5) else Err EIndex)
  else if mem mn ["kx";"ky";"kz"] then
    (if (2 <=? n)%nat then cnt ((n =? 3)%nat && two3) else Err EIndex)
  else if mn =? "sq" then (if (10 <=? n)%nat then one else Err EIndex)
  else if mn =? "gq" then one
  else if mem mn ["tx";"ty";"tz"] then (if (n =? 5)%nat || (n =? 6)%nat then one else Err EValue)
  else if mem mn ["x";"y";"z"] then
    (if (n =? 2)%nat then one else if (n =? 4)%nat then cnt twoxz else Err ENotImplemented)
  else if mn =? "t" then Err EKey                   (* no mcnp2cad entry *)
  else if mn =? "c" then (if (n =? 7)%nat then one else Err EType)
  else if mn =? "k" then (if (7 <=? n)%nat && (n <=? 9)%nat then cnt ((8 <=? n)%nat && two8) else Err EType)
  else Err EValue.

Definition surface_check_n (mn : string) (n : nat) (two5 two3 two8 twoxz : bool) : res (nat * nat) :=
  if (n =? 0)%nat then Err EUnmodelled            (* the card regex needs a parameter *)
  else if mem mn macros then macro_check mn n
  else if mem mn elementary then elem_check mn n two5 two3 two8 twoxz
  else Err EValue.                                (* string_to_enum *)

(* pot_expand_surfs: facet k of a surface with [nt4] T4 sub-surfaces.
   k = 0 passes the test and selects t4_ids[-1]. *)
Definition facet_check (nt4 k : nat) : res unit :=
  if (nt4 <? k)%nat then Err ECellConversion else Ok tt.

(* ====================================================================== *)
(* 5. Material cards: same-sign check                                      *)
(* ====================================================================== *)

Fixpoint mat_pairs (toks : list string) : res (list (string * string)) :=
  match toks with
  | [] => Ok []
  | iso :: rest =>
      if contains_char "=" iso then mat_pairs rest
      else match rest with
           | [] => Err EIndex
           | frac :: rest' => do l <- mat_pairs rest'; Ok ((iso, frac) :: l)
           end
  end.

Definition frac_negative (frac : string) : bool := starts_with_char "-" (lstrip frac).

Fixpoint sign_check (l : list (string * string)) (atom : option bool) : res unit :=
  match l with
  | [] => Ok tt
  | (_, frac) :: r =>
      let positive := negb (frac_negative frac) in
      match atom with
      | Some b => if Bool.eqb b positive then sign_check r atom else Err EMixedSigns
      | None => sign_check r (Some positive)
      end
  end.

Definition material_check (toks : list string) : res unit :=
  do l <- mat_pairs toks; sign_check l None.

(* ====================================================================== *)
(* 6. Everything that looks at numbers: generic in the scalar              *)
(* ====================================================================== *)
Section Num.
  Context {T : Type} (S : Scalar T).

  (* --- surfaces: the values that decide how many TRIPOLI-4 surfaces a cone
         becomes (forcad.k_x/kx/cone: nappe = last entry; convert_cone: a nappe
         equal to 0 counts as none; forcad.xx/zz: plane, cylinder or one-nappe
         cone) --- *)
  Definition nonzero_at (i : nat) (p : list T) : bool :=
    match nth_error p i with Some v => negb (seqb S v (s0 S)) | None => false end.
  Definition same_at (i j : nat) (p : list T) : bool :=
    match nth_error p i, nth_error p j with
    | Some a, Some b => seqb S a b
    | _, _ => false
    end.
  Definition surface_check (mn : string) (p : list T) : res (nat * nat) :=
    surface_check_n mn (List.length p)
      (nonzero_at 4 p) (nonzero_at 2 p) (nonzero_at 7 p)
      (negb (same_at 0 2 p) && negb (same_at 1 3 p)).

  (* --- Transformation.normalize_transform, arity level: length of the
         list it returns.  13 entries: the last one must equal 1. --- *)
  Definition norm_tr_len (t : list T) : res nat :=
    let n := List.length t in
    if (n =? 13)%nat && negb (seqb S (last t (s1 S)) (s1 S)) then Err ETransformation
    else if (n =? 0)%nat then Ok 12%nat
    else if (n =? 3)%nat then Ok 12%nat
    else
      let c := List.length (firstn 9 (skipn 3 t)) in
      if (c =? 9)%nat then Ok 12%nat
      else if (c =? 0)%nat then Ok (n + 9)%nat      (* 1 or 2 entries: identity appended *)
      else if (c =? 5)%nat then Err EStopIteration  (* normalize_matrix5: no full column *)
      else if (c =? 3)%nat || (c =? 6)%nat then Ok 12%nat
      else Err ETransformation.

  (* get_mcnp_transforms: TR and *TR cards in order (MIP keeps the 13th entry
     of a starred card: pl[3:12] = ...) *)
  Record trc := mkTr { tr_id : Z; tr_entries : list T }.

  Fixpoint stage_trs (trs : list trc) (acc : list (Z * nat)) : res (list (Z * nat)) :=
    match trs with
    | [] => Ok acc
    | t :: r => do k <- norm_tr_len (tr_entries t); stage_trs r ((tr_id t, k) :: acc)
    end.

  (* --- tokens of the cell options (after lower(), '(' ')' '=' -> blank,
         split()); [tval] = float(spelling), [tint] = int(float(spelling)),
         both supplied by the harness (0 when float() fails) --- *)
  Record tok := mkTok { tsp : string; tval : T; tint : Z }.

  Definition numeric_lead (t : tok) : bool :=
    match tsp t with
    | String a _ => existsb (Ascii.eqb a) (list_ascii_of_string "0123456789.+-")
    | EmptyString => false
    end.

  Fixpoint span {A} (p : A -> bool) (l : list A) : list A * list A :=
    match l with
    | [] => ([], [])
    | x :: r => if p x then let '(a, b) := span p r in (x :: a, b) else ([], l)
    end.

  (* --- expand_data_card (plain numbers, nR, nJ; I/M/LOG are not modelled) --- *)
  Inductive xres := XOk (vals : list (option (T * Z))) (consumed : nat) | XErr (e : err).

  Definition reached (expected : option Z) (acc : list (option (T * Z))) : bool :=
    match expected with
    | Some e => negb (Z.of_nat (List.length acc) <? e)%Z
    | None => false
    end.

  Definition xfinish (expected : option Z) (acc : list (option (T * Z))) (consumed : nat) : xres :=
    match expected with
    | Some e => if (Z.of_nat (List.length acc) =? e)%Z then XOk acc consumed else XErr EValue
    | None => XOk acc consumed
    end.

  Definition reps (s : string) : option Z :=
    match but_last s with EmptyString => Some 1%Z | p => py_int p end.

  Fixpoint expand (l : list tok) (expected : option Z) (acc : list (option (T * Z)))
           (consumed : nat) : xres :=
    match l with
    | [] => xfinish expected acc consumed
    | t :: r =>
        if reached expected acc then xfinish expected acc consumed
        else
          let s := strip_ws (tsp t) in
          match last_char s with
          | None => XErr EIndex
          | Some c =>
              if Ascii.eqb c "r" then
                match reps s with
                | None => XErr EValue
                | Some n =>
                    match rev acc with
                    | [] => XErr EIndex
                    | v :: _ => expand r expected (acc ++ repeat v (Z.to_nat n)) (Datatypes.S consumed)
                    end
                end
              else if Ascii.eqb c "j" then
                match reps s with
                | None => XErr EValue
                | Some n => expand r expected (acc ++ repeat None (Z.to_nat n)) (Datatypes.S consumed)
                end
              else if Ascii.eqb c "i" || Ascii.eqb c "m" || Ascii.eqb c "g" then
                (* nI, xM on a card read as floats (IMP cards: no expected=);
                   with dtype='int' (FILL arrays: round()) and for LOG: outside *)
                match expected with
                | Some _ => XErr EUnmodelled
                | None =>
                    if Ascii.eqb c "m" then
                      match but_last s with
                      | EmptyString => XErr EValue      (* "m" needs a multiplier *)
                      | p =>
                          if num_lit p then
                            match rev acc with
                            | [] => XErr EIndex
                            | None :: _ => XErr EType
                            | Some (v, _) :: _ =>
                                expand r expected (acc ++ [Some (smul S v (tval t), 0%Z)])
                                       (Datatypes.S consumed)
                            end
                          else XErr EValue
                      end
                    else if Ascii.eqb c "i" then
                      match rev acc, r with
                      | [], _ => XErr EIndex
                      | _, [] => XErr EIndex
                      | lo :: _, up :: r' =>
                          if num_lit (strip_ws (tsp up)) then
                            match lo with
                            | None => XErr EType
                            | Some (lower, _) =>
                                match reps s with
                                | None => XErr EValue
                                | Some n =>
                                    if (n <? 0)%Z then XErr EUnmodelled else
                                    let step := sdiv S (ssub S (tval up) lower) (sofZ S (n + 1)) in
                                    let mids := map (fun i => Some (sadd S lower (smul S (sofZ S (Z.of_nat i)) step), 0%Z))
                                                    (seq 1 (Z.to_nat n)) in
                                    expand r' expected (acc ++ mids ++ [Some (tval up, 0%Z)])
                                           (Datatypes.S (Datatypes.S consumed))
                                end
                            end
                          else XErr EValue
                      end
                    else XErr EUnmodelled
                end
              else if num_lit s
              then expand r expected (acc ++ [Some (tval t, tint t)]) (Datatypes.S consumed)
              else XErr EValue
          end
    end.

  (* --- parse_importance_cards: equal lengths; more than one card: max --- *)
  Definition tmax (a b : T) : T := if sltb S a b then b else a.

  Fixpoint expand_cards (cards : list (list tok)) : res (list (list (option (T * Z)))) :=
    match cards with
    | [] => Ok []
    | c :: r =>
        match expand c None [] 0 with
        | XErr e => Err e
        | XOk v _ => do t <- expand_cards r; Ok (v :: t)
        end
    end.

  Fixpoint zip_max (rows : list (list (option (T * Z)))) (acc : list (option T)) : res (list (option T)) :=
    (* acc holds the running maxima; a None (nJ) under max() is a TypeError *)
    match rows with
    | [] => Ok acc
    | row :: r =>
        if existsb (fun x => match x with None => true | _ => false end) row
           || existsb (fun x => match x with None => true | _ => false end) acc
        then Err EType
        else zip_max r (map (fun p => match p with
                                      | (Some a, Some (b, _)) => Some (tmax a b)
                                      | _ => None end) (combine acc row))
    end.

  Definition imp_cards_check (cards : list (list tok)) : res (list (option T)) :=
    match cards with
    | [] => Ok []
    | _ =>
        do rows <- expand_cards cards;
        match rows with
        | [] => Ok []
        | first :: others =>
            if forallb (fun r => (List.length r =? List.length first)%nat) others then
              match others with
              | [] => Ok (map (option_map fst) first)
              | _ => zip_max others (map (option_map fst) first)
              end
            else Err EParseCell
        end
    end.

  (* --- parse_fill_kw --- *)
  Record fillres := mkFill {
    f_bounds : option bounds;
    f_univs : list (option Z);     (* FILL=n: [Some n] with f_bounds = None *)
    f_trlen : nat }.

  (* [isfill]: a starred FILL without numbers has no transformation (c2e06ed);
     a starred TRCL without numbers still goes through normalize_transform([]),
     the identity with 12 entries *)
  Definition fill_params (isfill star : bool) (trs : list (Z * nat)) (l : list tok)
    : res (nat * list tok) :=
    let '(ps, rest) := span numeric_lead l in
    if negb (forallb (fun p => num_lit (tsp p)) ps) then Err EValue else
    let n := List.length ps in
    match ps with
    | [p] =>
        match lookup (tint p) trs with
        | None => Err EKey
        | Some k => Ok (Nat.min k 12, rest)
        end
    | _ =>
        if (n =? 3)%nat then Ok (12%nat, rest)
        else if (n =? 0)%nat then Ok ((if star && negb isfill then 12 else 0)%nat, rest)
        else if star then do k <- norm_tr_len (map tval ps); Ok (k, rest)
        else do k <- norm_tr_len (map tval ps); Ok (k, rest)
    end.

  (* --- parse_trcl_kw: since the repair it treats its parameters exactly like
         the transformation part of parse_fill_kw (floats, TR number, three
         entries, starred or not through normalize_transform) --- *)
  Definition parse_trcl (star : bool) (trs : list (Z * nat)) (l : list tok)
    : res (nat * list tok) := fill_params false star trs l.

  Definition has_colon (t : tok) : bool := contains_char ":" (tsp t).

  Definition parse_fill (star : bool) (trs : list (Z * nat)) (l : list tok)
    : res (fillres * list tok) :=
    match l with
    | [] => Err EIndex
    | first :: r1 =>
        if has_colon first then
          let '(rs, r2) := span has_colon r1 in
          do b <- parse_ranges (map tsp (first :: rs));
          match expand r2 (Some (bounds_size b)) [] 0 with
          | XErr EValue => Err EParseCell
          | XErr e => Err e
          | XOk vals consumed =>
              let r3 := if (consumed =? 0)%nat then [] else skipn consumed r2 in
              do (k, rest) <- fill_params true star trs r3;
              Ok (mkFill (Some b) (map (option_map snd) vals) k, rest)
          end
        else if float_lit (tsp first) then
          do (k, rest) <- fill_params true star trs r1;
          Ok (mkFill None [Some (tint first)] k, rest)
        else Err EValue
    end.

  (* --- parse_keywords --- *)
  (* importances are kept per particle designator (a later IMP entry for the
     same particle -- the BUT part of LIKE n BUT -- replaces the earlier one);
     the importance of the cell is the largest of them *)
  Fixpoint sdrop (n : nat) (s : string) : string :=
    match n, s with
    | O, _ => s
    | Datatypes.S m, String _ r => sdrop m r
    | Datatypes.S _, EmptyString => EmptyString
    end.
  Fixpoint lstrip_colon (s : string) : string :=
    match s with String ":" r => lstrip_colon r | _ => s end.
  Definition particles (kw : string) : list string := split_on "," (lstrip_colon (sdrop 3 kw)).
  Fixpoint set_particle (p : string) (v : T) (d : list (string * T)) : list (string * T) :=
    match d with
    | [] => [(p, v)]
    | (q, w) :: r => if p =? q then (q, v) :: r else (q, w) :: set_particle p v r
    end.
  Definition max_vals (d : list (string * T)) : option T :=
    match d with
    | [] => None
    | (_, v) :: r => Some (fold_left (fun a x => tmax a (snd x)) r v)
    end.

  Record kws := mkKws {
    k_imp : option T; k_fill : option fillres; k_lat : option Z;
    k_trcl : option nat; k_u : option Z; k_impd : list (string * T) }.
  Definition kws0 : kws := mkKws None None None None None [].

  Fixpoint parse_kw (fuel : nat) (trs : list (Z * nat)) (l : list tok) (k : kws) : res kws :=
    match fuel with
    | O => Err EUnmodelled
    | Datatypes.S f =>
        match l with
        | [] => Ok k
        | e :: rest =>
            let s := tsp e in
            if prefix "imp" s then
              match rest with
              | [] => Err EIndex
              | v :: rest' =>
                  if num_lit (tsp v) then
                    let d := fold_left (fun d p => set_particle p (tval v) d) (particles s) (k_impd k) in
                    parse_kw f trs rest' (mkKws (max_vals d) (k_fill k) (k_lat k) (k_trcl k) (k_u k) d)
                  else Err EValue
              end
            else if contains_sub "fill" s then
              do (fr, rest') <- parse_fill (contains_char "*" s) trs rest;
              parse_kw f trs rest' (mkKws (k_imp k) (Some fr) (k_lat k) (k_trcl k) (k_u k) (k_impd k))
            else if contains_sub "lat" s then
              match rest with
              | [] => Err EIndex
              | v :: rest' =>
                  match py_int (tsp v) with
                  | None => Err EParseCell
                  | Some z =>
                      if (z =? 1)%Z || (z =? 2)%Z
                      then parse_kw f trs rest' (mkKws (k_imp k) (k_fill k) (Some z) (k_trcl k) (k_u k) (k_impd k))
                      else Err EParseCell
                  end
              end
            else if contains_sub "trcl" s then
              do (tr, rest') <- parse_trcl (contains_char "*" s) trs rest;
              parse_kw f trs rest' (mkKws (k_imp k) (k_fill k) (k_lat k) (Some tr) (k_u k) (k_impd k))
            else if s =? "u" then
              match rest with
              | [] => Err EIndex
              | v :: rest' =>
                  if float_lit (tsp v)
                  then parse_kw f trs rest' (mkKws (k_imp k) (k_fill k) (k_lat k) (k_trcl k) (Some (Z.abs (tint v))) (k_impd k))
                  else Err EValue
              end
            else if contains_sub "rho" s || contains_sub "mat" s then
              match rest with
              | [] => Err EIndex
              | _ :: rest' => parse_kw f trs rest' k
              end
            else parse_kw f trs rest k
        end
    end.

  (* --- to_fillid + the defaults of parse_one_cell_worker --- *)
  Inductive fillid :=
  | FUniv (u : Z)
  | FLat (b : bounds) (univs : list (option Z)).

  Record cellsum := mkCell {
    cs_imp : T; cs_u : Z; cs_fill : option fillid; cs_filltr : nat;
    cs_lat : option Z; cs_trcl : option nat }.

  Definition to_fillid (k : kws) (lat_opt : option bounds) : res (option fillid) :=
    match k_fill k with
    | None => Ok None
    | Some fr =>
        match k_lat k with
        | Some _ =>
            match f_bounds fr with
            | None =>
                match lat_opt with
                | None => Err EMissingLatticeOpt
                | Some b =>
                    let sz := bounds_size b in
                    let univs := repeat (hd None (f_univs fr)) (Z.to_nat sz) in
                    if (sz =? Z.of_nat (List.length univs))%Z then Ok (Some (FLat b univs))
                    else Err EValue
                end
            | Some b =>
                if (bounds_size b =? Z.of_nat (List.length (f_univs fr)))%Z
                then Ok (Some (FLat b (f_univs fr))) else Err EValue
            end
        | None =>
            match f_bounds fr with
            | Some _ => Err EAssertion
            | None => match hd None (f_univs fr) with
                      | Some u => Ok (Some (FUniv u))
                      | None => Err EUnmodelled
                      end
            end
        end
    end.

  Definition parse_cell (trs : list (Z * nat)) (imps : list (option T)) (rank : nat)
             (lat_opt : option bounds) (toks : list tok) : res cellsum :=
    do k <- parse_kw (Datatypes.S (List.length toks)) trs toks kws0;
    do imp <- match k_imp k with
              | Some i => Ok i
              | None => match nth_error imps rank with
                        | Some (Some i) => Ok i
                        | Some None => Err EUnmodelled
                        | None => Err EParseCell
                        end
              end;
    do fid <- to_fillid k lat_opt;
    Ok (mkCell imp (match k_u k with Some u => u | None => 0%Z end) fid
               (match k_fill k with Some fr => f_trlen fr | None => 0%nat end)
               (k_lat k)
               (match k_trcl k with Some 0%nat => None | x => x end)).

  (* ==================================================================== *)
  (* 7. The whole run, in the order of main.conversion                     *)
  (* ==================================================================== *)
  Record surfc := mkSurf { sf_id : Z; sf_tr : option Z; sf_mn : string; sf_params : list T }.
  Record lit := mkLit { l_surf : Z; l_facet : option nat }.
  Record cellc := mkCellc { c_id : Z; c_lits : list lit; c_compl : list Z; c_toks : list tok }.
  Record deckm := mkDeck {
    d_latopts : list string; d_surfs : list surfc; d_trs : list trc;
    d_imps : list (list tok); d_cells : list cellc;
    d_mats : list (list string); d_skipcomp : bool;
    d_flagged : list Z;      (* surfaces written with a boundary flag, * or + *)
    d_skipbc : bool }.       (* --skip-boundary-conditions *)

  Definition quadric (mn : string) : bool := (mn =? "sq") || (mn =? "gq").

  (* a GQ card with fewer than ten coefficients converts (finding
     gq_short_params) but cannot be transformed: transformation_quad indexes
     params[0..9] (IndexError).  The surface dictionary remembers it under a
     kind of its own. *)
  Definition short_gq (mn : string) (n : nat) : bool := (mn =? "gq") && (n <? 10)%nat.
  Definition tr_kind (mn : string) (n : nat) : string := if short_gq mn n then "gq:short" else mn.

  (* transformation(trpl, surface) needs exactly 9 matrix entries; the first
     piece of REC and ELL is a GQ *)
  Definition apply_len (k : nat) (mn : string) : res unit :=
    if quadric mn then (if (12 <=? k)%nat then Ok tt else Err EIndex)
    else if (k =? 12)%nat then Ok tt else Err EValue.

  Fixpoint stage_surfs (trs : list (Z * nat)) (l : list surfc) (acc : list (Z * (string * (nat * nat))))
    : res (list (Z * (string * (nat * nat)))) :=
    match l with
    | [] => Ok acc
    | s :: r =>
        do cnt <- surface_check (sf_mn s) (sf_params s);
        do tt <- match sf_tr s with
                | None => Ok tt
                | Some id => match lookup id trs with
                             | None => Err EKey
                             | Some k =>
                                 if short_gq (sf_mn s) (List.length (sf_params s)) then Err EIndex
                                 else if mem (sf_mn s) ["rec"; "ell"] then apply_len k "gq"
                                 else if mem (sf_mn s) macros then apply_len k ""
                                 else apply_len k (sf_mn s)
                             end
                end;
        stage_surfs trs r ((sf_id s, (tr_kind (sf_mn s) (List.length (sf_params s)), cnt)) :: acc)
    end.

  Fixpoint stage_cells (trs : list (Z * nat)) (imps : list (option T)) (lat : list (Z * bounds))
           (rank : nat) (l : list cellc) : res (list (cellc * cellsum)) :=
    match l with
    | [] => Ok []
    | c :: r =>
        do cs <- parse_cell trs imps rank (lookup (c_id c) lat) (c_toks c);
        do t <- stage_cells trs imps lat (Datatypes.S rank) r;
        Ok ((c, cs) :: t)
    end.

  Definition smap := list (Z * (string * (nat * nat))).

  (* pot_transform over the literals of a cell, in order: CollectionDict lookup
     (KeyError; a facet outside 1..number of MCNP sub-surfaces is an
     IndexError -- facet 0 included, unlike pot_expand_surfs), then
     transformation() of every sub-surface, which needs exactly 12 entries *)
  Definition sub_check (nm : nat) (f : option nat) : res unit :=
    match f with
    | None => Ok tt
    | Some k => if (k =? 0)%nat || (nm <? k)%nat then Err EIndex else Ok tt
    end.

  Definition transform_one (k : nat) (mn : string) : res unit :=
    if mn =? "gq:short" then Err EIndex
    else if (k =? 12)%nat then Ok tt
    else if quadric mn || mem mn ["rec"; "ell"] then Err EUnmodelled
    else Err EValue.

  Fixpoint transform_lits (sm : smap) (k : nat) (lits : list lit) : res unit :=
    match lits with
    | [] => Ok tt
    | l0 :: r =>
        match lookup (l_surf l0) sm with
        | None => Err EKey
        | Some (mn, (nm, _)) =>
            do tt <- sub_check nm (l_facet l0);
            do tt <- transform_one k mn;
            transform_lits sm k r
        end
    end.

  Fixpoint all_lits_known (sm : smap) (lits : list lit) : res unit :=
    match lits with
    | [] => Ok tt
    | l0 :: r => match lookup (l_surf l0) sm with None => Err EKey | Some _ => all_lits_known sm r end
    end.

  Fixpoint stage_trcl (sm : smap) (cells : list (cellc * cellsum)) : res unit :=
    match cells with
    | [] => Ok tt
    | (c, cs) :: r =>
        do tt <- match cs_trcl cs with
                | None => Ok tt
                | Some k => transform_lits sm k (c_lits c)
                end;
        stage_trcl sm r
    end.

  Fixpoint count_subsurfs (sm : smap) (lits : list lit) : res nat :=
    match lits with
    | [] => Ok 0%nat
    | l0 :: r =>
        match lookup (l_surf l0) sm with
        | None => Err EKey
        | Some (_, (nm, _)) => do t <- count_subsurfs sm r; Ok (nm + t)%nat
        end
    end.

  Definition univ_nonzero (u : option Z) : bool :=
    match u with Some z => negb (z =? 0)%Z | None => true end.

  Fixpoint stage_lattice (sm : smap) (cells : list (cellc * cellsum)) : res unit :=
    match cells with
    | [] => Ok tt
    | (c, cs) :: r =>
        do tt <- match cs_lat cs with
                | None => Ok tt
                | Some lat =>
                    match cs_fill cs with
                    | Some (FLat b univs) =>
                        if negb (List.length (c_compl c) =? 0)%nat then Err EUnmodelled
                        else
                          do ns <- count_subsurfs sm (c_lits c);
                          do nb <- (if (lat =? 1)%Z then square_nb ns else hex_nb ns);
                          do tt <- lattice_dims_check nb b;
                          if existsb (fun u => match u with None => true | _ => false end) univs
                          then Err EUnmodelled
                          else if existsb univ_nonzero univs then
                            do tt <- (match cs_trcl cs with
                                      | Some _ => all_lits_known sm (c_lits c)
                                      | None => transform_lits sm 12 (c_lits c)
                                      end);
                            if (0 <? cs_filltr cs)%nat && (cs_filltr cs <? 12)%nat then Err EValue
                            else match cs_trcl cs with
                                 | Some k =>
                                     if (0 <? cs_filltr cs)%nat then Ok tt
                                     else if (k <? 12)%nat then Err EValue
                                     else Ok tt
                                 | None => Ok tt
                                 end
                          else Ok tt
                    | _ => Err EAssertion
                    end
                end;
        stage_lattice sm r
    end.

  (* FILL=n with a transformation whose length is not 12: the error shows when
     the transformation meets the first surface of a filler cell *)
  Definition fillers (u : Z) (cells : list (cellc * cellsum)) : list (cellc * cellsum) :=
    filter (fun p => (cs_u (snd p) =? u)%Z) cells.

  (* the literals of a cell once stage_trcl has run: a TRCL cell refers to
     freshly made surfaces, without facet selectors *)
  Definition eff_lits (p : cellc * cellsum) : list lit :=
    match cs_trcl (snd p) with
    | Some _ => map (fun l => mkLit (l_surf l) None) (c_lits (fst p))
    | None => c_lits (fst p)
    end.

  (* pot_fill recurses into the filling universe first: when a filler is a
     lattice, each of its elements that holds another universe moves the cells
     of that universe (a full 12-entry translation: only the facet selectors and
     the short GQ cards can fail there) *)
  Fixpoint transform_universe (sm : smap) (l : list (cellc * cellsum)) : res unit :=
    match l with
    | [] => Ok tt
    | fc :: r => do tt <- transform_lits sm 12 (eff_lits fc); transform_universe sm r
    end.

  Definition lattice_filler_check (sm : smap) (all : list (cellc * cellsum))
             (fc : cellc * cellsum) : res unit :=
    match cs_fill (snd fc), cs_lat (snd fc) with
    | Some (FLat _ univs), Some _ =>
        (fix go (us : list (option Z)) : res unit :=
           match us with
           | [] => Ok tt
           | Some v :: r =>
               if (v =? 0)%Z || (v =? cs_u (snd fc))%Z then go r
               else do tt <- transform_universe sm (fillers v all); go r
           | None :: r => go r
           end) univs
    | _, _ => Ok tt
    end.

  Fixpoint lattice_fillers_check (sm : smap) (all l : list (cellc * cellsum)) : res unit :=
    match l with
    | [] => Ok tt
    | fc :: r => do tt <- lattice_filler_check sm all fc; lattice_fillers_check sm all r
    end.

  Fixpoint stage_fill (sm : smap) (all cells : list (cellc * cellsum)) : res unit :=
    match cells with
    | [] => Ok tt
    | (c, cs) :: r =>
        do tt <- match cs_fill cs, cs_lat cs with
                | Some (FUniv u), None =>
                    do tt <- (if (cs_u cs =? 0)%Z then lattice_fillers_check sm all (fillers u all)
                              else Ok tt);
                    let k := if (0 <? cs_filltr cs)%nat then Some (cs_filltr cs) else cs_trcl cs in
                    match k with
                    | None => Ok tt
                    | Some k =>
                        if negb (cs_u cs =? 0)%Z
                        then (if (k =? 12)%nat then Ok tt else Err EUnmodelled)
                        else (fix go (l : list (cellc * cellsum)) : res unit :=
                                match l with
                                | [] => Ok tt
                                | fc :: r => do tt <- transform_lits sm k (eff_lits fc); go r
                                end) (fillers u all)
                    end
                | _, _ => Ok tt
                end;
        stage_fill sm all r
    end.

  (* facet checks of pot_expand_surfs: literals of the cells that are converted
     untransformed *)
  Fixpoint check_lits (sm : smap) (lits : list lit) : res unit :=
    match lits with
    | [] => Ok tt
    | l0 :: r =>
        match lookup (l_surf l0) sm with
        | None => Err EKey
        | Some (_, (_, nt4)) =>
            do tt <- match l_facet l0 with Some k => facet_check nt4 k | None => Ok tt end;
            check_lits sm r
        end
    end.

  Definition find_cell (id : Z) (cells : list (cellc * cellsum)) : option (cellc * cellsum) :=
    find (fun p => (c_id (fst p) =? id)%Z) cells.

  (* the literals of a cell as pot_convert sees them: its own (unless moved by
     TRCL: the facet is dropped by pot_transform) and those of the cells it
     complements *)
  Fixpoint check_cell (fuel : nat) (sm : smap) (all : list (cellc * cellsum)) (p : cellc * cellsum)
    : res unit :=
    match fuel with
    | O => Err EUnmodelled
    | Datatypes.S f =>
        let '(c, cs) := p in
        do tt <- match cs_trcl cs with
                | None => check_lits sm (c_lits c)
                | Some _ => all_lits_known sm (c_lits c)
                end;
        (fix go (ids : list Z) : res unit :=
           match ids with
           | [] => Ok tt
           | id :: r =>
               match find_cell id all with
               | None => Err EKey
               | Some q => do tt <- check_cell f sm all q; go r
               end
           end) (c_compl c)
    end.

  Fixpoint check_filled (fuel : nat) (sm : smap) (all : list (cellc * cellsum)) (p : cellc * cellsum)
    : res unit :=
    match fuel with
    | O => Err EUnmodelled
    | Datatypes.S f =>
        let '(c, cs) := p in
        match cs_fill cs with
        | None => check_cell (List.length all + 1) sm all p
        | Some (FUniv u) =>
            match fillers u all with
            | [] => Ok tt                     (* nothing is emitted at all *)
            | fl =>
                do tt <- check_cell (List.length all + 1) sm all p;
                if (0 <? cs_filltr cs)%nat || match cs_trcl cs with Some _ => true | None => false end
                then Ok tt                    (* fillers are transformed copies: facets dropped *)
                else (fix go (l : list (cellc * cellsum)) : res unit :=
                        match l with
                        | [] => Ok tt
                        | q :: r => do tt <- check_filled f sm all q; go r
                        end) fl
            end
        | Some (FLat _ _) => Ok tt           (* lattice elements are transformed copies *)
        end
    end.

  Fixpoint stage_convert (sm : smap) (all cells : list (cellc * cellsum)) : res unit :=
    match cells with
    | [] => Ok tt
    | (c, cs) :: r =>
        do tt <- if (cs_u cs =? 0)%Z && negb (seqb S (cs_imp cs) (s0 S))
                then match cs_lat cs with
                     | Some _ => Ok tt
                     | None => check_filled (List.length all + 1) sm all (c, cs)
                     end
                else Ok tt;
        stage_convert sm all r
    end.

  Fixpoint stage_mats (l : list (list string)) : res unit :=
    match l with
    | [] => Ok tt
    | m :: r => do tt <- material_check m; stage_mats r
    end.

  (* writeT4BoundCond / recuperateBoundaryCondition: a boundary flag on a
     surface made of more than one piece (a macrobody other than SPH / ELL) is
     not supported; the section is skipped with --skip-boundary-conditions *)
  Definition stage_bc (sm : smap) (d : deckm) : res unit :=
    if d_skipbc d then Ok tt
    else if existsb (fun id => match lookup id sm with
                               | Some (_, (nm, _)) => (1 <? nm)%nat
                               | None => false
                               end) (d_flagged d)
    then Err ENotImplemented else Ok tt.

  Definition validate (d : deckm) : res unit :=
    do lat <- parse_lattice (d_latopts d);
    do trs <- stage_trs (d_trs d) [];
    do sm <- stage_surfs trs (d_surfs d) [];
    do imps <- imp_cards_check (d_imps d);
    do cells <- stage_cells trs imps lat 0 (d_cells d);
    do tt <- stage_trcl sm cells;
    do tt <- stage_lattice sm cells;
    do tt <- stage_fill sm cells cells;
    do tt <- stage_convert sm cells cells;
    do tt <- (if d_skipcomp d then Ok tt else stage_mats (d_mats d));
    stage_bc sm d.
End Num.
