(* C17 — the keyword loop as iterated turns ([kw_step], proved equal to the
   executed [parse_kw] by [parse_kw_unfold]) and the run-level rejection
   theorems for a faulty keyword wherever the loop arrives at it. *)
From Coq Require Import List NArith ZArith Bool String Ascii Lia ZifyBool.
From T4V Require Import Base.Str Base.Scalar C17.Model C17.Proofs.
Import ListNotations.
Open Scope string_scope.

Section Steps.
  Context {T : Type} (S : Scalar T).

  (* one turn of the keyword loop: the keyword token, what follows it, the
     state -> the remaining tokens and the new state.  [parse_kw_unfold] proves
     that the executed loop is the iteration of this function. *)
  Definition kw_step (trs : list (Z * nat)) (e : tok (T:=T)) (rest : list (tok (T:=T))) (k : kws (T:=T))
    : res (list (tok (T:=T)) * kws (T:=T)) :=
    let s := tsp e in
    if prefix "imp" s then
      match rest with
      | [] => Err EIndex
      | v :: rest' =>
          if num_lit (tsp v) then
            let d := fold_left (fun d p => set_particle p (tval v) d) (particles s) (k_impd k) in
            Ok (rest', mkKws (max_vals S d) (k_fill k) (k_lat k) (k_trcl k) (k_u k) d)
          else Err EValue
      end
    else if contains_sub "fill" s then
      do (fr, rest') <- parse_fill S (contains_char "*" s) trs rest;
      Ok (rest', mkKws (k_imp k) (Some fr) (k_lat k) (k_trcl k) (k_u k) (k_impd k))
    else if contains_sub "lat" s then
      match rest with
      | [] => Err EIndex
      | v :: rest' =>
          match py_int (tsp v) with
          | None => Err EParseCell
          | Some z =>
              if (z =? 1)%Z || (z =? 2)%Z
              then Ok (rest', mkKws (k_imp k) (k_fill k) (Some z) (k_trcl k) (k_u k) (k_impd k))
              else Err EParseCell
          end
      end
    else if contains_sub "trcl" s then
      do (tr, rest') <- parse_trcl S (contains_char "*" s) trs rest;
      Ok (rest', mkKws (k_imp k) (k_fill k) (k_lat k) (Some tr) (k_u k) (k_impd k))
    else if s =? "u" then
      match rest with
      | [] => Err EIndex
      | v :: rest' =>
          if float_lit (tsp v)
          then Ok (rest', mkKws (k_imp k) (k_fill k) (k_lat k) (k_trcl k) (Some (Z.abs (tint v))) (k_impd k))
          else Err EValue
      end
    else if contains_sub "rho" s || contains_sub "mat" s then
      match rest with
      | [] => Err EIndex
      | _ :: rest' => Ok (rest', k)
      end
    else Ok (rest, k).

  Lemma parse_kw_unfold f trs e rest k :
    parse_kw S (Datatypes.S f) trs (e :: rest) k =
    bind (kw_step trs e rest k) (fun p => parse_kw S f trs (fst p) (snd p)).
  Proof.
    cbn [parse_kw]. unfold kw_step. cbv zeta.
    destruct (prefix "imp" (tsp e)).
    { destruct rest as [|v rest']; [reflexivity|]. destruct (num_lit (tsp v)); reflexivity. }
    destruct (contains_sub "fill" (tsp e)).
    { destruct (parse_fill S (contains_char "*" (tsp e)) trs rest) as [[fr rest']|err]; reflexivity. }
    destruct (contains_sub "lat" (tsp e)).
    { destruct rest as [|v rest']; [reflexivity|]. destruct (py_int (tsp v)) as [z|]; [|reflexivity].
      destruct ((z =? 1)%Z || (z =? 2)%Z); reflexivity. }
    destruct (contains_sub "trcl" (tsp e)).
    { destruct (parse_trcl S (contains_char "*" (tsp e)) trs rest) as [[tr rest']|err]; reflexivity. }
    destruct (tsp e =? "u").
    { destruct rest as [|v rest']; [reflexivity|]. destruct (float_lit (tsp v)); reflexivity. }
    destruct (contains_sub "rho" (tsp e) || contains_sub "mat" (tsp e)).
    { destruct rest as [|v rest']; reflexivity. }
    reflexivity.
  Qed.

  (* the loop, started on [l] in state [k], is in front of [l'] in state [k']
     after [n] turns *)
  Inductive arrives (trs : list (Z * nat))
    : list (tok (T:=T)) -> kws (T:=T) -> list (tok (T:=T)) -> kws (T:=T) -> nat -> Prop :=
  | ar_here l k : arrives trs l k l k 0
  | ar_turn e rest k l1 k1 l2 k2 n :
      kw_step trs e rest k = Ok (l1, k1) -> arrives trs l1 k1 l2 k2 n ->
      arrives trs (e :: rest) k l2 k2 (Datatypes.S n).

  Lemma arrives_run trs l k l' k' n :
    arrives trs l k l' k' n -> forall f, parse_kw S (n + f) trs l k = parse_kw S f trs l' k'.
  Proof.
    induction 1 as [|e rest k l1 k1 l2 k2 n Hs Ha IH]; intros f; [reflexivity|].
    change (Datatypes.S n + f)%nat with (Datatypes.S (n + f)).
    rewrite parse_kw_unfold, Hs. simpl. apply IH.
  Qed.

  Lemma arrives_trans trs l k l1 k1 l2 k2 n m :
    arrives trs l k l1 k1 n -> arrives trs l1 k1 l2 k2 m -> arrives trs l k l2 k2 (n + m).
  Proof.
    induction 1 as [|e rest k l1' k1' l2' k2' n Hs Ha IH]; intros H2; [exact H2|].
    simpl. eapply ar_turn; [exact Hs|]. apply IH. exact H2.
  Qed.

  (* every turn consumes at least the keyword token *)
  Lemma span_shorter {A} (p : A -> bool) (l a b : list A) :
    span p l = (a, b) -> (List.length b <= List.length l)%nat.
  Proof.
    revert a b; induction l as [|x l IH]; intros a b H; simpl in H.
    - injection H as <- <-. simpl. lia.
    - destruct (p x).
      + destruct (span p l) as [a' b'] eqn:E. injection H as <- <-.
        specialize (IH a' b' eq_refl). simpl. lia.
      + injection H as <- <-. simpl. lia.
  Qed.

  Lemma fill_params_shorter isfill star trs l n rest :
    fill_params S isfill star trs l = Ok (n, rest) -> (List.length rest <= List.length l)%nat.
  Proof.
    unfold fill_params. destruct (span numeric_lead l) as [ps r] eqn:E.
    pose proof (span_shorter _ _ _ _ E) as Hle.
    destruct (negb (forallb (fun p => num_lit (tsp p)) ps)); [discriminate|].
    destruct ps as [|p1 [|p2 ps']].
    - simpl. intros [= _ <-]. exact Hle.
    - destruct (lookup (tint p1) trs); [intros [= _ <-]; exact Hle|discriminate].
    - match goal with |- context [(List.length ?x =? 3)%nat] => destruct (List.length x =? 3)%nat end;
        [intros [= _ <-]; exact Hle|].
      match goal with |- context [(List.length ?x =? 0)%nat] => destruct (List.length x =? 0)%nat end;
        [intros [= _ <-]; exact Hle|].
      destruct star; destruct (norm_tr_len S (map tval (p1 :: p2 :: ps'))); simpl;
        try discriminate; intros [= _ <-]; exact Hle.
  Qed.

  Lemma parse_fill_shorter star trs l fr rest :
    parse_fill S star trs l = Ok (fr, rest) -> (List.length rest < List.length l)%nat.
  Proof.
    unfold parse_fill. destruct l as [|first r1]; [discriminate|].
    destruct (has_colon first).
    - destruct (span has_colon r1) as [rs r2] eqn:E.
      pose proof (span_shorter _ _ _ _ E) as Hle.
      destruct (parse_ranges (map tsp (first :: rs))) as [b|err]; [|discriminate]. simpl bind.
      destruct (expand S r2 (Some (bounds_size b)) [] 0) as [vals consumed|err] eqn:Ee.
      + intros H. apply bind_ok in H. destruct H as [[k rest'] [Hk H]]. injection H as _ <-.
        apply fill_params_shorter in Hk.
        assert (Hr3 : (List.length (if (consumed =? 0)%nat then [] else skipn consumed r2) <= List.length r2)%nat).
        { destruct (consumed =? 0)%nat; [simpl; lia|rewrite skipn_length; lia]. }
        simpl. lia.
      + destruct err; discriminate.
    - destruct (float_lit (tsp first)); [|discriminate].
      intros H. apply bind_ok in H. destruct H as [[k rest'] [Hk H]]. injection H as _ <-.
      apply fill_params_shorter in Hk. simpl. lia.
  Qed.

  Lemma kw_step_shorter trs e rest k l1 k1 :
    kw_step trs e rest k = Ok (l1, k1) -> (List.length l1 <= List.length rest)%nat.
  Proof.
    unfold kw_step. cbv zeta.
    destruct (prefix "imp" (tsp e)).
    { destruct rest as [|v rest']; [discriminate|]. destruct (num_lit (tsp v)); [|discriminate].
      intros [= <- _]. simpl. lia. }
    destruct (contains_sub "fill" (tsp e)).
    { intros H. apply bind_ok in H. destruct H as [[fr rest'] [Hf H]]. injection H as <- _.
      apply parse_fill_shorter in Hf. lia. }
    destruct (contains_sub "lat" (tsp e)).
    { destruct rest as [|v rest']; [discriminate|]. destruct (py_int (tsp v)) as [z|]; [|discriminate].
      destruct ((z =? 1)%Z || (z =? 2)%Z); [|discriminate]. intros [= <- _]. simpl. lia. }
    destruct (contains_sub "trcl" (tsp e)).
    { intros H. apply bind_ok in H. destruct H as [[tr rest'] [Hf H]]. injection H as <- _.
      unfold parse_trcl in Hf. apply fill_params_shorter in Hf. exact Hf. }
    destruct (tsp e =? "u").
    { destruct rest as [|v rest']; [discriminate|]. destruct (float_lit (tsp v)); [|discriminate].
      intros [= <- _]. simpl. lia. }
    destruct (contains_sub "rho" (tsp e) || contains_sub "mat" (tsp e)).
    { destruct rest as [|v rest']; [discriminate|]. intros [= <- _]. simpl. lia. }
    intros [= <- _]. lia.
  Qed.

  Lemma arrives_fuel trs l k l' k' n :
    arrives trs l k l' k' n -> (n + List.length l' <= List.length l)%nat.
  Proof.
    induction 1 as [|e rest k l1 k1 l2 k2 n Hs Ha IH]; [simpl; lia|].
    apply kw_step_shorter in Hs. simpl. lia.
  Qed.

  (* a rejection by the keyword at which the loop arrives is a rejection of the
     whole option list *)
  Lemma parse_cell_arrives_err trs imps rank lat toks suffix k n err :
    arrives trs toks kws0 suffix k n -> suffix <> [] ->
    (forall f, parse_kw S (Datatypes.S f) trs suffix k = Err err) ->
    is_ok (parse_cell S trs imps rank lat toks) = false.
  Proof.
    intros Ha Hne Hbad. unfold parse_cell.
    pose proof (arrives_fuel _ _ _ _ _ _ Ha) as Hf.
    assert (Hs : (1 <= List.length suffix)%nat) by (destruct suffix; [contradiction|simpl; lia]).
    replace (Datatypes.S (List.length toks)) with (n + Datatypes.S (List.length toks - n))%nat by lia.
    rewrite (arrives_run _ _ _ _ _ _ Ha), Hbad. reflexivity.
  Qed.


  (* ---- options the loop is known to consume ---- *)
  Lemma skippable_arrives trs pre n :
    skippable pre n -> forall suffix k, exists k', arrives trs (pre ++ suffix)%list k suffix k' n.
  Proof.
    induction 1 as [|e v l n H1 H2 Hs IH|e v l n z H1 H2 H3 H4 H5 Hs IH
                    |e v l n H1 H2 H3 H4 H5 H6 Hs IH|e l n H1 H2 H3 H4 H5 H6 Hs IH];
      intros suffix k.
    - exists k. apply ar_here.
    - match goal with |- context [arrives trs ((e :: v :: l) ++ suffix)%list k] =>
        destruct (IH suffix (mkKws (max_vals S (fold_left (fun d p => set_particle p (tval v) d) (particles (tsp e)) (k_impd k)))
                                   (k_fill k) (k_lat k) (k_trcl k) (k_u k)
                                   (fold_left (fun d p => set_particle p (tval v) d) (particles (tsp e)) (k_impd k)))) as [k' Hk'] end.
      exists k'. eapply ar_turn; [|exact Hk']. unfold kw_step. cbv zeta. cbn [app]. rewrite H1, H2. reflexivity.
    - destruct (IH suffix (mkKws (k_imp k) (k_fill k) (Some z) (k_trcl k) (k_u k) (k_impd k))) as [k' Hk'].
      exists k'. eapply ar_turn; [|exact Hk']. unfold kw_step. cbv zeta. cbn [app]. rewrite H1, H2, H3, H4, H5. reflexivity.
    - destruct (IH suffix (mkKws (k_imp k) (k_fill k) (k_lat k) (k_trcl k) (Some (Z.abs (tint v))) (k_impd k))) as [k' Hk'].
      exists k'. eapply ar_turn; [|exact Hk']. unfold kw_step. cbv zeta. cbn [app]. rewrite H1, H2, H3, H4, H5, H6. reflexivity.
    - destruct (IH suffix k) as [k' Hk'].
      exists k'. eapply ar_turn; [|exact Hk']. unfold kw_step. cbv zeta. cbn [app]. rewrite H1, H2, H3, H4, H5, H6. reflexivity.
  Qed.

  (* a transformation given inline with an accepted number of entries
     (2, 3, 6, 9, 12, 14+; not 1 = a TR number, not 13) is consumed exactly *)
  Lemma fill_params_consumes isfill star trs (ps rest : list (tok (T:=T))) :
    forallb numeric_lead ps = true -> forallb (fun p => num_lit (tsp p)) ps = true ->
    stops rest -> List.length ps <> 1%nat -> List.length ps <> 13%nat ->
    tr_len_ok (List.length ps) = true ->
    exists n, fill_params S isfill star trs (ps ++ rest) = Ok (n, rest).
  Proof.
    intros Hn Hf Hs H1 H13 Hok. unfold fill_params.
    rewrite (span_app _ ps rest Hn Hs). rewrite Hf. cbn [negb].
    destruct ps as [|p1 [|p2 ps']]; [eexists; reflexivity|simpl in H1; contradiction|].
    destruct (List.length (p1 :: p2 :: ps') =? 3)%nat; [eexists; reflexivity|].
    change (List.length (p1 :: p2 :: ps') =? 0)%nat with false. cbv iota.
    pose proof (norm_tr_len_exact S (map tval (p1 :: p2 :: ps'))) as Hex.
    rewrite map_length in Hex.
    destruct (Nat.eqb_spec (List.length (p1 :: p2 :: ps')) 13) as [E|_]; [contradiction|].
    rewrite Hok in Hex.
    destruct (norm_tr_len S (map tval (p1 :: p2 :: ps'))) as [k|err]; [|discriminate Hex].
    destruct star; eexists; reflexivity.
  Qed.

  Lemma arrives_trcl trs e ps rest k :
    prefix "imp" (tsp e) = false -> contains_sub "fill" (tsp e) = false ->
    contains_sub "lat" (tsp e) = false -> contains_sub "trcl" (tsp e) = true ->
    forallb numeric_lead ps = true -> forallb (fun p => num_lit (tsp p)) ps = true ->
    stops rest -> List.length ps <> 1%nat -> List.length ps <> 13%nat ->
    tr_len_ok (List.length ps) = true ->
    exists k', arrives trs (e :: ps ++ rest)%list k rest k' 1.
  Proof.
    intros H1 H2 H3 H4 Hn Hf Hs L1 L13 Hok.
    destruct (fill_params_consumes false (contains_char "*" (tsp e)) trs ps rest Hn Hf Hs L1 L13 Hok) as [n Hp].
    eexists. eapply ar_turn; [|apply ar_here].
    unfold kw_step. cbv zeta. rewrite H1, H2, H3, H4. unfold parse_trcl. rewrite Hp. reflexivity.
  Qed.

  Lemma arrives_fill_n trs e u ps rest k :
    prefix "imp" (tsp e) = false -> contains_sub "fill" (tsp e) = true ->
    has_colon u = false -> float_lit (tsp u) = true ->
    forallb numeric_lead ps = true -> forallb (fun p => num_lit (tsp p)) ps = true ->
    stops rest -> List.length ps <> 1%nat -> List.length ps <> 13%nat ->
    tr_len_ok (List.length ps) = true ->
    exists k', arrives trs (e :: u :: ps ++ rest)%list k rest k' 1.
  Proof.
    intros H1 H2 Hc Hu Hn Hf Hs L1 L13 Hok.
    destruct (fill_params_consumes true (contains_char "*" (tsp e)) trs ps rest Hn Hf Hs L1 L13 Hok) as [n Hp].
    eexists. eapply ar_turn; [|apply ar_here].
    unfold kw_step. cbv zeta. rewrite H1, H2. unfold parse_fill. rewrite Hc, Hu, Hp. reflexivity.
  Qed.

  (* ---- whole runs ---- *)
  Lemma cell_fault_rejected_trs (d : deckm (T:=T)) c :
    In c (d_cells d) ->
    (forall trs imps rank lat, parse_lattice (d_latopts d) = Ok lat -> stage_trs S (d_trs d) [] = Ok trs ->
       is_ok (parse_cell S trs imps rank (lookup (c_id c) lat) (c_toks c)) = false) ->
    is_ok (validate S d) = false.
  Proof.
    intros Hin Hbad.
    destruct (validate S d) as [[]|e] eqn:H; [|reflexivity]. exfalso.
    destruct (validate_ok_stages S _ H) as
      [lat [trs [sm [imps [cells [Hlat [Htrs [Hsurf [Himp [Hcells _]]]]]]]]]].
    destruct (stage_cells_all_ok S _ _ _ _ _ _ Hcells c Hin) as [r [cs [Hcs _]]].
    specialize (Hbad trs imps r lat Hlat Htrs). rewrite Hcs in Hbad. discriminate.
  Qed.

  (* the faulty keyword wherever the keyword loop arrives at it: behind any
     options at all, FILL and TRCL keywords included *)
  Theorem run_inline_trcl_m_rejected_any (d : deckm (T:=T)) c e ps rest :
    In c (d_cells d) ->
    (forall trs, stage_trs S (d_trs d) [] = Ok trs ->
       exists k n, arrives trs (c_toks c) kws0 (e :: ps ++ rest)%list k n) ->
    prefix "imp" (tsp e) = false -> contains_sub "fill" (tsp e) = false ->
    contains_sub "lat" (tsp e) = false -> contains_sub "trcl" (tsp e) = true ->
    forallb numeric_lead ps = true -> forallb (fun p => num_lit (tsp p)) ps = true ->
    stops rest -> List.length ps = 13%nat ->
    seqb S (last (map tval ps) (s1 S)) (s1 S) = false ->
    is_ok (validate S d) = false.
  Proof.
    intros Hin Harr H1 H2 H3 H4 Hn Hf Hs Hl Hm.
    apply (cell_fault_rejected_trs d c Hin). intros trs imps rank lat _ Htrs.
    destruct (Harr trs Htrs) as [k [n Ha]].
    eapply parse_cell_arrives_err; [exact Ha|discriminate|].
    intros f. apply kw_trcl_m_rejected; assumption.
  Qed.

  Theorem run_inline_fill_m_rejected_any (d : deckm (T:=T)) c e u ps rest :
    In c (d_cells d) ->
    (forall trs, stage_trs S (d_trs d) [] = Ok trs ->
       exists k n, arrives trs (c_toks c) kws0 (e :: u :: ps ++ rest)%list k n) ->
    prefix "imp" (tsp e) = false -> contains_sub "fill" (tsp e) = true ->
    has_colon u = false -> float_lit (tsp u) = true ->
    forallb numeric_lead ps = true -> forallb (fun p => num_lit (tsp p)) ps = true ->
    stops rest -> List.length ps = 13%nat ->
    seqb S (last (map tval ps) (s1 S)) (s1 S) = false ->
    is_ok (validate S d) = false.
  Proof.
    intros Hin Harr H1 H2 Hc Hu Hn Hf Hs Hl Hm.
    apply (cell_fault_rejected_trs d c Hin). intros trs imps rank lat _ Htrs.
    destruct (Harr trs Htrs) as [k [n Ha]].
    eapply parse_cell_arrives_err; [exact Ha|discriminate|].
    intros f. apply kw_fill_m_rejected; assumption.
  Qed.

  Theorem run_fill_array_short_rejected_any (d : deckm (T:=T)) c e first rs nums b :
    In c (d_cells d) ->
    (forall trs, stage_trs S (d_trs d) [] = Ok trs ->
       exists k n, arrives trs (c_toks c) kws0 (e :: first :: rs ++ nums)%list k n) ->
    prefix "imp" (tsp e) = false -> contains_sub "fill" (tsp e) = true ->
    has_colon first = true -> forallb has_colon rs = true ->
    Forall (fun t => has_colon t = false) nums -> Forall (plain (T:=T)) nums ->
    parse_ranges (map tsp (first :: rs)) = Ok b ->
    (Z.of_nat (List.length nums) < bounds_size b)%Z ->
    is_ok (validate S d) = false.
  Proof.
    intros Hin Harr H1 H2 Hc Hrs Hnc Hp Hb Hlt.
    apply (cell_fault_rejected_trs d c Hin). intros trs imps rank lat _ Htrs.
    destruct (Harr trs Htrs) as [k [n Ha]].
    eapply parse_cell_arrives_err with (err := EParseCell); [exact Ha|discriminate|].
    intros f. cbn [parse_kw]. cbv zeta. rewrite H1, H2.
    rewrite (fill_array_short_rejected S _ trs first rs nums b Hc Hrs Hnc Hp Hb Hlt). reflexivity.
  Qed.

  (* LAT ... FILL=n without a --lattice entry: whatever options the loop
     consumes, if it ends with a FILL entry without ranges and a LAT entry *)
  Theorem run_lattice_no_opt_rejected_any (d : deckm (T:=T)) c :
    In c (d_cells d) ->
    (forall lat, parse_lattice (d_latopts d) = Ok lat -> lookup (c_id c) lat = None) ->
    (forall trs, stage_trs S (d_trs d) [] = Ok trs ->
       exists k n fr, arrives trs (c_toks c) kws0 [] k n /\
                      k_fill k = Some fr /\ f_bounds fr = None /\ k_lat k <> None) ->
    is_ok (validate S d) = false.
  Proof.
    intros Hin Hno Harr.
    apply (cell_fault_rejected_trs d c Hin). intros trs imps rank lat Hlat Htrs.
    rewrite (Hno lat Hlat).
    destruct (Harr trs Htrs) as [k [n [fr [Ha [H1 [H2 H3]]]]]].
    pose proof (arrives_fuel _ _ _ _ _ _ Ha) as Hfu. simpl in Hfu.
    assert (Hk : parse_kw S (Datatypes.S (List.length (c_toks c))) trs (c_toks c) kws0 = Ok k).
    { replace (Datatypes.S (List.length (c_toks c))) with (n + Datatypes.S (List.length (c_toks c) - n))%nat by lia.
      rewrite (arrives_run _ _ _ _ _ _ Ha). reflexivity. }
    destruct (k_lat k) as [z|] eqn:El; [|contradiction].
    eapply parse_cell_no_opt_rejected; eauto.
  Qed.
End Steps.

Lemma p_C17_arrives_options : forall T (S : Scalar T) trs,
  (forall pre n, skippable pre n -> forall suffix k, exists k', arrives S trs (pre ++ suffix)%list k suffix k' n) /\
  (forall e ps rest k,
     prefix "imp" (tsp e) = false -> contains_sub "fill" (tsp e) = false ->
     contains_sub "lat" (tsp e) = false -> contains_sub "trcl" (tsp e) = true ->
     forallb numeric_lead ps = true -> forallb (fun p => num_lit (tsp p)) ps = true ->
     stops rest -> List.length ps <> 1%nat -> List.length ps <> 13%nat ->
     tr_len_ok (List.length ps) = true ->
     exists k', arrives S trs (e :: ps ++ rest)%list k rest k' 1) /\
  (forall e u ps rest k,
     prefix "imp" (tsp e) = false -> contains_sub "fill" (tsp e) = true ->
     has_colon u = false -> float_lit (tsp u) = true ->
     forallb numeric_lead ps = true -> forallb (fun p => num_lit (tsp p)) ps = true ->
     stops rest -> List.length ps <> 1%nat -> List.length ps <> 13%nat ->
     tr_len_ok (List.length ps) = true ->
     exists k', arrives S trs (e :: u :: ps ++ rest)%list k rest k' 1) /\
  (forall l k l1 k1 l2 k2 n m,
     arrives S trs l k l1 k1 n -> arrives S trs l1 k1 l2 k2 m -> arrives S trs l k l2 k2 (n + m)).
Proof.
  intros T S trs. split; [|split; [|split]].
  - apply skippable_arrives.
  - apply arrives_trcl.
  - apply arrives_fill_n.
  - apply arrives_trans.
Qed.
