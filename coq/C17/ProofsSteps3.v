(* C17 — options the keyword loop consumes exactly, continued: FILL arrays written
   with plain numbers, nR and nJ, followed by nothing, a TR number or an inline
   transformation; FILL=n (m). *)
From Coq Require Import List NArith ZArith Bool String Ascii Lia ZifyBool.
From T4V Require Import Base.Str Base.Scalar C17.Model C17.Proofs C17.ProofsSteps C17.ProofsClasses C17.ProofsSteps2.
Import ListNotations.
Open Scope string_scope.

Section ArrayArrives.
  Context {T : Type} (S : Scalar T).

  (* entries of a FILL array: a plain number, or nR / nJ with n >= 1 ("r", "j"
     alone count once) *)
  Inductive item : tok (T:=T) -> nat -> Prop :=
  | it_plain t : plain t -> item t 1
  | it_rep t n : last_char (strip_ws (tsp t)) = Some "r"%char ->
                 reps (strip_ws (tsp t)) = Some (Z.of_nat n) -> (1 <= n)%nat -> item t n
  | it_jump t n : last_char (strip_ws (tsp t)) = Some "j"%char ->
                  reps (strip_ws (tsp t)) = Some (Z.of_nat n) -> (1 <= n)%nat -> item t n.

  Inductive items : list (tok (T:=T)) -> nat -> Prop :=
  | its_nil : items [] 0
  | its_cons t n l m : item t n -> items l m -> items (t :: l) (n + m).

  Lemma expand_items (l more : list (tok (T:=T))) m :
    items l m -> forall e acc c, acc <> [] -> Z.of_nat (List.length acc + m) = e ->
    exists vals, expand S (l ++ more)%list (Some e) acc c = XOk vals (c + List.length l).
  Proof.
    induction 1 as [|t n l m Ht Hl IH]; intros e acc c Hacc Hlen.
    - exists acc. simpl List.length in *. rewrite Nat.add_0_r in *.
      assert (Hfin : xfinish (Some e) acc c = XOk acc c).
      { unfold xfinish. destruct (Z.eqb_spec (Z.of_nat (List.length acc)) e); [reflexivity|lia]. }
      destruct more as [|x more]; simpl app; cbn [expand]; [exact Hfin|].
      assert (Hr : reached (Some e) acc = true).
      { unfold reached. destruct (Z.ltb_spec (Z.of_nat (List.length acc)) e); [lia|reflexivity]. }
      rewrite Hr. exact Hfin.
    - assert (Hn : (1 <= n)%nat) by (destruct Ht; lia).
      assert (Hr : reached (Some e) acc = false).
      { unfold reached. destruct (Z.ltb_spec (Z.of_nat (List.length acc)) e); [reflexivity|lia]. }
      simpl app. cbn [expand]. cbv zeta. rewrite Hr.
      destruct Ht as [t [ch [H1 [H2 [H3 [H4 H5]]]]]|t n H1 H2 H3|t n H1 H2 H3].
      + rewrite H1, H2, H3, H4, H5.
        destruct (IH e (acc ++ [Some (tval t, tint t)])%list (Datatypes.S c)) as [vals Hv].
        { destruct acc; discriminate. }
        { rewrite app_length. simpl. lia. }
        exists vals. rewrite Hv. f_equal. simpl. lia.
      + rewrite H1. simpl Ascii.eqb. cbv iota. rewrite H2.
        destruct (rev acc) as [|v r] eqn:Er.
        { exfalso. apply Hacc. apply (f_equal (@rev _)) in Er. rewrite rev_involutive in Er. exact Er. }
        destruct (IH e (acc ++ repeat v (Z.to_nat (Z.of_nat n)))%list (Datatypes.S c)) as [vals Hv].
        { destruct acc; [contradiction|discriminate]. }
        { rewrite app_length, repeat_length. lia. }
        exists vals. rewrite Hv. f_equal. simpl. lia.
      + rewrite H1. simpl Ascii.eqb. cbv iota. rewrite H2.
        destruct (IH e (acc ++ repeat None (Z.to_nat (Z.of_nat n)))%list (Datatypes.S c)) as [vals Hv].
        { destruct acc; [contradiction|discriminate]. }
        { rewrite app_length, repeat_length. lia. }
        exists vals. rewrite Hv. f_equal. simpl. lia.
  Qed.

  (* an array that starts with a plain number and goes on with plain numbers,
     nR and nJ, filling the ranges exactly, is consumed exactly *)
  Lemma expand_array t0 (l more : list (tok (T:=T))) m e :
    plain t0 -> items l m -> Z.of_nat (1 + m) = e ->
    exists vals, expand S (t0 :: l ++ more)%list (Some e) [] 0 = XOk vals (Datatypes.S (List.length l)).
  Proof.
    intros [ch [H1 [H2 [H3 [H4 H5]]]]] Hl He.
    cbn [expand]. cbv zeta.
    assert (Hr : reached (Some e) (@nil (option (T * Z))) = false).
    { unfold reached. simpl. destruct (Z.ltb_spec 0 e); [reflexivity|lia]. }
    rewrite Hr, H1, H2, H3, H4, H5. simpl app.
    destruct (expand_items l more m Hl e [Some (tval t0, tint t0)] 1) as [vals Hv]; [discriminate|simpl; lia|].
    exists vals. rewrite Hv. reflexivity.
  Qed.

  (* general form: whatever the transformation reader makes of what follows *)
  Lemma parse_fill_array_gen star trs first rs t0 l more b m n rest :
    has_colon first = true -> forallb has_colon rs = true -> has_colon t0 = false ->
    parse_ranges (map tsp (first :: rs)) = Ok b ->
    plain t0 -> items l m -> Z.of_nat (1 + m) = bounds_size b ->
    fill_params S true star trs more = Ok (n, rest) ->
    exists fr, parse_fill S star trs (first :: rs ++ t0 :: l ++ more)%list = Ok (fr, rest).
  Proof.
    intros Hc Hrs Hc0 Hb Hp Hl Hsz Hfp.
    destruct (expand_array t0 l more m (bounds_size b) Hp Hl Hsz) as [vals Hv].
    unfold parse_fill. rewrite Hc.
    assert (Hspan : span has_colon (rs ++ t0 :: l ++ more)%list = (rs, (t0 :: l ++ more)%list)).
    { apply span_app; [exact Hrs|exact Hc0]. }
    rewrite Hspan, Hb. cbn [bind]. rewrite Hv.
    change (Datatypes.S (List.length l) =? 0)%nat with false. cbv iota.
    assert (Hskip : skipn (Datatypes.S (List.length l)) (t0 :: l ++ more)%list = more).
    { simpl. rewrite skipn_app, skipn_all, Nat.sub_diag. reflexivity. }
    rewrite Hskip, Hfp. eexists. reflexivity.
  Qed.

  Lemma arrives_fill_array_gen trs e first rs t0 l more b m n rest k :
    prefix "imp" (tsp e) = false -> contains_sub "fill" (tsp e) = true ->
    has_colon first = true -> forallb has_colon rs = true -> has_colon t0 = false ->
    parse_ranges (map tsp (first :: rs)) = Ok b ->
    plain t0 -> items l m -> Z.of_nat (1 + m) = bounds_size b ->
    fill_params S true (contains_char "*" (tsp e)) trs more = Ok (n, rest) ->
    exists k', arrives S trs (e :: first :: rs ++ t0 :: l ++ more)%list k rest k' 1.
  Proof.
    intros H1 H2 Hc Hrs Hc0 Hb Hp Hl Hsz Hfp.
    destruct (parse_fill_array_gen _ trs first rs t0 l more b m n rest Hc Hrs Hc0 Hb Hp Hl Hsz Hfp) as [fr Hfr].
    eexists. eapply ar_turn; [|apply ar_here].
    unfold kw_step. cbv zeta. rewrite H1, H2, Hfr. reflexivity.
  Qed.

  (* FILL=n (m): a TR number *)
  Lemma arrives_fill_n_trnum trs e u p rest k n :
    prefix "imp" (tsp e) = false -> contains_sub "fill" (tsp e) = true ->
    has_colon u = false -> float_lit (tsp u) = true ->
    numeric_lead p = true -> num_lit (tsp p) = true -> stops rest ->
    lookup (tint p) trs = Some n ->
    exists k', arrives S trs (e :: u :: p :: rest) k rest k' 1.
  Proof.
    intros H1 H2 Hc Hu Hn Hf Hs Hl.
    eexists. eapply ar_turn; [|apply ar_here].
    unfold kw_step. cbv zeta. rewrite H1, H2. unfold parse_fill. rewrite Hc, Hu.
    rewrite (fill_params_trnum S true _ trs p rest n Hn Hf Hs Hl). reflexivity.
  Qed.
End ArrayArrives.

Lemma p_C17_arrives_options_arrays : forall T (S : Scalar T) trs,
  (* a FILL array (first entry a plain number, then plain numbers, nR, nJ, the
     counts adding up to size(ranges)) and whatever the transformation reader
     accepts behind it *)
  (forall e first rs t0 l more b m n rest k,
     prefix "imp" (tsp e) = false -> contains_sub "fill" (tsp e) = true ->
     has_colon first = true -> forallb has_colon rs = true -> has_colon t0 = false ->
     parse_ranges (map tsp (first :: rs)) = Ok b ->
     plain t0 -> items l m -> Z.of_nat (1 + m) = bounds_size b ->
     fill_params S true (contains_char "*" (tsp e)) trs more = Ok (n, rest) ->
     exists k', arrives S trs (e :: first :: rs ++ t0 :: l ++ more)%list k rest k' 1) /\
  (* FILL=n (m) with an existing TR card m *)
  (forall e u p rest k n,
     prefix "imp" (tsp e) = false -> contains_sub "fill" (tsp e) = true ->
     has_colon u = false -> float_lit (tsp u) = true ->
     numeric_lead p = true -> num_lit (tsp p) = true -> stops rest ->
     lookup (tint p) trs = Some n ->
     exists k', arrives S trs (e :: u :: p :: rest) k rest k' 1) /\
  (* what the transformation reader accepts: nothing or 2, 3, 6, 9, 12, 14+
     numbers; one number naming a TR card *)
  (forall isfill star (ps rest : list (tok (T:=T))),
     forallb numeric_lead ps = true -> forallb (fun p => num_lit (tsp p)) ps = true ->
     stops rest -> List.length ps <> 1%nat -> List.length ps <> 13%nat ->
     tr_len_ok (List.length ps) = true ->
     exists n, fill_params S isfill star trs (ps ++ rest)%list = Ok (n, rest)) /\
  (forall isfill star (p : tok (T:=T)) rest k,
     numeric_lead p = true -> num_lit (tsp p) = true -> stops rest ->
     lookup (tint p) trs = Some k ->
     fill_params S isfill star trs (p :: rest) = Ok (Nat.min k 12, rest)).
Proof.
  intros T S trs. split; [|split; [|split]].
  - apply arrives_fill_array_gen.
  - apply arrives_fill_n_trnum.
  - intros. apply fill_params_consumes; assumption.
  - intros. apply fill_params_trnum; assumption.
Qed.

(* ---- arrays whose first entry is nJ or nR ---- *)
Section FirstEntry.
  Context {T : Type} (S : Scalar T).

  (* nJ first: n default entries, then the array goes on *)
  Lemma expand_array_jump t0 n0 (l more : list (tok (T:=T))) m e :
    last_char (strip_ws (tsp t0)) = Some "j"%char ->
    reps (strip_ws (tsp t0)) = Some (Z.of_nat n0) -> (1 <= n0)%nat ->
    items l m -> Z.of_nat (n0 + m) = e ->
    exists vals, expand S (t0 :: l ++ more)%list (Some e) [] 0 = XOk vals (Datatypes.S (List.length l)).
  Proof.
    intros H1 H2 Hn Hl He.
    cbn [expand]. cbv zeta.
    assert (Hr : reached (Some e) (@nil (option (T * Z))) = false).
    { unfold reached. simpl. destruct (Z.ltb_spec 0 e); [reflexivity|lia]. }
    rewrite Hr, H1. simpl Ascii.eqb. cbv iota. rewrite H2. simpl app.
    destruct (expand_items S l more m Hl e (repeat None (Z.to_nat (Z.of_nat n0))) 1) as [vals Hv].
    - destruct n0; [lia|]. rewrite Nat2Z.id. discriminate.
    - rewrite repeat_length. lia.
    - exists vals. rewrite Hv. reflexivity.
  Qed.

  (* nR first: there is nothing to repeat: result[-1] on an empty list, a bare
     IndexError *)
  Lemma expand_first_rep (t0 : tok (T:=T)) l e c n :
    last_char (strip_ws (tsp t0)) = Some "r"%char -> reps (strip_ws (tsp t0)) = Some n ->
    (0 < e)%Z -> expand S (t0 :: l) (Some e) [] c = XErr EIndex.
  Proof.
    intros H1 H2 He. cbn [expand]. cbv zeta.
    assert (Hr : reached (Some e) (@nil (option (T * Z))) = false).
    { unfold reached. simpl. destruct (Z.ltb_spec 0 e); [reflexivity|lia]. }
    rewrite Hr, H1. simpl Ascii.eqb. cbv iota. rewrite H2. reflexivity.
  Qed.

  Theorem fill_array_first_rep_rejected star trs first rs t0 (more : list (tok (T:=T))) b n :
    has_colon first = true -> forallb has_colon rs = true -> has_colon t0 = false ->
    parse_ranges (map tsp (first :: rs)) = Ok b -> (0 < bounds_size b)%Z ->
    last_char (strip_ws (tsp t0)) = Some "r"%char -> reps (strip_ws (tsp t0)) = Some n ->
    parse_fill S star trs (first :: rs ++ t0 :: more)%list = Err EIndex.
  Proof.
    intros Hc Hrs Hc0 Hb Hpos H1 H2. unfold parse_fill. rewrite Hc.
    assert (Hspan : span has_colon (rs ++ t0 :: more)%list = (rs, (t0 :: more)%list)).
    { apply span_app; [exact Hrs|exact Hc0]. }
    rewrite Hspan, Hb. cbn [bind].
    rewrite (expand_first_rep t0 more (bounds_size b) 0 n H1 H2 Hpos). reflexivity.
  Qed.

  Lemma arrives_fill_array_jump trs e first rs t0 n0 l more b m n rest k :
    prefix "imp" (tsp e) = false -> contains_sub "fill" (tsp e) = true ->
    has_colon first = true -> forallb has_colon rs = true -> has_colon t0 = false ->
    parse_ranges (map tsp (first :: rs)) = Ok b ->
    last_char (strip_ws (tsp t0)) = Some "j"%char ->
    reps (strip_ws (tsp t0)) = Some (Z.of_nat n0) -> (1 <= n0)%nat ->
    items l m -> Z.of_nat (n0 + m) = bounds_size b ->
    fill_params S true (contains_char "*" (tsp e)) trs more = Ok (n, rest) ->
    exists k', arrives S trs (e :: first :: rs ++ t0 :: l ++ more)%list k rest k' 1.
  Proof.
    intros H1 H2 Hc Hrs Hc0 Hb Hj Hr Hn Hl Hsz Hfp.
    destruct (expand_array_jump t0 n0 l more m (bounds_size b) Hj Hr Hn Hl Hsz) as [vals Hv].
    assert (Hfr : exists fr, parse_fill S (contains_char "*" (tsp e)) trs (first :: rs ++ t0 :: l ++ more)%list = Ok (fr, rest)).
    { unfold parse_fill. rewrite Hc.
      assert (Hspan : span has_colon (rs ++ t0 :: l ++ more)%list = (rs, (t0 :: l ++ more)%list)).
      { apply span_app; [exact Hrs|exact Hc0]. }
      rewrite Hspan, Hb. cbn [bind]. rewrite Hv.
      change (Datatypes.S (List.length l) =? 0)%nat with false. cbv iota.
      assert (Hskip : skipn (Datatypes.S (List.length l)) (t0 :: l ++ more)%list = more).
      { simpl. rewrite skipn_app, skipn_all, Nat.sub_diag. reflexivity. }
      rewrite Hskip, Hfp. eexists. reflexivity. }
    destruct Hfr as [fr Hfr].
    eexists. eapply ar_turn; [|apply ar_here].
    unfold kw_step. cbv zeta. rewrite H1, H2, Hfr. reflexivity.
  Qed.
End FirstEntry.

Lemma p_C17_fill_array_first_entry : forall T (S : Scalar T) trs,
  (forall star first rs t0 (more : list (tok (T:=T))) b n,
     has_colon first = true -> forallb has_colon rs = true -> has_colon t0 = false ->
     parse_ranges (map tsp (first :: rs)) = Ok b -> (0 < bounds_size b)%Z ->
     last_char (strip_ws (tsp t0)) = Some "r"%char -> reps (strip_ws (tsp t0)) = Some n ->
     parse_fill S star trs (first :: rs ++ t0 :: more)%list = Err EIndex) /\
  (forall e first rs t0 n0 l more b m n rest k,
     prefix "imp" (tsp e) = false -> contains_sub "fill" (tsp e) = true ->
     has_colon first = true -> forallb has_colon rs = true -> has_colon t0 = false ->
     parse_ranges (map tsp (first :: rs)) = Ok b ->
     last_char (strip_ws (tsp t0)) = Some "j"%char ->
     reps (strip_ws (tsp t0)) = Some (Z.of_nat n0) -> (1 <= n0)%nat ->
     items l m -> Z.of_nat (n0 + m) = bounds_size b ->
     fill_params S true (contains_char "*" (tsp e)) trs more = Ok (n, rest) ->
     exists k', arrives S trs (e :: first :: rs ++ t0 :: l ++ more)%list k rest k' 1).
Proof.
  intros T S trs. split.
  - intros. eapply fill_array_first_rep_rejected; eauto.
  - apply arrives_fill_array_jump.
Qed.

(* ---- FILL arrays that are too short, written with shorthand, in front of a keyword ---- *)
Section ShortArrays.
  Context {T : Type} (S : Scalar T).

  (* what may follow an array that is too short: nothing, or a token that is
     neither a number nor a data-card shorthand (a keyword) *)
  Definition ends_array (rest : list (tok (T:=T))) : Prop :=
    match rest with
    | [] => True
    | h :: _ => exists ch, last_char (strip_ws (tsp h)) = Some ch /\
                           Ascii.eqb ch "r" = false /\ Ascii.eqb ch "j" = false /\
                           (Ascii.eqb ch "i" || Ascii.eqb ch "m" || Ascii.eqb ch "g") = false /\
                           num_lit (strip_ws (tsp h)) = false
    end.

  Lemma expand_items_short (l rest : list (tok (T:=T))) m :
    items l m -> ends_array rest -> forall e acc c, acc <> [] ->
    (Z.of_nat (List.length acc + m) < e)%Z ->
    expand S (l ++ rest)%list (Some e) acc c = XErr EValue.
  Proof.
    induction 1 as [|t n l m Ht Hl IH]; intros Hend e acc c Hacc Hlen.
    - simpl List.length in *. rewrite Nat.add_0_r in *. simpl app.
      destruct rest as [|h rest].
      + cbn [expand]. unfold xfinish.
        destruct (Z.eqb_spec (Z.of_nat (List.length acc)) e); [lia|reflexivity].
      + destruct Hend as [ch [H1 [H2 [H3 [H4 H5]]]]].
        cbn [expand]. cbv zeta.
        assert (Hr : reached (Some e) acc = false).
        { unfold reached. destruct (Z.ltb_spec (Z.of_nat (List.length acc)) e); [reflexivity|lia]. }
        rewrite Hr, H1, H2, H3, H4, H5. reflexivity.
    - assert (Hn : (1 <= n)%nat) by (destruct Ht; lia).
      assert (Hr : reached (Some e) acc = false).
      { unfold reached. destruct (Z.ltb_spec (Z.of_nat (List.length acc)) e); [reflexivity|lia]. }
      simpl app. cbn [expand]. cbv zeta. rewrite Hr.
      destruct Ht as [t [ch [H1 [H2 [H3 [H4 H5]]]]]|t n H1 H2 H3|t n H1 H2 H3].
      + rewrite H1, H2, H3, H4, H5. apply IH; [exact Hend|destruct acc; discriminate|].
        rewrite app_length. simpl. lia.
      + rewrite H1. simpl Ascii.eqb. cbv iota. rewrite H2.
        destruct (rev acc) as [|v r] eqn:Er.
        { exfalso. apply Hacc. apply (f_equal (@rev _)) in Er. rewrite rev_involutive in Er. exact Er. }
        apply IH; [exact Hend|destruct acc; [contradiction|discriminate]|].
        rewrite app_length, repeat_length. lia.
      + rewrite H1. simpl Ascii.eqb. cbv iota. rewrite H2.
        apply IH; [exact Hend|destruct acc; [contradiction|discriminate]|].
        rewrite app_length, repeat_length. lia.
  Qed.

  (* a FILL array written with plain numbers, nR and nJ that holds fewer
     entries than its ranges ask for, at the end of the options or in front of
     a keyword *)
  Theorem fill_array_short_rejected_gen star trs first rs t0 l rest b m :
    has_colon first = true -> forallb has_colon rs = true -> has_colon t0 = false ->
    parse_ranges (map tsp (first :: rs)) = Ok b ->
    plain t0 -> items l m -> ends_array rest ->
    (Z.of_nat (1 + m) < bounds_size b)%Z ->
    parse_fill S star trs (first :: rs ++ t0 :: l ++ rest)%list = Err EParseCell.
  Proof.
    intros Hc Hrs Hc0 Hb [ch [H1 [H2 [H3 [H4 H5]]]]] Hl Hend Hlt.
    unfold parse_fill. rewrite Hc.
    assert (Hspan : span has_colon (rs ++ t0 :: l ++ rest)%list = (rs, (t0 :: l ++ rest)%list)).
    { apply span_app; [exact Hrs|exact Hc0]. }
    rewrite Hspan, Hb. cbn [bind].
    assert (Hx : expand S (t0 :: l ++ rest)%list (Some (bounds_size b)) [] 0 = XErr EValue).
    { cbn [expand]. cbv zeta.
      assert (Hr : reached (Some (bounds_size b)) (@nil (option (T * Z))) = false).
      { unfold reached. simpl. destruct (Z.ltb_spec 0 (bounds_size b)); [reflexivity|lia]. }
      rewrite Hr, H1, H2, H3, H4, H5. simpl app.
      apply (expand_items_short l rest m Hl Hend); [discriminate|simpl; lia]. }
    rewrite Hx. reflexivity.
  Qed.

  Theorem run_fill_array_short_rejected_gen (d : deckm (T:=T)) c e first rs t0 l rest b m :
    In c (d_cells d) ->
    (forall trs, stage_trs S (d_trs d) [] = Ok trs ->
       exists k n, arrives S trs (c_toks c) kws0 (e :: first :: rs ++ t0 :: l ++ rest)%list k n) ->
    prefix "imp" (tsp e) = false -> contains_sub "fill" (tsp e) = true ->
    has_colon first = true -> forallb has_colon rs = true -> has_colon t0 = false ->
    parse_ranges (map tsp (first :: rs)) = Ok b ->
    plain t0 -> items l m -> ends_array rest ->
    (Z.of_nat (1 + m) < bounds_size b)%Z ->
    is_ok (validate S d) = false.
  Proof.
    intros Hin Harr H1 H2 Hc Hrs Hc0 Hb Hp Hl Hend Hlt.
    apply (cell_fault_rejected_trs S d c Hin). intros trs imps rank lat _ Htrs.
    destruct (Harr trs Htrs) as [k [n Ha]].
    eapply parse_cell_arrives_err with (err := EParseCell); [exact Ha|discriminate|].
    intros f. cbn [parse_kw]. cbv zeta. rewrite H1, H2.
    rewrite (fill_array_short_rejected_gen _ trs first rs t0 l rest b m Hc Hrs Hc0 Hb Hp Hl Hend Hlt).
    reflexivity.
  Qed.
End ShortArrays.
