(* C17 — characterisation of the open finding classes (exactly which inputs are
   wrongly accepted), of the exception classes of the rejections (which ones do
   not name the problem), and the transformation-length checks of the FILL and
   lattice stages. *)
From Coq Require Import List NArith ZArith Bool String Ascii Lia ZifyBool.
From T4V Require Import Base.Str Base.Scalar C17.Model C17.Proofs.
Import ListNotations.
Open Scope string_scope.


(* ---------------------------------------------------------------------- *)
(* 1. surplus_surface_params / gq_short_params: exactly which cards with a   *)
(*    parameter count MCNP does not define are accepted                      *)
(* ---------------------------------------------------------------------- *)

(* the counts of the MCNP manual (the converter's own extensions: TX/TY/TZ with
   five entries; C and K are not MCNP mnemonics, T is not supported) *)
Definition manual_arity (mn : string) (n : nat) : bool :=
  if mem mn ["px";"py";"pz";"so";"cx";"cy";"cz"] then (n =? 1)%nat
  else if mn =? "p" then (n =? 4)%nat || (n =? 9)%nat
  else if mn =? "s" then (n =? 4)%nat
  else if mem mn ["sx";"sy";"sz"] then (n =? 2)%nat
  else if mem mn ["c/x";"c/y";"c/z"] then (n =? 3)%nat
  else if mem mn ["k/x";"k/y";"k/z"] then (n =? 4)%nat || (n =? 5)%nat
  else if mem mn ["kx";"ky";"kz"] then (n =? 2)%nat || (n =? 3)%nat
  else if mem mn ["sq";"gq"] then (n =? 10)%nat
  else if mem mn ["tx";"ty";"tz"] then (n =? 5)%nat || (n =? 6)%nat
  else if mem mn ["x";"y";"z"] then (n =? 2)%nat || (n =? 4)%nat
  else if mn =? "c" then (n =? 7)%nat
  else if mn =? "k" then (7 <=? n)%nat && (n <=? 9)%nat
  else false.

(* the cards accepted although the count is wrong: any surplus on the
   mnemonics whose mcnp2cad entry indexes its parameters, any count on GQ *)
Definition wrongly_accepted (mn : string) (n : nat) : bool :=
  if mem mn ["px";"py";"pz";"so";"cx";"cy";"cz"] then (2 <=? n)%nat
  else if mem mn ["sx";"sy";"sz"] then (3 <=? n)%nat
  else if mem mn ["c/x";"c/y";"c/z"] then (4 <=? n)%nat
  else if mem mn ["k/x";"k/y";"k/z"] then (6 <=? n)%nat
  else if mem mn ["kx";"ky";"kz"] then (4 <=? n)%nat
  else if mn =? "sq" then (11 <=? n)%nat
  else if mn =? "gq" then negb (n =? 10)%nat
  else false.

Ltac bool_arith :=
  repeat match goal with
         | |- context [(?a =? ?b)%nat] => destruct (Nat.eqb_spec a b)
         | |- context [(?a <=? ?b)%nat] => destruct (Nat.leb_spec a b)
         end; simpl; try reflexivity; try lia.

Local Opaque Nat.leb Nat.eqb.
Lemma wrongly_accepted_exact mn n :
  In mn elementary -> (1 <= n)%nat ->
  elem_accepts mn n && negb (manual_arity mn n) = wrongly_accepted mn n.
Proof.
  intros Hin Hn. unfold elementary in Hin. simpl in Hin.
  decompose [or] Hin; clear Hin; try contradiction; subst mn;
    unfold elem_accepts, manual_arity, wrongly_accepted; simpl; bool_arith.
Qed.

Local Transparent Nat.leb Nat.eqb.

Section SurfaceClasses.
  Context {T : Type} (S : Scalar T).

  (* a surface card of an elementary mnemonic whose number of entries is not
     the manual's is converted iff [wrongly_accepted] *)
  Theorem surplus_surface_params_exact mn (p : list T) :
    In mn elementary -> p <> [] -> manual_arity mn (List.length p) = false ->
    is_ok (surface_check S mn p) = wrongly_accepted mn (List.length p).
  Proof.
    intros Hin Hp Hm. rewrite (surface_arity_exact S mn p Hin Hp).
    rewrite <- (wrongly_accepted_exact mn (List.length p) Hin).
    - rewrite Hm. simpl. rewrite andb_true_r. reflexivity.
    - destruct p; [contradiction|simpl; lia].
  Qed.

  (* ---- (d) which rejections do not name the problem ---- *)
  (* the exception class of every rejected count of every elementary mnemonic *)
  Definition elem_error (mn : string) : err :=
    if mn =? "p" then EValue                     (* 'Planes "P" expect either 4 or 9 parameters' *)
    else if mem mn ["s"; "c"; "k"] then EType    (* _sphere() missing ... argument *)
    else if mem mn ["sx";"sy";"sz";"c/x";"c/y";"c/z";"k/x";"k/y";"k/z";"kx";"ky";"kz";"sq"] then EIndex
    else if mem mn ["tx";"ty";"tz"] then EValue  (* not enough / too many values to unpack *)
    else if mem mn ["x";"y";"z"] then ENotImplemented
    else if mn =? "t" then EKey                  (* KeyError: 't' *)
    else EOther.

  Local Opaque Nat.leb Nat.eqb.
  Lemma elem_check_error mn n b1 b2 b3 b4 :
    In mn elementary -> elem_accepts mn n = false ->
    elem_check mn n b1 b2 b3 b4 = Err (elem_error mn).
  Proof.
    intros Hin. unfold elementary in Hin. simpl in Hin.
    decompose [or] Hin; clear Hin; try contradiction; subst mn;
      unfold elem_check, elem_accepts, elem_error; simpl;
      repeat match goal with
             | |- context [(?a =? ?b)%nat] => destruct (Nat.eqb_spec a b)
             | |- context [(?a <=? ?b)%nat] => destruct (Nat.leb_spec a b)
             end; simpl; intros Hacc; try discriminate Hacc; try reflexivity; try lia.
  Qed.

  Local Transparent Nat.leb Nat.eqb.

  Theorem surface_rejection_class mn (p : list T) :
    In mn elementary -> p <> [] -> elem_accepts mn (List.length p) = false ->
    surface_check S mn p = Err (elem_error mn).
  Proof.
    intros Hin Hp Hn. rewrite surface_check_unfold. unfold surface_check_n.
    destruct p as [|x p]; [contradiction|]. change (List.length (x :: p) =? 0)%nat with false. cbv iota.
    rewrite (elementary_not_macro mn Hin).
    apply mem_In in Hin as Hin'. rewrite Hin'.
    apply elem_check_error; assumption.
  Qed.

  (* errors raised by Python itself, with no word about the card *)
  Definition anonymous (e : err) : bool :=
    match e with EIndex | EType | EKey | EStopIteration | EAssertion => true | _ => false end.

  Theorem anonymous_surface_rejections mn (p : list T) :
    In mn ["s";"c";"k";"sx";"sy";"sz";"c/x";"c/y";"c/z";"k/x";"k/y";"k/z";"kx";"ky";"kz";"sq";"t"] ->
    p <> [] -> elem_accepts mn (List.length p) = false ->
    exists e, surface_check S mn p = Err e /\ anonymous e = true.
  Proof.
    intros Hin Hp Hn.
    assert (He : In mn elementary).
    { simpl in Hin. decompose [or] Hin; try contradiction; subst mn; unfold elementary; simpl; tauto. }
    exists (elem_error mn). split; [apply surface_rejection_class; assumption|].
    simpl in Hin. decompose [or] Hin; try contradiction; subst mn; reflexivity.
  Qed.
End SurfaceClasses.

(* a transformation with 8 entries (5 matrix entries) ends in a bare
   StopIteration; 4, 5, 7, 10, 11 entries in a TransformationError *)
Section TrClasses.
  Context {T : Type} (S : Scalar T).
  Theorem tr_arity_error_class (t : list T) :
    List.length t <> 13%nat -> tr_len_ok (List.length t) = false ->
    norm_tr_len S t = Err (if (List.length t =? 8)%nat then EStopIteration else ETransformation).
  Proof.
    unfold norm_tr_len, tr_len_ok. rewrite firstn_length, skipn_length.
    generalize (seqb S (last t (s1 S)) (s1 S)) as b. generalize (List.length t) as n. intros n b H13 Hok.
    do 15 (destruct n as [|n]; [try discriminate Hok; try reflexivity; try (exfalso; apply H13; reflexivity)|]).
    discriminate Hok.
  Qed.
End TrClasses.


Section FillClasses.
  Context {T : Type} (S : Scalar T).

  (* the array consumes exactly as many plain numbers as the ranges ask for *)
  Lemma expand_exact (nums more : list (tok (T:=T))) e acc c :
    Forall (plain (T:=T)) nums -> Z.of_nat (List.length acc + List.length nums) = e ->
    exists vals, expand S (nums ++ more)%list (Some e) acc c = XOk (acc ++ vals)%list (c + List.length nums) /\
                 vals = map (fun t => Some (tval t, tint t)) nums.
  Proof.
    revert acc c; induction nums as [|t nums IH]; intros acc c Hp Hlen.
    - exists []. split; [|reflexivity]. simpl List.length in *. rewrite Nat.add_0_r in *. rewrite app_nil_r.
      assert (Hfin : xfinish (Some e) acc c = XOk acc c).
      { unfold xfinish. destruct (Z.eqb_spec (Z.of_nat (List.length acc)) e); [reflexivity|lia]. }
      destruct more as [|m more]; simpl app; cbn [expand]; [exact Hfin|].
      assert (Hr : reached (Some e) acc = true).
      { unfold reached. destruct (Z.ltb_spec (Z.of_nat (List.length acc)) e); [lia|reflexivity]. }
      rewrite Hr. exact Hfin.
    - inversion Hp as [|t' l' [ch [H1 [H2 [H3 [H4 H5]]]]] Hrest]; subst.
      simpl app. cbn [expand]. cbv zeta.
      assert (Hr : reached (Some (Z.of_nat (List.length acc + List.length (t :: nums)))) acc = false).
      { unfold reached. simpl List.length.
        destruct (Z.ltb_spec (Z.of_nat (List.length acc)) (Z.of_nat (List.length acc + Datatypes.S (List.length nums)))); [reflexivity|lia]. }
      rewrite Hr, H1, H2, H3, H4, H5.
      destruct (IH (acc ++ [Some (tval t, tint t)])%list (Datatypes.S c) Hrest) as [vals [Hv Hm]].
      { rewrite app_length. simpl. lia. }
      exists (Some (tval t, tint t) :: vals). split.
      + rewrite Hv. rewrite <- app_assoc. simpl. f_equal. lia.
      + simpl. rewrite Hm. reflexivity.
  Qed.

  (* fill_array_surplus_* and C06's array_entry_transformation: whatever numbers
     follow the size(ranges) universes are read as ONE transformation of the
     whole array, by the same function that reads FILL=n (...) *)
  Theorem fill_array_trailing_numbers star trs first rs (nums more : list (tok (T:=T))) b :
    has_colon first = true -> forallb has_colon rs = true ->
    Forall (fun t => has_colon t = false) nums -> Forall (plain (T:=T)) nums ->
    parse_ranges (map tsp (first :: rs)) = Ok b ->
    Z.of_nat (List.length nums) = bounds_size b -> nums <> [] ->
    parse_fill S star trs (first :: rs ++ nums ++ more)%list =
    bind (fill_params S true star trs more)
         (fun p => Ok (mkFill (Some b) (map (fun t => Some (tint t)) nums) (fst p), snd p)).
  Proof.
    intros Hc Hrs Hnc Hp Hb Hlen Hne. unfold parse_fill. rewrite Hc.
    assert (Hspan : span has_colon (rs ++ nums ++ more)%list = (rs, (nums ++ more)%list)).
    { apply span_app; [exact Hrs|]. destruct nums as [|x nums]; [contradiction|]. inversion Hnc; assumption. }
    rewrite Hspan, Hb. simpl bind.
    destruct (expand_exact nums more (bounds_size b) [] 0 Hp) as [vals [Hv Hm]]; [simpl; lia|].
    rewrite Hv. simpl app. simpl Nat.add.
    assert (Hcons : (List.length nums =? 0)%nat = false).
    { destruct nums; [contradiction|reflexivity]. }
    rewrite Hcons.
    assert (Hskip : skipn (List.length nums) (nums ++ more)%list = more).
    { rewrite skipn_app, skipn_all, Nat.sub_diag. reflexivity. }
    rewrite Hskip.
    destruct (fill_params S true star trs more) as [[k rest]|err]; [|reflexivity].
    simpl. rewrite Hm, map_map. reflexivity.
  Qed.
End FillClasses.

Section StageClasses.
  Context {T : Type} (S : Scalar T).

  (* facet_unchecked_in_skipped_cell: the facet checks of the conversion stage
     look at no cell of importance 0, of a universe other than 0, or that is a
     lattice: whatever their literals *)
  Definition not_converted (p : cellc (T:=T) * cellsum (T:=T)) : bool :=
    negb ((cs_u (snd p) =? 0)%Z && negb (seqb S (cs_imp (snd p)) (s0 S)))
    || match cs_lat (snd p) with Some _ => true | None => false end.

  Theorem stage_convert_skips (sm : smap) all (cells : list (cellc * cellsum (T:=T))) :
    forallb not_converted cells = true -> stage_convert S sm all cells = Ok tt.
  Proof.
    induction cells as [|[c cs] cells IH]; intros H; [reflexivity|].
    simpl in H. apply andb_true_iff in H as [H1 H2].
    cbn [stage_convert]. unfold not_converted in H1. simpl in H1.
    destruct ((cs_u cs =? 0)%Z && negb (seqb S (cs_imp cs) (s0 S))); simpl in *.
    - destruct (cs_lat cs); [simpl; apply IH; exact H2|discriminate].
    - apply IH; exact H2.
  Qed.

  (* (b) transformation lengths at the FILL stage *)
  Lemma transform_one_ok k mn : transform_one k mn = Ok tt -> k = 12%nat.
  Proof.
    unfold transform_one. destruct (mn =? "gq:short"); [discriminate|].
    destruct (Nat.eqb_spec k 12); [auto|].
    destruct (quadric mn || mem mn ["rec"; "ell"]); discriminate.
  Qed.

  Lemma transform_lits_length (sm : smap) k (lits : list lit) :
    transform_lits sm k lits = Ok tt -> lits <> [] -> k = 12%nat.
  Proof.
    destruct lits as [|l0 lits]; [intros _ H; contradiction|]. intros H _.
    simpl in H. destruct (lookup (l_surf l0) sm) as [[mn [nm nt4]]|]; [|discriminate].
    apply bind_ok in H; destruct H as [[] [_ H]].
    apply bind_ok in H; destruct H as [[] [H _]].
    eapply transform_one_ok; eauto.
  Qed.

  Lemma eff_lits_nil (p : cellc (T:=T) * cellsum (T:=T)) : eff_lits p = [] <-> c_lits (fst p) = [].
  Proof.
    unfold eff_lits. destruct (cs_trcl (snd p)); [|tauto].
    destruct (c_lits (fst p)); simpl; split; intros H; try reflexivity; discriminate.
  Qed.

  Definition fill_tr_length (cs : cellsum (T:=T)) : option nat :=
    if (0 <? cs_filltr cs)%nat then Some (cs_filltr cs) else cs_trcl cs.

  Lemma stage_fill_all_ok (sm : smap) all (cells : list (cellc * cellsum (T:=T))) :
    stage_fill sm all cells = Ok tt ->
    forall c cs u k fc, In (c, cs) cells -> cs_fill cs = Some (FUniv u) -> cs_lat cs = None ->
      cs_u cs = 0%Z -> fill_tr_length cs = Some k -> In fc (fillers u all) ->
      transform_lits sm k (eff_lits fc) = Ok tt.
  Proof.
    induction cells as [|[c0 cs0] cells IH]; intros H c cs u k fc Hin Hf Hl Hu Hk Hfc; [destruct Hin|].
    cbn [stage_fill] in H. apply bind_ok in H; destruct H as [[] [H0 H]].
    destruct Hin as [E|Hin]; [|eapply IH; eauto].
    injection E as -> ->. rewrite Hf, Hl in H0.
    apply bind_ok in H0; destruct H0 as [[] [_ H0]].
    unfold fill_tr_length in Hk. rewrite Hk in H0.
    rewrite Hu in H0. simpl in H0.
    revert H0. generalize (fillers u all) Hfc. clear.
    intros l. induction l as [|q l IHl]; intros Hfc H0; [destruct Hfc|].
    apply bind_ok in H0; destruct H0 as [[] [Hq H0]].
    destruct Hfc as [<-|Hfc]; [exact Hq|auto].
  Qed.

  (* in every finished run: a cell of the real world filled by FILL=n with a
     transformation (its own, or its TRCL) whose universe has a cell with at
     least one surface has a 12-entry transformation (1- and 2-entry TR cards,
     2-entry inline forms are rejected there, not before) *)
  Theorem run_fill_transformation_length (d : deckm (T:=T)) :
    validate S d = Ok tt ->
    forall lat trs sm imps cells,
      parse_lattice (d_latopts d) = Ok lat -> stage_trs S (d_trs d) [] = Ok trs ->
      stage_surfs S trs (d_surfs d) [] = Ok sm -> imp_cards_check S (d_imps d) = Ok imps ->
      stage_cells S trs imps lat 0 (d_cells d) = Ok cells ->
      forall c cs u k fc, In (c, cs) cells -> cs_fill cs = Some (FUniv u) -> cs_lat cs = None ->
        cs_u cs = 0%Z -> fill_tr_length cs = Some k -> In fc (fillers u cells) ->
        c_lits (fst fc) <> [] -> k = 12%nat.
  Proof.
    intros H lat trs sm imps cells E1 E2 E3 E4 E5 c cs u k fc Hin Hf Hl Hu Hk Hfc Hne.
    destruct (validate_ok_stages S _ H) as
      [lat' [trs' [sm' [imps' [cells' [Hlat [Htrs [Hsurf [Himp [Hcells [_ [_ [Hfill _]]]]]]]]]]]]].
    rewrite E1 in Hlat; injection Hlat as <-. rewrite E2 in Htrs; injection Htrs as <-.
    rewrite E3 in Hsurf; injection Hsurf as <-. rewrite E4 in Himp; injection Himp as <-.
    rewrite E5 in Hcells; injection Hcells as <-.
    pose proof (stage_fill_all_ok sm cells cells Hfill c cs u k fc Hin Hf Hl Hu Hk Hfc) as Ht.
    eapply transform_lits_length; [exact Ht|]. intros Hnil. apply eff_lits_nil in Hnil. contradiction.
  Qed.
End StageClasses.


Section LatTr.
  Context {T : Type} (S : Scalar T).

  Lemma stage_lattice_tr_ok (sm : smap) (cells : list (cellc * cellsum (T:=T))) :
    stage_lattice sm cells = Ok tt ->
    forall c cs z b univs, In (c, cs) cells -> cs_lat cs = Some z ->
      cs_fill cs = Some (FLat b univs) -> c_compl c = [] ->
      existsb univ_nonzero univs = true ->
      (cs_filltr cs = 0 \/ 12 <= cs_filltr cs)%nat /\
      (cs_filltr cs = 0%nat -> forall k, cs_trcl cs = Some k -> (12 <= k)%nat).
  Proof.
    induction cells as [|[c0 cs0] cells IH]; intros H c cs z b univs Hin Hl Hf Hc Hnz; [destruct Hin|].
    cbn [stage_lattice] in H. apply bind_ok in H; destruct H as [[] [H0 H]].
    destruct Hin as [E|Hin]; [|eapply IH; eauto].
    injection E as -> ->. rewrite Hl, Hf, Hc in H0. simpl in H0.
    apply bind_ok in H0; destruct H0 as [ns [_ H0]].
    apply bind_ok in H0; destruct H0 as [nb [_ H0]].
    apply bind_ok in H0; destruct H0 as [[] [_ H0]].
    destruct (existsb (fun u => match u with None => true | _ => false end) univs); [discriminate|].
    rewrite Hnz in H0.
    apply bind_ok in H0; destruct H0 as [[] [_ H0]].
    destruct (Nat.ltb_spec 0 (cs_filltr cs)) as [E0|E0]; destruct (Nat.ltb_spec (cs_filltr cs) 12) as [E12|E12];
      simpl in H0; try discriminate.
    - split; [right; exact E12|intros; lia].
    - split; [left; lia|]. intros _ k Hk. rewrite Hk in H0.
      destruct (Nat.ltb_spec k 12); [discriminate|lia].
    - split; [left; lia|]. intros _ k Hk. rewrite Hk in H0.
      destruct (Nat.ltb_spec k 12); [discriminate|lia].
  Qed.

  Theorem run_lattice_transformation_length (d : deckm (T:=T)) :
    validate S d = Ok tt ->
    forall lat trs sm imps cells,
      parse_lattice (d_latopts d) = Ok lat -> stage_trs S (d_trs d) [] = Ok trs ->
      stage_surfs S trs (d_surfs d) [] = Ok sm -> imp_cards_check S (d_imps d) = Ok imps ->
      stage_cells S trs imps lat 0 (d_cells d) = Ok cells ->
      forall c cs z b univs, In (c, cs) cells -> cs_lat cs = Some z ->
        cs_fill cs = Some (FLat b univs) -> c_compl c = [] ->
        existsb univ_nonzero univs = true ->
        (cs_filltr cs = 0 \/ 12 <= cs_filltr cs)%nat /\
        (cs_filltr cs = 0%nat -> forall k, cs_trcl cs = Some k -> (12 <= k)%nat).
  Proof.
    intros H lat trs sm imps cells E1 E2 E3 E4 E5.
    destruct (validate_ok_stages S _ H) as
      [lat' [trs' [sm' [imps' [cells' [Hlat [Htrs [Hsurf [Himp [Hcells [_ [Hlatt _]]]]]]]]]]]].
    rewrite E1 in Hlat; injection Hlat as <-. rewrite E2 in Htrs; injection Htrs as <-.
    rewrite E3 in Hsurf; injection Hsurf as <-. rewrite E4 in Himp; injection Himp as <-.
    rewrite E5 in Hcells; injection Hcells as <-.
    apply (stage_lattice_tr_ok sm cells Hlatt).
  Qed.
End LatTr.
