(* C17 — proofs about the validation model (C17/Model.v).  Every statement is
   for an arbitrary scalar structure [S : Scalar T] (so it holds for the reals
   and for binary64 alike) and for inputs of any size. *)
From Coq Require Import List NArith ZArith Bool String Ascii Lia ZifyBool.
From T4V Require Import Base.Str Base.Scalar C17.Model.
Import ListNotations.
Open Scope string_scope.

(* ---------------------------------------------------------------------- *)
(* 0. The error monad                                                      *)
(* ---------------------------------------------------------------------- *)

Lemma bind_ok {A B} (r : res A) (f : A -> res B) (b : B) :
  bind r f = Ok b -> exists a, r = Ok a /\ f a = Ok b.
Proof. destruct r as [a|e]; simpl; intros H; [eauto|discriminate]. Qed.

Lemma is_ok_false_err {A} (r : res A) : is_ok r = false <-> exists e, r = Err e.
Proof.
  destruct r as [a|e]; simpl; split; intros H; try discriminate; eauto.
  destruct H as [e H]; discriminate.
Qed.

Lemma not_ok_is_ok_false {A} (r : res A) : (forall a, r <> Ok a) -> is_ok r = false.
Proof. destruct r as [a|e]; simpl; intros H; [exfalso; eapply H; eauto|reflexivity]. Qed.

Ltac inv_bind H :=
  let a := fresh "v" in let H1 := fresh "Hstage" in
  apply bind_ok in H; destruct H as [a [H1 H]].

(* ---------------------------------------------------------------------- *)
(* 1. The pipeline: a normally finished run passed every stage             *)
(* ---------------------------------------------------------------------- *)
Section Pipeline.
  Context {T : Type} (S : Scalar T).

  Lemma validate_ok_stages (d : deckm) :
    validate S d = Ok tt ->
    exists lat trs sm imps cells,
      parse_lattice (d_latopts d) = Ok lat /\
      stage_trs S (d_trs d) [] = Ok trs /\
      stage_surfs S trs (d_surfs d) [] = Ok sm /\
      imp_cards_check S (d_imps d) = Ok imps /\
      stage_cells S trs imps lat 0 (d_cells d) = Ok cells /\
      stage_trcl sm cells = Ok tt /\
      stage_lattice sm cells = Ok tt /\
      stage_fill sm cells cells = Ok tt /\
      stage_convert S sm cells cells = Ok tt /\
      (d_skipcomp d = false -> stage_mats (d_mats d) = Ok tt).
  Proof.
    unfold validate; intros H.
    apply bind_ok in H; destruct H as [lat [H1 H]].
    apply bind_ok in H; destruct H as [trs [H2 H]].
    apply bind_ok in H; destruct H as [sm [H3 H]].
    apply bind_ok in H; destruct H as [imps [H4 H]].
    apply bind_ok in H; destruct H as [cells [H5 H]].
    apply bind_ok in H; destruct H as [[] [H6 H]].
    apply bind_ok in H; destruct H as [[] [H7 H]].
    apply bind_ok in H; destruct H as [[] [H8 H]].
    apply bind_ok in H; destruct H as [[] [H9 H]].
    apply bind_ok in H; destruct H as [[] [H10 H]].
    exists lat, trs, sm, imps, cells. repeat split; try assumption.
    intros Hs; rewrite Hs in H10; exact H10.
  Qed.

  (* ... and the boundary-condition stage *)
  Lemma validate_ok_bc (d : deckm) :
    validate S d = Ok tt ->
    exists trs sm, stage_trs S (d_trs d) [] = Ok trs /\
                   stage_surfs S trs (d_surfs d) [] = Ok sm /\ stage_bc sm d = Ok tt.
  Proof.
    unfold validate; intros H.
    apply bind_ok in H; destruct H as [lat [H1 H]].
    apply bind_ok in H; destruct H as [trs [H2 H]].
    apply bind_ok in H; destruct H as [sm [H3 H]].
    apply bind_ok in H; destruct H as [imps [H4 H]].
    apply bind_ok in H; destruct H as [cells [H5 H]].
    apply bind_ok in H; destruct H as [[] [H6 H]].
    apply bind_ok in H; destruct H as [[] [H7 H]].
    apply bind_ok in H; destruct H as [[] [H8 H]].
    apply bind_ok in H; destruct H as [[] [H9 H]].
    apply bind_ok in H; destruct H as [[] [H10 H]].
    exists trs, sm. auto.
  Qed.

  (* a flagged surface of more than one piece stops the run, unless the
     boundary conditions are skipped *)
  Theorem run_flagged_macrobody_rejected (d : deckm) id :
    d_skipbc d = false -> In id (d_flagged d) ->
    (forall trs sm, stage_trs S (d_trs d) [] = Ok trs -> stage_surfs S trs (d_surfs d) [] = Ok sm ->
       exists mn nm nt4, lookup id sm = Some (mn, (nm, nt4)) /\ (1 < nm)%nat) ->
    is_ok (validate S d) = false.
  Proof.
    intros Hs Hin Hsurf.
    destruct (validate S d) as [[]|e] eqn:H; [|reflexivity]. exfalso.
    destruct (validate_ok_bc d H) as [trs [sm [H2 [H3 Hbc]]]].
    destruct (Hsurf trs sm H2 H3) as [mn [nm [nt4 [Hl Hn]]]].
    unfold stage_bc in Hbc. rewrite Hs in Hbc.
    assert (Hex : existsb (fun id0 => match lookup id0 sm with
                                      | Some (_, (nm0, _)) => (1 <? nm0)%nat
                                      | None => false end) (d_flagged d) = true).
    { apply existsb_exists. exists id. split; [exact Hin|]. rewrite Hl.
      apply Nat.ltb_lt. exact Hn. }
    rewrite Hex in Hbc. discriminate.
  Qed.

  (* ---- TR cards ---- *)
  Lemma stage_trs_all_ok (l : list (trc (T:=T))) acc r :
    stage_trs S l acc = Ok r -> forall t, In t l -> is_ok (norm_tr_len S (tr_entries t)) = true.
  Proof.
    revert acc; induction l as [|t0 l IH]; intros acc H t Hin; [destruct Hin|].
    simpl in H. apply bind_ok in H; destruct H as [k [Hk H]].
    destruct Hin as [<-|Hin]; [rewrite Hk; reflexivity|eapply IH; eauto].
  Qed.

  Lemma norm_tr_len_m_rejected (t : list T) :
    List.length t = 13%nat -> seqb S (last t (s1 S)) (s1 S) = false ->
    norm_tr_len S t = Err ETransformation.
  Proof. intros Hl Hm; unfold norm_tr_len; rewrite Hl, Hm; reflexivity. Qed.

  (* what normalize_transform returns has 12 entries, or 10/11 for the
     1- and 2-entry forms: never 13, so the m != 1 test of
     ParseMCNPCell.__init__ can never fire *)
  Lemma norm_tr_len_values (t : list T) k :
    norm_tr_len S t = Ok k -> k = 12%nat \/ k = 10%nat \/ k = 11%nat.
  Proof.
    unfold norm_tr_len.
    destruct ((List.length t =? 13)%nat && negb (seqb S (last t (s1 S)) (s1 S))); [discriminate|].
    destruct (List.length t =? 0)%nat eqn:E0; [intros [= <-]; auto|].
    destruct (List.length t =? 3)%nat eqn:E3; [intros [= <-]; auto|].
    set (c := List.length (firstn 9 (skipn 3 t))).
    assert (Hc : c = Nat.min 9 (List.length t - 3)) by (unfold c; rewrite firstn_length, skipn_length; reflexivity).
    destruct (c =? 9)%nat eqn:E9; [intros [= <-]; auto|].
    destruct (c =? 0)%nat eqn:Ec0.
    - intros [= <-]. lia.
    - destruct (c =? 5)%nat; [discriminate|].
      destruct ((c =? 3)%nat || (c =? 6)%nat); [intros [= <-]; auto|discriminate].
  Qed.

  Lemma stage_trs_lengths (l : list (trc (T:=T))) acc r :
    stage_trs S l acc = Ok r ->
    (forall p, In p acc -> snd p <> 13%nat) -> forall p, In p r -> snd p <> 13%nat.
  Proof.
    revert acc; induction l as [|t0 l IH]; intros acc H Hacc p Hp.
    - simpl in H; injection H as <-; auto.
    - simpl in H. apply bind_ok in H; destruct H as [k [Hk H]].
      eapply IH; [exact H| |exact Hp].
      intros q [<-|Hq]; [|auto]. simpl.
      apply norm_tr_len_values in Hk. lia.
  Qed.

  (* ---- surfaces ---- *)
  Lemma stage_surfs_all_ok trs (l : list (surfc (T:=T))) acc r :
    stage_surfs S trs l acc = Ok r ->
    forall s, In s l -> is_ok (surface_check S (sf_mn s) (sf_params s)) = true.
  Proof.
    revert acc; induction l as [|s0 l IH]; intros acc H s Hin; [destruct Hin|].
    simpl in H. apply bind_ok in H; destruct H as [cnt [Hc H]].
    apply bind_ok in H; destruct H as [[] [_ H]].
    destruct Hin as [<-|Hin]; [rewrite Hc; reflexivity|eapply IH; eauto].
  Qed.

  (* ---- material cards ---- *)
  Lemma stage_mats_all_ok (l : list (list string)) :
    stage_mats l = Ok tt -> forall m, In m l -> material_check m = Ok tt.
  Proof.
    induction l as [|m0 l IH]; intros H m Hin; [destruct Hin|].
    simpl in H. apply bind_ok in H; destruct H as [[] [Hm H]].
    destruct Hin as [<-|Hin]; [exact Hm|auto].
  Qed.
End Pipeline.

(* ---------------------------------------------------------------------- *)
(* 2. Surfaces: which arities are accepted                                 *)
(* ---------------------------------------------------------------------- *)

(* arities of the macrobodies (MCNP manual, table of macrobodies) *)
Definition macro_arities (mn : string) : list nat :=
  if mn =? "box" then [12] else if mn =? "rpp" then [6] else if mn =? "sph" then [4]
  else if mn =? "rcc" then [7] else if (mn =? "rhp") || (mn =? "hex") then [9; 15]
  else if mn =? "rec" then [10; 12] else if mn =? "trc" then [8]
  else if mn =? "ell" then [7] else if mn =? "wed" then [12]
  else if mn =? "arb" then [30] else [].

Lemma mem_In s l : mem s l = true <-> In s l.
Proof.
  unfold mem; rewrite existsb_exists; split.
  - intros [x [Hx He]]. apply String.eqb_eq in He; subst; exact Hx.
  - intros H; exists s; split; [exact H|apply String.eqb_refl].
Qed.

Lemma macro_check_exact mn n :
  In mn macros ->
  (is_ok (macro_check mn n) = true <-> In n (macro_arities mn)) /\
  (is_ok (macro_check mn n) = false -> macro_check mn n = Err EMacroBody).
Proof.
  intros Hin. unfold macros in Hin. simpl in Hin.
  decompose [or] Hin; clear Hin; try contradiction; subst mn;
  unfold macro_check, macro_arities; simpl;
  (split; [split; intros H|intros H]);
  repeat match goal with
         | H : context [(n =? ?k)%nat] |- _ => destruct (Nat.eqb_spec n k); subst; simpl in *
         | |- context [(n =? ?k)%nat] => destruct (Nat.eqb_spec n k); subst; simpl in *
         end; try discriminate; try reflexivity; try tauto; try lia; try (exfalso; intuition lia).
Qed.

(* the arities each elementary mnemonic accepts in the model (= in the code) *)
Definition elem_accepts (mn : string) (n : nat) : bool :=
  if mn =? "p" then (n =? 4)%nat || (n =? 9)%nat
  else if mem mn ["px";"py";"pz";"so";"cx";"cy";"cz";"gq"] then true
  else if mn =? "s" then (n =? 4)%nat
  else if mem mn ["sx";"sy";"sz";"kx";"ky";"kz"] then (2 <=? n)%nat
  else if mem mn ["c/x";"c/y";"c/z"] then (3 <=? n)%nat
  else if mem mn ["k/x";"k/y";"k/z"] then (4 <=? n)%nat
  else if mn =? "sq" then (10 <=? n)%nat
  else if mem mn ["tx";"ty";"tz"] then (n =? 5)%nat || (n =? 6)%nat
  else if mem mn ["x";"y";"z"] then (n =? 2)%nat || (n =? 4)%nat
  else if mn =? "c" then (n =? 7)%nat
  else if mn =? "k" then (7 <=? n)%nat && (n <=? 9)%nat
  else false.

Lemma elem_check_exact mn n b1 b2 b3 b4 :
  In mn elementary -> is_ok (elem_check mn n b1 b2 b3 b4) = elem_accepts mn n.
Proof.
  intros Hin. unfold elementary in Hin. simpl in Hin.
  decompose [or] Hin; clear Hin; try contradiction; subst mn;
  unfold elem_check, elem_accepts; simpl;
  repeat match goal with
         | |- context [if ?c then _ else _] => destruct c eqn:?; simpl
         end; try reflexivity; try discriminate.
Qed.

Section Surfaces.
  Context {T : Type} (S : Scalar T).

  Lemma surface_check_unfold mn (p : list T) :
    surface_check S mn p =
    surface_check_n mn (List.length p) (nonzero_at S 4 p) (nonzero_at S 2 p) (nonzero_at S 7 p)
                    (negb (same_at S 0 2 p) && negb (same_at S 1 3 p)).
  Proof. reflexivity. Qed.

  (* unknown mnemonic: string_to_enum *)
  Lemma unknown_mnemonic_rejected mn (p : list T) :
    ~ In mn macros -> ~ In mn elementary -> is_ok (surface_check S mn p) = false.
  Proof.
    intros Hm He. rewrite surface_check_unfold. unfold surface_check_n.
    destruct (List.length p =? 0)%nat; [reflexivity|].
    destruct (mem mn macros) eqn:E1; [apply mem_In in E1; contradiction|].
    destruct (mem mn elementary) eqn:E2; [apply mem_In in E2; contradiction|reflexivity].
  Qed.

  Lemma unknown_mnemonic_error mn (p : list T) :
    ~ In mn macros -> ~ In mn elementary -> p <> [] -> surface_check S mn p = Err EValue.
  Proof.
    intros Hm He Hp. rewrite surface_check_unfold. unfold surface_check_n.
    destruct p as [|x p]; [contradiction|]. simpl List.length. simpl Nat.eqb.
    destruct (mem mn macros) eqn:E1; [apply mem_In in E1; contradiction|].
    destruct (mem mn elementary) eqn:E2; [apply mem_In in E2; contradiction|reflexivity].
  Qed.

  Lemma macro_arity_rejected mn (p : list T) :
    In mn macros -> ~ In (List.length p) (macro_arities mn) ->
    is_ok (surface_check S mn p) = false.
  Proof.
    intros Hm Hn. rewrite surface_check_unfold. unfold surface_check_n.
    destruct (List.length p =? 0)%nat; [reflexivity|].
    apply mem_In in Hm as Hm'. rewrite Hm'.
    destruct (macro_check_exact mn (List.length p) Hm) as [[H1 _] _].
    destruct (is_ok (macro_check mn (List.length p))) eqn:E; [exfalso; auto|reflexivity].
  Qed.

  Lemma macro_arity_error mn (p : list T) :
    In mn macros -> p <> [] -> ~ In (List.length p) (macro_arities mn) ->
    surface_check S mn p = Err EMacroBody.
  Proof.
    intros Hm Hp Hn. rewrite surface_check_unfold. unfold surface_check_n.
    destruct p as [|x p]; [contradiction|]. change (List.length (x :: p) =? 0)%nat with false. cbv iota.
    apply mem_In in Hm as Hm'. rewrite Hm'.
    destruct (macro_check_exact mn (List.length (x :: p)) Hm) as [[H1 _] H2].
    apply H2. destruct (is_ok (macro_check mn (List.length (x :: p)))) eqn:E; [exfalso; auto|reflexivity].
  Qed.

  Lemma macro_arity_accepted mn (p : list T) :
    In mn macros -> In (List.length p) (macro_arities mn) ->
    is_ok (surface_check S mn p) = true.
  Proof.
    intros Hm Hn. rewrite surface_check_unfold. unfold surface_check_n.
    destruct (List.length p =? 0)%nat eqn:E0.
    - apply Nat.eqb_eq in E0. rewrite E0 in Hn. exfalso.
      unfold macros in Hm; simpl in Hm.
      decompose [or] Hm; clear Hm; try contradiction; subst mn; cbv in Hn; intuition lia.
    - apply mem_In in Hm as Hm'. rewrite Hm'.
      apply (macro_check_exact mn (List.length p) Hm). exact Hn.
  Qed.

  Lemma elementary_not_macro mn : In mn elementary -> mem mn macros = false.
  Proof.
    intros H. unfold elementary in H; simpl in H.
    decompose [or] H; clear H; try contradiction; subst mn; reflexivity.
  Qed.

  Lemma surface_arity_exact mn (p : list T) :
    In mn elementary -> p <> [] ->
    is_ok (surface_check S mn p) = elem_accepts mn (List.length p).
  Proof.
    intros He Hp. rewrite surface_check_unfold. unfold surface_check_n.
    destruct p as [|x p]; [contradiction|]. change (List.length (x :: p) =? 0)%nat with false. cbv iota.
    rewrite (elementary_not_macro mn He).
    apply mem_In in He as He'. rewrite He'.
    apply elem_check_exact. exact He.
  Qed.
End Surfaces.

(* ---------------------------------------------------------------------- *)
(* 3. Lattice ranges against the dimensionality of the lattice cell        *)
(* ---------------------------------------------------------------------- *)

Lemma lattice_dims_exact nb b :
  lattice_dims_check nb b = Ok tt <->
  ((nb <= List.length b)%nat /\ forall r, In r (skipn nb b) -> fst r = snd r).
Proof.
  unfold lattice_dims_check.
  destruct (Nat.ltb_spec (List.length b) nb) as [E|E].
  - split; [discriminate|intros [H _]; lia].
  - destruct (existsb nontrivial (skipn nb b)) eqn:Ex.
    + split; [discriminate|]. intros [_ H]. exfalso.
      apply existsb_exists in Ex as [r [Hr Hn]]. specialize (H r Hr).
      unfold nontrivial in Hn. rewrite H in Hn. rewrite Z.eqb_refl in Hn. discriminate.
    + split; [|reflexivity]. intros _. split; [exact E|].
      intros r Hr. destruct (Z.eq_dec (fst r) (snd r)) as [Heq|Hne]; [exact Heq|exfalso].
      assert (Hex : existsb nontrivial (skipn nb b) = true).
      { apply existsb_exists. exists r. split; [exact Hr|]. unfold nontrivial.
        destruct (Z.eqb_spec (fst r) (snd r)); [contradiction|reflexivity]. }
      rewrite Hex in Ex. discriminate.
Qed.

Lemma lattice_dims_rejected nb b :
  ((List.length b < nb)%nat \/ exists r, In r (skipn nb b) /\ fst r <> snd r) ->
  lattice_dims_check nb b = Err ELattice.
Proof.
  intros H. destruct (lattice_dims_check nb b) as [[]|e] eqn:E.
  - apply lattice_dims_exact in E as [H1 H2]. destruct H as [H|[r [Hr Hne]]]; [lia|].
    exfalso. apply Hne. auto.
  - unfold lattice_dims_check in E.
    destruct (List.length b <? nb)%nat; [congruence|].
    destruct (existsb nontrivial (skipn nb b)); congruence.
Qed.

Lemma square_nb_exact n k :
  square_nb n = Ok k <-> (n = 2 /\ k = 1 \/ n = 4 /\ k = 2 \/ n = 6 /\ k = 3)%nat.
Proof.
  unfold square_nb.
  destruct (Nat.eqb_spec n 2); [subst; simpl; split; [intros [= <-]; auto|intros [[_ ->]|[[? _]|[? _]]]; try lia; reflexivity]|].
  destruct (Nat.eqb_spec n 4); [subst; simpl; split; [intros [= <-]; auto|intros [[? _]|[[_ ->]|[? _]]]; try lia; reflexivity]|].
  destruct (Nat.eqb_spec n 6); [subst; simpl; split; [intros [= <-]; auto|intros [[? _]|[[? _]|[_ ->]]]; try lia; reflexivity]|].
  simpl. split; [discriminate|lia].
Qed.

(* ---------------------------------------------------------------------- *)
(* 4. Facets                                                               *)
(* ---------------------------------------------------------------------- *)

Lemma facet_check_exact nt4 k : facet_check nt4 k = Ok tt <-> (k <= nt4)%nat.
Proof. unfold facet_check. destruct (Nat.ltb_spec nt4 k); split; intros; try discriminate; try reflexivity; lia. Qed.

Lemma facet_range_rejected nt4 k : (nt4 < k)%nat -> facet_check nt4 k = Err ECellConversion.
Proof. intros H. unfold facet_check. destruct (Nat.ltb_spec nt4 k); [reflexivity|lia]. Qed.

Section Facets.
  Context {T : Type} (S : Scalar T).

  Lemma sub_check_exact nm k : sub_check nm (Some k) = Ok tt <-> (1 <= k <= nm)%nat.
  Proof.
    unfold sub_check. destruct (Nat.eqb_spec k 0); destruct (Nat.ltb_spec nm k); simpl;
      split; intros; try discriminate; try reflexivity; lia.
  Qed.

  Lemma check_lits_all_ok (sm : smap) (lits : list lit) :
    check_lits sm lits = Ok tt ->
    forall l k, In l lits -> l_facet l = Some k ->
    exists mn nm nt4, lookup (l_surf l) sm = Some (mn, (nm, nt4)) /\ (k <= nt4)%nat.
  Proof.
    induction lits as [|l0 lits IH]; intros H l k Hin Hk; [destruct Hin|].
    simpl in H. destruct (lookup (l_surf l0) sm) as [[mn [nm nt4]]|] eqn:El; [|discriminate].
    apply bind_ok in H; destruct H as [[] [Hf H]].
    destruct Hin as [<-|Hin]; [|eapply IH; eauto].
    rewrite Hk in Hf. apply facet_check_exact in Hf. eauto.
  Qed.

  Lemma transform_lits_all_ok (sm : smap) k (lits : list lit) :
    transform_lits sm k lits = Ok tt ->
    forall l f, In l lits -> l_facet l = Some f ->
    exists mn nm nt4, lookup (l_surf l) sm = Some (mn, (nm, nt4)) /\ (1 <= f <= nm)%nat.
  Proof.
    induction lits as [|l0 lits IH]; intros H l f Hin Hf; [destruct Hin|].
    simpl in H. destruct (lookup (l_surf l0) sm) as [[mn [nm nt4]]|] eqn:El; [|discriminate].
    apply bind_ok in H; destruct H as [[] [Hs H]].
    apply bind_ok in H; destruct H as [[] [_ H]].
    destruct Hin as [<-|Hin]; [|eapply IH; eauto].
    rewrite Hf in Hs. apply sub_check_exact in Hs. eauto.
  Qed.

  (* stage_convert: every converted cell had its literals checked *)
  Lemma stage_convert_all_ok (sm : smap) all (cells : list (cellc * cellsum (T:=T))) :
    stage_convert S sm all cells = Ok tt ->
    forall c cs, In (c, cs) cells ->
      cs_u cs = 0%Z -> seqb S (cs_imp cs) (s0 S) = false -> cs_lat cs = None ->
      check_filled (List.length all + 1) sm all (c, cs) = Ok tt.
  Proof.
    induction cells as [|[c0 cs0] cells IH]; intros H c cs Hin Hu Hi Hl; [destruct Hin|].
    simpl in H. apply bind_ok in H; destruct H as [[] [H0 H]].
    destruct Hin as [E|Hin]; [|eapply IH; eauto].
    injection E as -> ->. rewrite Hu, Hi, Hl in H0. simpl in H0. exact H0.
  Qed.

  Lemma check_filled_plain (sm : smap) all c (cs : cellsum (T:=T)) fuel :
    cs_fill cs = None -> cs_trcl cs = None ->
    check_filled (Datatypes.S fuel) sm all (c, cs) = Ok tt -> check_lits sm (c_lits c) = Ok tt.
  Proof.
    intros Hf Ht H. simpl in H. rewrite Hf in H.
    replace (List.length all + 1)%nat with (Datatypes.S (List.length all)) in H by lia.
    simpl in H. rewrite Ht in H.
    apply bind_ok in H; destruct H as [[] [H _]]. exact H.
  Qed.

  Lemma facet_in_converted_cell_rejected (sm : smap) all cells c (cs : cellsum (T:=T)) l k mn nm nt4 :
    In (c, cs) cells ->
    cs_u cs = 0%Z -> seqb S (cs_imp cs) (s0 S) = false -> cs_lat cs = None ->
    cs_fill cs = None -> cs_trcl cs = None ->
    In l (c_lits c) -> l_facet l = Some k ->
    lookup (l_surf l) sm = Some (mn, (nm, nt4)) -> (nt4 < k)%nat ->
    is_ok (stage_convert S sm all cells) = false.
  Proof.
    intros Hin Hu Hi Hl Hf Ht Hlin Hk Hlook Hlt.
    destruct (stage_convert S sm all cells) as [[]|e] eqn:E; [|reflexivity]. exfalso.
    pose proof (stage_convert_all_ok sm all cells E c cs Hin Hu Hi Hl) as H1.
    replace (List.length all + 1)%nat with (Datatypes.S (List.length all)) in H1 by lia.
    apply (check_filled_plain sm all c cs _ Hf Ht) in H1.
    destruct (check_lits_all_ok sm _ H1 l k Hlin Hk) as [mn' [nm' [nt4' [Hl' Hle]]]].
    rewrite Hlook in Hl'. injection Hl' as <- <- <-. lia.
  Qed.

  (* cells moved by TRCL: stage_trcl looks every facet up in the MCNP surface
     dictionary, which rejects 0 as well *)
  Lemma stage_trcl_all_ok (sm : smap) (cells : list (cellc * cellsum (T:=T))) :
    stage_trcl sm cells = Ok tt ->
    forall c cs k, In (c, cs) cells -> cs_trcl cs = Some k -> transform_lits sm k (c_lits c) = Ok tt.
  Proof.
    induction cells as [|[c0 cs0] cells IH]; intros H c cs k Hin Hk; [destruct Hin|].
    simpl in H. apply bind_ok in H; destruct H as [[] [H0 H]].
    destruct Hin as [E|Hin]; [|eapply IH; eauto].
    injection E as -> ->. rewrite Hk in H0. exact H0.
  Qed.

  Lemma facet_under_trcl_rejected (sm : smap) cells c (cs : cellsum (T:=T)) k l f mn nm nt4 :
    In (c, cs) cells -> cs_trcl cs = Some k ->
    In l (c_lits c) -> l_facet l = Some f ->
    lookup (l_surf l) sm = Some (mn, (nm, nt4)) -> (f = 0 \/ nm < f)%nat ->
    is_ok (stage_trcl sm cells) = false.
  Proof.
    intros Hin Hk Hlin Hf Hlook Hbad.
    destruct (stage_trcl sm cells) as [[]|e] eqn:E; [|reflexivity]. exfalso.
    pose proof (stage_trcl_all_ok sm cells E c cs k Hin Hk) as H1.
    destruct (transform_lits_all_ok sm k _ H1 l f Hlin Hf) as [mn' [nm' [nt4' [Hl' Hle]]]].
    rewrite Hlook in Hl'. injection Hl' as <- <- <-. lia.
  Qed.
End Facets.

(* ---------------------------------------------------------------------- *)
(* 5. Material cards: one sign per card                                    *)
(* ---------------------------------------------------------------------- *)

Lemma sign_check_some l b :
  sign_check l (Some b) = Ok tt -> forall p, In p l -> negb (frac_negative (snd p)) = b.
Proof.
  induction l as [|[iso frac] l IH]; intros H p Hin; [destruct Hin|].
  simpl in H. destruct (Bool.eqb b (negb (frac_negative frac))) eqn:E; [|discriminate].
  apply eqb_prop in E. destruct Hin as [<-|Hin]; [symmetry; exact E|auto].
Qed.

Lemma sign_check_none l :
  sign_check l None = Ok tt ->
  forall p q, In p l -> In q l -> frac_negative (snd p) = frac_negative (snd q).
Proof.
  destruct l as [|[iso frac] l]; intros H p q Hp Hq; [destruct Hp|].
  simpl in H. pose proof (sign_check_some l _ H) as Hall.
  assert (Hone : forall x, In x ((iso, frac) :: l) -> negb (frac_negative (snd x)) = negb (frac_negative frac)).
  { intros x [<-|Hx]; [reflexivity|auto]. }
  apply Hone in Hp. apply Hone in Hq.
  destruct (frac_negative (snd p)), (frac_negative (snd q)), (frac_negative frac); simpl in *; congruence.
Qed.

Lemma sign_check_err l a e : sign_check l a = Err e -> e = EMixedSigns.
Proof.
  revert a; induction l as [|[iso frac] l IH]; intros a H; [discriminate|].
  simpl in H. destruct a as [b|]; [|eauto].
  destruct (Bool.eqb b (negb (frac_negative frac))); [eauto|congruence].
Qed.

Lemma mixed_fractions_card_rejected toks l p q :
  mat_pairs toks = Ok l -> In p l -> In q l ->
  frac_negative (snd p) <> frac_negative (snd q) ->
  material_check toks = Err EMixedSigns.
Proof.
  intros Hl Hp Hq Hne. unfold material_check. rewrite Hl. simpl.
  destruct (sign_check l None) as [[]|e] eqn:E.
  - exfalso. apply Hne. eapply sign_check_none; eauto.
  - apply sign_check_err in E. subst; reflexivity.
Qed.

(* ---------------------------------------------------------------------- *)
(* 6. --lattice arguments: exactly the well-formed ones are accepted       *)
(* ---------------------------------------------------------------------- *)

Definition is_some {A} (o : option A) : bool := match o with Some _ => true | None => false end.

Definition range_wf (r : string) : bool :=
  match split_on ":" r with
  | [a; b] => is_some (py_int a) && is_some (py_int b)
  | _ => false
  end.

Definition latopt_wf (o : string) : bool :=
  match split_on "," o with
  | head :: rs =>
      (1 <=? List.length rs)%nat && (List.length rs <=? 3)%nat
      && is_some (py_int head) && forallb range_wf rs
  | [] => false
  end.

Lemma parse_ranges_exact l : is_ok (parse_ranges l) = forallb range_wf l.
Proof.
  induction l as [|r l IH]; [reflexivity|].
  cbn [parse_ranges forallb]. unfold range_wf at 1.
  destruct (split_on ":" r) as [|a [|b [|c t]]]; try reflexivity.
  destruct (py_int a); [|reflexivity]. destruct (py_int b); [|reflexivity].
  cbn [is_some andb]. rewrite <- IH. destruct (parse_ranges l); reflexivity.
Qed.

Lemma parse_ranges_length l b : parse_ranges l = Ok b -> List.length b = List.length l.
Proof.
  revert b; induction l as [|r l IH]; intros b H; [injection H as <-; reflexivity|].
  simpl in H. destruct (split_on ":" r) as [|x [|y [|z t]]]; try discriminate.
  destruct (py_int x); [|discriminate]. destruct (py_int y); [|discriminate].
  apply bind_ok in H; destruct H as [t' [Ht H]]. injection H as <-. simpl. f_equal. auto.
Qed.

Lemma parse_lattice_acc_exact opts acc :
  is_ok (parse_lattice_acc opts acc) = forallb latopt_wf opts.
Proof.
  revert acc; induction opts as [|o opts IH]; intros acc; [reflexivity|].
  cbn [parse_lattice_acc forallb]. unfold latopt_wf at 1.
  destruct (split_on "," o) as [|head rs]; [reflexivity|].
  destruct (Nat.eqb_spec (List.length rs) 0) as [E0|E0].
  { rewrite E0. reflexivity. }
  destruct (Nat.ltb_spec 3 (List.length rs)) as [E3|E3].
  { replace (List.length rs <=? 3)%nat with false by (symmetry; apply Nat.leb_gt; lia).
    rewrite andb_false_r. reflexivity. }
  replace (1 <=? List.length rs)%nat with true by (symmetry; apply Nat.leb_le; lia).
  replace (List.length rs <=? 3)%nat with true by (symmetry; apply Nat.leb_le; lia).
  destruct (py_int head); [|reflexivity]. cbn [is_some andb].
  rewrite <- (parse_ranges_exact rs).
  destruct (parse_ranges rs) as [b|e]; cbn [bind is_ok andb]; [apply IH|reflexivity].
Qed.

Lemma parse_lattice_exact opts : is_ok (parse_lattice opts) = forallb latopt_wf opts.
Proof. apply parse_lattice_acc_exact. Qed.

Lemma latopt_malformed_rejected opts o :
  In o opts -> latopt_wf o = false -> is_ok (parse_lattice opts) = false.
Proof.
  intros Hin Hwf. rewrite parse_lattice_exact.
  destruct (forallb latopt_wf opts) eqn:E; [|reflexivity].
  rewrite forallb_forall in E. rewrite (E o Hin) in Hwf. discriminate.
Qed.

(* ---------------------------------------------------------------------- *)
(* 7. Cell options: transformations with m != 1, lattices, FILL arrays      *)
(* ---------------------------------------------------------------------- *)
Section Cells.
  Context {T : Type} (S : Scalar T).

  Lemma span_app {A} (p : A -> bool) (ps rest : list A) :
    forallb p ps = true -> match rest with [] => True | x :: _ => p x = false end ->
    span p (ps ++ rest) = (ps, rest).
  Proof.
    intros Hps Hrest. induction ps as [|x ps IH]; simpl in *.
    - destruct rest as [|y rest]; [reflexivity|]. simpl. rewrite Hrest. reflexivity.
    - apply andb_true_iff in Hps as [Hx Hps]. rewrite Hx, (IH Hps). reflexivity.
  Qed.

  Definition stops (rest : list (tok (T:=T))) : Prop :=
    match rest with [] => True | x :: _ => numeric_lead x = false end.

  (* the transformation part of FILL / the parameters of TRCL, starred or not:
     thirteen entries whose last one is not 1 *)
  Lemma inline_m_rejected isfill star trs (ps rest : list (tok (T:=T))) :
    forallb numeric_lead ps = true -> forallb (fun p => num_lit (tsp p)) ps = true ->
    stops rest -> List.length ps = 13%nat ->
    seqb S (last (map tval ps) (s1 S)) (s1 S) = false ->
    fill_params S isfill star trs (ps ++ rest) = Err ETransformation.
  Proof.
    intros Hn Hf Hs Hl Hm. unfold fill_params.
    rewrite (span_app _ ps rest Hn Hs). rewrite Hf. simpl negb. cbv iota.
    rewrite Hl.
    destruct ps as [|p1 [|p2 ps']]; [discriminate Hl|discriminate Hl|].
    change (13 =? 3)%nat with false. change (13 =? 0)%nat with false. cbv iota.
    assert (Hnorm : norm_tr_len S (map tval (p1 :: p2 :: ps')) = Err ETransformation).
    { apply norm_tr_len_m_rejected; [rewrite map_length; exact Hl|exact Hm]. }
    destruct star; rewrite Hnorm; reflexivity.
  Qed.

  Lemma trcl_m_rejected star trs (ps rest : list (tok (T:=T))) :
    forallb numeric_lead ps = true -> forallb (fun p => num_lit (tsp p)) ps = true ->
    stops rest -> List.length ps = 13%nat ->
    seqb S (last (map tval ps) (s1 S)) (s1 S) = false ->
    parse_trcl S star trs (ps ++ rest) = Err ETransformation.
  Proof. apply inline_m_rejected. Qed.

  Lemma fill_m_rejected star trs (u : tok (T:=T)) (ps rest : list (tok (T:=T))) :
    has_colon u = false -> float_lit (tsp u) = true ->
    forallb numeric_lead ps = true -> forallb (fun p => num_lit (tsp p)) ps = true ->
    stops rest -> List.length ps = 13%nat ->
    seqb S (last (map tval ps) (s1 S)) (s1 S) = false ->
    parse_fill S star trs (u :: ps ++ rest) = Err ETransformation.
  Proof.
    intros Hc Hu Hn Hf Hs Hl Hm. unfold parse_fill. rewrite Hc, Hu.
    rewrite (inline_m_rejected true star trs ps rest Hn Hf Hs Hl Hm). reflexivity.
  Qed.

  (* the keyword loop: a TRCL / FILL keyword at the head of the options *)
  Lemma kw_trcl_m_rejected f trs (e : tok (T:=T)) ps rest k :
    prefix "imp" (tsp e) = false -> contains_sub "fill" (tsp e) = false ->
    contains_sub "lat" (tsp e) = false -> contains_sub "trcl" (tsp e) = true ->
    forallb numeric_lead ps = true -> forallb (fun p => num_lit (tsp p)) ps = true ->
    stops rest -> List.length ps = 13%nat ->
    seqb S (last (map tval ps) (s1 S)) (s1 S) = false ->
    parse_kw S (Datatypes.S f) trs (e :: ps ++ rest) k = Err ETransformation.
  Proof.
    intros H1 H2 H3 H4 Hn Hf Hs Hl Hm. cbn [parse_kw]. cbv zeta. rewrite H1, H2, H3, H4.
    rewrite (trcl_m_rejected _ trs ps rest Hn Hf Hs Hl Hm). reflexivity.
  Qed.

  Lemma kw_fill_m_rejected f trs (e u : tok (T:=T)) ps rest k :
    prefix "imp" (tsp e) = false -> contains_sub "fill" (tsp e) = true ->
    has_colon u = false -> float_lit (tsp u) = true ->
    forallb numeric_lead ps = true -> forallb (fun p => num_lit (tsp p)) ps = true ->
    stops rest -> List.length ps = 13%nat ->
    seqb S (last (map tval ps) (s1 S)) (s1 S) = false ->
    parse_kw S (Datatypes.S f) trs (e :: u :: ps ++ rest) k = Err ETransformation.
  Proof.
    intros H1 H2 Hc Hu Hn Hf Hs Hl Hm. cbn [parse_kw]. cbv zeta. rewrite H1, H2.
    rewrite (fill_m_rejected _ trs u ps rest Hc Hu Hn Hf Hs Hl Hm). reflexivity.
  Qed.

  (* LAT with FILL=n and no --lattice option *)
  Lemma lattice_no_opt_rejected (k : kws (T:=T)) fr z :
    k_fill k = Some fr -> f_bounds fr = None -> k_lat k = Some z ->
    to_fillid k None = Err EMissingLatticeOpt.
  Proof. intros H1 H2 H3. unfold to_fillid. rewrite H1, H3, H2. reflexivity. Qed.

  Lemma parse_cell_no_opt_rejected trs imps rank toks (k : kws (T:=T)) fr z :
    parse_kw S (Datatypes.S (List.length toks)) trs toks kws0 = Ok k ->
    k_fill k = Some fr -> f_bounds fr = None -> k_lat k = Some z ->
    is_ok (parse_cell S trs imps rank None toks) = false.
  Proof.
    intros Hk H1 H2 H3. unfold parse_cell. rewrite Hk. simpl.
    match goal with |- context [bind ?r _] => destruct r as [imp|e]; [|reflexivity] end.
    simpl. rewrite (lattice_no_opt_rejected k fr z H1 H2 H3). reflexivity.
  Qed.

  (* FILL arrays *)
  Lemma expand_ok_length (l : list (tok (T:=T))) e acc c vals c' :
    expand S l (Some e) acc c = XOk vals c' -> Z.of_nat (List.length vals) = e.
  Proof.
    assert (Hfin : forall acc c, xfinish (Some e) acc c = XOk vals c' ->
                                 Z.of_nat (List.length vals) = e).
    { intros a n. unfold xfinish.
      destruct (Z.eqb_spec (Z.of_nat (List.length a)) e); [intros [= <- _]; assumption|discriminate]. }
    revert acc c; induction l as [|t l IH]; intros acc c H; cbn [expand] in H; cbv zeta in H; [eauto|].
    destruct (reached (Some e) acc); [eauto|].
    destruct (last_char (strip_ws (tsp t))) as [ch|]; [|discriminate].
    destruct (Ascii.eqb ch "r").
    { destruct (reps (strip_ws (tsp t))); [|discriminate].
      destruct (rev acc); [discriminate|eauto]. }
    destruct (Ascii.eqb ch "j").
    { destruct (reps (strip_ws (tsp t))); [|discriminate]. eauto. }
    destruct (Ascii.eqb ch "i" || Ascii.eqb ch "m" || Ascii.eqb ch "g"); [discriminate|].
    destruct (num_lit (strip_ws (tsp t))); [eauto|discriminate].
  Qed.

  Lemma fill_array_length_exact star trs first r1 (fr : fillres) rest b :
    has_colon first = true -> parse_fill S star trs (first :: r1) = Ok (fr, rest) ->
    f_bounds fr = Some b -> Z.of_nat (List.length (f_univs fr)) = bounds_size b.
  Proof.
    intros Hc H Hb. unfold parse_fill in H. rewrite Hc in H.
    destruct (span has_colon r1) as [rs r2] eqn:Es.
    apply bind_ok in H; destruct H as [b' [Hb' H]].
    destruct (expand S r2 (Some (bounds_size b')) [] 0) as [vals consumed|e] eqn:Ee.
    - apply bind_ok in H; destruct H as [[k rest'] [Hk H]]. injection H as <- <-.
      simpl in Hb. injection Hb as <-. simpl. rewrite map_length.
      eapply expand_ok_length; eauto.
    - destruct e; discriminate.
  Qed.

  (* a plain number of a data card *)
  Definition plain (t : tok (T:=T)) : Prop :=
    exists ch, last_char (strip_ws (tsp t)) = Some ch /\
               Ascii.eqb ch "r" = false /\ Ascii.eqb ch "j" = false /\
               (Ascii.eqb ch "i" || Ascii.eqb ch "m" || Ascii.eqb ch "g") = false /\
               num_lit (strip_ws (tsp t)) = true.

  Lemma expand_short_rejected (nums : list (tok (T:=T))) e acc c :
    Forall plain nums -> (Z.of_nat (List.length acc + List.length nums) < e)%Z ->
    expand S nums (Some e) acc c = XErr EValue.
  Proof.
    revert acc c; induction nums as [|t nums IH]; intros acc c Hp Hlt; cbn [expand]; cbv zeta.
    - unfold xfinish. destruct (Z.eqb_spec (Z.of_nat (List.length acc)) e); [simpl in Hlt; lia|reflexivity].
    - inversion Hp as [|t' l' [ch [H1 [H2 [H3 [H4 H5]]]]] Hrest]; subst.
      assert (Hr : reached (Some e) acc = false).
      { unfold reached. simpl in Hlt. destruct (Z.ltb_spec (Z.of_nat (List.length acc)) e); [reflexivity|lia]. }
      rewrite Hr, H1, H2, H3, H4, H5.
      apply IH; [exact Hrest|]. rewrite app_length. simpl in *. lia.
  Qed.

  Lemma fill_array_short_rejected star trs first rs nums b :
    has_colon first = true -> forallb has_colon rs = true ->
    Forall (fun t => has_colon t = false) nums -> Forall plain nums ->
    parse_ranges (map tsp (first :: rs)) = Ok b ->
    (Z.of_nat (List.length nums) < bounds_size b)%Z ->
    parse_fill S star trs (first :: rs ++ nums) = Err EParseCell.
  Proof.
    intros Hc Hrs Hnc Hp Hb Hlt. unfold parse_fill. rewrite Hc.
    assert (Hspan : span has_colon (rs ++ nums) = (rs, nums)).
    { apply span_app; [exact Hrs|]. destruct nums as [|x nums]; [exact I|]. inversion Hnc; assumption. }
    rewrite Hspan, Hb. simpl bind.
    rewrite (expand_short_rejected nums (bounds_size b) [] 0 Hp); [reflexivity|simpl; lia].
  Qed.

  (* IMP cards of unequal lengths *)
  Lemma imp_unequal_rejected (cards : list (list (tok (T:=T)))) rows r1 r2 :
    expand_cards S cards = Ok rows -> In r1 rows -> In r2 rows ->
    List.length r1 <> List.length r2 ->
    imp_cards_check S cards = Err EParseCell.
  Proof.
    intros Hrows H1 H2 Hne. unfold imp_cards_check.
    destruct cards as [|c0 cards]; [simpl in Hrows; injection Hrows as <-; destruct H1|].
    rewrite Hrows. simpl bind.
    destruct rows as [|first others]; [destruct H1|].
    destruct (forallb (fun r => (List.length r =? List.length first)%nat) others) eqn:E; [|reflexivity].
    exfalso. rewrite forallb_forall in E.
    assert (Hall : forall r, In r (first :: others) -> List.length r = List.length first).
    { intros r [<-|Hr]; [reflexivity|]. apply Nat.eqb_eq. auto. }
    rewrite (Hall _ H1), (Hall _ H2) in Hne. auto.
  Qed.
End Cells.

(* ---------------------------------------------------------------------- *)
(* 8. Whole runs                                                           *)
(* ---------------------------------------------------------------------- *)
Section Runs.
  Context {T : Type} (S : Scalar T).

  Ltac stages H :=
    destruct (validate_ok_stages S _ H) as
      [lat [trs [sm [imps [cells [Hlat [Htrs [Hsurf [Himp [Hcells [Htrcl [Hlatt [Hfill [Hconv Hmats]]]]]]]]]]]]]].

  Lemma not_ok_unit (r : res unit) : r <> Ok tt -> is_ok r = false.
  Proof. destruct r as [[]|e]; [intros H; exfalso; auto|reflexivity]. Qed.

  Theorem run_tr_card_m_rejected (d : deckm (T:=T)) t :
    In t (d_trs d) -> List.length (tr_entries t) = 13%nat ->
    seqb S (last (tr_entries t) (s1 S)) (s1 S) = false ->
    is_ok (validate S d) = false.
  Proof.
    intros Hin Hl Hm. apply not_ok_unit. intros H. stages H.
    pose proof (stage_trs_all_ok S _ _ _ Htrs t Hin) as Hok.
    rewrite (norm_tr_len_m_rejected S _ Hl Hm) in Hok. discriminate.
  Qed.

  Theorem run_unknown_mnemonic_rejected (d : deckm (T:=T)) s :
    In s (d_surfs d) -> ~ In (sf_mn s) macros -> ~ In (sf_mn s) elementary ->
    is_ok (validate S d) = false.
  Proof.
    intros Hin Hm He. apply not_ok_unit. intros H. stages H.
    pose proof (stage_surfs_all_ok S _ _ _ _ Hsurf s Hin) as Hok.
    rewrite (unknown_mnemonic_rejected S _ _ Hm He) in Hok. discriminate.
  Qed.

  Theorem run_macro_arity_rejected (d : deckm (T:=T)) s :
    In s (d_surfs d) -> In (sf_mn s) macros ->
    ~ In (List.length (sf_params s)) (macro_arities (sf_mn s)) ->
    is_ok (validate S d) = false.
  Proof.
    intros Hin Hm Hn. apply not_ok_unit. intros H. stages H.
    pose proof (stage_surfs_all_ok S _ _ _ _ Hsurf s Hin) as Hok.
    rewrite (macro_arity_rejected S _ _ Hm Hn) in Hok. discriminate.
  Qed.

  Theorem run_surface_arity_rejected (d : deckm (T:=T)) s :
    In s (d_surfs d) -> In (sf_mn s) elementary ->
    elem_accepts (sf_mn s) (List.length (sf_params s)) = false ->
    is_ok (validate S d) = false.
  Proof.
    intros Hin He Hn. apply not_ok_unit. intros H. stages H.
    pose proof (stage_surfs_all_ok S _ _ _ _ Hsurf s Hin) as Hok.
    destruct (sf_params s) as [|x p] eqn:Ep.
    - rewrite surface_check_unfold in Hok. discriminate.
    - rewrite <- Ep in *. rewrite surface_arity_exact in Hok; [congruence|exact He|congruence].
  Qed.

  Theorem run_mixed_fractions_rejected (d : deckm (T:=T)) m l p q :
    d_skipcomp d = false -> In m (d_mats d) -> mat_pairs m = Ok l ->
    In p l -> In q l -> frac_negative (snd p) <> frac_negative (snd q) ->
    is_ok (validate S d) = false.
  Proof.
    intros Hs Hin Hl Hp Hq Hne. apply not_ok_unit. intros H. stages H.
    pose proof (stage_mats_all_ok _ (Hmats Hs) m Hin) as Hok.
    rewrite (mixed_fractions_card_rejected m l p q Hl Hp Hq Hne) in Hok. discriminate.
  Qed.

  Theorem run_latopt_malformed_rejected (d : deckm (T:=T)) o :
    In o (d_latopts d) -> latopt_wf o = false -> is_ok (validate S d) = false.
  Proof.
    intros Hin Hwf. apply not_ok_unit. intros H. stages H.
    pose proof (latopt_malformed_rejected _ o Hin Hwf) as Hbad.
    rewrite Hlat in Hbad. discriminate.
  Qed.

  Theorem run_imp_unequal_rejected (d : deckm (T:=T)) rows r1 r2 :
    expand_cards S (d_imps d) = Ok rows -> In r1 rows -> In r2 rows ->
    List.length r1 <> List.length r2 -> is_ok (validate S d) = false.
  Proof.
    intros Hrows H1 H2 Hne. apply not_ok_unit. intros H. stages H.
    rewrite (imp_unequal_rejected S _ rows r1 r2 Hrows H1 H2 Hne) in Himp. discriminate.
  Qed.
End Runs.

(* ---------------------------------------------------------------------- *)
(* 9. Whole runs, faults sitting on a cell card                            *)
(* ---------------------------------------------------------------------- *)
Section CellRuns.
  Context {T : Type} (S : Scalar T).

  Lemma stage_cells_all_ok trs imps lat rank (l : list (cellc (T:=T))) cells :
    stage_cells S trs imps lat rank l = Ok cells ->
    forall c, In c l ->
    exists r cs, parse_cell S trs imps r (lookup (c_id c) lat) (c_toks c) = Ok cs /\ In (c, cs) cells.
  Proof.
    revert rank cells; induction l as [|c0 l IH]; intros rank cells H c Hin; [destruct Hin|].
    simpl in H. apply bind_ok in H; destruct H as [cs [Hcs H]].
    apply bind_ok in H; destruct H as [t [Ht H]]. injection H as <-.
    destruct Hin as [<-|Hin].
    - exists rank, cs. split; [exact Hcs|left; reflexivity].
    - destruct (IH _ _ Ht c Hin) as [r [cs' [H1 H2]]]. exists r, cs'. split; [exact H1|right; exact H2].
  Qed.

  Lemma parse_cell_kw_err trs imps rank lat toks e :
    parse_kw S (Datatypes.S (List.length toks)) trs toks kws0 = Err e ->
    is_ok (parse_cell S trs imps rank lat toks) = false.
  Proof. intros H. unfold parse_cell. rewrite H. reflexivity. Qed.

  Lemma cell_fault_rejected (d : deckm (T:=T)) c :
    In c (d_cells d) ->
    (forall trs imps rank lat, parse_lattice (d_latopts d) = Ok lat ->
       is_ok (parse_cell S trs imps rank (lookup (c_id c) lat) (c_toks c)) = false) ->
    is_ok (validate S d) = false.
  Proof.
    intros Hin Hbad.
    destruct (validate S d) as [[]|e] eqn:H; [|reflexivity]. exfalso.
    destruct (validate_ok_stages S _ H) as
      [lat [trs [sm [imps [cells [Hlat [Htrs [Hsurf [Himp [Hcells _]]]]]]]]]].
    destruct (stage_cells_all_ok _ _ _ _ _ _ Hcells c Hin) as [r [cs [Hcs _]]].
    specialize (Hbad trs imps r lat Hlat). rewrite Hcs in Hbad. discriminate.
  Qed.

  Theorem run_inline_trcl_m_rejected (d : deckm (T:=T)) c e ps rest :
    In c (d_cells d) -> c_toks c = e :: ps ++ rest ->
    prefix "imp" (tsp e) = false -> contains_sub "fill" (tsp e) = false ->
    contains_sub "lat" (tsp e) = false -> contains_sub "trcl" (tsp e) = true ->
    forallb numeric_lead ps = true -> forallb (fun p => num_lit (tsp p)) ps = true ->
    stops rest -> List.length ps = 13%nat ->
    seqb S (last (map tval ps) (s1 S)) (s1 S) = false ->
    is_ok (validate S d) = false.
  Proof.
    intros Hin Htoks H1 H2 H3 H4 Hn Hf Hs Hl Hm.
    apply (cell_fault_rejected d c Hin). intros trs imps rank lat _.
    eapply parse_cell_kw_err. rewrite Htoks.
    apply kw_trcl_m_rejected; assumption.
  Qed.

  Theorem run_inline_fill_m_rejected (d : deckm (T:=T)) c e u ps rest :
    In c (d_cells d) -> c_toks c = e :: u :: ps ++ rest ->
    prefix "imp" (tsp e) = false -> contains_sub "fill" (tsp e) = true ->
    has_colon u = false -> float_lit (tsp u) = true ->
    forallb numeric_lead ps = true -> forallb (fun p => num_lit (tsp p)) ps = true ->
    stops rest -> List.length ps = 13%nat ->
    seqb S (last (map tval ps) (s1 S)) (s1 S) = false ->
    is_ok (validate S d) = false.
  Proof.
    intros Hin Htoks H1 H2 Hc Hu Hn Hf Hs Hl Hm.
    apply (cell_fault_rejected d c Hin). intros trs imps rank lat _.
    eapply parse_cell_kw_err. rewrite Htoks.
    apply kw_fill_m_rejected; assumption.
  Qed.

  Theorem run_fill_array_short_rejected (d : deckm (T:=T)) c e first rs nums b :
    In c (d_cells d) -> c_toks c = e :: first :: rs ++ nums ->
    prefix "imp" (tsp e) = false -> contains_sub "fill" (tsp e) = true ->
    has_colon first = true -> forallb has_colon rs = true ->
    Forall (fun t => has_colon t = false) nums -> Forall (plain (T:=T)) nums ->
    parse_ranges (map tsp (first :: rs)) = Ok b ->
    (Z.of_nat (List.length nums) < bounds_size b)%Z ->
    is_ok (validate S d) = false.
  Proof.
    intros Hin Htoks H1 H2 Hc Hrs Hnc Hp Hb Hlt.
    apply (cell_fault_rejected d c Hin). intros trs imps rank lat _.
    eapply parse_cell_kw_err. rewrite Htoks.
    cbn [parse_kw]. cbv zeta. rewrite H1, H2.
    rewrite (fill_array_short_rejected S _ trs first rs nums b Hc Hrs Hnc Hp Hb Hlt). reflexivity.
  Qed.

  Theorem run_lattice_no_opt_rejected (d : deckm (T:=T)) c :
    In c (d_cells d) ->
    (forall lat, parse_lattice (d_latopts d) = Ok lat -> lookup (c_id c) lat = None) ->
    (forall trs k, parse_kw S (Datatypes.S (List.length (c_toks c))) trs (c_toks c) kws0 = Ok k ->
       exists fr z, k_fill k = Some fr /\ f_bounds fr = None /\ k_lat k = Some z) ->
    is_ok (validate S d) = false.
  Proof.
    intros Hin Hno Hk.
    apply (cell_fault_rejected d c Hin). intros trs imps rank lat Hlat.
    rewrite (Hno lat Hlat).
    destruct (parse_kw S (Datatypes.S (List.length (c_toks c))) trs (c_toks c) kws0) as [k|e] eqn:E.
    - destruct (Hk trs k E) as [fr [z [H1 [H2 H3]]]].
      eapply parse_cell_no_opt_rejected; eauto.
    - eapply parse_cell_kw_err; eauto.
  Qed.

  (* in every run that finishes, the facets of the directly converted cells are
     at most the number of TRIPOLI-4 pieces of their surface, and those of the
     cells moved by TRCL lie in 1..number of MCNP pieces *)
  Theorem run_facets_in_range (d : deckm (T:=T)) :
    validate S d = Ok tt ->
    forall lat trs sm imps cells,
      parse_lattice (d_latopts d) = Ok lat -> stage_trs S (d_trs d) [] = Ok trs ->
      stage_surfs S trs (d_surfs d) [] = Ok sm -> imp_cards_check S (d_imps d) = Ok imps ->
      stage_cells S trs imps lat 0 (d_cells d) = Ok cells ->
      forall c cs l k mn nm nt4,
        In (c, cs) cells -> In l (c_lits c) -> l_facet l = Some k ->
        lookup (l_surf l) sm = Some (mn, (nm, nt4)) ->
        (cs_u cs = 0%Z -> seqb S (cs_imp cs) (s0 S) = false -> cs_lat cs = None ->
         cs_fill cs = None -> cs_trcl cs = None -> (k <= nt4)%nat) /\
        (forall n, cs_trcl cs = Some n -> (1 <= k <= nm)%nat).
  Proof.
    intros H lat trs sm imps cells E1 E2 E3 E4 E5 c cs l k mn nm nt4 Hin Hl Hk Hlook.
    destruct (validate_ok_stages S _ H) as
      [lat' [trs' [sm' [imps' [cells' [Hlat [Htrs [Hsurf [Himp [Hcells [Htrcl [_ [_ [Hconv _]]]]]]]]]]]]]].
    rewrite E1 in Hlat; injection Hlat as <-. rewrite E2 in Htrs; injection Htrs as <-.
    rewrite E3 in Hsurf; injection Hsurf as <-. rewrite E4 in Himp; injection Himp as <-.
    rewrite E5 in Hcells; injection Hcells as <-.
    split.
    - intros Hu Hi Hla Hf Ht.
      destruct (Nat.le_gt_cases k nt4) as [Hle|Hgt]; [exact Hle|exfalso].
      pose proof (facet_in_converted_cell_rejected S sm cells cells c cs l k mn nm nt4
                    Hin Hu Hi Hla Hf Ht Hl Hk Hlook Hgt) as Hbad.
      rewrite Hconv in Hbad. discriminate.
    - intros n Hn.
      pose proof (stage_trcl_all_ok sm cells Htrcl c cs n Hin Hn) as H1.
      destruct (transform_lits_all_ok sm n _ H1 l k Hl Hk) as [mn' [nm' [nt4' [Hl' Hr]]]].
      rewrite Hlook in Hl'. injection Hl' as <- <- <-. exact Hr.
  Qed.
End CellRuns.

(* ---------------------------------------------------------------------- *)
(* 10. Whole runs: what every finished run guarantees about its lattices    *)
(* ---------------------------------------------------------------------- *)
Section LatticeRuns.
  Context {T : Type} (S : Scalar T).

  Lemma stage_lattice_all_ok (sm : smap) (cells : list (cellc * cellsum (T:=T))) :
    stage_lattice sm cells = Ok tt ->
    forall c cs b univs, In (c, cs) cells -> cs_lat cs = Some 1%Z ->
      cs_fill cs = Some (FLat b univs) -> c_compl c = [] ->
      exists ns nb, count_subsurfs sm (c_lits c) = Ok ns /\ square_nb ns = Ok nb /\
                    lattice_dims_check nb b = Ok tt.
  Proof.
    induction cells as [|[c0 cs0] cells IH]; intros H c cs b univs Hin Hl Hf Hc; [destruct Hin|].
    cbn [stage_lattice] in H. apply bind_ok in H; destruct H as [[] [H0 H]].
    destruct Hin as [E|Hin]; [|eapply IH; eauto].
    injection E as -> ->. rewrite Hl, Hf, Hc in H0. simpl in H0.
    apply bind_ok in H0; destruct H0 as [ns [Hns H0]].
    apply bind_ok in H0; destruct H0 as [nb [Hnb H0]].
    apply bind_ok in H0; destruct H0 as [[] [Hd H0]].
    exists ns, nb. auto.
  Qed.

  Lemma to_fillid_flat_size (k : kws (T:=T)) lo b univs :
    to_fillid k lo = Ok (Some (FLat b univs)) -> Z.of_nat (List.length univs) = bounds_size b.
  Proof.
    unfold to_fillid. destruct (k_fill k) as [fr|]; [|discriminate].
    destruct (k_lat k) as [z|].
    - destruct (f_bounds fr) as [b'|].
      + destruct (Z.eqb_spec (bounds_size b') (Z.of_nat (List.length (f_univs fr)))) as [E|E]; [|discriminate].
        intros [= <- <-]. auto.
      + destruct lo as [b'|]; [|discriminate].
        match goal with |- context [(?x =? ?y)%Z] => destruct (Z.eqb_spec x y) as [E|E]; [|discriminate] end.
        intros [= <- <-]. auto.
    - destruct (f_bounds fr); [discriminate|]. destruct (hd None (f_univs fr)); discriminate.
  Qed.

  Lemma parse_cell_fill trs imps rank lo toks (cs : cellsum (T:=T)) :
    parse_cell S trs imps rank lo toks = Ok cs -> exists k : kws (T:=T), to_fillid k lo = Ok (cs_fill cs).
  Proof.
    unfold parse_cell. intros H.
    apply bind_ok in H; destruct H as [k [Hk H]].
    apply bind_ok in H; destruct H as [imp [Hi H]].
    apply bind_ok in H; destruct H as [fid [Hf H]].
    injection H as <-. exists k. exact Hf.
  Qed.

  Lemma stage_cells_inv trs imps lat rank (l : list (cellc (T:=T))) cells :
    stage_cells S trs imps lat rank l = Ok cells ->
    forall c cs, In (c, cs) cells ->
    exists r, parse_cell S trs imps r (lookup (c_id c) lat) (c_toks c) = Ok cs.
  Proof.
    revert rank cells; induction l as [|c0 l IH]; intros rank cells H c cs Hin.
    - simpl in H. injection H as <-. destruct Hin.
    - simpl in H. apply bind_ok in H; destruct H as [cs0 [Hcs H]].
      apply bind_ok in H; destruct H as [t [Ht H]]. injection H as <-.
      destruct Hin as [E|Hin]; [injection E as <- <-; eauto|eapply IH; eauto].
  Qed.

  Theorem run_lattice_ranges_checked (d : deckm (T:=T)) :
    validate S d = Ok tt ->
    forall lat trs sm imps cells,
      parse_lattice (d_latopts d) = Ok lat -> stage_trs S (d_trs d) [] = Ok trs ->
      stage_surfs S trs (d_surfs d) [] = Ok sm -> imp_cards_check S (d_imps d) = Ok imps ->
      stage_cells S trs imps lat 0 (d_cells d) = Ok cells ->
      forall c cs b univs, In (c, cs) cells -> cs_lat cs = Some 1%Z ->
        cs_fill cs = Some (FLat b univs) -> c_compl c = [] ->
        exists ns nb, count_subsurfs sm (c_lits c) = Ok ns /\
          (ns = 2 /\ nb = 1 \/ ns = 4 /\ nb = 2 \/ ns = 6 /\ nb = 3)%nat /\
          ((nb <= List.length b)%nat /\ forall r, In r (skipn nb b) -> fst r = snd r) /\
          Z.of_nat (List.length univs) = bounds_size b.
  Proof.
    intros H lat trs sm imps cells E1 E2 E3 E4 E5 c cs b univs Hin Hl Hf Hc.
    destruct (validate_ok_stages S _ H) as
      [lat' [trs' [sm' [imps' [cells' [Hlat [Htrs [Hsurf [Himp [Hcells [_ [Hlatt _]]]]]]]]]]]].
    rewrite E1 in Hlat; injection Hlat as <-. rewrite E2 in Htrs; injection Htrs as <-.
    rewrite E3 in Hsurf; injection Hsurf as <-. rewrite E4 in Himp; injection Himp as <-.
    rewrite E5 in Hcells; injection Hcells as <-.
    destruct (stage_lattice_all_ok sm cells Hlatt c cs b univs Hin Hl Hf Hc) as [ns [nb [H1 [H2 H3]]]].
    exists ns, nb. split; [exact H1|]. split; [apply square_nb_exact; exact H2|].
    split; [apply lattice_dims_exact; exact H3|].
    destruct (stage_cells_inv _ _ _ _ _ _ E5 c cs Hin) as [r Hr].
    destruct (parse_cell_fill _ _ _ _ _ _ Hr) as [k Hk]. rewrite Hf in Hk.
    eapply to_fillid_flat_size; eauto.
  Qed.
End LatticeRuns.

(* ---------------------------------------------------------------------- *)
(* 11. Faulty keyword anywhere behind options the loop steps over           *)
(* ---------------------------------------------------------------------- *)
Section Prefix.
  Context {T : Type} (S : Scalar T).

  (* options in front of the faulty keyword that the keyword loop steps over
     without looking ahead: IMP:x=v, U=n, LAT=1|2, and tokens that are no
     keyword at all *)
  Inductive skippable : list (tok (T:=T)) -> nat -> Prop :=
  | sk_nil : skippable [] 0
  | sk_imp e v l n :
      prefix "imp" (tsp e) = true -> num_lit (tsp v) = true ->
      skippable l n -> skippable (e :: v :: l) (Datatypes.S n)
  | sk_lat e v l n z :
      prefix "imp" (tsp e) = false -> contains_sub "fill" (tsp e) = false ->
      contains_sub "lat" (tsp e) = true -> py_int (tsp v) = Some z ->
      ((z =? 1)%Z || (z =? 2)%Z) = true ->
      skippable l n -> skippable (e :: v :: l) (Datatypes.S n)
  | sk_u e v l n :
      prefix "imp" (tsp e) = false -> contains_sub "fill" (tsp e) = false ->
      contains_sub "lat" (tsp e) = false -> contains_sub "trcl" (tsp e) = false ->
      (tsp e =? "u") = true -> float_lit (tsp v) = true ->
      skippable l n -> skippable (e :: v :: l) (Datatypes.S n)
  | sk_other e l n :
      prefix "imp" (tsp e) = false -> contains_sub "fill" (tsp e) = false ->
      contains_sub "lat" (tsp e) = false -> contains_sub "trcl" (tsp e) = false ->
      (tsp e =? "u") = false ->
      (contains_sub "rho" (tsp e) || contains_sub "mat" (tsp e)) = false ->
      skippable l n -> skippable (e :: l) (Datatypes.S n).

  Lemma skippable_steps pre n : skippable pre n -> (n <= List.length pre)%nat.
  Proof. induction 1; simpl; lia. Qed.

  Lemma parse_kw_skip trs pre n :
    skippable pre n ->
    forall f suffix k, exists k', parse_kw S (n + Datatypes.S f) trs (pre ++ suffix) k
                                 = parse_kw S (Datatypes.S f) trs suffix k'.
  Proof.
    induction 1 as [|e v l n H1 H2 Hs IH|e v l n z H1 H2 H3 H4 H5 Hs IH
                    |e v l n H1 H2 H3 H4 H5 H6 Hs IH|e l n H1 H2 H3 H4 H5 H6 Hs IH];
      intros f suffix k.
    - exists k. reflexivity.
    - change (Datatypes.S n + Datatypes.S f)%nat with (Datatypes.S (n + Datatypes.S f)).
      cbn [app parse_kw]. cbv zeta. rewrite H1, H2. apply IH.
    - change (Datatypes.S n + Datatypes.S f)%nat with (Datatypes.S (n + Datatypes.S f)).
      cbn [app parse_kw]. cbv zeta. rewrite H1, H2, H3, H4, H5. apply IH.
    - change (Datatypes.S n + Datatypes.S f)%nat with (Datatypes.S (n + Datatypes.S f)).
      cbn [app parse_kw]. cbv zeta. rewrite H1, H2, H3, H4, H5, H6. apply IH.
    - change (Datatypes.S n + Datatypes.S f)%nat with (Datatypes.S (n + Datatypes.S f)).
      cbn [app parse_kw]. cbv zeta. rewrite H1, H2, H3, H4, H5, H6. apply IH.
  Qed.

  (* a keyword-level rejection that holds for every state and every positive
     fuel carries over to the whole option list *)
  Lemma parse_cell_after_prefix trs imps rank lat pre n suffix err :
    skippable pre n ->
    (forall f k, parse_kw S (Datatypes.S f) trs suffix k = Err err) ->
    is_ok (parse_cell S trs imps rank lat (pre ++ suffix)) = false.
  Proof.
    intros Hs Hbad. unfold parse_cell.
    pose proof (skippable_steps pre n Hs) as Hn.
    assert (Hf : Datatypes.S (List.length (pre ++ suffix)%list)
                 = (n + Datatypes.S (List.length (pre ++ suffix)%list - n))%nat).
    { rewrite app_length. lia. }
    rewrite Hf.
    destruct (parse_kw_skip trs pre n Hs (List.length (pre ++ suffix)%list - n) suffix kws0) as [k' Hk'].
    rewrite Hk', Hbad. reflexivity.
  Qed.

  Theorem run_inline_trcl_m_rejected_anywhere (d : deckm (T:=T)) c (pre : list (tok (T:=T))) n e ps rest :
    In c (d_cells d) -> c_toks c = (pre ++ e :: ps ++ rest)%list -> skippable pre n ->
    prefix "imp" (tsp e) = false -> contains_sub "fill" (tsp e) = false ->
    contains_sub "lat" (tsp e) = false -> contains_sub "trcl" (tsp e) = true ->
    forallb numeric_lead ps = true -> forallb (fun p => num_lit (tsp p)) ps = true ->
    stops rest -> List.length ps = 13%nat ->
    seqb S (last (map tval ps) (s1 S)) (s1 S) = false ->
    is_ok (validate S d) = false.
  Proof.
    intros Hin Htoks Hpre H1 H2 H3 H4 Hn Hf Hs Hl Hm.
    apply (cell_fault_rejected S d c Hin). intros trs imps rank lat _. rewrite Htoks.
    eapply parse_cell_after_prefix; [exact Hpre|].
    intros f k. apply kw_trcl_m_rejected; assumption.
  Qed.

  Theorem run_inline_fill_m_rejected_anywhere (d : deckm (T:=T)) c (pre : list (tok (T:=T))) n e u ps rest :
    In c (d_cells d) -> c_toks c = (pre ++ e :: u :: ps ++ rest)%list -> skippable pre n ->
    prefix "imp" (tsp e) = false -> contains_sub "fill" (tsp e) = true ->
    has_colon u = false -> float_lit (tsp u) = true ->
    forallb numeric_lead ps = true -> forallb (fun p => num_lit (tsp p)) ps = true ->
    stops rest -> List.length ps = 13%nat ->
    seqb S (last (map tval ps) (s1 S)) (s1 S) = false ->
    is_ok (validate S d) = false.
  Proof.
    intros Hin Htoks Hpre H1 H2 Hc Hu Hn Hf Hs Hl Hm.
    apply (cell_fault_rejected S d c Hin). intros trs imps rank lat _. rewrite Htoks.
    eapply parse_cell_after_prefix; [exact Hpre|].
    intros f k. apply kw_fill_m_rejected; assumption.
  Qed.

  Theorem run_fill_array_short_rejected_anywhere (d : deckm (T:=T)) c (pre : list (tok (T:=T))) n e first rs nums b :
    In c (d_cells d) -> c_toks c = (pre ++ e :: first :: rs ++ nums)%list -> skippable pre n ->
    prefix "imp" (tsp e) = false -> contains_sub "fill" (tsp e) = true ->
    has_colon first = true -> forallb has_colon rs = true ->
    Forall (fun t => has_colon t = false) nums -> Forall (plain (T:=T)) nums ->
    parse_ranges (map tsp (first :: rs)) = Ok b ->
    (Z.of_nat (List.length nums) < bounds_size b)%Z ->
    is_ok (validate S d) = false.
  Proof.
    intros Hin Htoks Hpre H1 H2 Hc Hrs Hnc Hp Hb Hlt.
    apply (cell_fault_rejected S d c Hin). intros trs imps rank lat _. rewrite Htoks.
    eapply parse_cell_after_prefix with (err := EParseCell); [exact Hpre|].
    intros f k. cbn [parse_kw]. cbv zeta. rewrite H1, H2.
    rewrite (fill_array_short_rejected S _ trs first rs nums b Hc Hrs Hnc Hp Hb Hlt). reflexivity.
  Qed.
End Prefix.

(* ---------------------------------------------------------------------- *)
(* 12. Summary: what a finished run excludes                                *)
(* ---------------------------------------------------------------------- *)
Section Summary.
  Context {T : Type} (S : Scalar T).

  (* the faults whose absence every finished run guarantees, whatever the card
     they would sit on *)
  Theorem finished_run_is_clean (d : deckm (T:=T)) :
    validate S d = Ok tt ->
    (* --lattice arguments *)
    (forall o, In o (d_latopts d) -> latopt_wf o = true) /\
    (* TR cards *)
    (forall t, In t (d_trs d) -> List.length (tr_entries t) = 13%nat ->
               seqb S (last (tr_entries t) (s1 S)) (s1 S) = true) /\
    (* surface cards *)
    (forall s, In s (d_surfs d) ->
       (In (sf_mn s) macros /\ In (List.length (sf_params s)) (macro_arities (sf_mn s))) \/
       (In (sf_mn s) elementary /\ elem_accepts (sf_mn s) (List.length (sf_params s)) = true)) /\
    (* IMP cards *)
    (forall rows, expand_cards S (d_imps d) = Ok rows ->
       forall r1 r2, In r1 rows -> In r2 rows -> List.length r1 = List.length r2) /\
    (* material cards *)
    (d_skipcomp d = false ->
     forall m l, In m (d_mats d) -> mat_pairs m = Ok l ->
       forall p q, In p l -> In q l -> frac_negative (snd p) = frac_negative (snd q)).
  Proof.
    intros H.
    assert (Hok : is_ok (validate S d) = true) by (rewrite H; reflexivity).
    repeat split.
    - intros o Hin. destruct (latopt_wf o) eqn:E; [reflexivity|].
      rewrite (run_latopt_malformed_rejected S d o Hin E) in Hok. discriminate.
    - intros t Hin Hl. destruct (seqb S (last (tr_entries t) (s1 S)) (s1 S)) eqn:E; [reflexivity|].
      rewrite (run_tr_card_m_rejected S d t Hin Hl E) in Hok. discriminate.
    - intros s Hin.
      destruct (in_dec string_dec (sf_mn s) macros) as [Hm|Hm].
      + left. split; [exact Hm|].
        destruct (in_dec Nat.eq_dec (List.length (sf_params s)) (macro_arities (sf_mn s))) as [Ha|Ha]; [exact Ha|].
        rewrite (run_macro_arity_rejected S d s Hin Hm Ha) in Hok. discriminate.
      + destruct (in_dec string_dec (sf_mn s) elementary) as [He|He].
        * right. split; [exact He|].
          destruct (elem_accepts (sf_mn s) (List.length (sf_params s))) eqn:E; [reflexivity|].
          rewrite (run_surface_arity_rejected S d s Hin He E) in Hok. discriminate.
        * rewrite (run_unknown_mnemonic_rejected S d s Hin Hm He) in Hok. discriminate.
    - intros rows Hrows r1 r2 H1 H2.
      destruct (Nat.eq_dec (List.length r1) (List.length r2)) as [E|E]; [exact E|].
      rewrite (run_imp_unequal_rejected S d rows r1 r2 Hrows H1 H2 E) in Hok. discriminate.
    - intros Hs m l Hin Hl p q Hp Hq.
      destruct (bool_dec (frac_negative (snd p)) (frac_negative (snd q))) as [E|E]; [exact E|].
      rewrite (run_mixed_fractions_rejected S d m l p q Hs Hin Hl Hp Hq E) in Hok. discriminate.
  Qed.
End Summary.

(* ---------------------------------------------------------------------- *)
(* 13. Entry counts of transformations                                      *)
(* ---------------------------------------------------------------------- *)
Section TrArity.
  Context {T : Type} (S : Scalar T).

  (* which entry counts normalize_transform accepts *)
  Definition tr_len_ok (n : nat) : bool :=
    (n <=? 3)%nat || (n =? 6)%nat || (n =? 9)%nat || (n =? 12)%nat || (14 <=? n)%nat.

  Lemma norm_tr_len_exact (t : list T) :
    is_ok (norm_tr_len S t) =
    if (List.length t =? 13)%nat then seqb S (last t (s1 S)) (s1 S) else tr_len_ok (List.length t).
  Proof.
    unfold norm_tr_len, tr_len_ok.
    rewrite firstn_length, skipn_length.
    generalize (seqb S (last t (s1 S)) (s1 S)) as b. generalize (List.length t) as n. intros n b.
    do 15 (destruct n as [|n]; [try reflexivity; destruct b; reflexivity|]).
    reflexivity.
  Qed.

  Theorem run_tr_card_arity_rejected (d : deckm (T:=T)) t :
    In t (d_trs d) -> List.length (tr_entries t) <> 13%nat ->
    tr_len_ok (List.length (tr_entries t)) = false ->
    is_ok (validate S d) = false.
  Proof.
    intros Hin Hn Hbad.
    destruct (validate S d) as [[]|e] eqn:H; [|reflexivity]. exfalso.
    destruct (validate_ok_stages S _ H) as [lat [trs [sm [imps [cells [_ [Htrs _]]]]]]].
    pose proof (stage_trs_all_ok S _ _ _ Htrs t Hin) as Hok.
    rewrite norm_tr_len_exact in Hok.
    destruct (Nat.eqb_spec (List.length (tr_entries t)) 13); [contradiction|].
    rewrite Hbad in Hok. discriminate.
  Qed.
End TrArity.

(* ---------------------------------------------------------------------- *)
(* 14. LAT with FILL=n and no --lattice option, on the option tokens         *)
(* ---------------------------------------------------------------------- *)
Section NoOpt.
  Context {T : Type} (S : Scalar T).

  (* stepping over skippable options changes neither the FILL entry nor an
     already present LAT entry into "absent" *)
  Lemma parse_kw_skip_keeps trs (pre : list (tok (T:=T))) n :
    skippable pre n ->
    forall f suffix k, exists k',
      parse_kw S (n + Datatypes.S f) trs (pre ++ suffix)%list k = parse_kw S (Datatypes.S f) trs suffix k' /\
      k_fill k' = k_fill k /\ (k_lat k <> None -> k_lat k' <> None).
  Proof.
    induction 1 as [|e v l n H1 H2 Hs IH|e v l n z H1 H2 H3 H4 H5 Hs IH
                    |e v l n H1 H2 H3 H4 H5 H6 Hs IH|e l n H1 H2 H3 H4 H5 H6 Hs IH];
      intros f suffix k.
    - exists k. repeat split; auto.
    - change (Datatypes.S n + Datatypes.S f)%nat with (Datatypes.S (n + Datatypes.S f)).
      cbn [app parse_kw]. cbv zeta. rewrite H1, H2.
      match goal with |- context [parse_kw S _ trs (l ++ suffix)%list ?k0] =>
        destruct (IH f suffix k0) as [k' [E [F L]]] end.
      exists k'. repeat split; [exact E|rewrite F; reflexivity|exact L].
    - change (Datatypes.S n + Datatypes.S f)%nat with (Datatypes.S (n + Datatypes.S f)).
      cbn [app parse_kw]. cbv zeta. rewrite H1, H2, H3, H4, H5.
      match goal with |- context [parse_kw S _ trs (l ++ suffix)%list ?k0] =>
        destruct (IH f suffix k0) as [k' [E [F L]]] end.
      exists k'. repeat split; [exact E|rewrite F; reflexivity|].
      intros _. apply L. simpl. discriminate.
    - change (Datatypes.S n + Datatypes.S f)%nat with (Datatypes.S (n + Datatypes.S f)).
      cbn [app parse_kw]. cbv zeta. rewrite H1, H2, H3, H4, H5, H6.
      match goal with |- context [parse_kw S _ trs (l ++ suffix)%list ?k0] =>
        destruct (IH f suffix k0) as [k' [E [F L]]] end.
      exists k'. repeat split; [exact E|rewrite F; reflexivity|exact L].
    - change (Datatypes.S n + Datatypes.S f)%nat with (Datatypes.S (n + Datatypes.S f)).
      cbn [app parse_kw]. cbv zeta. rewrite H1, H2, H3, H4, H5, H6.
      destruct (IH f suffix k) as [k' [E [F L]]].
      exists k'. repeat split; [exact E|exact F|exact L].
  Qed.

  (* ... LAT=1|2 ... FILL=n ... with only skippable options around: the keyword
     loop ends with a FILL entry without ranges and a LAT entry *)
  Lemma parse_kw_lat_fill trs (pre mid post : list (tok (T:=T))) n1 n2 n3 elat vlat z efill u :
    skippable pre n1 -> skippable mid n2 -> skippable post n3 ->
    prefix "imp" (tsp elat) = false -> contains_sub "fill" (tsp elat) = false ->
    contains_sub "lat" (tsp elat) = true -> py_int (tsp vlat) = Some z ->
    ((z =? 1)%Z || (z =? 2)%Z) = true ->
    prefix "imp" (tsp efill) = false -> contains_sub "fill" (tsp efill) = true ->
    has_colon u = false -> float_lit (tsp u) = true -> stops post ->
    let toks := (pre ++ elat :: vlat :: mid ++ efill :: u :: post)%list in
    exists k, parse_kw S (Datatypes.S (List.length toks)) trs toks kws0 = Ok k /\
              (exists fr, k_fill k = Some fr /\ f_bounds fr = None) /\ k_lat k <> None.
  Proof.
    intros Hpre Hmid Hpost L1 L2 L3 L4 L5 F1 F2 Fc Fu Hstop toks.
    pose proof (skippable_steps pre n1 Hpre) as B1.
    pose proof (skippable_steps mid n2 Hmid) as B2.
    pose proof (skippable_steps post n3 Hpost) as B3.
    set (N := List.length toks).
    assert (HN : N = (List.length pre + 2 + List.length mid + 2 + List.length post)%nat).
    { unfold N, toks. rewrite app_length. simpl. rewrite app_length. simpl. lia. }
    set (f3 := (N - n1 - n2 - n3 - 2)%nat).
    assert (Hfuel : Datatypes.S N = (n1 + Datatypes.S (n2 + Datatypes.S (n3 + Datatypes.S f3)))%nat)
      by (unfold f3; lia).
    rewrite Hfuel. unfold toks.
    destruct (parse_kw_skip_keeps trs pre n1 Hpre (n2 + Datatypes.S (n3 + Datatypes.S f3))
                (elat :: vlat :: mid ++ efill :: u :: post)%list kws0) as [k1 [E1 [Ff1 _]]].
    rewrite E1. cbn [parse_kw]. cbv zeta. rewrite L1, L2, L3, L4, L5.
    match goal with |- context [parse_kw S _ trs (mid ++ _)%list ?k0] => set (k2 := k0) end.
    destruct (parse_kw_skip_keeps trs mid n2 Hmid (n3 + Datatypes.S f3)
                (efill :: u :: post)%list k2) as [k3 [E3 [Ff3 Fl3]]].
    rewrite E3. cbn [parse_kw]. cbv zeta. rewrite F1, F2.
    unfold parse_fill. rewrite Fc, Fu. unfold fill_params.
    assert (Hspan : span numeric_lead post = ([], post)).
    { destruct post as [|x post']; [reflexivity|]. simpl in Hstop. simpl. rewrite Hstop. reflexivity. }
    rewrite Hspan. cbn [forallb negb List.length Nat.eqb bind].
    match goal with |- context [parse_kw S _ trs post ?k0] => set (k4 := k0) end.
    destruct (parse_kw_skip_keeps trs post n3 Hpost f3 [] k4) as [k5 [E5 [Ff5 Fl5]]].
    rewrite app_nil_r in E5. rewrite E5. cbn [parse_kw].
    exists k5. split; [reflexivity|]. split.
    - rewrite Ff5. unfold k4. cbn [k_fill]. eexists. split; [reflexivity|reflexivity].
    - apply Fl5. unfold k4. cbn [k_lat]. apply Fl3. unfold k2. cbn [k_lat]. discriminate.
  Qed.

  Theorem run_lattice_no_opt_rejected_syntactic (d : deckm (T:=T)) c
      (pre mid post : list (tok (T:=T))) n1 n2 n3 elat vlat z efill u :
    In c (d_cells d) ->
    c_toks c = (pre ++ elat :: vlat :: mid ++ efill :: u :: post)%list ->
    skippable pre n1 -> skippable mid n2 -> skippable post n3 ->
    prefix "imp" (tsp elat) = false -> contains_sub "fill" (tsp elat) = false ->
    contains_sub "lat" (tsp elat) = true -> py_int (tsp vlat) = Some z ->
    ((z =? 1)%Z || (z =? 2)%Z) = true ->
    prefix "imp" (tsp efill) = false -> contains_sub "fill" (tsp efill) = true ->
    has_colon u = false -> float_lit (tsp u) = true -> stops post ->
    (forall lat, parse_lattice (d_latopts d) = Ok lat -> lookup (c_id c) lat = None) ->
    is_ok (validate S d) = false.
  Proof.
    intros Hin Htoks Hpre Hmid Hpost L1 L2 L3 L4 L5 F1 F2 Fc Fu Hstop Hno.
    apply (run_lattice_no_opt_rejected S d c Hin Hno).
    intros trs k Hk. rewrite Htoks in Hk.
    destruct (parse_kw_lat_fill trs pre mid post n1 n2 n3 elat vlat z efill u
                Hpre Hmid Hpost L1 L2 L3 L4 L5 F1 F2 Fc Fu Hstop) as [k' [Hk' [[fr [Hf Hb]] Hl]]].
    cbv zeta in Hk'. rewrite Hk in Hk'. injection Hk' as <-.
    destruct (k_lat k) as [z'|] eqn:El; [|contradiction].
    exists fr, z'. auto.
  Qed.
End NoOpt.
