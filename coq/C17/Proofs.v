(* C17 — proofs about the validation model (C17/Model.v).  Every statement is
   for an arbitrary scalar structure [S : Scalar T] (so it holds for the reals
   and for binary64 alike) and for inputs of any size. *)
From Coq Require Import List NArith ZArith Bool String Ascii Lia ZifyBool.
From T4V Require Import Base.Str Base.Scalar C17.Model.
Import ListNotations.
Open Scope string_scope.

(* ---------------------------------------------------------------------- *)
(* 0. The error monad                                                      *)
(* ---------------------------------------------------------------------- *)

Lemma bind_ok {A B} (r : res A) (f : A -> res B) (b : B) :
  bind r f = Ok b -> exists a, r = Ok a /\ f a = Ok b.
Proof. destruct r as [a|e]; simpl; intros H; [eauto|discriminate]. Qed.

Lemma is_ok_false_err {A} (r : res A) : is_ok r = false <-> exists e, r = Err e.
Proof.
  destruct r as [a|e]; simpl; split; intros H; try discriminate; eauto.
  destruct H as [e H]; discriminate.
Qed.

Lemma not_ok_is_ok_false {A} (r : res A) : (forall a, r <> Ok a) -> is_ok r = false.
Proof. destruct r as [a|e]; simpl; intros H; [exfalso; eapply H; eauto|reflexivity]. Qed.

Ltac inv_bind H :=
  let a := fresh "v" in let H1 := fresh "Hstage" in
  apply bind_ok in H; destruct H as [a [H1 H]].

(* ---------------------------------------------------------------------- *)
(* 1. The pipeline: a normally finished run passed every stage             *)
(* ---------------------------------------------------------------------- *)
Section Pipeline.
  Context {T : Type} (S : Scalar T).

  Lemma validate_ok_stages (d : deckm) :
    validate S d = Ok tt ->
    exists lat trs sm imps cells,
      parse_lattice (d_latopts d) = Ok lat /\
      stage_trs S (d_trs d) [] = Ok trs /\
      stage_surfs S trs (d_surfs d) [] = Ok sm /\
      imp_cards_check S (d_imps d) = Ok imps /\
      stage_cells S trs imps lat 0 (d_cells d) = Ok cells /\
      stage_trcl sm cells = Ok tt /\
      stage_lattice sm cells = Ok tt /\
      stage_fill sm cells cells = Ok tt /\
      stage_convert S sm cells cells = Ok tt /\
      (d_skipcomp d = false -> stage_mats (d_mats d) = Ok tt).
  Proof.
    unfold validate; intros H.
    apply bind_ok in H; destruct H as [lat [H1 H]].
    apply bind_ok in H; destruct H as [trs [H2 H]].
    apply bind_ok in H; destruct H as [sm [H3 H]].
    apply bind_ok in H; destruct H as [imps [H4 H]].
    apply bind_ok in H; destruct H as [cells [H5 H]].
    apply bind_ok in H; destruct H as [[] [H6 H]].
    apply bind_ok in H; destruct H as [[] [H7 H]].
    apply bind_ok in H; destruct H as [[] [H8 H]].
    apply bind_ok in H; destruct H as [[] [H9 H]].
    exists lat, trs, sm, imps, cells. repeat split; try assumption.
    intros Hs; rewrite Hs in H; exact H.
  Qed.

  (* ---- TR cards ---- *)
  Lemma stage_trs_all_ok (l : list (trc (T:=T))) acc r :
    stage_trs S l acc = Ok r -> forall t, In t l -> is_ok (norm_tr_len S (tr_entries t)) = true.
  Proof.
    revert acc; induction l as [|t0 l IH]; intros acc H t Hin; [destruct Hin|].
    simpl in H. apply bind_ok in H; destruct H as [k [Hk H]].
    destruct Hin as [<-|Hin]; [rewrite Hk; reflexivity|eapply IH; eauto].
  Qed.

  Lemma norm_tr_len_m_rejected (t : list T) :
    List.length t = 13%nat -> seqb S (last t (s1 S)) (s1 S) = false ->
    norm_tr_len S t = Err ETransformation.
  Proof. intros Hl Hm; unfold norm_tr_len; rewrite Hl, Hm; reflexivity. Qed.

  (* what normalize_transform returns has 12 entries, or 10/11 for the
     1- and 2-entry forms: never 13, so the m != 1 test of
     ParseMCNPCell.__init__ can never fire *)
  Lemma norm_tr_len_values (t : list T) k :
    norm_tr_len S t = Ok k -> k = 12%nat \/ k = 10%nat \/ k = 11%nat.
  Proof.
    unfold norm_tr_len.
    destruct ((List.length t =? 13)%nat && negb (seqb S (last t (s1 S)) (s1 S))); [discriminate|].
    destruct (List.length t =? 0)%nat eqn:E0; [intros [= <-]; auto|].
    destruct (List.length t =? 3)%nat eqn:E3; [intros [= <-]; auto|].
    set (c := List.length (firstn 9 (skipn 3 t))).
    assert (Hc : c = Nat.min 9 (List.length t - 3)) by (unfold c; rewrite firstn_length, skipn_length; reflexivity).
    destruct (c =? 9)%nat eqn:E9; [intros [= <-]; auto|].
    destruct (c =? 0)%nat eqn:Ec0.
    - intros [= <-]. lia.
    - destruct (c =? 5)%nat; [discriminate|].
      destruct ((c =? 3)%nat || (c =? 6)%nat); [intros [= <-]; auto|discriminate].
  Qed.

  Lemma stage_trs_lengths (l : list (trc (T:=T))) acc r :
    stage_trs S l acc = Ok r ->
    (forall p, In p acc -> snd p <> 13%nat) -> forall p, In p r -> snd p <> 13%nat.
  Proof.
    revert acc; induction l as [|t0 l IH]; intros acc H Hacc p Hp.
    - simpl in H; injection H as <-; auto.
    - simpl in H. apply bind_ok in H; destruct H as [k [Hk H]].
      eapply IH; [exact H| |exact Hp].
      intros q [<-|Hq]; [|auto]. simpl.
      apply norm_tr_len_values in Hk. lia.
  Qed.

  (* ---- surfaces ---- *)
  Lemma stage_surfs_all_ok trs (l : list (surfc (T:=T))) acc r :
    stage_surfs S trs l acc = Ok r ->
    forall s, In s l -> is_ok (surface_check S (sf_mn s) (sf_params s)) = true.
  Proof.
    revert acc; induction l as [|s0 l IH]; intros acc H s Hin; [destruct Hin|].
    simpl in H. apply bind_ok in H; destruct H as [cnt [Hc H]].
    apply bind_ok in H; destruct H as [[] [_ H]].
    destruct Hin as [<-|Hin]; [rewrite Hc; reflexivity|eapply IH; eauto].
  Qed.

  (* ---- material cards ---- *)
  Lemma stage_mats_all_ok (l : list (list string)) :
    stage_mats l = Ok tt -> forall m, In m l -> material_check m = Ok tt.
  Proof.
    induction l as [|m0 l IH]; intros H m Hin; [destruct Hin|].
    simpl in H. apply bind_ok in H; destruct H as [[] [Hm H]].
    destruct Hin as [<-|Hin]; [exact Hm|auto].
  Qed.
End Pipeline.

(* ---------------------------------------------------------------------- *)
(* 2. Surfaces: which arities are accepted                                 *)
(* ---------------------------------------------------------------------- *)

(* arities of the macrobodies (MCNP manual, table of macrobodies) *)
Definition macro_arities (mn : string) : list nat :=
  if mn =? "box" then [12] else if mn =? "rpp" then [6] else if mn =? "sph" then [4]
  else if mn =? "rcc" then [7] else if (mn =? "rhp") || (mn =? "hex") then [9; 15]
  else if mn =? "rec" then [10; 12] else if mn =? "trc" then [8]
  else if mn =? "ell" then [7] else if mn =? "wed" then [12]
  else if mn =? "arb" then [30] else [].

Lemma mem_In s l : mem s l = true <-> In s l.
Proof.
  unfold mem; rewrite existsb_exists; split.
  - intros [x [Hx He]]. apply String.eqb_eq in He; subst; exact Hx.
  - intros H; exists s; split; [exact H|apply String.eqb_refl].
Qed.

Lemma macro_check_exact mn n :
  In mn macros ->
  (is_ok (macro_check mn n) = true <-> In n (macro_arities mn)) /\
  (is_ok (macro_check mn n) = false -> macro_check mn n = Err EMacroBody).
Proof.
  intros Hin. unfold macros in Hin. simpl in Hin.
  decompose [or] Hin; clear Hin; try contradiction; subst mn;
  unfold macro_check, macro_arities; simpl;
  (split; [split; intros H|intros H]);
  repeat match goal with
         | H : context [(n =? ?k)%nat] |- _ => destruct (Nat.eqb_spec n k); subst; simpl in *
         | |- context [(n =? ?k)%nat] => destruct (Nat.eqb_spec n k); subst; simpl in *
         end; try discriminate; try reflexivity; try tauto; try lia; try (exfalso; intuition lia).
Qed.

(* the arities each elementary mnemonic accepts in the model (= in the code) *)
Definition elem_accepts (mn : string) (n : nat) : bool :=
  if mn =? "p" then (n =? 4)%nat || (n =? 9)%nat
  else if mem mn ["px";"py";"pz";"so";"cx";"cy";"cz";"gq"] then true
  else if mn =? "s" then (n =? 4)%nat
  else if mem mn ["sx";"sy";"sz";"kx";"ky";"kz"] then (2 <=? n)%nat
  else if mem mn ["c/x";"c/y";"c/z"] then (3 <=? n)%nat
  else if mem mn ["k/x";"k/y";"k/z"] then (4 <=? n)%nat
  else if mn =? "sq" then (10 <=? n)%nat
  else if mem mn ["tx";"ty";"tz"] then (n =? 5)%nat || (n =? 6)%nat
  else if mem mn ["x";"y";"z"] then (n =? 2)%nat || (n =? 4)%nat
  else if mn =? "c" then (n =? 7)%nat
  else if mn =? "k" then (7 <=? n)%nat && (n <=? 9)%nat
  else false.

Lemma elem_check_exact mn n b1 b2 b3 b4 :
  In mn elementary -> is_ok (elem_check mn n b1 b2 b3 b4) = elem_accepts mn n.
Proof.
  intros Hin. unfold elementary in Hin. simpl in Hin.
  decompose [or] Hin; clear Hin; try contradiction; subst mn;
  unfold elem_check, elem_accepts; simpl;
  repeat match goal with
         | |- context [if ?c then _ else _] => destruct c eqn:?; simpl
         end; try reflexivity; try discriminate.
Qed.

Section Surfaces.
  Context {T : Type} (S : Scalar T).

  Lemma surface_check_unfold mn (p : list T) :
    surface_check S mn p =
    surface_check_n mn (List.length p) (nonzero_at S 4 p) (nonzero_at S 2 p) (nonzero_at S 7 p)
                    (negb (same_at S 0 2 p) && negb (same_at S 1 3 p)).
  Proof. reflexivity. Qed.

  (* unknown mnemonic: string_to_enum *)
  Lemma unknown_mnemonic_rejected mn (p : list T) :
    ~ In mn macros -> ~ In mn elementary -> is_ok (surface_check S mn p) = false.
  Proof.
    intros Hm He. rewrite surface_check_unfold. unfold surface_check_n.
    destruct (List.length p =? 0)%nat; [reflexivity|].
    destruct (mem mn macros) eqn:E1; [apply mem_In in E1; contradiction|].
    destruct (mem mn elementary) eqn:E2; [apply mem_In in E2; contradiction|reflexivity].
  Qed.

  Lemma unknown_mnemonic_error mn (p : list T) :
    ~ In mn macros -> ~ In mn elementary -> p <> [] -> surface_check S mn p = Err EValue.
  Proof.
    intros Hm He Hp. rewrite surface_check_unfold. unfold surface_check_n.
    destruct p as [|x p]; [contradiction|]. simpl List.length. simpl Nat.eqb.
    destruct (mem mn macros) eqn:E1; [apply mem_In in E1; contradiction|].
    destruct (mem mn elementary) eqn:E2; [apply mem_In in E2; contradiction|reflexivity].
  Qed.

  Lemma macro_arity_rejected mn (p : list T) :
    In mn macros -> ~ In (List.length p) (macro_arities mn) ->
    is_ok (surface_check S mn p) = false.
  Proof.
    intros Hm Hn. rewrite surface_check_unfold. unfold surface_check_n.
    destruct (List.length p =? 0)%nat; [reflexivity|].
    apply mem_In in Hm as Hm'. rewrite Hm'.
    destruct (macro_check_exact mn (List.length p) Hm) as [[H1 _] _].
    destruct (is_ok (macro_check mn (List.length p))) eqn:E; [exfalso; auto|reflexivity].
  Qed.

  Lemma macro_arity_error mn (p : list T) :
    In mn macros -> p <> [] -> ~ In (List.length p) (macro_arities mn) ->
    surface_check S mn p = Err EMacroBody.
  Proof.
    intros Hm Hp Hn. rewrite surface_check_unfold. unfold surface_check_n.
    destruct p as [|x p]; [contradiction|]. change (List.length (x :: p) =? 0)%nat with false. cbv iota.
    apply mem_In in Hm as Hm'. rewrite Hm'.
    destruct (macro_check_exact mn (List.length (x :: p)) Hm) as [[H1 _] H2].
    apply H2. destruct (is_ok (macro_check mn (List.length (x :: p)))) eqn:E; [exfalso; auto|reflexivity].
  Qed.

  Lemma macro_arity_accepted mn (p : list T) :
    In mn macros -> In (List.length p) (macro_arities mn) ->
    is_ok (surface_check S mn p) = true.
  Proof.
    intros Hm Hn. rewrite surface_check_unfold. unfold surface_check_n.
    destruct (List.length p =? 0)%nat eqn:E0.
    - apply Nat.eqb_eq in E0. rewrite E0 in Hn. exfalso.
      unfold macros in Hm; simpl in Hm.
      decompose [or] Hm; clear Hm; try contradiction; subst mn; cbv in Hn; intuition lia.
    - apply mem_In in Hm as Hm'. rewrite Hm'.
      apply (macro_check_exact mn (List.length p) Hm). exact Hn.
  Qed.

  Lemma elementary_not_macro mn : In mn elementary -> mem mn macros = false.
  Proof.
    intros H. unfold elementary in H; simpl in H.
    decompose [or] H; clear H; try contradiction; subst mn; reflexivity.
  Qed.

  Lemma surface_arity_exact mn (p : list T) :
    In mn elementary -> p <> [] ->
    is_ok (surface_check S mn p) = elem_accepts mn (List.length p).
  Proof.
    intros He Hp. rewrite surface_check_unfold. unfold surface_check_n.
    destruct p as [|x p]; [contradiction|]. change (List.length (x :: p) =? 0)%nat with false. cbv iota.
    rewrite (elementary_not_macro mn He).
    apply mem_In in He as He'. rewrite He'.
    apply elem_check_exact. exact He.
  Qed.
End Surfaces.

(* ---------------------------------------------------------------------- *)
(* 3. Lattice ranges against the dimensionality of the lattice cell        *)
(* ---------------------------------------------------------------------- *)

Lemma bounds_dims_le (b : bounds) : (bounds_dims b <= List.length b)%nat.
Proof.
  unfold bounds_dims. induction b as [|x b IH]; simpl; [lia|].
  destruct (nontrivial x); simpl; lia.
Qed.

Lemma lattice_dims_exact nb b :
  lattice_dims_check nb b = Ok tt <-> (nb = List.length b \/ nb = bounds_dims b).
Proof.
  unfold lattice_dims_check.
  destruct (Nat.eqb_spec nb (List.length b)) as [E|E]; [tauto|].
  destruct (Nat.eqb_spec nb (bounds_dims b)) as [E2|E2]; simpl.
  - pose proof (bounds_dims_le b) as Hle.
    replace (Z.to_nat (Z.of_nat nb - Z.of_nat (List.length b))) with 0%nat by lia.
    simpl. tauto.
  - split; [discriminate|tauto].
Qed.

Lemma lattice_dims_rejected nb b :
  nb <> List.length b -> nb <> bounds_dims b -> lattice_dims_check nb b = Err ELattice.
Proof.
  intros H1 H2. unfold lattice_dims_check.
  destruct (Nat.eqb_spec nb (List.length b)); [contradiction|].
  destruct (Nat.eqb_spec nb (bounds_dims b)); [contradiction|reflexivity].
Qed.

(* the loop over the "missing" bounds of develop_lattice never executes: when it
   is reached, the number of iterations is 0 *)
Lemma missing_loop_dead nb b :
  nb <> List.length b -> nb = bounds_dims b ->
  Z.to_nat (Z.of_nat nb - Z.of_nat (List.length b)) = 0%nat.
Proof. intros H1 H2. pose proof (bounds_dims_le b). lia. Qed.

Lemma square_nb_exact n k :
  square_nb n = Ok k <-> (n = 2 /\ k = 1 \/ n = 4 /\ k = 2 \/ n = 6 /\ k = 3)%nat.
Proof.
  unfold square_nb.
  destruct (Nat.eqb_spec n 2); [subst; simpl; split; [intros [= <-]; auto|intros [[_ ->]|[[? _]|[? _]]]; try lia; reflexivity]|].
  destruct (Nat.eqb_spec n 4); [subst; simpl; split; [intros [= <-]; auto|intros [[? _]|[[_ ->]|[? _]]]; try lia; reflexivity]|].
  destruct (Nat.eqb_spec n 6); [subst; simpl; split; [intros [= <-]; auto|intros [[? _]|[[? _]|[_ ->]]]; try lia; reflexivity]|].
  simpl. split; [discriminate|lia].
Qed.

(* ---------------------------------------------------------------------- *)
(* 4. Facets                                                               *)
(* ---------------------------------------------------------------------- *)

Lemma facet_check_exact nt4 k : facet_check nt4 k = Ok tt <-> (k <= nt4)%nat.
Proof. unfold facet_check. destruct (Nat.ltb_spec nt4 k); split; intros; try discriminate; try reflexivity; lia. Qed.

Lemma facet_range_rejected nt4 k : (nt4 < k)%nat -> facet_check nt4 k = Err ECellConversion.
Proof. intros H. unfold facet_check. destruct (Nat.ltb_spec nt4 k); [reflexivity|lia]. Qed.

Section Facets.
  Context {T : Type} (S : Scalar T).

  Lemma sub_check_exact nm k : sub_check nm (Some k) = Ok tt <-> (1 <= k <= nm)%nat.
  Proof.
    unfold sub_check. destruct (Nat.eqb_spec k 0); destruct (Nat.ltb_spec nm k); simpl;
      split; intros; try discriminate; try reflexivity; lia.
  Qed.

  Lemma check_lits_all_ok (sm : smap) (lits : list lit) :
    check_lits sm lits = Ok tt ->
    forall l k, In l lits -> l_facet l = Some k ->
    exists mn nm nt4, lookup (l_surf l) sm = Some (mn, (nm, nt4)) /\ (k <= nt4)%nat.
  Proof.
    induction lits as [|l0 lits IH]; intros H l k Hin Hk; [destruct Hin|].
    simpl in H. destruct (lookup (l_surf l0) sm) as [[mn [nm nt4]]|] eqn:El; [|discriminate].
    apply bind_ok in H; destruct H as [[] [Hf H]].
    destruct Hin as [<-|Hin]; [|eapply IH; eauto].
    rewrite Hk in Hf. apply facet_check_exact in Hf. eauto.
  Qed.

  Lemma transform_lits_all_ok (sm : smap) k (lits : list lit) :
    transform_lits sm k lits = Ok tt ->
    forall l f, In l lits -> l_facet l = Some f ->
    exists mn nm nt4, lookup (l_surf l) sm = Some (mn, (nm, nt4)) /\ (1 <= f <= nm)%nat.
  Proof.
    induction lits as [|l0 lits IH]; intros H l f Hin Hf; [destruct Hin|].
    simpl in H. destruct (lookup (l_surf l0) sm) as [[mn [nm nt4]]|] eqn:El; [|discriminate].
    apply bind_ok in H; destruct H as [[] [Hs H]].
    apply bind_ok in H; destruct H as [[] [_ H]].
    destruct Hin as [<-|Hin]; [|eapply IH; eauto].
    rewrite Hf in Hs. apply sub_check_exact in Hs. eauto.
  Qed.

  (* stage_convert: every converted cell had its literals checked *)
  Lemma stage_convert_all_ok (sm : smap) all (cells : list (cellc * cellsum (T:=T))) :
    stage_convert S sm all cells = Ok tt ->
    forall c cs, In (c, cs) cells ->
      cs_u cs = 0%Z -> seqb S (cs_imp cs) (s0 S) = false -> cs_lat cs = None ->
      check_filled (List.length all + 1) sm all (c, cs) = Ok tt.
  Proof.
    induction cells as [|[c0 cs0] cells IH]; intros H c cs Hin Hu Hi Hl; [destruct Hin|].
    simpl in H. apply bind_ok in H; destruct H as [[] [H0 H]].
    destruct Hin as [E|Hin]; [|eapply IH; eauto].
    injection E as -> ->. rewrite Hu, Hi, Hl in H0. simpl in H0. exact H0.
  Qed.

  Lemma check_filled_plain (sm : smap) all c (cs : cellsum (T:=T)) fuel :
    cs_fill cs = None -> cs_trcl cs = None ->
    check_filled (Datatypes.S fuel) sm all (c, cs) = Ok tt -> check_lits sm (c_lits c) = Ok tt.
  Proof.
    intros Hf Ht H. simpl in H. rewrite Hf in H.
    replace (List.length all + 1)%nat with (Datatypes.S (List.length all)) in H by lia.
    simpl in H. rewrite Ht in H.
    apply bind_ok in H; destruct H as [[] [H _]]. exact H.
  Qed.

  Lemma facet_in_converted_cell_rejected (sm : smap) all cells c (cs : cellsum (T:=T)) l k mn nm nt4 :
    In (c, cs) cells ->
    cs_u cs = 0%Z -> seqb S (cs_imp cs) (s0 S) = false -> cs_lat cs = None ->
    cs_fill cs = None -> cs_trcl cs = None ->
    In l (c_lits c) -> l_facet l = Some k ->
    lookup (l_surf l) sm = Some (mn, (nm, nt4)) -> (nt4 < k)%nat ->
    is_ok (stage_convert S sm all cells) = false.
  Proof.
    intros Hin Hu Hi Hl Hf Ht Hlin Hk Hlook Hlt.
    destruct (stage_convert S sm all cells) as [[]|e] eqn:E; [|reflexivity]. exfalso.
    pose proof (stage_convert_all_ok sm all cells E c cs Hin Hu Hi Hl) as H1.
    replace (List.length all + 1)%nat with (Datatypes.S (List.length all)) in H1 by lia.
    apply (check_filled_plain sm all c cs _ Hf Ht) in H1.
    destruct (check_lits_all_ok sm _ H1 l k Hlin Hk) as [mn' [nm' [nt4' [Hl' Hle]]]].
    rewrite Hlook in Hl'. injection Hl' as <- <- <-. lia.
  Qed.

  (* cells moved by TRCL: stage_trcl looks every facet up in the MCNP surface
     dictionary, which rejects 0 as well *)
  Lemma stage_trcl_all_ok (sm : smap) (cells : list (cellc * cellsum (T:=T))) :
    stage_trcl sm cells = Ok tt ->
    forall c cs k, In (c, cs) cells -> cs_trcl cs = Some k -> transform_lits sm k (c_lits c) = Ok tt.
  Proof.
    induction cells as [|[c0 cs0] cells IH]; intros H c cs k Hin Hk; [destruct Hin|].
    simpl in H. apply bind_ok in H; destruct H as [[] [H0 H]].
    destruct Hin as [E|Hin]; [|eapply IH; eauto].
    injection E as -> ->. rewrite Hk in H0. exact H0.
  Qed.

  Lemma facet_under_trcl_rejected (sm : smap) cells c (cs : cellsum (T:=T)) k l f mn nm nt4 :
    In (c, cs) cells -> cs_trcl cs = Some k ->
    In l (c_lits c) -> l_facet l = Some f ->
    lookup (l_surf l) sm = Some (mn, (nm, nt4)) -> (f = 0 \/ nm < f)%nat ->
    is_ok (stage_trcl sm cells) = false.
  Proof.
    intros Hin Hk Hlin Hf Hlook Hbad.
    destruct (stage_trcl sm cells) as [[]|e] eqn:E; [|reflexivity]. exfalso.
    pose proof (stage_trcl_all_ok sm cells E c cs k Hin Hk) as H1.
    destruct (transform_lits_all_ok sm k _ H1 l f Hlin Hf) as [mn' [nm' [nt4' [Hl' Hle]]]].
    rewrite Hlook in Hl'. injection Hl' as <- <- <-. lia.
  Qed.
End Facets.
