(* C06 — the option string of a cell card and its tokens: tokenize_options on a
   FILL array written with per-entry transformations in parentheses yields
   exactly flatten_entries ("the code sees the flattened tokens"). *)
From Coq Require Import List ZArith NArith Bool String Ascii Lia.
From T4V Require Import Base.Str Base.Scalar C06.Model C06.ProofsText.
Import ListNotations.
Open Scope string_scope.

(* characters of a token: not a blank, not a separator, unchanged by lower() *)
Definition wchar (c : ascii) : bool :=
  negb (Ascii.eqb c " ") && negb (is_space_like c) && Ascii.eqb (lower_ascii c) c.
(* a token: non-empty, starts with a non-colon, does not end with a colon *)
Fixpoint all_wchar (s : string) : bool :=
  match s with EmptyString => true | String c r => wchar c && all_wchar r end.
Definition ends_colon (s : string) (a : bool) : bool :=
  match last_char s with Some c => Ascii.eqb c ":" | None => a end.
Definition okword (w : string) : Prop :=
  match w with
  | EmptyString => False
  | String c r => Ascii.eqb c ":" = false /\ all_wchar w = true /\ ends_colon w false = false
  end.

Lemma append_assoc_str (a b c : string) : (a ++ b) ++ c = a ++ (b ++ c).
Proof. induction a as [|x a IH]; cbn [append]; [reflexivity|now rewrite IH]. Qed.

Lemma append_nil_r_str (a : string) : a ++ "" = a.
Proof. induction a as [|x a IH]; cbn [append]; [reflexivity|now rewrite IH]. Qed.

Lemma ends_colon_cons c r a : r <> "" -> ends_colon (String c r) a = ends_colon r a.
Proof. intros H. unfold ends_colon. now rewrite (last_char_cons c r H). Qed.

Lemma ends_colon_indep r a b : r <> "" -> ends_colon r a = ends_colon r b.
Proof.
  intros H. unfold ends_colon.
  assert (E : exists c, last_char r = Some c).
  { induction r as [|x r IH]; [contradiction|]. destruct r as [|y r']; [now exists x|].
    destruct IH as [c Hc]; [discriminate|]. exists c. exact Hc. }
  destruct E as [c ->]. reflexivity.
Qed.

(* a run of token characters is appended to the token being built *)
Lemma tok_run : forall w s cur a acc, all_wchar w = true ->
  tokenize_from (w ++ s) cur false a acc = tokenize_from s (cur ++ w) false (ends_colon w a) acc.
Proof.
  induction w as [|c r IH]; intros s cur a acc H.
  - cbn [append]. now rewrite append_nil_r_str.
  - cbn [all_wchar] in H. apply andb_true_iff in H as [Hc Hr].
    unfold wchar in Hc. apply andb_true_iff in Hc as [Hc Hlow]. apply andb_true_iff in Hc as [Hsp Hsl].
    apply negb_true_iff in Hsp, Hsl. apply Ascii.eqb_eq in Hlow.
    cbn [append tokenize_from]. rewrite Hsp.
    assert (Hflag : forall b, ends_colon (String c r) a = match r with "" => b | _ => ends_colon r b end ->
                              True) by trivial.
    destruct (Ascii.eqb c ":") eqn:Ecol.
    + rewrite (IH s (cur ++ ":") true acc Hr). apply Ascii.eqb_eq in Ecol. subst c.
      rewrite append_assoc_str. cbn [append]. f_equal.
      destruct r as [|d r']; [reflexivity|].
      rewrite (ends_colon_cons ":" (String d r') a) by discriminate. apply ends_colon_indep. discriminate.
    + rewrite Hsl, Hlow. rewrite (IH s (cur ++ String c "") false acc Hr).
      rewrite append_assoc_str. cbn [append]. f_equal.
      destruct r as [|d r']; [unfold ends_colon; cbn [last_char]; now rewrite Ecol|].
      rewrite (ends_colon_cons c (String d r') a) by discriminate. apply ends_colon_indep. discriminate.
Qed.

Lemma okword_run w : okword w -> all_wchar w = true /\ ends_colon w false = false /\ w <> "".
Proof. destruct w as [|c r]; [contradiction|]. intros (_ & A & B). repeat split; try assumption. discriminate. Qed.

(* " w": the token being built is closed, w becomes the new one *)
Lemma tok_space_word w s cur acc : okword w ->
  tokenize_from (String " " (w ++ s)) cur false false acc
  = tokenize_from s w false false (push_token cur acc).
Proof.
  intros Hw. destruct w as [|c r]; [contradiction|]. destruct Hw as (Hc & Ha & He).
  cbn [tokenize_from]. rewrite Ascii.eqb_refl.
  cbn [all_wchar] in Ha. apply andb_true_iff in Ha as [Hwc Hr].
  unfold wchar in Hwc. apply andb_true_iff in Hwc as [Hwc Hlow]. apply andb_true_iff in Hwc as [Hsp Hsl].
  apply negb_true_iff in Hsp, Hsl. apply Ascii.eqb_eq in Hlow.
  cbn [append tokenize_from]. rewrite Hsp, Hc, Hsl, Hlow.
  rewrite (tok_run r s (String c "") false (push_token cur acc) Hr). cbn [append]. f_equal.
  destruct r as [|d r']; [reflexivity|]. rewrite ends_colon_cons in He by discriminate. exact He.
Qed.

(* "(w" and "=w": same, whatever the flags *)
Lemma tok_sep_word (sep : ascii) w s cur p a acc : okword w ->
  Ascii.eqb sep " " = false -> Ascii.eqb sep ":" = false -> is_space_like sep = true ->
  tokenize_from (String sep (w ++ s)) cur p a acc
  = tokenize_from s w false false (push_token cur acc).
Proof.
  intros Hw H1 H2 H3. cbn [tokenize_from]. rewrite H1, H2, H3.
  destruct (okword_run w Hw) as (Ha & He & _).
  rewrite (tok_run w s "" false (push_token cur acc) Ha). cbn [append]. now rewrite He.
Qed.

Lemma tok_close s cur p a acc :
  tokenize_from (String ")" s) cur p a acc = tokenize_from s "" false false (push_token cur acc).
Proof. reflexivity. Qed.

(* ---- texts and the tokens they yield ------------------------------------------------ *)
Definition st_tokens (cur : string) (acc : list string) : list string := rev (push_token cur acc).

Lemma st_tokens_push w cur acc : w <> "" -> st_tokens w (push_token cur acc) = (st_tokens cur acc ++ [w])%list.
Proof. intros H. unfold st_tokens. destruct w; [contradiction|]. reflexivity. Qed.

Lemma st_tokens_close cur acc : st_tokens "" (push_token cur acc) = st_tokens cur acc.
Proof. reflexivity. Qed.

Definition yields (text : string) (toks : list string) : Prop :=
  forall rest cur acc, exists cur' acc',
    tokenize_from (text ++ rest) cur false false acc = tokenize_from rest cur' false false acc' /\
    st_tokens cur' acc' = (st_tokens cur acc ++ toks)%list.

Lemma yields_nil : yields "" [].
Proof. intros rest cur acc. exists cur, acc. split; [reflexivity|now rewrite app_nil_r]. Qed.

Lemma yields_app a b ta tb : yields a ta -> yields b tb -> yields (a ++ b) (ta ++ tb)%list.
Proof.
  intros Ha Hb rest cur acc. destruct (Ha (b ++ rest) cur acc) as (c1 & a1 & E1 & T1).
  destruct (Hb rest c1 a1) as (c2 & a2 & E2 & T2). exists c2, a2.
  rewrite append_assoc_str, E1, E2. split; [reflexivity|]. now rewrite T2, T1, app_assoc.
Qed.

Lemma yields_space_word w : okword w -> yields (String " " w) [w].
Proof.
  intros Hw rest cur acc. exists w, (push_token cur acc). cbn [append].
  rewrite (tok_space_word w rest cur acc Hw). split; [reflexivity|].
  apply st_tokens_push. now destruct (okword_run w Hw) as (_ & _ & H).
Qed.

Lemma yields_open_word w : okword w -> yields (String "(" w) [w].
Proof.
  intros Hw rest cur acc. exists w, (push_token cur acc). cbn [append].
  rewrite (tok_sep_word "(" w rest cur false false acc Hw) by reflexivity. split; [reflexivity|].
  apply st_tokens_push. now destruct (okword_run w Hw) as (_ & _ & H).
Qed.

Lemma yields_eq_word w : okword w -> yields (String "=" w) [w].
Proof.
  intros Hw rest cur acc. exists w, (push_token cur acc). cbn [append].
  rewrite (tok_sep_word "=" w rest cur false false acc Hw) by reflexivity. split; [reflexivity|].
  apply st_tokens_push. now destruct (okword_run w Hw) as (_ & _ & H).
Qed.

Lemma yields_close : yields ")" [].
Proof.
  intros rest cur acc. exists "", (push_token cur acc). cbn [append]. rewrite tok_close.
  split; [reflexivity|]. now rewrite st_tokens_close, app_nil_r.
Qed.

(* ---- a FILL array as written ---------------------------------------------------------- *)
Fixpoint spaced (ws : list string) : string :=
  match ws with [] => "" | w :: r => String " " w ++ spaced r end.

Definition render_entry (e : entry) : string :=
  String " " (fst e) ++
  match snd e with
  | [] => ""
  | t :: ts => String "(" t ++ spaced ts ++ ")"
  end.

Fixpoint render_entries (es : list entry) : string :=
  match es with [] => "" | e :: r => render_entry e ++ render_entries r end.

Lemma yields_spaced ws : Forall okword ws -> yields (spaced ws) ws.
Proof.
  induction 1 as [|w r Hw _ IH]; [apply yields_nil|].
  cbn [spaced]. change (w :: r) with ([w] ++ r)%list. apply yields_app; [now apply yields_space_word|exact IH].
Qed.

Lemma yields_entry e : okword (fst e) -> Forall okword (snd e) ->
  yields (render_entry e) (fst e :: snd e).
Proof.
  destruct e as [u tr]. cbn [fst snd]. intros Hu Htr. unfold render_entry. cbn [fst snd].
  change (u :: tr) with ([u] ++ tr)%list. apply yields_app; [now apply yields_space_word|].
  destruct tr as [|t ts]; [apply yields_nil|]. inversion Htr as [|? ? Ht Hts]; subst.
  replace (t :: ts) with ([t] ++ (ts ++ []))%list by (now rewrite app_nil_r).
  apply yields_app; [now apply yields_open_word|].
  apply yields_app; [now apply yields_spaced|apply yields_close].
Qed.

Lemma yields_entries es :
  Forall (fun e : entry => okword (fst e) /\ Forall okword (snd e)) es ->
  yields (render_entries es) (flatten_entries es).
Proof.
  induction 1 as [|e r [Hu Ht] _ IH]; [apply yields_nil|].
  cbn [render_entries flatten_entries flat_map]. fold (flatten_entries r).
  change (fst e :: snd e ++ flatten_entries r)%list with ((fst e :: snd e) ++ flatten_entries r)%list.
  apply yields_app; [now apply yields_entry|exact IH].
Qed.

(* THE STATEMENT: the option text  kw=first more... entries...  with per-entry
   transformations in parentheses is tokenised into kw, the ranges, and the FLATTENED
   entries (universe, transformation tokens, universe, ...) *)
Theorem tokenize_fill_array (kw first : string) (more : list string) (es : list entry) :
  okword kw -> okword first -> Forall okword more ->
  Forall (fun e : entry => okword (fst e) /\ Forall okword (snd e)) es ->
  tokenize_options (kw ++ String "=" first ++ spaced more ++ render_entries es)
  = (kw :: first :: more ++ flatten_entries es)%list.
Proof.
  intros Hkw Hf Hm He. unfold tokenize_options.
  destruct (okword_run kw Hkw) as (Ha & Hc & Hne).
  rewrite (tok_run kw _ "" false [] Ha), Hc. change ("" ++ kw) with kw.
  assert (Y : yields (String "=" first ++ spaced more ++ render_entries es)
                     ([first] ++ more ++ flatten_entries es)%list).
  { apply yields_app; [now apply yields_eq_word|].
    apply yields_app; [now apply yields_spaced|now apply yields_entries]. }
  destruct (Y "" kw []) as (c' & a' & E & T). rewrite append_nil_r_str in E. rewrite E.
  cbn [tokenize_from]. fold (st_tokens c' a'). rewrite T.
  unfold st_tokens. destruct kw; [contradiction|]. reflexivity.
Qed.
