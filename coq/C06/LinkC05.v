(* C06 linked with C05 — the interface assumed by C06_lattice_end_to_end
   ("a transformed cell's region is its image; a filled element's volume is the
   element intersected with the image of each developed leaf cell, carrying
   the leaf's material") derived from C05's theorems about ITS model of
   cell_transform and pot_fill, instantiated at
     T := list R (12 numbers or empty), P := R^3, tr_empty := is_nil.
   C05's files are only read (Require, qualified names). *)
From Coq Require Import List ZArith Bool Reals Lra Lia.
From T4V Require C05.Model C05.Spec C05.Proofs.
From T4V Require Import Base.Scalar C06.Model C06.ProofsIndex C06.ProofsNumeric C06.ProofsDevelop
     C06.ProofsEndToEnd.
Import ListNotations.

Module M5 := T4V.C05.Model.
Module S5 := T4V.C05.Spec.
Module P5 := T4V.C05.Proofs.

Section Link.
Variable surf : Type.
Variable teqb : rtransf -> rtransf -> bool.
Variable tr_surf : rtransf -> surf -> surf.
Variable inv : rtransf -> rvec -> rvec.        (* C05's pull-back of a motion *)
Variable sense : surf -> rvec -> bool.

Notation T := rtransf.
Notation tr_empty := (@is_nil R).

(* the two interface laws of C05 (numeric content: C04) *)
Hypothesis sense_tr : forall t o p, sense (tr_surf t o) p = sense o (inv t p).
Hypothesis teqb_sound : forall a b, teqb a b = true ->
  tr_empty a = tr_empty b /\ forall p, inv a p = inv b p.

Notation state := (M5.state T surf).
Notation cell5 := (M5.cell T).
Notation Den := (S5.Den T surf rvec sense).
Notation DenL := (S5.DenL T surf rvec sense).
Notation LocB := (S5.LocB T surf rvec tr_empty inv sense).
Notation Located := (S5.Located T surf rvec tr_empty inv sense).
Notation Inv := (P5.Inv T surf rvec tr_empty inv sense).
Notation extends := (P5.extends T surf).
Notation Img := (P5.Img T surf rvec sense).
Notation ImgL := (P5.ImgL T surf rvec sense).
Notation cell_transform5 := (M5.cell_transform T surf tr_empty teqb tr_surf).

(* the link between C05's abstract pull-back and C06's concrete point map *)
Definition inverse_of (t : T) : Prop :=
  (forall p, apply_tr t (inv t p) = p) /\ (forall p, inv t (apply_tr t p) = p).

(* ---- replacing the record of a cell by one with the same geometry ------------- *)
Definition gext (s s' : state) : Prop :=
  (forall k v, M5.dget k (M5.s_cells s) = Some v ->
     exists v', M5.dget k (M5.s_cells s') = Some v' /\ M5.c_geom v' = M5.c_geom v) /\
  (forall k v, M5.dget k (M5.s_surfs s) = Some v -> M5.dget k (M5.s_surfs s') = Some v).

Lemma Den_gext s s' p : gext s s' ->
  (forall e b, Den s p e b -> Den s' p e b) /\ (forall es bs, DenL s p es bs -> DenL s' p es bs).
Proof.
  intros [Hc Hs].
  apply (S5.Den_DenL_ind T surf rvec sense s p
           (fun e b _ => Den s' p e b) (fun es bs _ => DenL s' p es bs)).
  - intros x o H. apply S5.DSurf. apply Hs. exact H.
  - intros c cl b H _ IH. destruct (Hc _ _ H) as (v' & Hv & Hg).
    eapply S5.DRef; [exact Hv|]. rewrite Hg. exact IH.
  - intros op args bs _ IH. apply S5.DNode. exact IH.
  - apply S5.DNil.
  - intros e b es bs _ IH1 _ IH2. apply S5.DCons; assumption.
Qed.

Lemma Img_gext s s' f : gext s s' ->
  (forall e e', Img s f e e' -> Img s' f e e') /\ (forall l l', ImgL s f l l' -> ImgL s' f l l').
Proof.
  intros [Hc Hs].
  apply (P5.Img_ImgL_ind T surf rvec sense s f
           (fun e e' _ => Img s' f e e') (fun l l' _ => ImgL s' f l l')).
  - intros x x' o o' H1 H2 H3 H4. eapply P5.ISurf; eauto.
  - intros c c' cl cl' H1 H2 _ IH.
    destruct (Hc _ _ H1) as (v1 & Hv1 & Hg1). destruct (Hc _ _ H2) as (v2 & Hv2 & Hg2).
    eapply P5.IRef; [exact Hv1|exact Hv2|]. rewrite Hg1, Hg2. exact IH.
  - intros c. apply P5.ICompl.
  - intros op args args' _ IH. apply P5.INode. exact IH.
  - apply P5.INil.
  - intros e e' es es' _ IH1 _ IH2. apply P5.ICons; assumption.
Qed.

Definition set_cell (s : state) (k : Z) (c : cell5) : state :=
  M5.mkSt (M5.dset k c (M5.s_cells s)) (M5.s_surfs s) (M5.s_nck s) (M5.s_nsk s)
          (M5.s_cache s) (M5.s_rcache s).

Lemma set_cell_gext s k old c :
  M5.dget k (M5.s_cells s) = Some old -> M5.c_geom c = M5.c_geom old -> gext s (set_cell s k c).
Proof.
  intros Hk Hg. split; cbn [set_cell M5.s_cells M5.s_surfs]; [|auto].
  intros k0 v H. destruct (Z.eq_dec k0 k) as [->|Hne].
  - rewrite P5.dget_dset_same. exists c. split; [reflexivity|]. rewrite Hk in H. now injection H as <-.
  - rewrite P5.dget_dset_other by exact Hne. exists v. now split.
Qed.

Lemma set_cell_Inv s k old c :
  M5.dget k (M5.s_cells s) = Some old -> M5.c_geom c = M5.c_geom old -> Inv s -> Inv (set_cell s k c).
Proof.
  intros Hk Hg [[Hfc Hfs] Hcache]. pose proof (set_cell_gext s k old c Hk Hg) as Hge. split.
  - split; cbn [set_cell M5.s_cells M5.s_surfs M5.s_nck M5.s_nsk]; [|exact Hfs].
    intros k0 H0. rewrite P5.dget_dset_other; [now apply Hfc|].
    intros ->. rewrite (Hfc _ H0) in Hk. discriminate.
  - intros k0 t v Hin. cbn [set_cell M5.s_cache] in Hin. specialize (Hcache k0 t v Hin).
    unfold P5.entry_ok in *. destruct (tr_empty t); [exact Hcache|].
    exact (proj1 (Img_gext s _ (inv t) Hge) _ _ Hcache).
Qed.

(* ---- the stateful half of develop_lattice over C05's table ----------------------
   for each element: new_cell_key = cell_transform(key, trnsf, cache=False), then
   the new cell receives fillid (None = own material kept), filltr, lattice = None *)
Definition elem_record (cl : cell5) (e : relem) : cell5 :=
  M5.mkCell (M5.c_mat cl) (M5.c_rho cl) (M5.c_geom cl) (M5.c_imp cl) (M5.c_univ cl)
            (ne_fill e) (Some (ne_filltr e)) 0%Z (M5.c_trcl cl) (M5.c_orig cl).

Definition develop_step (fuel : nat) (latkey : Z) (e : relem) (s : state) : M5.res (Z * state) :=
  match cell_transform5 fuel latkey (ne_trnsf e) false s with
  | M5.Err x => M5.Err x
  | M5.Ok (k, s1) =>
      match M5.dget k (M5.s_cells s1) with
      | None => M5.Err M5.EKey
      | Some cl => M5.Ok (k, set_cell s1 k (elem_record cl e))
      end
  end.

Definition develop_state (fuel : nat) (latkey : Z) (elems : list relem) (s : state)
  : M5.res (list Z * state) :=
  M5.mapM_st (develop_step fuel latkey) elems s.

(* what the cell [k] of the table [s] is for the element [e] of the lattice cell
   [latkey] of the table [s0]: the lattice cell's record with the element's fill
   and fill transformation, and (C05_cell_transform_den) the value of the lattice
   cell at the pulled-back point *)
Definition ElemCell (s0 : state) (latkey : Z) (lcl : cell5) (s : state) (e : relem) (k : Z) : Prop :=
  exists cl, M5.dget k (M5.s_cells s) = Some cl /\
    M5.c_fill cl = ne_fill e /\ M5.c_filltr cl = Some (ne_filltr e) /\
    M5.c_mat cl = M5.c_mat lcl /\ M5.c_rho cl = M5.c_rho lcl /\ M5.c_orig cl = M5.c_orig lcl /\
    M5.dget k (M5.s_cells s0) = None /\
    forall p b, Den s0 (inv (ne_trnsf e) p) (M5.TRef latkey) b -> Den s p (M5.TRef k) b.

Lemma develop_step_spec fuel latkey lcl e (s : state) k s2 :
  Inv s -> M5.dget latkey (M5.s_cells s) = Some lcl -> is_nil (ne_trnsf e) = false ->
  develop_step fuel latkey e s = M5.Ok (k, s2) ->
  Inv s2 /\ extends s s2 /\ ElemCell s latkey lcl s2 e k.
Proof.
  intros HI Hlat Hne H. unfold develop_step in H.
  destruct (cell_transform5 fuel latkey (ne_trnsf e) false s) as [[k1 s1]|x] eqn:E; [|discriminate].
  destruct (P5.cell_transform_den T surf rvec tr_empty teqb tr_surf inv sense sense_tr teqb_sound
              fuel latkey (ne_trnsf e) false s k1 s1 HI E) as (HI1 & Hx1 & HD1).
  (* the record and the freshness of the new key: one step of the model *)
  assert (Hrec : exists g', M5.dget k1 (M5.s_cells s1) = Some (M5.with_geom lcl g') /\
                            M5.dget k1 (M5.s_cells s) = None).
  { destruct fuel as [|f]; [discriminate E|]. cbn [M5.cell_transform] in E. rewrite Hne, Hlat in E.
    destruct (M5.pot_transform_gen T surf tr_surf
                (fun c => M5.cell_transform T surf tr_empty teqb tr_surf f c (ne_trnsf e) true)
                (ne_trnsf e) (M5.c_geom lcl) s) as [[g' s1a]|x] eqn:Eg; [|discriminate E].
    injection E as <- <-.
    destruct (P5.ptg_spec T surf rvec tr_empty tr_surf inv sense sense_tr
                (fun c => M5.cell_transform T surf tr_empty teqb tr_surf f c (ne_trnsf e) true)
                (ne_trnsf e)) with (e := M5.c_geom lcl) (s := s) (e' := g') (s' := s1a)
      as (HIa & Hxa & _); [|exact HI|exact Eg|].
    - intros c s3 k3 s4 HI3 H3.
      destruct (P5.cell_transform_spec T surf rvec tr_empty teqb tr_surf inv sense sense_tr teqb_sound
                  f c (ne_trnsf e) true s3 k3 s4 HI3 H3) as (A & B & C).
      split; [exact A|]. split; [exact B|]. unfold P5.entry_ok in C. rewrite Hne in C. exact C.
    - exists g'. cbn [M5.s_cells]. split; [apply P5.dget_dset_same|].
      destruct (M5.dget (M5.s_nck s1a + 1)%Z (M5.s_cells s)) as [v|] eqn:Ev; [|reflexivity].
      apply (proj1 Hxa) in Ev. rewrite (proj1 (proj1 HIa)) in Ev by lia. discriminate. }
  destruct Hrec as (g' & Hk1 & Hfresh). rewrite Hk1 in H. injection H as <- <-.
  assert (Hgeom : M5.c_geom (elem_record (M5.with_geom lcl g') e) = M5.c_geom (M5.with_geom lcl g'))
    by reflexivity.
  pose proof (set_cell_gext s1 k1 _ _ Hk1 Hgeom) as Hge.
  split; [exact (set_cell_Inv s1 k1 _ _ Hk1 Hgeom HI1)|]. split.
  - split; cbn [set_cell M5.s_cells M5.s_surfs]; [|exact (proj2 Hx1)].
    intros k0 v H0. rewrite P5.dget_dset_other; [exact (proj1 Hx1 _ _ H0)|].
    intros ->. rewrite Hfresh in H0. discriminate.
  - exists (elem_record (M5.with_geom lcl g') e). cbn [set_cell M5.s_cells].
    rewrite P5.dget_dset_same. repeat split; try reflexivity; [exact Hfresh|].
    intros p b HD. apply (proj1 (Den_gext s1 _ p Hge)). apply HD1.
    unfold S5.act. rewrite Hne. exact HD.
Qed.

Lemma ElemCell_later s0 latkey lcl s1 s2 e k :
  extends s1 s2 -> ElemCell s0 latkey lcl s1 e k -> ElemCell s0 latkey lcl s2 e k.
Proof.
  intros Hx (cl & Hk & H1 & H2 & H3 & H4 & H5 & H6 & HD).
  exists cl. split; [exact (proj1 Hx _ _ Hk)|]. repeat split; try assumption.
  intros p b H. apply (proj1 (P5.Den_mono T surf rvec sense s1 s2 p Hx)). now apply HD.
Qed.

Lemma ElemCell_earlier s0 s1 latkey lcl s2 e k :
  extends s0 s1 -> ElemCell s1 latkey lcl s2 e k -> ElemCell s0 latkey lcl s2 e k.
Proof.
  intros Hx (cl & Hk & H1 & H2 & H3 & H4 & H5 & H6 & HD).
  exists cl. repeat split; try assumption.
  - destruct (M5.dget k (M5.s_cells s0)) as [v|] eqn:Ev; [|reflexivity].
    apply (proj1 Hx) in Ev. rewrite H6 in Ev. discriminate.
  - intros p b H. apply HD. exact (proj1 (P5.Den_mono T surf rvec sense s0 s1 _ Hx) _ _ H).
Qed.

Lemma develop_state_spec fuel latkey lcl : forall elems (s : state) keys s',
  Inv s -> M5.dget latkey (M5.s_cells s) = Some lcl ->
  Forall (fun e : relem => is_nil (ne_trnsf e) = false) elems ->
  develop_state fuel latkey elems s = M5.Ok (keys, s') ->
  Inv s' /\ extends s s' /\ Forall2 (ElemCell s latkey lcl s') elems keys.
Proof.
  induction elems as [|e r IH]; intros s keys s' HI Hlat Hne H.
  - cbn in H. injection H as <- <-. split; [exact HI|]. split; [apply P5.extends_refl|constructor].
  - unfold develop_state in H. cbn [M5.mapM_st] in H.
    destruct (develop_step fuel latkey e s) as [[k s1]|x] eqn:E1; [|discriminate].
    destruct (M5.mapM_st (develop_step fuel latkey) r s1) as [[ks' s2]|x] eqn:E2; [|discriminate].
    injection H as <- <-. inversion Hne as [|? ? He Hr]; subst.
    destruct (develop_step_spec fuel latkey lcl e s k s1 HI Hlat He E1) as (HI1 & Hx1 & HE1).
    destruct (IH s1 ks' s2 HI1 (proj1 Hx1 _ _ Hlat) Hr E2) as (HI2 & Hx2 & HF).
    split; [exact HI2|]. split; [exact (P5.extends_trans T surf _ _ _ Hx1 Hx2)|].
    constructor; [exact (ElemCell_later _ _ _ _ _ _ _ Hx2 HE1)|].
    clear - HF Hx1. induction HF as [|e' k' l l' H _ IHf]; constructor; [|exact IHf].
    exact (ElemCell_earlier _ _ _ _ _ _ _ Hx1 H).
Qed.

(* the transformations develop_lattice produces are never empty *)
Lemma develop_one_is12 (cell : rcell) (vecs : list rvec) (iu : list Z * Z) l :
  cell_shape_ok cell -> develop_one RS cell vecs iu = Ok l ->
  Forall (fun e : relem => is12 (ne_trnsf e) /\ is12 (ne_filltr e)) l.
Proof.
  intros [Hf Ht] H. destruct iu as [idx u]. unfold develop_one in H.
  destruct (u =? 0)%Z; [injection H as <-; constructor|].
  destruct (latticeVector RS vecs idx) as [[tx ty] tz].
  change ([tx; ty; tz] ++ identity9 RS) with (translation_of (tx, ty, tz)) in H.
  destruct Hf as [Hf | Hf].
  - rewrite Hf in H. cbn [is_nil negb andb bind] in H.
    destruct Ht as [Ht | (T0 & Ht & HT)].
    + rewrite Ht in H. cbn [is_nil negb andb bind] in H. injection H as <-.
      constructor; [|constructor]. split; reflexivity.
    + rewrite Ht in H. cbn [is_nil negb andb fold_trcl] in H.
      destruct (compose_transform_point T0 (tx, ty, tz) HT) as (c & Hc & H12 & _).
      rewrite Hc in H. cbn [bind] in H. injection H as <-.
      constructor; [|constructor]. split; [reflexivity|exact H12].
  - destruct (compose_transform_point (lc_filltr cell) (tx, ty, tz) Hf) as (c & Hc & H12 & _).
    assert (Hnil : is_nil (lc_filltr cell) = false)
      by (destruct (lc_filltr cell); [discriminate Hf|reflexivity]).
    rewrite Hnil, Hc in H. cbn [bind andb] in H. rewrite Bool.andb_false_r in H. cbn [bind] in H.
    injection H as <-. constructor; [|constructor]. split; [reflexivity|exact H12].
Qed.

Lemma develop_loop_is12 (cell : rcell) (vecs : list rvec) : forall its l,
  cell_shape_ok cell -> develop_loop RS cell vecs its = Ok l ->
  Forall (fun e : relem => is12 (ne_trnsf e) /\ is12 (ne_filltr e)) l.
Proof.
  induction its as [|iu r IH]; intros l Hs H; cbn [develop_loop] in H.
  - injection H as <-. constructor.
  - destruct (develop_one RS cell vecs iu) as [l1|] eqn:E1; [|discriminate]. cbn [bind] in H.
    destruct (develop_loop RS cell vecs r) as [l2|] eqn:E2; [|discriminate]. cbn [bind] in H.
    injection H as <-. apply Forall_app. split; [exact (develop_one_is12 _ _ _ _ Hs E1)|now apply IH].
Qed.

Lemma develop_lattice_is12 (cell : rcell) (vecs : list rvec) elems :
  cell_shape_ok cell -> develop_lattice_with RS (Ok vecs) cell = Ok elems ->
  Forall (fun e : relem => is12 (ne_trnsf e) /\ is12 (ne_filltr e)) elems.
Proof.
  intros Hs H. unfold develop_lattice_with in H.
  destruct (lc_fill cell) as [| |bs0 spec0]; try discriminate.
  cbn [bind] in H. destruct (dimension_checks (List.length vecs) bs0); [|discriminate]. cbn [bind] in H.
  destruct (items bs0 spec0) as [its|]; [|discriminate]. cbn [bind] in H.
  exact (develop_loop_is12 cell vecs its elems Hs H).
Qed.

Lemma is12_not_nil (t : T) : is12 t -> is_nil t = false.
Proof. destruct t; [discriminate|reflexivity]. Qed.

Lemma Forall2_pick {A B} (R1 R2 : A -> B -> Prop) (l : list A) (l' : list B) b :
  Forall2 R1 l l' -> Forall2 R2 l l' -> In b l' -> exists a, In a l /\ R1 a b /\ R2 a b.
Proof.
  intros H1. revert b. induction H1 as [|x y l l' Hxy _ IH]; intros b H2 Hin; [contradiction|].
  inversion H2; subst. destruct Hin as [<-|Hin].
  - exists x. split; [now left|]. now split.
  - destruct (IH b ltac:(assumption) Hin) as (a & Ha & Hr). exists a. split; [now right|exact Hr].
Qed.

Lemma Forall2_In_l {A B} (R : A -> B -> Prop) l l' a :
  Forall2 R l l' -> In a l -> exists b, In b l' /\ R a b.
Proof.
  induction 1 as [|x y l l' Hxy _ IH]; intros Hin; [contradiction|].
  destruct Hin as [<-|Hin]; [exists y; split; [now left|exact Hxy]|].
  destruct (IH Hin) as (b & Hb & Hr). exists b. split; [now right|exact Hr].
Qed.

(* ---- the linked end-to-end statement ------------------------------------------------ *)
Section Linked.
Variable cell : rcell.
Variable vecs : list rvec.
Variables (bs : bounds) (spec : list Z).
Hypothesis Hfill : lc_fill cell = FSpec bs spec.
Hypothesis Hne : bs <> [].
Hypothesis Hwf : wf_bounds bs.
Hypothesis Hlen : Z.of_nat (List.length spec) = size bs.
Hypothesis Hn : (List.length vecs <= List.length bs)%nat.
Hypothesis Hpad : Forall trivial_range (skipn (List.length vecs) bs).
Hypothesis Hshape : cell_shape_ok cell.

Theorem lattice_end_to_end_linked :
  exists elems, develop_lattice_with RS (Ok vecs) cell = Ok elems /\
  forall (fuel cf : nat) (s0 s1 s2 : state) (latkey : Z) (lcl : cell5) (keys : list Z)
         (du : list (Z * list Z)) (ifd ifg : bool) (key : Z) (kcl : cell5) (U : Z) (ks : list Z),
  (* C05's pull-back is the inverse of C06's point map on the transformations produced *)
  Forall (fun e : relem => inverse_of (ne_trnsf e) /\ inverse_of (ne_filltr e)) elems ->
  (* the table before the lattice is developed, and its development (cell_transform of C05) *)
  Inv s0 -> M5.dget latkey (M5.s_cells s0) = Some lcl ->
  develop_state fuel latkey elems s0 = M5.Ok (keys, s1) ->
  (* a container filled with the lattice's universe, whose cells are the elements *)
  M5.dget key (M5.s_cells s1) = Some kcl -> M5.c_fill kcl = Some U ->
  (forall k, In k keys -> In k (M5.du_get U du)) ->
  (forall c cl, M5.dget c (M5.s_cells s1) = Some cl -> M5.c_orig cl = []) ->
  (forall u c, In c (M5.du_get u du) -> exists cl, M5.dget c (M5.s_cells s1) = Some cl) ->
  M5.pot_fill T surf tr_empty teqb tr_surf fuel cf du ifd ifg key s1 = M5.Ok (ks, s2) ->
  forall idx, in_ranges idx bs ->
    let t := lattice_point vecs idx in
    let u := nth (Z.to_nat (flat_index bs idx)) spec 0%Z in
    u <> 0%Z ->
    forall p, let p' := S5.frame T rvec tr_empty inv kcl p in
    Den s1 p (M5.c_geom kcl) true ->                          (* p is in the container *)
    Den s0 (vdiff RS p' t) (M5.TRef latkey) true ->            (* p' - t is in the unit cell *)
    (* own universe: a generated cell, true at p, with the lattice cell's material *)
    (u = lc_universe cell ->
       exists k ncl, In k ks /\ M5.dget k (M5.s_cells s2) = Some ncl /\ Den s2 p (M5.TRef k) true /\
                     M5.c_fill ncl = None /\ M5.c_mat ncl = M5.c_mat lcl /\ M5.c_rho ncl = M5.c_rho lcl) /\
    (* another universe: for the descent ch below a cell c of universe u that locates the
       point q with p' = t + placement(q): a generated cell, true at p, with the material of
       the last cell of ch and the provenance of the whole descent *)
    (u <> lc_universe cell ->
       forall q c ch, In c (M5.du_get u du) -> p' = vadd RS (placement cell q) t ->
       Located s1 du c q ch ->
       exists k ke ncl lfl, In k ks /\ In ke keys /\
         M5.dget k (M5.s_cells s2) = Some ncl /\ Den s2 p (M5.TRef k) true /\
         M5.dget (last ch 0%Z) (M5.s_cells s1) = Some lfl /\
         M5.c_fill ncl = None /\ M5.c_mat ncl = M5.c_mat lfl /\ M5.c_rho ncl = M5.c_rho lfl /\
         M5.c_orig ncl = S5.prov (key :: ke :: ch)).
Proof.
  destruct (develop_lattice_located_ranges cell vecs bs spec Hfill Hne Hwf Hlen Hn Hpad Hshape)
    as (elems & H1 & H2 & _ & H4).
  exists elems. split; [exact H1|].
  intros fuel cf s0 s1 s2 latkey lcl keys du ifd ifg key kcl U ks Hinv HI0 Hlat Hdev Hkey HU Hkeys
         Horig Hdu Hpf idx Hidx t u Hu p p' Hcont Hunit.
  pose proof (develop_lattice_is12 cell vecs elems Hshape H1) as H12.
  assert (Hnn : Forall (fun e : relem => is_nil (ne_trnsf e) = false) elems).
  { eapply Forall_impl; [|exact H12]. intros e [A _]. now apply is12_not_nil. }
  destruct (develop_state_spec fuel latkey lcl elems s0 keys s1 HI0 Hlat Hnn Hdev) as (HI1 & Hx01 & HF).
  destruct (P5.pot_fill_located T surf rvec tr_empty teqb tr_surf inv sense sense_tr teqb_sound
              fuel cf du ifd ifg key s1 ks s2 HI1 Horig Hdu (ex_intro _ kcl Hkey) Hpf)
    as (_ & _ & chs & HP & HRep & HLoc).
  (* the element of this index *)
  pose proof (develop_lattice_complete cell vecs bs spec elems Hne Hwf Hlen H2) as Hcomp.
  assert (Hidx' : In idx (map (@ne_index R) elems)) by (apply Hcomp; now split).
  apply in_map_iff in Hidx' as (e & Hei & He).
  rewrite Forall_forall in H4, H12, Hinv.
  destruct (H4 e He) as (_ & _ & (Htr & Hf & Hftr)). cbv zeta in Htr, Hf, Hftr.
  rewrite Hei in Htr, Hf, Hftr. fold t in Htr, Hftr. fold u in Hf.
  destruct (H12 e He) as [H12a H12b]. destruct (Hinv e He) as [[Ia1 Ia2] [Ib1 Ib2]].
  destruct (Forall2_In_l _ _ _ e HF He) as (ke & Hke & (cl & Hcl & Ef & Eft & Em & Er & Eo & _ & HD)).
  (* the element cell is true at p' *)
  assert (Hpull : inv (ne_trnsf e) p' = vdiff RS p' t).
  { rewrite <- (vadd_vdiff p' t) at 1. rewrite <- Htr. apply Ia2. }
  assert (Helem : Den s1 p' (M5.c_geom cl) true).
  { rewrite <- Hpull in Hunit. apply HD in Hunit.
    destruct (P5.Den_ref_inv T surf rvec sense _ _ _ _ Hunit) as (cl' & Hc' & Hg).
    rewrite Hcl in Hc'. now injection Hc' as <-. }
  split.
  - intros Eu.
    assert (Hfe : M5.c_fill cl = None) by (rewrite Ef, Hf; replace (u =? lc_universe cell)%Z with true by lia; reflexivity).
    assert (HL : Located s1 du key p [key; ke]).
    { unfold S5.Located.
      refine (S5.LBFill T surf rvec tr_empty inv sense s1 du key kcl U p ke [ke] true true
                Hkey HU (Hkeys _ Hke) Hcont _).
      eapply S5.LBLeaf; [exact Hcl|exact Hfe|exact Helem]. }
    destruct (HLoc p _ HL) as (Hin & HV).
    destruct (Forall2_pick _ _ _ _ _ HRep HV Hin) as (k & Hk & (ncl & lfl & R1 & R2 & R3 & _ & R5 & R6 & _) & (V1 & _)).
    exists k, ncl. split; [exact Hk|]. split; [exact R1|]. split; [now apply V1|].
    cbn [last] in R2. rewrite Hcl in R2. injection R2 as <-.
    split; [exact R3|]. split; [now rewrite R5|now rewrite R6].
  - intros Eu q c ch Hc Hp' HLc.
    assert (Hfe : M5.c_fill cl = Some u) by (rewrite Ef, Hf; replace (u =? lc_universe cell)%Z with false by lia; reflexivity).
    assert (Hframe : S5.frame T rvec tr_empty inv cl p' = q).
    { unfold S5.frame. rewrite Eft, (is12_not_nil _ H12b). rewrite Hp', <- Hftr. apply Ib2. }
    assert (HL : Located s1 du key p (key :: ke :: ch)).
    { unfold S5.Located.
      refine (S5.LBFill T surf rvec tr_empty inv sense s1 du key kcl U p ke (ke :: ch) true (true && true)
                Hkey HU (Hkeys _ Hke) Hcont _).
      refine (S5.LBFill T surf rvec tr_empty inv sense s1 du ke cl u p' c ch true true
                Hcl Hfe Hc Helem _).
      rewrite Hframe. exact HLc. }
    destruct (HLoc p _ HL) as (Hin & HV).
    destruct (Forall2_pick _ _ _ _ _ HRep HV Hin) as (k & Hk & (ncl & lfl & R1 & R2 & R3 & R4 & R5 & R6 & _) & (V1 & _)).
    exists k, ke, ncl, lfl. split; [exact Hk|]. split; [exact Hke|]. split; [exact R1|].
    split; [now apply V1|].
    assert (Hlast : last (key :: ke :: ch) 0%Z = last ch 0%Z).
    { destruct HLc; reflexivity. }
    rewrite Hlast in R2. repeat split; assumption.
Qed.

(* ---- the converse: a generated cell that is true at p comes from the element and the
   descent that locate p.  C05's Den is partial (a tree has a value only where its
   surfaces and cells exist), so "defined" hypotheses are needed: every descent below the
   container has a value at p, and the lattice cell has a value everywhere. ------------- *)
Lemma Forall2_In_r {A B} (R : A -> B -> Prop) l l' b :
  Forall2 R l l' -> In b l' -> exists a, In a l /\ R a b.
Proof.
  induction 1 as [|x y l l' Hxy _ IH]; intros Hin; [contradiction|].
  destruct Hin as [<-|Hin]; [exists x; split; [now left|exact Hxy]|].
  destruct (IH Hin) as (a & Ha & Hr). exists a. split; [now right|exact Hr].
Qed.

Ltac split_andb :=
  match goal with
  | H : (?a && ?b)%bool = true |- _ => apply andb_true_iff in H; destruct H as [-> ->]
  | H : true = (?a && ?b)%bool |- _ => symmetry in H; apply andb_true_iff in H; destruct H as [-> ->]
  end.

Theorem lattice_end_to_end_linked_conv :
  exists elems, develop_lattice_with RS (Ok vecs) cell = Ok elems /\
  forall (fuel cf : nat) (s0 s1 s2 : state) (latkey : Z) (lcl : cell5) (keys : list Z)
         (du : list (Z * list Z)) (ifd ifg : bool) (key : Z) (kcl : cell5) (U : Z) (ks : list Z),
  Forall (fun e : relem => inverse_of (ne_trnsf e) /\ inverse_of (ne_filltr e)) elems ->
  Inv s0 -> M5.dget latkey (M5.s_cells s0) = Some lcl ->
  develop_state fuel latkey elems s0 = M5.Ok (keys, s1) ->
  M5.dget key (M5.s_cells s1) = Some kcl -> M5.c_fill kcl = Some U ->
  (* the lattice universe consists of the element cells, and only of them *)
  (forall k, In k (M5.du_get U du) -> In k keys) ->
  (forall c cl, M5.dget c (M5.s_cells s1) = Some cl -> M5.c_orig cl = []) ->
  (forall u c, In c (M5.du_get u du) -> exists cl, M5.dget c (M5.s_cells s1) = Some cl) ->
  M5.pot_fill T surf tr_empty teqb tr_surf fuel cf du ifd ifg key s1 = M5.Ok (ks, s2) ->
  forall p, let p' := S5.frame T rvec tr_empty inv kcl p in
  (* definedness *)
  (forall ch chs, S5.Paths T surf s1 du key chs -> In ch chs -> exists b, LocB s1 du key p ch b) ->
  (forall q, exists b, Den s0 q (M5.TRef latkey) b) ->
  forall k ncl, In k ks -> M5.dget k (M5.s_cells s2) = Some ncl -> Den s2 p (M5.TRef k) true ->
  exists idx, in_ranges idx bs /\
    let t := lattice_point vecs idx in
    let u := nth (Z.to_nat (flat_index bs idx)) spec 0%Z in
    u <> 0%Z /\ Den s1 p (M5.c_geom kcl) true /\ Den s0 (vdiff RS p' t) (M5.TRef latkey) true /\
    ((u = lc_universe cell /\ M5.c_mat ncl = M5.c_mat lcl /\ M5.c_rho ncl = M5.c_rho lcl) \/
     (u <> lc_universe cell /\
      exists q c ch lfl, In c (M5.du_get u du) /\ p' = vadd RS (placement cell q) t /\
        Located s1 du c q ch /\ M5.dget (last ch 0%Z) (M5.s_cells s1) = Some lfl /\
        M5.c_mat ncl = M5.c_mat lfl /\ M5.c_rho ncl = M5.c_rho lfl)).
Proof.
  destruct (develop_lattice_located_ranges cell vecs bs spec Hfill Hne Hwf Hlen Hn Hpad Hshape)
    as (elems & H1 & H2 & _ & H4).
  exists elems. split; [exact H1|].
  intros fuel cf s0 s1 s2 latkey lcl keys du ifd ifg key kcl U ks Hinv HI0 Hlat Hdev Hkey HU Hkeys
         Horig Hdu Hpf p p' Hdef Hdef0 k ncl Hk Hncl Htrue.
  pose proof (develop_lattice_is12 cell vecs elems Hshape H1) as H12.
  assert (Hnn : Forall (fun e : relem => is_nil (ne_trnsf e) = false) elems).
  { eapply Forall_impl; [|exact H12]. intros e [A _]. now apply is12_not_nil. }
  destruct (develop_state_spec fuel latkey lcl elems s0 keys s1 HI0 Hlat Hnn Hdev) as (HI1 & Hx01 & HF).
  destruct (P5.pot_fill_located T surf rvec tr_empty teqb tr_surf inv sense sense_tr teqb_sound
              fuel cf du ifd ifg key s1 ks s2 HI1 Horig Hdu (ex_intro _ kcl Hkey) Hpf)
    as (_ & _ & chs & HP & HRep & _).
  destruct (Forall2_In_l _ _ _ k HRep Hk) as (ch & Hch & (ncl' & lfl & R1 & R2 & _ & _ & R5 & R6 & R7 & _)).
  rewrite Hncl in R1. injection R1 as <-.
  destruct (Hdef ch chs HP Hch) as (b & HL).
  assert (Hb : b = true).
  { pose proof (R7 p b HL) as HD.
    destruct (P5.Den_ref_inv T surf rvec sense _ _ _ _ Htrue) as (cl0 & Hc0 & Hg0).
    rewrite Hncl in Hc0. injection Hc0 as <-.
    exact (proj1 (P5.Den_fun T surf rvec sense s2 p) _ _ HD _ Hg0). }
  subst b.
  (* the container level *)
  inversion HL as [? cl0 ? ? Hc0 Hf0 _ | ? cl0 u0 ? c0 chain b1 b2 Hc0 Hf0 Hin0 HD0 HL0 E1 E2 E3 E4];
    subst; rewrite Hkey in Hc0; injection Hc0 as <-; [rewrite HU in Hf0; discriminate|].
  rewrite HU in Hf0. injection Hf0 as <-.
  split_andb.
  fold p' in HL0.
  destruct (Forall2_In_r _ _ _ c0 HF (Hkeys _ Hin0)) as (e & He & (cl & Hcl & Ef & Eft & Em & Er & Eo & _ & HD)).
  rewrite Forall_forall in H4, H12, Hinv.
  destruct (H4 e He) as (Hrange & Hu & (Htr & Hf & Hftr)). cbv zeta in Hu, Htr, Hf, Hftr.
  destruct (H12 e He) as [H12a H12b]. destruct (Hinv e He) as [[Ia1 Ia2] [Ib1 Ib2]].
  exists (ne_index e). split; [exact Hrange|]. cbv zeta.
  set (t := lattice_point vecs (ne_index e)) in *.
  set (u := nth (Z.to_nat (flat_index bs (ne_index e))) spec 0%Z) in *.
  assert (Hpull : inv (ne_trnsf e) p' = vdiff RS p' t).
  { rewrite <- (vadd_vdiff p' t) at 1. rewrite <- Htr. apply Ia2. }
  (* the element cell is true at p', hence the unit cell at p' - t *)
  assert (Hunit : forall cle, M5.dget c0 (M5.s_cells s1) = Some cle -> Den s1 p' (M5.c_geom cle) true ->
                              Den s0 (vdiff RS p' t) (M5.TRef latkey) true).
  { intros cle Hcle Hg. destruct (Hdef0 (inv (ne_trnsf e) p')) as (b0 & Hb0).
    pose proof (HD p' b0 Hb0) as Hf1.
    assert (Ht1 : Den s1 p' (M5.TRef c0) true) by (eapply S5.DRef; eauto).
    rewrite (proj1 (P5.Den_fun T surf rvec sense s1 p') _ _ Hf1 _ Ht1) in Hb0.
    rewrite Hpull in Hb0. exact Hb0. }
  split; [exact Hu|]. split; [exact HD0|].
  inversion HL0 as [? cle ? ? Hce Hfe HDe | ? cle u1 ? c1 chain1 b1 b2 Hce Hfe Hin1 HDe HL1 F1 F2 F3 F4]; subst.
  - (* the element is a leaf: own universe *)
    split; [exact (Hunit cle Hce HDe)|]. left.
    rewrite Hcl in Hce. injection Hce as <-.
    rewrite Ef, Hf in Hfe. destruct (u =? lc_universe cell)%Z eqn:Eu; [|discriminate].
    cbn [last] in R2. rewrite Hcl in R2. injection R2 as <-.
    split; [lia|]. split; [now rewrite R5|now rewrite R6].
  - split_andb.
    split; [exact (Hunit cle Hce HDe)|]. right.
    rewrite Hcl in Hce. injection Hce as <-.
    rewrite Ef, Hf in Hfe. destruct (u =? lc_universe cell)%Z eqn:Eu; [discriminate|]. injection Hfe as <-.
    split; [lia|].
    assert (Hframe : S5.frame T rvec tr_empty inv cl p' = inv (ne_filltr e) p')
      by (unfold S5.frame; rewrite Eft, (is12_not_nil _ H12b); reflexivity).
    rewrite Hframe in HL1.
    exists (inv (ne_filltr e) p'), c1, chain1, lfl. split; [exact Hin1|]. split.
    + rewrite <- Hftr. symmetry. apply Ib1.
    + split; [exact HL1|].
      assert (Hlast : last (key :: c0 :: chain1) 0%Z = last chain1 0%Z) by (destruct HL1; reflexivity).
      rewrite Hlast in R2. now repeat split.
Qed.

(* ---- round 4: provenance in the own-universe branch, and "no other returned cell is
   true at p" (C05's Verdict under universe_partition) -------------------------------- *)
Lemma Forall2_combine_In {A B} (R : A -> B -> Prop) l l' a b :
  Forall2 R l l' -> In (a, b) (combine l l') -> R a b.
Proof.
  induction 1 as [|x y l l' Hxy _ IH]; intros Hin; [contradiction|].
  cbn [combine In] in Hin. destruct Hin as [E|Hin]; [injection E as <- <-; exact Hxy|now apply IH].
Qed.

(* the other returned cells: false at p whenever their descent has a value there *)
Definition others_false (s1 s2 : state) (du : list (Z * list Z)) (key : Z) (ks : list Z)
           (p : rvec) (ch : list Z) : Prop :=
  S5.universe_partition T surf rvec sense s1 du ->
  exists chs, Forall2 (S5.Represents T surf rvec tr_empty inv sense s1 du s2 key) ks chs /\ In ch chs /\
    forall k' ch', In (k', ch') (combine ks chs) -> ch' <> ch ->
      (exists b', LocB s1 du key p ch' b') -> Den s2 p (M5.TRef k') false.

Theorem lattice_unique_owner_linked :
  exists elems, develop_lattice_with RS (Ok vecs) cell = Ok elems /\
  forall (fuel cf : nat) (s0 s1 s2 : state) (latkey : Z) (lcl : cell5) (keys : list Z)
         (du : list (Z * list Z)) (ifd ifg : bool) (key : Z) (kcl : cell5) (U : Z) (ks : list Z),
  Forall (fun e : relem => inverse_of (ne_trnsf e) /\ inverse_of (ne_filltr e)) elems ->
  Inv s0 -> M5.dget latkey (M5.s_cells s0) = Some lcl ->
  develop_state fuel latkey elems s0 = M5.Ok (keys, s1) ->
  M5.dget key (M5.s_cells s1) = Some kcl -> M5.c_fill kcl = Some U ->
  (forall k, In k keys -> In k (M5.du_get U du)) ->
  (forall c cl, M5.dget c (M5.s_cells s1) = Some cl -> M5.c_orig cl = []) ->
  (forall u c, In c (M5.du_get u du) -> exists cl, M5.dget c (M5.s_cells s1) = Some cl) ->
  M5.pot_fill T surf tr_empty teqb tr_surf fuel cf du ifd ifg key s1 = M5.Ok (ks, s2) ->
  forall idx, in_ranges idx bs ->
    let t := lattice_point vecs idx in
    let u := nth (Z.to_nat (flat_index bs idx)) spec 0%Z in
    u <> 0%Z ->
    forall p, let p' := S5.frame T rvec tr_empty inv kcl p in
    Den s1 p (M5.c_geom kcl) true ->
    Den s0 (vdiff RS p' t) (M5.TRef latkey) true ->
    (* own universe: the returned cell, its provenance (lattice element, container), and
       every other returned cell is false at p *)
    (u = lc_universe cell ->
       exists k ke ncl, In k ks /\ In ke keys /\ M5.dget k (M5.s_cells s2) = Some ncl /\
         Den s2 p (M5.TRef k) true /\ M5.c_fill ncl = None /\
         M5.c_mat ncl = M5.c_mat lcl /\ M5.c_rho ncl = M5.c_rho lcl /\
         M5.c_orig ncl = S5.prov [key; ke] /\ others_false s1 s2 du key ks p [key; ke]) /\
    (u <> lc_universe cell ->
       forall q c ch, In c (M5.du_get u du) -> p' = vadd RS (placement cell q) t ->
       Located s1 du c q ch ->
       exists k ke ncl lfl, In k ks /\ In ke keys /\
         M5.dget k (M5.s_cells s2) = Some ncl /\ Den s2 p (M5.TRef k) true /\
         M5.dget (last ch 0%Z) (M5.s_cells s1) = Some lfl /\
         M5.c_fill ncl = None /\ M5.c_mat ncl = M5.c_mat lfl /\ M5.c_rho ncl = M5.c_rho lfl /\
         M5.c_orig ncl = S5.prov (key :: ke :: ch) /\ others_false s1 s2 du key ks p (key :: ke :: ch)).
Proof.
  destruct (develop_lattice_located_ranges cell vecs bs spec Hfill Hne Hwf Hlen Hn Hpad Hshape)
    as (elems & H1 & H2 & _ & H4).
  exists elems. split; [exact H1|].
  intros fuel cf s0 s1 s2 latkey lcl keys du ifd ifg key kcl U ks Hinv HI0 Hlat Hdev Hkey HU Hkeys
         Horig Hdu Hpf idx Hidx t u Hu p p' Hcont Hunit.
  pose proof (develop_lattice_is12 cell vecs elems Hshape H1) as H12.
  assert (Hnn : Forall (fun e : relem => is_nil (ne_trnsf e) = false) elems).
  { eapply Forall_impl; [|exact H12]. intros e [A _]. now apply is12_not_nil. }
  destruct (develop_state_spec fuel latkey lcl elems s0 keys s1 HI0 Hlat Hnn Hdev) as (HI1 & Hx01 & HF).
  destruct (P5.pot_fill_located T surf rvec tr_empty teqb tr_surf inv sense sense_tr teqb_sound
              fuel cf du ifd ifg key s1 ks s2 HI1 Horig Hdu (ex_intro _ kcl Hkey) Hpf)
    as (_ & _ & chs & HP & HRep & HLoc).
  pose proof (develop_lattice_complete cell vecs bs spec elems Hne Hwf Hlen H2) as Hcomp.
  assert (Hidx' : In idx (map (@ne_index R) elems)) by (apply Hcomp; now split).
  apply in_map_iff in Hidx' as (e & Hei & He).
  rewrite Forall_forall in H4, H12, Hinv.
  destruct (H4 e He) as (_ & _ & (Htr & Hf & Hftr)). cbv zeta in Htr, Hf, Hftr.
  rewrite Hei in Htr, Hf, Hftr. fold t in Htr, Hftr. fold u in Hf.
  destruct (H12 e He) as [H12a H12b]. destruct (Hinv e He) as [[Ia1 Ia2] [Ib1 Ib2]].
  destruct (Forall2_In_l _ _ _ e HF He) as (ke & Hke & (cl & Hcl & Ef & Eft & Em & Er & Eo & _ & HD)).
  assert (Hpull : inv (ne_trnsf e) p' = vdiff RS p' t).
  { rewrite <- (vadd_vdiff p' t) at 1. rewrite <- Htr. apply Ia2. }
  assert (Helem : Den s1 p' (M5.c_geom cl) true).
  { rewrite <- Hpull in Hunit. apply HD in Hunit.
    destruct (P5.Den_ref_inv T surf rvec sense _ _ _ _ Hunit) as (cl' & Hc' & Hg).
    rewrite Hcl in Hc'. now injection Hc' as <-. }
  assert (Hothers : forall ch, Located s1 du key p ch -> others_false s1 s2 du key ks p ch).
  { intros ch HL Hpart. destruct (HLoc p ch HL) as (Hin & HV). exists chs.
    split; [exact HRep|]. split; [exact Hin|].
    intros k' ch' Hpair Hneq (b' & Hb').
    destruct (Forall2_combine_In _ _ _ _ _ HV Hpair) as [_ V2]. exact (V2 Hpart Hneq b' Hb'). }
  split.
  - intros Eu.
    assert (Hfe : M5.c_fill cl = None) by (rewrite Ef, Hf; replace (u =? lc_universe cell)%Z with true by lia; reflexivity).
    assert (HL : Located s1 du key p [key; ke]).
    { unfold S5.Located.
      refine (S5.LBFill T surf rvec tr_empty inv sense s1 du key kcl U p ke [ke] true true
                Hkey HU (Hkeys _ Hke) Hcont _).
      eapply S5.LBLeaf; [exact Hcl|exact Hfe|exact Helem]. }
    destruct (HLoc p _ HL) as (Hin & HV).
    destruct (Forall2_pick _ _ _ _ _ HRep HV Hin) as (k & Hk & (ncl & lfl & R1 & R2 & R3 & R4 & R5 & R6 & _) & (V1 & _)).
    exists k, ke, ncl. split; [exact Hk|]. split; [exact Hke|]. split; [exact R1|]. split; [now apply V1|].
    cbn [last] in R2. rewrite Hcl in R2. injection R2 as <-.
    split; [exact R3|]. split; [now rewrite R5|]. split; [now rewrite R6|]. split; [exact R4|].
    exact (Hothers _ HL).
  - intros Eu q c ch Hc Hp' HLc.
    assert (Hfe : M5.c_fill cl = Some u) by (rewrite Ef, Hf; replace (u =? lc_universe cell)%Z with false by lia; reflexivity).
    assert (Hframe : S5.frame T rvec tr_empty inv cl p' = q).
    { unfold S5.frame. rewrite Eft, (is12_not_nil _ H12b). rewrite Hp', <- Hftr. apply Ib2. }
    assert (HL : Located s1 du key p (key :: ke :: ch)).
    { unfold S5.Located.
      refine (S5.LBFill T surf rvec tr_empty inv sense s1 du key kcl U p ke (ke :: ch) true (true && true)
                Hkey HU (Hkeys _ Hke) Hcont _).
      refine (S5.LBFill T surf rvec tr_empty inv sense s1 du ke cl u p' c ch true true
                Hcl Hfe Hc Helem _).
      rewrite Hframe. exact HLc. }
    destruct (HLoc p _ HL) as (Hin & HV).
    destruct (Forall2_pick _ _ _ _ _ HRep HV Hin) as (k & Hk & (ncl & lfl & R1 & R2 & R3 & R4 & R5 & R6 & _) & (V1 & _)).
    exists k, ke, ncl, lfl. split; [exact Hk|]. split; [exact Hke|]. split; [exact R1|].
    split; [now apply V1|].
    assert (Hlast : last (key :: ke :: ch) 0%Z = last ch 0%Z).
    { destruct HLc; reflexivity. }
    rewrite Hlast in R2. repeat split; try assumption. exact (Hothers _ HL).
Qed.
End Linked.
End Link.

(* ---- the hypothesis [inverse_of] is satisfiable: the pull-back of an orthogonal
   transformation [O; B] is p -> B (p - O) ---------------------------------------------- *)
Open Scope R_scope.

Definition orthogonal12 (t : rtransf) : Prop :=
  match t with
  | [_; _; _; b1; b2; b3; b4; b5; b6; b7; b8; b9] =>
      (* B^T B = I *)
      b1 * b1 + b4 * b4 + b7 * b7 = 1 /\ b1 * b2 + b4 * b5 + b7 * b8 = 0 /\
      b1 * b3 + b4 * b6 + b7 * b9 = 0 /\ b2 * b2 + b5 * b5 + b8 * b8 = 1 /\
      b2 * b3 + b5 * b6 + b8 * b9 = 0 /\ b3 * b3 + b6 * b6 + b9 * b9 = 1 /\
      (* B B^T = I *)
      b1 * b1 + b2 * b2 + b3 * b3 = 1 /\ b1 * b4 + b2 * b5 + b3 * b6 = 0 /\
      b1 * b7 + b2 * b8 + b3 * b9 = 0 /\ b4 * b4 + b5 * b5 + b6 * b6 = 1 /\
      b4 * b7 + b5 * b8 + b6 * b9 = 0 /\ b7 * b7 + b8 * b8 + b9 * b9 = 1
  | _ => False
  end.

Definition inv_orth (t : rtransf) (p : rvec) : rvec :=
  match t with
  | [o1; o2; o3; b1; b2; b3; b4; b5; b6; b7; b8; b9] =>
      let '(x, y, z) := p in
      (b1 * (x - o1) + b2 * (y - o2) + b3 * (z - o3),
       b4 * (x - o1) + b5 * (y - o2) + b6 * (z - o3),
       b7 * (x - o1) + b8 * (y - o2) + b9 * (z - o3))
  | _ => p
  end.

Theorem inv_orth_inverse (t : rtransf) : orthogonal12 t ->
  (forall p, apply_tr t (inv_orth t p) = p) /\ (forall p, inv_orth t (apply_tr t p) = p).
Proof.
  intros H. unfold orthogonal12 in H.
  do 12 (destruct t as [|? t]; [contradiction|]). destruct t; [|contradiction].
  destruct H as (C11 & C12 & C13 & C22 & C23 & C33 & R11 & R12 & R13 & R22 & R23 & R33).
  split; intros [[x y] z]; cbn [apply_tr inv_orth]; f_equal; [f_equal| |f_equal|].
  - transitivity (r + ((r2 * r2 + r5 * r5 + r8 * r8) * (x - r) + (r2 * r3 + r5 * r6 + r8 * r9) * (y - r0)
                       + (r2 * r4 + r5 * r7 + r8 * r10) * (z - r1))); [ring|].
    rewrite C11, C12, C13. ring.
  - transitivity (r0 + ((r2 * r3 + r5 * r6 + r8 * r9) * (x - r) + (r3 * r3 + r6 * r6 + r9 * r9) * (y - r0)
                        + (r3 * r4 + r6 * r7 + r9 * r10) * (z - r1))); [ring|].
    rewrite C12, C22, C23. ring.
  - transitivity (r1 + ((r2 * r4 + r5 * r7 + r8 * r10) * (x - r) + (r3 * r4 + r6 * r7 + r9 * r10) * (y - r0)
                        + (r4 * r4 + r7 * r7 + r10 * r10) * (z - r1))); [ring|].
    rewrite C13, C23, C33. ring.
  - transitivity ((r2 * r2 + r3 * r3 + r4 * r4) * x + (r2 * r5 + r3 * r6 + r4 * r7) * y
                  + (r2 * r8 + r3 * r9 + r4 * r10) * z); [ring|].
    rewrite R11, R12, R13. ring.
  - transitivity ((r2 * r5 + r3 * r6 + r4 * r7) * x + (r5 * r5 + r6 * r6 + r7 * r7) * y
                  + (r5 * r8 + r6 * r9 + r7 * r10) * z); [ring|].
    rewrite R12, R22, R23. ring.
  - transitivity ((r2 * r8 + r3 * r9 + r4 * r10) * x + (r5 * r8 + r6 * r9 + r7 * r10) * y
                  + (r8 * r8 + r9 * r9 + r10 * r10) * z); [ring|].
    rewrite R13, R23, R33. ring.
Qed.

(* translations are orthogonal, and composing with a translation keeps the matrix:
   every transformation develop_lattice produces from an orthogonal fill
   transformation / TRCL is orthogonal *)
Lemma translation_orthogonal (t : rvec) : orthogonal12 (translation_of t).
Proof. destruct t as [[tx ty] tz]. cbn. repeat split; ring. Qed.

Lemma compose_translation_orthogonal (t1 : rtransf) (t : rvec) c :
  orthogonal12 t1 -> compose_transform RS t1 (translation_of t) = Ok c -> orthogonal12 c.
Proof.
  intros H Hc. unfold orthogonal12 in H.
  do 12 (destruct t1 as [|? t1]; [contradiction|]). destruct t1; [|contradiction].
  destruct t as [[tx ty] tz]. cbn [translation_of compose_transform] in Hc. injection Hc as <-.
  destruct H as (C11 & C12 & C13 & C22 & C23 & C33 & R11 & R12 & R13 & R22 & R23 & R33).
  cbn [orthogonal12]. rs.
  repeat split; ring_simplify; [rewrite <- C11|rewrite <- C12|rewrite <- C13|rewrite <- C22|rewrite <- C23
    |rewrite <- C33|rewrite <- R11|rewrite <- R12|rewrite <- R13|rewrite <- R22|rewrite <- R23|rewrite <- R33];
    ring.
Qed.
