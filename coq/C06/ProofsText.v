(* C06 — proofs about the text level of the model: "lo:hi" range strings and
   --lattice options, for ANY spelling of the integers that int() accepts in
   the model (optional sign, leading zeros). *)
From Coq Require Import List ZArith NArith Bool String Ascii Lia.
From T4V Require Import Base.Str Base.Scalar C06.Model.
Import ListNotations.
Open Scope string_scope.

Lemma split_char_nonempty c s : split_char c s <> [].
Proof.
  induction s as [|d r IH]; cbn [split_char]; [discriminate|].
  destruct (Ascii.eqb c d); [discriminate|]. destruct (split_char c r); [contradiction|discriminate].
Qed.

Lemma split_char_none c s : contains_char c s = false -> split_char c s = [s].
Proof.
  induction s as [|d r IH]; cbn [split_char contains_char]; intros H; [reflexivity|].
  apply orb_false_iff in H as [H1 H2]. rewrite H1, (IH H2). reflexivity.
Qed.

Lemma split_char_app c a b :
  contains_char c a = false -> split_char c (a ++ String c b) = a :: split_char c b.
Proof.
  induction a as [|d r IH]; cbn [split_char contains_char append]; intros H.
  - now rewrite Ascii.eqb_refl.
  - apply orb_false_iff in H as [H1 H2]. rewrite H1, (IH H2). reflexivity.
Qed.

Lemma all_digits_no_char c s :
  is_digit c = false -> all_digits s = true -> contains_char c s = false.
Proof.
  intros Hc. induction s as [|d r IH]; cbn [all_digits contains_char]; intros H; [reflexivity|].
  apply andb_true_iff in H as [H1 H2]. rewrite (IH H2), orb_false_r.
  destruct (Ascii.eqb c d) eqn:E; [|reflexivity]. apply Ascii.eqb_eq in E. subst d. congruence.
Qed.

Lemma int_of_string_no_char c s n :
  is_digit c = false -> int_of_string s = Some n -> contains_char c s = false.
Proof.
  intros Hc H. unfold int_of_string in H. destruct s as [|d r]; [discriminate|].
  destruct (all_digits (String d r)) eqn:E; [|discriminate]. now apply all_digits_no_char.
Qed.

(* a separator (neither a digit nor a sign) does not occur in an integer *)
Lemma int_of_signed_no_char c s z :
  is_digit c = false -> c <> "-"%char -> c <> "+"%char ->
  int_of_signed s = Some z -> contains_char c s = false.
Proof.
  intros Hc Hm Hp H. unfold int_of_signed in H.
  assert (Hgen : forall n, int_of_string s = Some n -> contains_char c s = false)
    by (intros n; now apply int_of_string_no_char).
  destruct s as [|d r]; [discriminate|].
  destruct (Ascii.eqb d "-") eqn:E1; [apply Ascii.eqb_eq in E1; subst d|].
  - destruct (int_of_string r) eqn:E; [|discriminate]. cbn [contains_char].
    rewrite (int_of_string_no_char c r n Hc E), orb_false_r. now apply Ascii.eqb_neq.
  - destruct (Ascii.eqb d "+") eqn:E2; [apply Ascii.eqb_eq in E2; subst d|].
    + destruct (int_of_string r) eqn:E; [|discriminate]. cbn [contains_char].
      rewrite (int_of_string_no_char c r n Hc E), orb_false_r. now apply Ascii.eqb_neq.
    + assert (Hs : exists n, int_of_string (String d r) = Some n).
      { destruct d as [[] [] [] [] [] [] [] []]; try discriminate E1; try discriminate E2;
          (destruct (int_of_string _); [eexists; reflexivity|discriminate]). }
      destruct Hs as [n Hn]. now apply (Hgen n).
Qed.

(* signs: "-d" is the opposite of "d", "+d" is "d" *)
Lemma int_of_signed_minus d n : int_of_string d = Some n -> int_of_signed (String "-" d) = Some (- Z.of_N n)%Z.
Proof. intros H. cbn [int_of_signed]. now rewrite H. Qed.

Lemma int_of_signed_plus d n : int_of_string d = Some n -> int_of_signed (String "+" d) = Some (Z.of_N n).
Proof. intros H. cbn [int_of_signed]. now rewrite H. Qed.

(* a range string: spellings of two integers around one colon *)
Definition spells_range (s : string) (b : Z * Z) : Prop :=
  exists a c, s = a ++ String ":" c /\ int_of_signed a = Some (fst b) /\ int_of_signed c = Some (snd b).

Lemma colon_facts : is_digit ":" = false /\ ":"%char <> "-"%char /\ ":"%char <> "+"%char.
Proof. repeat split; discriminate. Qed.

Lemma comma_facts : is_digit "," = false /\ ","%char <> "-"%char /\ ","%char <> "+"%char.
Proof. repeat split; discriminate. Qed.

Theorem parse_ranges_spelled (strs : list string) (bs : bounds) :
  Forall2 spells_range strs bs -> parse_ranges strs = Ok bs.
Proof.
  destruct colon_facts as (Hd & Hm & Hp).
  induction 1 as [|s [lo hi] strs bs (a & c & -> & Ha & Hc) _ IH]; [reflexivity|].
  cbn [fst snd] in Ha, Hc. cbn [parse_ranges].
  rewrite (split_char_app ":" a c (int_of_signed_no_char _ _ _ Hd Hm Hp Ha)).
  rewrite (split_char_none ":" c (int_of_signed_no_char _ _ _ Hd Hm Hp Hc)).
  rewrite Ha, Hc, IH. reflexivity.
Qed.

(* a string with no colon, or with two, is a ValueError *)
Theorem parse_ranges_no_colon s rest : contains_char ":" s = false -> parse_ranges (s :: rest) = Err EValue.
Proof. intros H. cbn [parse_ranges]. now rewrite (split_char_none ":" s H). Qed.

(* one --lattice option "cell,r1[,r2[,r3]]" *)
Fixpoint join_comma (l : list string) : string :=
  match l with
  | [] => ""
  | [s] => s
  | s :: r => s ++ String "," (join_comma r)
  end.

Lemma spells_range_no_comma s b : spells_range s b -> contains_char "," s = false.
Proof.
  destruct comma_facts as (Hd & Hm & Hp). intros (a & c & -> & Ha & Hc).
  assert (E : forall x y, contains_char "," (x ++ y) = contains_char "," x || contains_char "," y).
  { induction x as [|d r IH]; intros y; cbn [append contains_char]; [reflexivity|].
    now rewrite IH, orb_assoc. }
  rewrite E. cbn [contains_char]. rewrite (int_of_signed_no_char _ _ _ Hd Hm Hp Ha),
    (int_of_signed_no_char _ _ _ Hd Hm Hp Hc). reflexivity.
Qed.

Lemma split_join_comma (strs : list string) (bs : bounds) :
  Forall2 spells_range strs bs -> strs <> [] -> split_char "," (join_comma strs) = strs.
Proof.
  induction 1 as [|s b strs bs Hs Hr IH]; intros Hne; [contradiction|].
  destruct strs as [|s2 strs].
  - cbn [join_comma]. now rewrite (split_char_none _ _ (spells_range_no_comma s b Hs)).
  - change (join_comma (s :: s2 :: strs)) with (s ++ String "," (join_comma (s2 :: strs))).
    rewrite (split_char_app _ _ _ (spells_range_no_comma s b Hs)). f_equal. apply IH. discriminate.
Qed.

Theorem parse_lattice_option (head : string) (cell : Z) (strs : list string) (bs : bounds) :
  int_of_signed head = Some cell -> Forall2 spells_range strs bs ->
  (1 <= List.length strs <= 3)%nat ->
  parse_lattice [head ++ String "," (join_comma strs)] = Ok [(cell, bs)].
Proof.
  destruct comma_facts as (Hd & Hm & Hp). intros Hh Hs Hl.
  unfold parse_lattice. cbn [parse_lattice_from].
  rewrite (split_char_app _ _ _ (int_of_signed_no_char _ _ _ Hd Hm Hp Hh)).
  rewrite (split_join_comma strs bs Hs) by (destruct strs; [cbn in Hl; lia|discriminate]).
  destruct strs as [|s1 strs]; [cbn in Hl; lia|].
  replace (Nat.ltb 3 (List.length (s1 :: strs))) with false by (symmetry; apply Nat.ltb_ge; lia).
  rewrite Hh, (parse_ranges_spelled _ _ Hs). reflexivity.
Qed.

(* more than three ranges, or none: ValueError *)
Theorem parse_lattice_too_many (head : string) (cell : Z) (strs : list string) (bs : bounds) :
  int_of_signed head = Some cell -> Forall2 spells_range strs bs -> (3 < List.length strs)%nat ->
  parse_lattice [head ++ String "," (join_comma strs)] = Err EValue.
Proof.
  destruct comma_facts as (Hd & Hm & Hp). intros Hh Hs Hl.
  unfold parse_lattice. cbn [parse_lattice_from].
  rewrite (split_char_app _ _ _ (int_of_signed_no_char _ _ _ Hd Hm Hp Hh)).
  rewrite (split_join_comma strs bs Hs) by (destruct strs; [cbn in Hl; lia|discriminate]).
  destruct strs as [|s1 strs]; [cbn in Hl; lia|].
  replace (Nat.ltb 3 (List.length (s1 :: strs))) with true by (symmetry; apply Nat.ltb_lt; lia).
  reflexivity.
Qed.

(* a later option for the same cell replaces the earlier one (dict assignment) *)
Lemma dict_set_get {V} (d : list (Z * V)) k v : dict_get (dict_set d k v) k = Some v.
Proof.
  induction d as [|[k' v'] r IH]; cbn [dict_set dict_get].
  - now rewrite Z.eqb_refl.
  - destruct (Z.eqb k k') eqn:E; cbn [dict_get]; [now rewrite Z.eqb_refl|now rewrite E].
Qed.

(* ------------------------------------------------------------------------ *)
(* parse_fill_kw on FILL arrays                                              *)
(* ------------------------------------------------------------------------ *)
Lemma contains_char_app c x y : contains_char c (x ++ y) = contains_char c x || contains_char c y.
Proof.
  induction x as [|d r IH]; cbn [append contains_char]; [reflexivity|]. now rewrite IH, orb_assoc.
Qed.

Lemma spells_range_has_colon s b : spells_range s b -> has_colon s = true.
Proof.
  intros (a & c & -> & _ & _). unfold has_colon. rewrite contains_char_app. cbn [contains_char].
  rewrite Ascii.eqb_refl. now rewrite orb_true_r.
Qed.

Local Open Scope list_scope.

Lemma int_spelling_no_colon t u : int_of_signed t = Some u -> has_colon t = false.
Proof.
  destruct colon_facts as (Hd & Hm & Hp). intros H. now apply (int_of_signed_no_char _ _ _ Hd Hm Hp H).
Qed.

Lemma span_tokens_app (f : string -> bool) (l1 l2 : list string) :
  Forall (fun t => f t = true) l1 ->
  (l2 = [] \/ exists h r, l2 = h :: r /\ f h = false) ->
  span_tokens f (l1 ++ l2) = (l1, l2).
Proof.
  intros H1 H2. induction H1 as [|t l Ht _ IH]; cbn [app span_tokens].
  - destruct H2 as [-> | (h & r & -> & Hh)]; [reflexivity|]. cbn [span_tokens]. now rewrite Hh.
  - now rewrite Ht, IH.
Qed.

Lemma digit_not_letter c : is_digit c = true ->
  Ascii.eqb c "r" = false /\ Ascii.eqb c "i" = false /\ Ascii.eqb c "m" = false /\
  Ascii.eqb c "j" = false /\ Ascii.eqb c "g" = false.
Proof.
  destruct c as [[] [] [] [] [] [] [] []]; intros H; try discriminate H; repeat split; reflexivity.
Qed.

Lemma all_digits_last s : s <> "" -> all_digits s = true ->
  exists c, last_char s = Some c /\ is_digit c = true.
Proof.
  induction s as [|d r IH]; intros Hne H; [contradiction|].
  cbn [all_digits] in H. apply andb_true_iff in H as [Hd Hr].
  destruct r as [|e r'].
  - exists d. now split.
  - destruct (IH ltac:(discriminate) Hr) as (c & Hc & Hdc). exists c. split; [exact Hc|exact Hdc].
Qed.

Lemma int_of_string_last s n : int_of_string s = Some n ->
  exists c, last_char s = Some c /\ is_digit c = true.
Proof.
  unfold int_of_string. destruct s as [|d r]; [discriminate|].
  destruct (all_digits (String d r)) eqn:E; [|discriminate]. intros _.
  apply all_digits_last; [discriminate|exact E].
Qed.

Lemma last_char_cons c s : s <> "" -> last_char (String c s) = last_char s.
Proof. destruct s; [contradiction|reflexivity]. Qed.

Lemma int_of_signed_last t z : int_of_signed t = Some z ->
  exists c, last_char t = Some c /\ is_digit c = true.
Proof.
  unfold int_of_signed. intros H.
  assert (Hgen : forall n, int_of_string t = Some n -> exists c, last_char t = Some c /\ is_digit c = true)
    by (intros n; apply int_of_string_last).
  destruct t as [|d r]; [discriminate|].
  assert (Hsub : forall n, int_of_string r = Some n ->
                 exists c, last_char (String d r) = Some c /\ is_digit c = true).
  { intros n Hn. destruct (int_of_string_last r n Hn) as (c & Hc & Hd).
    exists c. split; [|exact Hd]. rewrite last_char_cons; [exact Hc|].
    intros ->. discriminate Hn. }
  destruct (Ascii.eqb d "-") eqn:E1; [apply Ascii.eqb_eq in E1; subst d|].
  - destruct (int_of_string r) eqn:E; [|discriminate]. now apply (Hsub n).
  - destruct (Ascii.eqb d "+") eqn:E2; [apply Ascii.eqb_eq in E2; subst d|].
    + destruct (int_of_string r) eqn:E; [|discriminate]. now apply (Hsub n).
    + assert (Hs : exists n, int_of_string (String d r) = Some n).
      { destruct d as [[] [] [] [] [] [] [] []]; try discriminate E1; try discriminate E2;
          (destruct (int_of_string _); [eexists; reflexivity|discriminate]). }
      destruct Hs as [n Hn]. now apply (Hgen n).
Qed.

Lemma ends_with_log_digit t c : last_char t = Some c -> is_digit c = true -> ends_with_log t = false.
Proof.
  intros H Hd. unfold ends_with_log. rewrite H.
  destruct c as [[] [] [] [] [] [] [] []]; try discriminate Hd; reflexivity.
Qed.

Definition spells_int (t : string) (u : Z) : Prop := int_of_signed t = Some u.

(* exactly as many integer tokens as the card needs: all consumed, in order,
   whatever follows *)
Lemma expand_ints_exact (utoks : list string) (us : list Z) :
  Forall2 spells_int utoks us ->
  forall rest expected result consumed,
  expected = (Z.of_nat (List.length result) + Z.of_nat (List.length us))%Z ->
  expand_ints (utoks ++ rest) expected result consumed
  = Ok (result ++ us, (consumed + List.length utoks)%nat).
Proof.
  induction 1 as [|t u utoks us Ht _ IH]; intros rest expected result consumed He.
  - cbn [app List.length] in *. rewrite app_nil_r, Nat.add_0_r.
    assert (Hfin : (Z.of_nat (List.length result) =? expected)%Z = true) by lia.
    destruct rest as [|tok rest]; cbn [expand_ints]; [now rewrite Hfin|].
    replace (expected <=? Z.of_nat (List.length result))%Z with true by lia. now rewrite Hfin.
  - cbn [app expand_ints List.length] in *.
    replace (expected <=? Z.of_nat (List.length result))%Z with false by lia.
    destruct (int_of_signed_last t u Ht) as (c & Hc & Hd). rewrite Hc.
    destruct (digit_not_letter c Hd) as (Hr & Hi & Hm & Hj & _).
    rewrite Hr, Hi, Hm, Hj, (ends_with_log_digit t c Hc Hd). cbn [orb].
    unfold spells_int in Ht. rewrite Ht.
    rewrite (IH rest expected (result ++ [u]) (S consumed)).
    + rewrite <- app_assoc. cbn [app]. f_equal. f_equal. lia.
    + rewrite app_length. cbn [List.length]. lia.
Qed.

(* too few integer tokens and then nothing: ParseMCNPCellError *)
Lemma expand_ints_short (utoks : list string) (us : list Z) :
  Forall2 spells_int utoks us ->
  forall expected result consumed,
  (Z.of_nat (List.length result) + Z.of_nat (List.length us) < expected)%Z ->
  expand_ints utoks expected result consumed = Err EParseCell.
Proof.
  induction 1 as [|t u utoks us Ht _ IH]; intros expected result consumed He.
  - cbn [expand_ints List.length] in *.
    replace (Z.of_nat (List.length result) =? expected)%Z with false by lia. reflexivity.
  - cbn [expand_ints List.length] in *.
    replace (expected <=? Z.of_nat (List.length result))%Z with false by lia.
    destruct (int_of_signed_last t u Ht) as (c & Hc & Hd). rewrite Hc.
    destruct (digit_not_letter c Hd) as (Hr & Hi & Hm & Hj & _).
    rewrite Hr, Hi, Hm, Hj, (ends_with_log_digit t c Hc Hd). cbn [orb].
    unfold spells_int in Ht. rewrite Ht. apply IH. rewrite app_length. cbn [List.length]. lia.
Qed.

Definition param_token (t : string) : Prop := is_num_start t = true /\ is_float_spelling t = true.
Definition keyword_or_end (tail : list string) : Prop :=
  tail = [] \/ exists h r, tail = h :: r /\ is_num_start h = false.

Lemma size_pos_text bs : Forall (fun b : Z * Z => (fst b <= snd b)%Z) bs -> (0 < size bs)%Z.
Proof.
  induction 1 as [|[lo hi] r Hb _ IH]; [reflexivity|].
  unfold size in *. cbn [fold_left fst snd] in *.
  assert (E : forall (l : bounds) a, fold_left (fun x (y : Z * Z) => (x * (snd y - fst y + 1))%Z) l a
                                   = (a * fold_left (fun x (y : Z * Z) => (x * (snd y - fst y + 1))%Z) l 1)%Z).
  { induction l as [|b l IHl]; intros a; cbn [fold_left]; [lia|]. rewrite IHl, (IHl (1 * _)%Z). lia. }
  rewrite E. apply Z.mul_pos_pos; lia.
Qed.

(* The exact reading of a FILL array: ranges, then exactly size(ranges)
   integers, then EVERY following token that starts like a number is taken as a
   parameter of ONE transformation of the whole array - surplus entries (and
   the transformations MCNP attaches to single entries) are never rejected *)
Theorem parse_fill_kw_array (first : string) (more : list string) (bs : bounds)
        (utoks : list string) (us : list Z) (sur tail : list string) :
  Forall2 spells_range (first :: more) bs ->
  Forall (fun b : Z * Z => (fst b <= snd b)%Z) bs ->
  Forall2 spells_int utoks us -> Z.of_nat (List.length us) = size bs ->
  Forall param_token sur -> keyword_or_end tail ->
  parse_fill_kw first (more ++ utoks ++ sur ++ tail) = Ok (mkFillKw (Some bs) (FArr us) sur tail).
Proof.
  intros Hr Hwf Hu Hlen Hsur Htail.
  pose proof (size_pos_text bs Hwf) as Hpos.
  inversion Hr as [|f b mr bs' Hf Hmore]; subst.
  unfold parse_fill_kw. rewrite (spells_range_has_colon _ _ Hf).
  assert (Hutoks : exists t0 u0 ut' us', utoks = t0 :: ut' /\ us = u0 :: us' /\ spells_int t0 u0).
  { destruct Hu as [|t0 u0 ut' us' H0 _]; [cbn [List.length] in Hlen; lia|]. now exists t0, u0, ut', us'. }
  destruct Hutoks as (t0 & u0 & ut' & us' & E1 & E2 & H0).
  rewrite (span_tokens_app has_colon more (utoks ++ sur ++ tail)).
  - rewrite (parse_ranges_spelled _ _ Hr). cbn [bind].
    rewrite (expand_ints_exact utoks us Hu (sur ++ tail) (size (b :: bs')) [] 0)
      by (cbn [List.length]; lia).
    cbn [bind app Nat.add].
    assert (Hc : List.length utoks <> 0%nat) by (rewrite E1; discriminate).
    destruct (List.length utoks) as [|n] eqn:En; [contradiction|]. rewrite <- En.
    replace (skipn (List.length utoks) (utoks ++ sur ++ tail)) with (sur ++ tail)
      by (rewrite skipn_app, skipn_all, Nat.sub_diag; reflexivity).
    rewrite (span_tokens_app is_num_start sur tail).
    + replace (forallb is_float_spelling sur) with true; [reflexivity|].
      symmetry. apply forallb_forall. intros t Ht. rewrite Forall_forall in Hsur. now apply Hsur.
    + eapply Forall_impl; [|exact Hsur]. now intros t [Ht _].
    + exact Htail.
  - clear - Hmore. induction Hmore as [|s b0 l l' Hs _ IH]; constructor; [|exact IH].
    now apply (spells_range_has_colon s b0).
  - right. rewrite E1. cbn [app]. exists t0, (ut' ++ sur ++ tail). split; [reflexivity|].
    now apply (int_spelling_no_colon t0 u0).
Qed.

(* too few universes before the end of the card: ParseMCNPCellError *)
Theorem parse_fill_kw_array_short (first : string) (more : list string) (bs : bounds)
        (utoks : list string) (us : list Z) :
  Forall2 spells_range (first :: more) bs ->
  Forall2 spells_int utoks us -> (Z.of_nat (List.length us) < size bs)%Z ->
  parse_fill_kw first (more ++ utoks) = Err EParseCell.
Proof.
  intros Hr Hu Hlen.
  inversion Hr as [|f b mr bs' Hf Hmore]; subst.
  unfold parse_fill_kw. rewrite (spells_range_has_colon _ _ Hf).
  rewrite (span_tokens_app has_colon more utoks).
  - rewrite (parse_ranges_spelled _ _ Hr). cbn [bind].
    rewrite (expand_ints_short utoks us Hu) by (cbn [List.length]; lia). reflexivity.
  - clear - Hmore. induction Hmore as [|s b0 l l' Hs _ IH]; constructor; [|exact IH].
    now apply (spells_range_has_colon s b0).
  - destruct Hu as [|t0 u0 ut' us' H0 _]; [now left|].
    right. exists t0, ut'. split; [reflexivity|]. now apply (int_spelling_no_colon t0 u0).
Qed.

(* what the parameter tokens become *)
Theorem fill_params_shapes (star : bool) :
  fill_params_shape star [] = PNone /\
  (forall t, fill_params_shape star [t] = PNumber t) /\
  (forall a b c, fill_params_shape star [a; b; c] = PTranslation a b c) /\
  (forall l, List.length l <> 0%nat -> List.length l <> 1%nat -> List.length l <> 3%nat ->
     fill_params_shape star l = PMatrix star l).
Proof.
  repeat split; try reflexivity. intros l H0 H1 H3.
  destruct l as [|a [|b [|c [|d l]]]]; cbn in *; try contradiction; try reflexivity; lia.
Qed.

(* ------------------------------------------------------------------------ *)
(* Which FILL-array texts are read as MCNP reads them (finding               *)
(* array_entry_transformation)                                               *)
(* ------------------------------------------------------------------------ *)
(* A FILL array as WRITTEN: after the ranges, one entry per element, each a
   universe number optionally followed by a transformation in parentheses
   (MCNP: that transformation belongs to THIS entry).  parse_one_cell_worker
   turns the parentheses into blanks: the code sees the flattened tokens. *)
Definition entry := (string * list string)%type.
Definition flatten_entries (es : list entry) : list string :=
  flat_map (fun e : entry => fst e :: snd e) es.

(* a token ends like a number: in a digit or a decimal point (every spelling
   to_float accepts does) *)
Definition ends_plain (t : string) : Prop :=
  exists c, last_char t = Some c /\ (is_digit c = true \/ c = "."%char).

(* ... and contains no colon (no number does) *)
Definition tr_token (t : string) : Prop := param_token t /\ ends_plain t /\ has_colon t = false.

Lemma ends_plain_facts t : ends_plain t ->
  exists c, last_char t = Some c /\ Ascii.eqb c "r" = false /\ Ascii.eqb c "i" = false /\
            Ascii.eqb c "m" = false /\ Ascii.eqb c "j" = false /\ ends_with_log t = false.
Proof.
  intros (c & Hc & [Hd | ->]).
  - destruct (digit_not_letter c Hd) as (A & B & C & D & _). exists c.
    repeat split; try assumption. now apply (ends_with_log_digit t c).
  - exists "."%char. repeat split; try reflexivity; try assumption.
    unfold ends_with_log. rewrite Hc. reflexivity.
Qed.

Lemma spells_int_ends_plain t u : spells_int t u -> ends_plain t.
Proof. intros H. destruct (int_of_signed_last t u H) as (c & Hc & Hd). exists c. auto. Qed.

(* on tokens that end like numbers expand_ints takes one token per value *)
Lemma expand_ints_count : forall toks expected result consumed r c,
  Forall ends_plain toks ->
  expand_ints toks expected result consumed = Ok (r, c) ->
  (c + List.length result = consumed + List.length r)%nat /\ Z.of_nat (List.length r) = expected.
Proof.
  induction toks as [|tok rest IH]; intros expected result consumed r c Hp H.
  - cbn [expand_ints] in H. destruct (Z.of_nat (List.length result) =? expected)%Z eqn:E; [|discriminate].
    injection H as <- <-. split; [lia|lia].
  - cbn [expand_ints] in H. inversion Hp as [|? ? Ht Hr]; subst.
    destruct (expected <=? Z.of_nat (List.length result))%Z.
    + destruct (Z.of_nat (List.length result) =? expected)%Z eqn:E; [|discriminate].
      injection H as <- <-. split; lia.
    + destruct (ends_plain_facts tok Ht) as (ch & Hc & A & B & C & D & G).
      rewrite Hc, A, B, C, D, G in H. cbn [orb] in H.
      destruct (int_of_signed tok) as [v|]; [|destruct (is_num_start tok); discriminate].
      destruct (IH _ _ _ _ _ Hr H) as [H1 H2]. rewrite app_length in H1. cbn [List.length] in H1.
      split; lia.
Qed.

Lemma flatten_length (es : list entry) :
  List.length (flatten_entries es) = (List.length es + List.length (List.concat (map snd es)))%nat.
Proof.
  induction es as [|[u tr] r IH]; [reflexivity|].
  cbn [flatten_entries flat_map map List.concat fst snd List.length]. fold (flatten_entries r).
  rewrite !app_length, IH. cbn [List.length]. lia.
Qed.

(* the tokens beyond the universes, however they were grouped by parentheses *)
Lemma expand_ints_within : forall toks tail expected result consumed r c,
  Forall ends_plain toks ->
  (expected <= Z.of_nat (List.length result) + Z.of_nat (List.length toks))%Z ->
  expand_ints (toks ++ tail) expected result consumed = Ok (r, c) ->
  (c + List.length result = consumed + List.length r)%nat /\ Z.of_nat (List.length r) = expected.
Proof.
  induction toks as [|tok rest IH]; intros tail expected result consumed r c Hp Hle H.
  - cbn [app List.length] in *.
    assert (Hfin : (expected <=? Z.of_nat (List.length result))%Z = true) by lia.
    destruct tail as [|t tl]; cbn [expand_ints] in H; [|rewrite Hfin in H];
      (destruct (Z.of_nat (List.length result) =? expected)%Z eqn:E; [|discriminate];
       injection H as <- <-; split; lia).
  - cbn [app expand_ints] in H. inversion Hp as [|? ? Ht Hr]; subst.
    destruct (expected <=? Z.of_nat (List.length result))%Z eqn:Ele.
    + destruct (Z.of_nat (List.length result) =? expected)%Z eqn:E; [|discriminate].
      injection H as <- <-. split; lia.
    + destruct (ends_plain_facts tok Ht) as (ch & Hc & A & B & C & D & G).
      rewrite Hc, A, B, C, D, G in H. cbn [orb] in H.
      destruct (int_of_signed tok) as [v|]; [|destruct (is_num_start tok); discriminate].
      assert (Hle' : (expected <= Z.of_nat (List.length (result ++ [v])) + Z.of_nat (List.length rest))%Z)
        by (rewrite app_length; cbn [List.length] in *; lia).
      destruct (IH tail expected (result ++ [v]) (S consumed) r c Hr Hle' H) as [H1 H2].
      rewrite app_length in H1. cbn [List.length] in H1. split; lia.
Qed.

Lemma spells_int_num_start t u : spells_int t u -> is_num_start t = true.
Proof.
  unfold spells_int, int_of_signed. destruct t as [|d r]; [discriminate|]. cbn [is_num_start].
  destruct (Ascii.eqb d "-") eqn:E1; [intros _; now rewrite ?orb_true_r|].
  destruct (Ascii.eqb d "+") eqn:E2; [intros _; now rewrite ?orb_true_r|].
  intros H.
  assert (Hs : int_of_string (String d r) <> None).
  { destruct d as [[] [] [] [] [] [] [] []]; try discriminate E1; try discriminate E2;
      (destruct (int_of_string _); [discriminate|discriminate H]). }
  unfold int_of_string in Hs. destruct (all_digits (String d r)) eqn:Ed; [|now elim Hs].
  cbn [all_digits] in Ed. apply andb_true_iff in Ed as [Ed _]. now rewrite Ed.
Qed.

(* whatever the grouping, the code reads: size(ranges) universes = the first
   size tokens, and ALL the remaining numeric tokens as one transformation *)
Lemma parse_fill_kw_flat (first : string) (more : list string) (bs : bounds)
      (toks tail : list string) k :
  Forall2 spells_range (first :: more) bs ->
  Forall (fun b : Z * Z => (fst b <= snd b)%Z) bs ->
  Forall (fun t => ends_plain t /\ is_num_start t = true /\ has_colon t = false) toks ->
  (size bs <= Z.of_nat (List.length toks))%Z -> keyword_or_end tail ->
  parse_fill_kw first (more ++ toks ++ tail) = Ok k ->
  fk_params k = skipn (Z.to_nat (size bs)) toks /\ fk_rest k = tail /\ fk_bounds k = Some bs.
Proof.
  intros Hr Hwf Ht Hsz Htail H.
  pose proof (size_pos_text bs Hwf) as Hpos.
  inversion Hr as [|f b mr bs' Hf Hmore]; subst.
  unfold parse_fill_kw in H. rewrite (spells_range_has_colon _ _ Hf) in H.
  destruct toks as [|t0 toks']; [cbn [List.length] in Hsz; lia|].
  rewrite (span_tokens_app has_colon more ((t0 :: toks') ++ tail)) in H.
  - rewrite (parse_ranges_spelled _ _ Hr) in H. cbn [bind] in H.
    destruct (expand_ints ((t0 :: toks') ++ tail) (size (b :: bs')) [] 0) as [[r c]|] eqn:E;
      [|discriminate]. cbn [bind] in H.
    destruct (expand_ints_within (t0 :: toks') tail (size (b :: bs')) [] 0%nat r c) as [H1 H2];
      [eapply Forall_impl; [|exact Ht]; now intros t [A _] | cbn [List.length] in *; lia | exact E |].
    cbn [List.length] in H1.
    assert (Hc : c = Z.to_nat (size (b :: bs'))) by lia.
    destruct c as [|c']; [lia|]. rewrite Hc in H.
    set (n := Z.to_nat (size (b :: bs'))) in *.
    assert (Hn : (n <= List.length (t0 :: toks'))%nat) by lia.
    replace (skipn n ((t0 :: toks') ++ tail)) with (skipn n (t0 :: toks') ++ tail) in H
      by (rewrite skipn_app; replace (n - List.length (t0 :: toks'))%nat with 0%nat by lia; reflexivity).
    rewrite (span_tokens_app is_num_start (skipn n (t0 :: toks')) tail) in H.
    + destruct (forallb is_float_spelling (skipn n (t0 :: toks'))); [|discriminate].
      injection H as <-. cbn [fk_params fk_rest fk_bounds]. now repeat split.
    + assert (Hsk : forall (l : list string) m t, In t (skipn m l) -> In t l).
      { induction l as [|a l IHl]; intros [|m] t Hin; cbn [skipn] in Hin; try exact Hin; [right; eauto]. }
      rewrite Forall_forall in *. intros t Hin. apply Ht. exact (Hsk _ n t Hin).
    + exact Htail.
  - clear - Hmore. induction Hmore as [|s b0 l l' Hs _ IH]; constructor; [|exact IH].
    now apply (spells_range_has_colon s b0).
  - right. exists t0, (toks' ++ tail). split; [reflexivity|].
    inversion Ht as [|? ? (_ & _ & Hc) _]; subst. exact Hc.
Qed.

Definition mcnp_equivalent (k : fill_kw) (us : list Z) (es : list entry) : Prop :=
  fk_univs k = FArr us /\ forall e, In e es -> snd e = fk_params k.

Lemma flatten_no_tr (es : list entry) :
  (forall e, In e es -> snd e = []) -> flatten_entries es = map fst es.
Proof.
  induction es as [|[u tr] r IH]; intros H; [reflexivity|].
  cbn [flatten_entries flat_map map fst snd]. fold (flatten_entries r).
  pose proof (H (u, tr) (or_introl eq_refl)) as E. cbn [snd] in E. subst tr.
  rewrite IH; [reflexivity|]. intros e He. apply H. now right.
Qed.

Lemma concat_same_length (es : list entry) (P : list string) :
  (forall e, In e es -> snd e = P) ->
  List.length (List.concat (map snd es)) = (List.length es * List.length P)%nat.
Proof.
  induction es as [|[u tr] r IH]; intros H; [reflexivity|].
  cbn [map List.concat snd List.length]. rewrite app_length, IH by (intros e He; apply H; now right).
  pose proof (H (u, tr) (or_introl eq_refl)) as E. cbn [snd] in E. subst tr. lia.
Qed.

(* THE CHARACTERISATION: an array written with per-entry transformations is read
   as MCNP reads it (right universes, and every entry's own transformation equal
   to the single transformation the code keeps) exactly when no entry carries a
   transformation or the array has one element *)
Theorem fill_array_read_as_mcnp (first : string) (more : list string) (bs : bounds)
        (es : list entry) (us : list Z) (tail : list string) :
  Forall2 spells_range (first :: more) bs ->
  Forall (fun b : Z * Z => (fst b <= snd b)%Z) bs ->
  Forall2 spells_int (map fst es) us -> Z.of_nat (List.length us) = size bs ->
  Forall (fun e : entry => Forall tr_token (snd e)) es -> keyword_or_end tail ->
  ((exists k, parse_fill_kw first (more ++ flatten_entries es ++ tail) = Ok k /\ mcnp_equivalent k us es)
   <-> ((forall e, In e es -> snd e = []) \/ List.length es = 1%nat)).
Proof.
  intros Hr Hwf Hu Hlen Htr Htail.
  assert (Hn : List.length es = List.length us).
  { transitivity (List.length (map fst es)); [symmetry; apply map_length|].
    clear - Hu. induction Hu; cbn [List.length]; [reflexivity|now f_equal]. }
  split.
  - intros (k & Hk & Hun & Hpar).
    assert (Htoks : Forall (fun t => ends_plain t /\ is_num_start t = true /\ has_colon t = false)
                           (flatten_entries es)).
    { clear - Hu Htr. revert us Hu. induction es as [|[u tr] r IH]; intros us Hu; [constructor|].
      cbn [flatten_entries flat_map fst snd map] in *. fold (flatten_entries r).
      inversion Hu as [|? u0 ? us' H0 Hu']; subst. inversion Htr as [|? ? Ht Htr']; subst. cbn [snd] in Ht.
      constructor; [|apply Forall_app; split; [|exact (IH Htr' us' Hu')]].
      - split; [exact (spells_int_ends_plain u u0 H0)|].
        split; [exact (spells_int_num_start u u0 H0)|exact (int_spelling_no_colon u u0 H0)].
      - eapply Forall_impl; [|exact Ht]. intros t [[Hs Hf] [He Hc]]. now repeat split. }
    assert (Hsz : (size bs <= Z.of_nat (List.length (flatten_entries es)))%Z)
      by (rewrite flatten_length; lia).
    destruct (parse_fill_kw_flat first more bs _ tail k Hr Hwf Htoks Hsz Htail Hk) as (Hp & _ & _).
    destruct (Nat.eq_dec (List.length es) 1) as [E1|E1]; [now right|left].
    assert (Hlp : List.length (fk_params k) = List.length (List.concat (map snd es))).
    { rewrite Hp, skipn_length, flatten_length. lia. }
    rewrite (concat_same_length es (fk_params k) Hpar) in Hlp.
    pose proof (size_pos_text bs Hwf).
    assert (Hz : List.length (fk_params k) = 0%nat) by nia.
    intros e He. rewrite (Hpar e He). now apply length_zero_iff_nil.
  - intros [Hall | Hone].
    + exists (mkFillKw (Some bs) (FArr us) [] tail). split.
      * rewrite (flatten_no_tr es Hall).
        exact (parse_fill_kw_array first more bs (map fst es) us [] tail Hr Hwf Hu Hlen (Forall_nil _) Htail).
      * split; [reflexivity|]. intros e He. now apply Hall.
    + destruct es as [|[u tr] [|e2 r]]; try discriminate Hone.
      exists (mkFillKw (Some bs) (FArr us) tr tail). split.
      * cbn [flatten_entries flat_map fst snd app]. rewrite app_nil_r.
        change (more ++ (u :: tr) ++ tail) with (more ++ [u] ++ tr ++ tail).
        apply (parse_fill_kw_array first more bs [u] us tr tail Hr Hwf Hu Hlen); [|exact Htail].
        inversion Htr as [|? ? Ht _]; subst. cbn [snd] in Ht.
        eapply Forall_impl; [|exact Ht]. now intros t [A _].
      * split; [reflexivity|]. intros e [<-|[]]. reflexivity.
Qed.
