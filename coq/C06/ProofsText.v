(* C06 — proofs about the text level of the model: "lo:hi" range strings and
   --lattice options, for ANY spelling of the integers that int() accepts in
   the model (optional sign, leading zeros). *)
From Coq Require Import List ZArith NArith Bool String Ascii Lia.
From T4V Require Import Base.Str Base.Scalar C06.Model.
Import ListNotations.
Open Scope string_scope.

Lemma split_char_nonempty c s : split_char c s <> [].
Proof.
  induction s as [|d r IH]; cbn [split_char]; [discriminate|].
  destruct (Ascii.eqb c d); [discriminate|]. destruct (split_char c r); [contradiction|discriminate].
Qed.

Lemma split_char_none c s : contains_char c s = false -> split_char c s = [s].
Proof.
  induction s as [|d r IH]; cbn [split_char contains_char]; intros H; [reflexivity|].
  apply orb_false_iff in H as [H1 H2]. rewrite H1, (IH H2). reflexivity.
Qed.

Lemma split_char_app c a b :
  contains_char c a = false -> split_char c (a ++ String c b) = a :: split_char c b.
Proof.
  induction a as [|d r IH]; cbn [split_char contains_char append]; intros H.
  - now rewrite Ascii.eqb_refl.
  - apply orb_false_iff in H as [H1 H2]. rewrite H1, (IH H2). reflexivity.
Qed.

Lemma all_digits_no_char c s :
  is_digit c = false -> all_digits s = true -> contains_char c s = false.
Proof.
  intros Hc. induction s as [|d r IH]; cbn [all_digits contains_char]; intros H; [reflexivity|].
  apply andb_true_iff in H as [H1 H2]. rewrite (IH H2), orb_false_r.
  destruct (Ascii.eqb c d) eqn:E; [|reflexivity]. apply Ascii.eqb_eq in E. subst d. congruence.
Qed.

Lemma int_of_string_no_char c s n :
  is_digit c = false -> int_of_string s = Some n -> contains_char c s = false.
Proof.
  intros Hc H. unfold int_of_string in H. destruct s as [|d r]; [discriminate|].
  destruct (all_digits (String d r)) eqn:E; [|discriminate]. now apply all_digits_no_char.
Qed.

(* a separator (neither a digit nor a sign) does not occur in an integer *)
Lemma int_of_signed_no_char c s z :
  is_digit c = false -> c <> "-"%char -> c <> "+"%char ->
  int_of_signed s = Some z -> contains_char c s = false.
Proof.
  intros Hc Hm Hp H. unfold int_of_signed in H.
  assert (Hgen : forall n, int_of_string s = Some n -> contains_char c s = false)
    by (intros n; now apply int_of_string_no_char).
  destruct s as [|d r]; [discriminate|].
  destruct (Ascii.eqb d "-") eqn:E1; [apply Ascii.eqb_eq in E1; subst d|].
  - destruct (int_of_string r) eqn:E; [|discriminate]. cbn [contains_char].
    rewrite (int_of_string_no_char c r n Hc E), orb_false_r. now apply Ascii.eqb_neq.
  - destruct (Ascii.eqb d "+") eqn:E2; [apply Ascii.eqb_eq in E2; subst d|].
    + destruct (int_of_string r) eqn:E; [|discriminate]. cbn [contains_char].
      rewrite (int_of_string_no_char c r n Hc E), orb_false_r. now apply Ascii.eqb_neq.
    + assert (Hs : exists n, int_of_string (String d r) = Some n).
      { destruct d as [[] [] [] [] [] [] [] []]; try discriminate E1; try discriminate E2;
          (destruct (int_of_string _); [eexists; reflexivity|discriminate]). }
      destruct Hs as [n Hn]. now apply (Hgen n).
Qed.

(* signs: "-d" is the opposite of "d", "+d" is "d" *)
Lemma int_of_signed_minus d n : int_of_string d = Some n -> int_of_signed (String "-" d) = Some (- Z.of_N n)%Z.
Proof. intros H. cbn [int_of_signed]. now rewrite H. Qed.

Lemma int_of_signed_plus d n : int_of_string d = Some n -> int_of_signed (String "+" d) = Some (Z.of_N n).
Proof. intros H. cbn [int_of_signed]. now rewrite H. Qed.

(* a range string: spellings of two integers around one colon *)
Definition spells_range (s : string) (b : Z * Z) : Prop :=
  exists a c, s = a ++ String ":" c /\ int_of_signed a = Some (fst b) /\ int_of_signed c = Some (snd b).

Lemma colon_facts : is_digit ":" = false /\ ":"%char <> "-"%char /\ ":"%char <> "+"%char.
Proof. repeat split; discriminate. Qed.

Lemma comma_facts : is_digit "," = false /\ ","%char <> "-"%char /\ ","%char <> "+"%char.
Proof. repeat split; discriminate. Qed.

Theorem parse_ranges_spelled (strs : list string) (bs : bounds) :
  Forall2 spells_range strs bs -> parse_ranges strs = Ok bs.
Proof.
  destruct colon_facts as (Hd & Hm & Hp).
  induction 1 as [|s [lo hi] strs bs (a & c & -> & Ha & Hc) _ IH]; [reflexivity|].
  cbn [fst snd] in Ha, Hc. cbn [parse_ranges].
  rewrite (split_char_app ":" a c (int_of_signed_no_char _ _ _ Hd Hm Hp Ha)).
  rewrite (split_char_none ":" c (int_of_signed_no_char _ _ _ Hd Hm Hp Hc)).
  rewrite Ha, Hc, IH. reflexivity.
Qed.

(* a string with no colon, or with two, is a ValueError *)
Theorem parse_ranges_no_colon s rest : contains_char ":" s = false -> parse_ranges (s :: rest) = Err EValue.
Proof. intros H. cbn [parse_ranges]. now rewrite (split_char_none ":" s H). Qed.

(* one --lattice option "cell,r1[,r2[,r3]]" *)
Fixpoint join_comma (l : list string) : string :=
  match l with
  | [] => ""
  | [s] => s
  | s :: r => s ++ String "," (join_comma r)
  end.

Lemma spells_range_no_comma s b : spells_range s b -> contains_char "," s = false.
Proof.
  destruct comma_facts as (Hd & Hm & Hp). intros (a & c & -> & Ha & Hc).
  assert (E : forall x y, contains_char "," (x ++ y) = contains_char "," x || contains_char "," y).
  { induction x as [|d r IH]; intros y; cbn [append contains_char]; [reflexivity|].
    now rewrite IH, orb_assoc. }
  rewrite E. cbn [contains_char]. rewrite (int_of_signed_no_char _ _ _ Hd Hm Hp Ha),
    (int_of_signed_no_char _ _ _ Hd Hm Hp Hc). reflexivity.
Qed.

Lemma split_join_comma (strs : list string) (bs : bounds) :
  Forall2 spells_range strs bs -> strs <> [] -> split_char "," (join_comma strs) = strs.
Proof.
  induction 1 as [|s b strs bs Hs Hr IH]; intros Hne; [contradiction|].
  destruct strs as [|s2 strs].
  - cbn [join_comma]. now rewrite (split_char_none _ _ (spells_range_no_comma s b Hs)).
  - change (join_comma (s :: s2 :: strs)) with (s ++ String "," (join_comma (s2 :: strs))).
    rewrite (split_char_app _ _ _ (spells_range_no_comma s b Hs)). f_equal. apply IH. discriminate.
Qed.

Theorem parse_lattice_option (head : string) (cell : Z) (strs : list string) (bs : bounds) :
  int_of_signed head = Some cell -> Forall2 spells_range strs bs ->
  (1 <= List.length strs <= 3)%nat ->
  parse_lattice [head ++ String "," (join_comma strs)] = Ok [(cell, bs)].
Proof.
  destruct comma_facts as (Hd & Hm & Hp). intros Hh Hs Hl.
  unfold parse_lattice. cbn [parse_lattice_from].
  rewrite (split_char_app _ _ _ (int_of_signed_no_char _ _ _ Hd Hm Hp Hh)).
  rewrite (split_join_comma strs bs Hs) by (destruct strs; [cbn in Hl; lia|discriminate]).
  destruct strs as [|s1 strs]; [cbn in Hl; lia|].
  replace (Nat.ltb 3 (List.length (s1 :: strs))) with false by (symmetry; apply Nat.ltb_ge; lia).
  rewrite Hh, (parse_ranges_spelled _ _ Hs). reflexivity.
Qed.

(* more than three ranges, or none: ValueError *)
Theorem parse_lattice_too_many (head : string) (cell : Z) (strs : list string) (bs : bounds) :
  int_of_signed head = Some cell -> Forall2 spells_range strs bs -> (3 < List.length strs)%nat ->
  parse_lattice [head ++ String "," (join_comma strs)] = Err EValue.
Proof.
  destruct comma_facts as (Hd & Hm & Hp). intros Hh Hs Hl.
  unfold parse_lattice. cbn [parse_lattice_from].
  rewrite (split_char_app _ _ _ (int_of_signed_no_char _ _ _ Hd Hm Hp Hh)).
  rewrite (split_join_comma strs bs Hs) by (destruct strs; [cbn in Hl; lia|discriminate]).
  destruct strs as [|s1 strs]; [cbn in Hl; lia|].
  replace (Nat.ltb 3 (List.length (s1 :: strs))) with true by (symmetry; apply Nat.ltb_lt; lia).
  reflexivity.
Qed.

(* a later option for the same cell replaces the earlier one (dict assignment) *)
Lemma dict_set_get {V} (d : list (Z * V)) k v : dict_get (dict_set d k v) k = Some v.
Proof.
  induction d as [|[k' v'] r IH]; cbn [dict_set dict_get].
  - now rewrite Z.eqb_refl.
  - destruct (Z.eqb k k') eqn:E; cbn [dict_get]; [now rewrite Z.eqb_refl|now rewrite E].
Qed.
