(* C06 — model of the rectangular-lattice path:
     main.py                          parse_lattice
     Kernel/Volume/Lattice.py         parse_ranges, LatticeBounds.{size,dims,indices,__getitem__},
                                      LatticeSpec.{__init__,items}, latticeReciprocal, latticeVector,
                                      squareLatticeReciprocalVecs, squareLatticeBaseVectors
     Kernel/VectUtils.py              scal, vect, rescale, vsum, vdiff, mag2
     Parser/ParseMCNPCell.py          to_fillid
     Transformation/Transformation.py compose_transform (to_numpy)
     Kernel/Volume/CellConversion.py  extract_surfaces, develop_lattice
   Cells and the effect of a transformation on a cell's geometry are abstract:
   develop_lattice returns, per generated element and in creation order, the
   12-number transformation handed to cell_transform, the fill universe (None =
   the lattice cell's own material) and the 12-number fill transformation.
   Executable; proofs live in C06/Proofs*.v. *)
From Coq Require Import List ZArith Bool String Ascii.
From T4V Require Import Base.Str Base.Scalar.
Import ListNotations.

(* Python exception classes the path can raise *)
Inductive err :=
| ELattice            (* LatticeError *)
| EZeroDiv            (* ZeroDivisionError (float division) *)
| EValue              (* ValueError *)
| EIndex              (* IndexError *)
| EAssert             (* AssertionError *)
| EMissingLatticeOpt  (* MissingLatticeOptError *)
| EParseCell          (* ParseMCNPCellError *)
| EOutOfModel.        (* input outside the modelled subset (never produced by the generators) *)
Inductive res (A : Type) := Ok (a : A) | Err (e : err).
Arguments Ok {A}. Arguments Err {A}.

Definition bind {A B} (r : res A) (f : A -> res B) : res B :=
  match r with Ok a => f a | Err e => Err e end.

(* ------------------------------------------------------------------------ *)
(* Ranges: text level                                                        *)
(* ------------------------------------------------------------------------ *)
Open Scope string_scope.

(* s.split(c) *)
Fixpoint split_char (c : ascii) (s : string) : list string :=
  match s with
  | EmptyString => [EmptyString]
  | String d r =>
      if Ascii.eqb c d then EmptyString :: split_char c r
      else match split_char c r with
           | h :: t => String d h :: t
           | [] => [String d EmptyString]   (* unreachable: split_char is never empty *)
           end
  end.

(* Python int(s) on [+-]?[0-9]+ ; None for anything else (narrower than
   Python: no blanks, underscores or non-ASCII digits — the generators stay
   inside) *)
Definition int_of_signed (s : string) : option Z :=
  match s with
  | String "-" r => match int_of_string r with Some n => Some (- Z.of_N n)%Z | None => None end
  | String "+" r => match int_of_string r with Some n => Some (Z.of_N n) | None => None end
  | _ => match int_of_string s with Some n => Some (Z.of_N n) | None => None end
  end.

Definition bounds := list (Z * Z).

(* Lattice.parse_ranges: every failure is a ValueError *)
Fixpoint parse_ranges (intervals : list string) : res bounds :=
  match intervals with
  | [] => Ok []
  | rang :: rest =>
      match split_char ":" rang with
      | [a; b] =>
          match int_of_signed a, int_of_signed b with
          | Some lo, Some hi =>
              match parse_ranges rest with
              | Ok l => Ok ((lo, hi) :: l)
              | Err e => Err e
              end
          | _, _ => Err EValue
          end
      | _ => Err EValue
      end
  end.

(* Python dict assignment d[k] = v on an insertion-ordered dict *)
Fixpoint dict_set {V} (d : list (Z * V)) (k : Z) (v : V) : list (Z * V) :=
  match d with
  | [] => [(k, v)]
  | (k', v') :: r => if Z.eqb k k' then (k, v) :: r else (k', v') :: dict_set r k v
  end.

Fixpoint dict_get {V} (d : list (Z * V)) (k : Z) : option V :=
  match d with
  | [] => None
  | (k', v) :: r => if Z.eqb k k' then Some v else dict_get r k
  end.

(* main.parse_lattice: list of --lattice option values -> {cell: bounds} *)
Fixpoint parse_lattice_from (acc : list (Z * bounds)) (opts : list string) : res (list (Z * bounds)) :=
  match opts with
  | [] => Ok acc
  | opt :: rest =>
      match split_char "," opt with
      | [] | [_] => Err EValue                       (* no ranges specified *)
      | head :: ranges =>
          if Nat.ltb 3 (List.length ranges) then Err EValue   (* too many ranges *)
          else match int_of_signed head with
               | None => Err EValue
               | Some cell =>
                   match parse_ranges ranges with
                   | Ok bs => parse_lattice_from (dict_set acc cell bs) rest
                   | Err e => Err e
                   end
               end
      end
  end.
Definition parse_lattice := parse_lattice_from [].

Close Scope string_scope.
Open Scope Z_scope.

(* ------------------------------------------------------------------------ *)
(* LatticeBounds / LatticeSpec                                               *)
(* ------------------------------------------------------------------------ *)

(* reduce(lambda x, y: x * (y[1] - y[0] + 1), bounds, 1) *)
Definition size (bs : bounds) : Z :=
  fold_left (fun x (y : Z * Z) => x * (snd y - fst y + 1)) bs 1.

(* sum(1 for x in bounds if x[0] != x[1]) *)
Definition dims (bs : bounds) : Z :=
  Z.of_nat (List.length (filter (fun b : Z * Z => negb (fst b =? snd b)) bs)).

(* range(lo, hi + 1) *)
Fixpoint zrange_from (lo : Z) (n : nat) : list Z :=
  match n with O => [] | S m => lo :: zrange_from (lo + 1) m end.
Definition zrange (lo hi : Z) : list Z := zrange_from lo (Z.to_nat (hi + 1 - lo)).

(* LatticeBounds.indices for a non-empty list of bounds: the Python generator
   peels the LAST bound as the outer loop and recurses on the rest; here the
   same enumeration is written structurally: for every index tuple of the
   trailing bounds (outer), every value of the first range (inner). *)
Fixpoint indices (bs : bounds) : list (list Z) :=
  match bs with
  | [] => [[]]
  | (lo, hi) :: r => flat_map (fun tl => map (fun x => x :: tl) (zrange lo hi)) (indices r)
  end.

(* the generator raises IndexError (bounds[-1]) on an empty list of bounds *)
Definition indices_py (bs : bounds) : res (list (list Z)) :=
  match bs with [] => Err EIndex | _ => Ok (indices bs) end.

(* LatticeBounds.__getitem__ (Python list indexing, negative indices from the end) *)
Definition bounds_getitem (bs : bounds) (i : Z) : res (Z * Z) :=
  let n := Z.of_nat (List.length bs) in
  let j := if i <? 0 then i + n else i in
  if (j <? 0) || (n <=? j) then Err EIndex
  else match nth_error bs (Z.to_nat j) with Some b => Ok b | None => Err EIndex end.

(* LatticeSpec(bounds, spec): ValueError unless size = len(spec) *)
Definition lattice_spec (bs : bounds) (spec : list Z) : res (bounds * list Z) :=
  if size bs =? Z.of_nat (List.length spec) then Ok (bs, spec) else Err EValue.

(* LatticeSpec.items: zip(self.bounds.indices(), self.spec) *)
Definition items (bs : bounds) (spec : list Z) : res (list (list Z * Z)) :=
  bind (indices_py bs) (fun idx => Ok (combine idx spec)).

(* LatticeSpec.__getitem__ — not used by the converter (develop_lattice only
   iterates items()); modelled because it lies in the anchored lines.
   spec[index] with Python's negative indices *)
Definition py_list_get (spec : list Z) (i : Z) : res Z :=
  let n := Z.of_nat (List.length spec) in
  let j := if i <? 0 then i + n else i in
  if (j <? 0) || (n <=? j) then Err EIndex
  else match nth_error spec (Z.to_nat j) with Some u => Ok u | None => Err EIndex end.

(* the loop "for bound, subind in zip(self.bounds, arg)" *)
Fixpoint getitem_index (bs : bounds) (arg : list Z) (index : Z) : res Z :=
  match bs, arg with
  | (lo, hi) :: r, i :: tl =>
      if (i <? lo) || (hi <? i) then Err EValue
      else getitem_index r tl (index * (hi - lo + 1) + i - lo)
  | _, _ => Ok index
  end.

Definition spec_getitem_tuple (bs : bounds) (spec : list Z) (arg : list Z) : res Z :=
  if negb (Nat.eqb (List.length arg) (List.length bs)) then Err EValue
  else bind (getitem_index bs arg 0) (py_list_get spec).

(* ------------------------------------------------------------------------ *)
(* ParseMCNPCell.to_fillid                                                   *)
(* ------------------------------------------------------------------------ *)
Inductive funivs := FInt (n : Z) | FArr (l : list Z).
Inductive fillid := FNone | FUniv (u : Z) | FSpec (bs : bounds) (spec : list Z).

(* [n] * k *)
Definition py_repeat (n : Z) (k : Z) : list Z := repeat n (Z.to_nat k).

Definition to_fillid (f_bounds : option bounds) (f_univs : option funivs)
           (lattice : option Z) (lat_opt : option bounds) : res fillid :=
  match f_bounds, f_univs with
  | None, None => Ok FNone
  | _, _ =>
      match lattice with
      | Some _ =>       (* parse_lat_kw only lets 1 and 2 through: truthy *)
          match f_univs with
          | Some (FInt n) =>
              match lat_opt with
              | None => Err EMissingLatticeOpt
              | Some bs => bind (lattice_spec bs (py_repeat n (size bs)))
                                (fun p => Ok (FSpec (fst p) (snd p)))
              end
          | Some (FArr l) =>
              match f_bounds with
              | Some bs => bind (lattice_spec bs l) (fun p => Ok (FSpec (fst p) (snd p)))
              | None => Err EValue   (* not produced by parse_fill_kw *)
              end
          | None => Err EValue       (* not produced by parse_fill_kw *)
          end
      | None =>
          match f_bounds with
          | Some _ => Err EAssert
          | None => match f_univs with
                    | Some (FInt n) => Ok (FUniv n)
                    | _ => Err EAssert   (* not produced by parse_fill_kw *)
                    end
          end
      end
  end.

(* ------------------------------------------------------------------------ *)
(* Numeric part, once over Scalar T                                          *)
(* ------------------------------------------------------------------------ *)
Section Numeric.
Context {T : Type} (SC : Scalar T).

Definition vec := (T * T * T)%type.
Definition plane := (vec * vec)%type.          (* (point, normal) = param_surface of a plane *)

Local Notation "x + y" := (sadd SC x y).
Local Notation "x - y" := (ssub SC x y).
Local Notation "x * y" := (smul SC x y).
Local Notation "x / y" := (sdiv SC x y).

Definition scal (a b : vec) : T :=
  let '(a1, b1, c1) := a in let '(a2, b2, c2) := b in a1 * a2 + b1 * b2 + c1 * c2.

Definition vect (a b : vec) : vec :=
  let '(x1, y1, z1) := a in let '(x2, y2, z2) := b in
  (y1 * z2 - z1 * y2, x2 * z1 - x1 * z2, x1 * y2 - y1 * x2).

Definition rescale (a : T) (v : vec) : vec :=
  let '(x, y, z) := v in (a * x, a * y, a * z).

Definition vadd (a b : vec) : vec :=
  let '(x1, y1, z1) := a in let '(x2, y2, z2) := b in (x1 + x2, y1 + y2, z1 + z2).

Definition vzero : vec := (s0 SC, s0 SC, s0 SC).

(* vsum: accumulators start at 0. and add the vectors in order *)
Definition vsum (l : list vec) : vec := fold_left vadd l vzero.

Definition vdiff (a b : vec) : vec :=
  let '(x1, y1, z1) := a in let '(x2, y2, z2) := b in (x1 - x2, y1 - y2, z1 - z2).

Definition mag2 (v : vec) : T := scal v v.

(* float division: Python raises ZeroDivisionError on a zero divisor *)
Definition pydiv (a b : T) : res T :=
  if seqb SC b (s0 SC) then Err EZeroDiv else Ok (a / b).

(* Lattice.latticeReciprocal *)
Definition latticeReciprocal (base : list vec) : res (list vec) :=
  match base with
  | [v] => bind (pydiv (s1 SC) (scal v v)) (fun k => Ok [rescale k v])
  | [v1; v2] =>
      let v12 := mag2 v1 in
      let v22 := mag2 v2 in
      let v1v2 := scal v1 v2 in
      let den := v12 * v22 - v1v2 * v1v2 in
      bind (pydiv v22 den) (fun c11 =>
      bind (pydiv (sneg SC v1v2) den) (fun c12 =>
      bind (pydiv v12 den) (fun c22 =>
        Ok [vsum [rescale c11 v1; rescale c12 v2];
            vsum [rescale c22 v2; rescale c12 v1]])))
  | [v1; v2; v3] =>
      let v12 := vect v1 v2 in
      let v23 := vect v2 v3 in
      let v31 := vect v3 v1 in
      bind (pydiv (sofZ SC 3) (scal v1 v23 + scal v2 v31 + scal v3 v12)) (fun norm =>
        Ok [rescale norm v23; rescale norm v31; rescale norm v12])
  | _ => Err EValue    (* "vec1, vec2, vec3 = base_vecs" fails to unpack *)
  end.

(* Lattice.latticeVector: zip(index, base_vecs) truncates to the shorter *)
Definition latticeVector (base : list vec) (index : list Z) : vec :=
  vsum (map (fun iv : Z * vec => rescale (sofZ SC (fst iv)) (snd iv)) (combine index base)).

(* Lattice.squareLatticeReciprocalVecs; a surface is ((point, normal), side) *)
Fixpoint square_rec_loop (surfaces : list (plane * Z)) : res (list vec) :=
  match surfaces with
  | ((point, normal), side1) :: ((point2, _), _) :: rest =>
      let normal := if (side1 =? 1)%Z then rescale (sneg SC (s1 SC)) normal else normal in
      let distance := scal (vdiff point point2) normal in
      bind (pydiv (s1 SC) distance) (fun k =>
      bind (square_rec_loop rest) (fun l => Ok (rescale k normal :: l)))
  | [] => Ok []
  | [_] => Err EValue   (* unreachable behind the length check *)
  end.

Definition squareLatticeReciprocalVecs (surfaces : list (plane * Z)) : res (list vec) :=
  let n := List.length surfaces in
  if Nat.eqb n 2 || Nat.eqb n 4 || Nat.eqb n 6 then square_rec_loop surfaces
  else Err ELattice.

Definition squareLatticeBaseVectors (surfaces : list (plane * Z)) : res (list vec) :=
  bind (squareLatticeReciprocalVecs surfaces) latticeReciprocal.

(* CellConversion.extract_surfaces: ids = extract_surfaces_list(cell.geometry)
   (signed surface numbers in the order of the cell card), dic = dic_surf_mcnp
   restricted to planes: number -> [(param_surface, side)] *)
Definition extract_surfaces (dic : Z -> list (plane * Z)) (ids : list Z) : list (plane * Z) :=
  flat_map (fun id => map (fun ps : plane * Z => (fst ps, if (0 <? id)%Z then snd ps else (- snd ps)%Z))
                          (dic (Z.abs id))) ids.

(* a 12-number transformation [O1 O2 O3 B1..B9] *)
Definition transf := list T.

Definition identity9 : list T :=
  [s1 SC; s0 SC; s0 SC; s0 SC; s1 SC; s0 SC; s0 SC; s0 SC; s1 SC].

(* Transformation.compose_transform: mat_c = mat2 @ mat1, vec_c = mat2 @ vec1 + vec2 *)
Definition compose_transform (t1 t2 : transf) : res transf :=
  match t1, t2 with
  | [o1; o2; o3; a1; a2; a3; a4; a5; a6; a7; a8; a9],
    [p1; p2; p3; b1; b2; b3; b4; b5; b6; b7; b8; b9] =>
      Ok [ b1 * o1 + b2 * o2 + b3 * o3 + p1;
           b4 * o1 + b5 * o2 + b6 * o3 + p2;
           b7 * o1 + b8 * o2 + b9 * o3 + p3;
           b1 * a1 + b2 * a4 + b3 * a7;  b1 * a2 + b2 * a5 + b3 * a8;  b1 * a3 + b2 * a6 + b3 * a9;
           b4 * a1 + b5 * a4 + b6 * a7;  b4 * a2 + b5 * a5 + b6 * a8;  b4 * a3 + b5 * a6 + b6 * a9;
           b7 * a1 + b8 * a4 + b9 * a7;  b7 * a2 + b8 * a5 + b9 * a8;  b7 * a3 + b8 * a6 + b9 * a9 ]
  | _, _ => Err EValue    (* reshape(3, 3) of something that is not 9 numbers *)
  end.

(* ------------------------------------------------------------------------ *)
(* CellConversion.develop_lattice                                            *)
(* ------------------------------------------------------------------------ *)
Record lat_cell := mkLatCell {
  lc_universe : Z;
  lc_fill : fillid;
  lc_filltr : transf;          (* () or 12 numbers *)
  lc_trcl : list transf        (* [] or [12 numbers] *)
}.

Record new_elem := mkElem {
  ne_index : list Z;           (* lattice index of the element *)
  ne_trnsf : transf;           (* handed to cell_transform: moves the unit cell *)
  ne_fill : option Z;          (* None: fillid None + the lattice cell's materialID *)
  ne_filltr : transf
}.

(* the dimension test (repaired in /repo 9b5a8f0): one range per base vector,
   and only the ranges beyond the lattice dimensions must be trivial:
     if len(domain.bounds) < n_vectors: raise LatticeError
     for range_ in list(domain.bounds)[n_vectors:]:
         if range_[0] != range_[1]: raise LatticeError *)
Fixpoint padding_loop (rest : bounds) : res unit :=
  match rest with
  | [] => Ok tt
  | r :: tl => if negb (fst r =? snd r) then Err ELattice else padding_loop tl
  end.

Definition dimension_checks (nvec : nat) (bs : bounds) : res unit :=
  if Nat.ltb (List.length bs) nvec then Err ELattice
  else padding_loop (skipn nvec bs).

Fixpoint fold_trcl (trcls : list transf) (cur : transf) : res transf :=
  match trcls with
  | [] => Ok cur
  | t :: r => bind (compose_transform t cur) (fold_trcl r)
  end.

Definition is_nil {A} (l : list A) : bool := match l with [] => true | _ => false end.

Definition develop_one (cell : lat_cell) (vecs : list vec) (iu : list Z * Z) : res (list new_elem) :=
  let '(index, universe) := iu in
  if universe =? 0 then Ok []
  else
    let '(tx, ty, tz) := latticeVector vecs index in
    let trnsf := [tx; ty; tz] ++ identity9 in
    let fill := if universe =? lc_universe cell then None else Some universe in
    bind (if is_nil (lc_filltr cell) then Ok trnsf else compose_transform (lc_filltr cell) trnsf)
         (fun new_filltr =>
    bind (if negb (is_nil (lc_trcl cell)) && is_nil (lc_filltr cell)
          then fold_trcl (lc_trcl cell) new_filltr else Ok new_filltr)
         (fun new_filltr => Ok [mkElem index trnsf fill new_filltr])).

Fixpoint develop_loop (cell : lat_cell) (vecs : list vec) (its : list (list Z * Z)) : res (list new_elem) :=
  match its with
  | [] => Ok []
  | iu :: r => bind (develop_one cell vecs iu) (fun l1 =>
               bind (develop_loop cell vecs r) (fun l2 => Ok (l1 ++ l2)))
  end.

(* generic in the base vectors (shared with hexagonal lattices): [base] is the
   outcome of squareLatticeBaseVectors / hexLatticeBaseVectors *)
Definition develop_lattice_with (base : res (list vec)) (cell : lat_cell) : res (list new_elem) :=
  match lc_fill cell with
  | FSpec bs spec =>
      bind base (fun vecs =>
      bind (dimension_checks (List.length vecs) bs) (fun _ =>
      bind (items bs spec) (fun its => develop_loop cell vecs its)))
  | _ => Err EAssert
  end.

(* LAT=1 *)
Definition develop_lattice (dic : Z -> list (plane * Z)) (ids : list Z) (cell : lat_cell)
  : res (list new_elem) :=
  develop_lattice_with (squareLatticeBaseVectors (extract_surfaces dic ids)) cell.

End Numeric.

Arguments mkLatCell {T}. Arguments lc_universe {T}. Arguments lc_fill {T}.
Arguments lc_filltr {T}. Arguments lc_trcl {T}.
Arguments mkElem {T}. Arguments ne_index {T}. Arguments ne_trnsf {T}.
Arguments ne_fill {T}. Arguments ne_filltr {T}.

(* ------------------------------------------------------------------------ *)
(* ParseMCNPCell.parse_fill_kw: the tokens after FILL / *FILL                *)
(* ------------------------------------------------------------------------ *)
(* The option string of the cell card is lower-cased, "(", ")" and "=" become
   blanks, and the tokens are consumed one by one (kw_list.pop()); here the
   token list is in reading order.  Modelled subset of MIP expand_data_card
   (dtype='int'): integer spellings and the repeat shorthand "r"/"nr"; the
   shorthands i, m, j, log and non-integer number spellings answer EOutOfModel.
   The numeric content of the transformation parameters (to_float, TRn lookup,
   to_cos, normalize_transform) belongs to C04/C05: the model returns the
   parameter TOKENS and their shape. *)
Open Scope string_scope.

Fixpoint last_char (s : string) : option ascii :=
  match s with
  | EmptyString => None
  | String c EmptyString => Some c
  | String _ r => last_char r
  end.

Fixpoint drop_last1 (s : string) : string :=
  match s with
  | EmptyString => EmptyString
  | String _ EmptyString => EmptyString
  | String c r => String c (drop_last1 r)
  end.

(* kw_list[-1][0] in '0123456789.+-' *)
Definition is_num_start (s : string) : bool :=
  match s with
  | EmptyString => false     (* tokens of split() are never empty *)
  | String c _ => is_digit c || Ascii.eqb c "." || Ascii.eqb c "+" || Ascii.eqb c "-"
  end.

Fixpoint span_tokens (f : string -> bool) (l : list string) : list string * list string :=
  match l with
  | [] => ([], [])
  | t :: r => if f t then let '(a, b) := span_tokens f r in (t :: a, b) else ([], l)
  end.

Definition ends_with_log (s : string) : bool :=
  match last_char s, last_char (drop_last1 s), last_char (drop_last1 (drop_last1 s)) with
  | Some "g"%char, Some "o"%char, Some "l"%char => true
  | _, _, _ => false
  end.

Fixpoint last_Z (l : list Z) : option Z :=
  match l with [] => None | [x] => Some x | _ :: r => last_Z r end.

(* expand_data_card(tokens, expected=expected, dtype='int'): (values, consumed) *)
Fixpoint expand_ints (tokens : list string) (expected : Z) (result : list Z) (consumed : nat)
  : res (list Z * nat) :=
  let finish :=
    if (Z.of_nat (List.length result) =? expected)%Z then Ok (result, consumed) else Err EParseCell in
  match tokens with
  | [] => finish
  | tok :: rest =>
      if (expected <=? Z.of_nat (List.length result))%Z then finish
      else
        match last_char tok with
        | None => Err EOutOfModel
        | Some c =>
            if Ascii.eqb c "r" then
              match (match drop_last1 tok with
                     | EmptyString => Some 1%Z
                     | pre => int_of_signed pre
                     end) with
              | None => Err EParseCell                  (* int('x') : ValueError, caught *)
              | Some n =>
                  match last_Z result with
                  | None => Err EIndex                   (* result[-1] on an empty list *)
                  | Some x => expand_ints rest expected (result ++ repeat x (Z.to_nat n)) (S consumed)
                  end
              end
            else if Ascii.eqb c "i" || Ascii.eqb c "m" || Ascii.eqb c "j" || ends_with_log tok
            then Err EOutOfModel
            else
              match int_of_signed tok with
              | Some v => expand_ints rest expected (result ++ [v]) (S consumed)
              | None => if is_num_start tok then Err EOutOfModel   (* 2.0, 1e1, ... *)
                        else Err EParseCell                          (* a keyword: to_float fails *)
              end
        end
  end.

(* MIP to_float on a lower-case token: Python float() or the Fortran spellings
   (1.5d3, 1.5+3); inf/nan/underscores are outside the model *)
Fixpoint skip_digits (s : string) : nat * string :=
  match s with
  | String c r => if is_digit c then let '(n, t) := skip_digits r in (S n, t) else (O, s)
  | EmptyString => (O, s)
  end.

Definition strip_sign (s : string) : string :=
  match s with
  | String c r => if Ascii.eqb c "+" || Ascii.eqb c "-" then r else s
  | EmptyString => s
  end.

Definition digits1 (s : string) : bool :=
  match s with EmptyString => false | _ => all_digits s end.

Definition exponent_part (s : string) : bool :=
  match s with
  | EmptyString => true
  | String c r =>
      if Ascii.eqb c "e" || Ascii.eqb c "d" then digits1 (strip_sign r)
      else if Ascii.eqb c "+" || Ascii.eqb c "-" then digits1 r
      else false
  end.

Definition is_float_spelling (s : string) : bool :=
  let '(n1, r1) := skip_digits (strip_sign s) in
  match r1 with
  | String "." r2 =>
      let '(n2, r3) := skip_digits r2 in
      if Nat.eqb (n1 + n2) 0 then false else exponent_part r3
  | _ => if Nat.eqb n1 0 then false else exponent_part r1
  end.

Definition has_colon (s : string) : bool := contains_char ":" s.

Inductive fill_shape :=
| PNone                          (* no transformation *)
| PNumber (t : string)           (* one number: TRn *)
| PTranslation (a b c : string)  (* three numbers: a translation, also under *FILL *)
| PMatrix (star : bool) (l : list string).   (* anything else: normalize_transform (after to_cos if starred) *)

Definition fill_params_shape (star : bool) (params : list string) : fill_shape :=
  match params with
  | [] => PNone
  | [t] => PNumber t
  | [a; b; c] => PTranslation a b c
  | l => PMatrix star l
  end.

Record fill_kw := mkFillKw {
  fk_bounds : option bounds;
  fk_univs : funivs;
  fk_params : list string;       (* tokens taken as transformation parameters *)
  fk_rest : list string          (* what is left of the keyword list *)
}.

Definition parse_fill_kw (first_arg : string) (stack : list string) : res fill_kw :=
  if has_colon first_arg then
    let '(more, rest) := span_tokens has_colon stack in
    bind (parse_ranges (first_arg :: more)) (fun bs =>
    bind (expand_ints rest (size bs) [] 0) (fun vc =>
      let '(univs, consumed) := vc in
      (* del kw_list[-consumed:] : with consumed = 0 this deletes EVERYTHING *)
      let rest := match consumed with O => [] | _ => skipn consumed rest end in
      let '(params, rest) := span_tokens is_num_start rest in
      (* fill_params.append(to_float(...)): an uncaught ValueError otherwise *)
      if forallb is_float_spelling params
      then Ok (mkFillKw (Some bs) (FArr univs) params rest) else Err EValue))
  else
    match int_of_signed first_arg with
    | None => Err EOutOfModel          (* FILL=2.0 etc.: int(float(...)) *)
    | Some u =>
        let '(params, rest) := span_tokens is_num_start stack in
        if forallb is_float_spelling params
        then Ok (mkFillKw None (FInt u) params rest) else Err EValue
    end.

(* ------------------------------------------------------------------------ *)
(* parse_one_cell_worker: the option string of a cell card -> keyword tokens  *)
(* ------------------------------------------------------------------------ *)
(*   option = re.sub(' *: *', ':', option)
     option = option.lower().replace('(', ' ').replace(')', ' ').replace('=', ' ')
     kw_list = list(reversed(option.split()))
   as one pass over the characters (tokens in reading order): blanks next to a
   colon vanish (only the space character, as in the regular expression), "(",
   ")", "=" and white space separate tokens, ASCII letters are lower-cased. *)
Definition lower_ascii (c : ascii) : ascii :=
  let n := N_of_ascii c in
  if (65 <=? n)%N && (n <=? 90)%N then ascii_of_N (n + 32) else c.

Definition is_space_like (c : ascii) : bool :=
  let n := N_of_ascii c in
  (n =? 9)%N || (n =? 10)%N || (n =? 11)%N || (n =? 12)%N || (n =? 13)%N
  || Ascii.eqb c "(" || Ascii.eqb c ")" || Ascii.eqb c "=".

Definition push_token (cur : string) (acc : list string) : list string :=
  match cur with EmptyString => acc | _ => cur :: acc end.

(* cur: token being built; pending: a space was seen after it; after: the last
   character kept was a colon (following spaces are dropped); acc: reversed *)
Fixpoint tokenize_from (s : string) (cur : string) (pending after : bool) (acc : list string)
  : list string :=
  match s with
  | EmptyString => rev (push_token cur acc)
  | String c r =>
      if Ascii.eqb c " " then
        if after then tokenize_from r cur false true acc
        else tokenize_from r cur true false acc
      else if Ascii.eqb c ":" then
        tokenize_from r (cur ++ ":") false true acc
      else if is_space_like c then
        tokenize_from r EmptyString false false (push_token cur acc)
      else
        if pending then
          tokenize_from r (String (lower_ascii c) EmptyString) false false (push_token cur acc)
        else tokenize_from r (cur ++ String (lower_ascii c) EmptyString) false false acc
  end.

Definition tokenize_options (s : string) : list string := tokenize_from s EmptyString false false [].

Close Scope string_scope.
