(* C06 — end to end: develop_lattice composed with what cell_transform and
   pot_fill do to the generated cells, down to "which points belong to a volume
   of which material".

   Interface restated from C05/C04 (their subject, not proved here):
   * cell_transform(key, T) creates a cell whose region is the image of the
     region of `key` under the point map of T (apply_tr T);
   * pot_fill of a cell with fill universe u and a non-empty fill
     transformation F creates, for every leaf cell (region r, material m) of
     universe u (already developed), the volume  cell ∩ image of r under F,
     with material m; a cell without fill stays one volume with its own
     material (new_cell.filltr is never empty after develop_lattice, so the
     TRCL branch of pot_fill is not taken for lattice elements). *)
From Coq Require Import List ZArith Bool Reals Lra Lia ZifyBool.
From T4V Require Import Base.Scalar C06.Model C06.ProofsIndex C06.ProofsNumeric C06.ProofsDevelop.
Import ListNotations.
Open Scope R_scope.

Definition region := rvec -> Prop.

(* image of a region under the point map of 12 numbers *)
Definition moved (T : rtransf) (r : region) : region :=
  fun p => exists q, r q /\ p = apply_tr T q.

Lemma vdiff_vadd (q t : rvec) : vdiff RS (vadd RS q t) t = q.
Proof. destruct q as [[q1 q2] q3], t as [[t1 t2] t3]. rs. f_equal; [f_equal|]; ring. Qed.

Lemma vadd_vdiff (p t : rvec) : vadd RS (vdiff RS p t) t = p.
Proof. destruct p as [[p1 p2] p3], t as [[t1 t2] t3]. rs. f_equal; [f_equal|]; ring. Qed.

Section EndToEnd.
Context {M : Type}.
Variable unit_cell : region.          (* the lattice cell (after its TRCL), in the frame of its universe *)
Variable own_mat : M.                 (* its material *)
Variable leaves : Z -> list (region * M).   (* universe -> its developed leaf cells *)
Variable cell : rcell.
Variable vecs : list rvec.
Variables (bs : bounds) (spec : list Z).

(* cell_transform + pot_fill on one generated element *)
Definition volumes_of_elem (e : relem) : list (region * M) :=
  match ne_fill e with
  | None => [(moved (ne_trnsf e) unit_cell, own_mat)]
  | Some u => map (fun rm : region * M =>
                     ((fun p => moved (ne_trnsf e) unit_cell p /\ moved (ne_filltr e) (fst rm) p), snd rm))
                  (leaves u)
  end.

Definition lattice_volumes (elems : list relem) : list (region * M) := flat_map volumes_of_elem elems.

(* what MCNP means (DESIGN Appendix A): p is owned, with material m, by the
   lattice iff it lies in the element (i,j,k) of the declared ranges, i.e. in
   the unit cell translated by t = i a1 + j a2 + k a3, whose array entry u
   (first index fastest) is not 0, and either u is the lattice's own universe
   and m its own material, or p = t + placement(q) for a point q of a leaf cell
   of universe u with material m *)
Definition lattice_owner (p : rvec) (m : M) : Prop :=
  exists idx, in_ranges idx bs /\
    let t := lattice_point vecs idx in
    let u := nth (Z.to_nat (flat_index bs idx)) spec 0%Z in
    unit_cell (vdiff RS p t) /\ u <> 0%Z /\
    ((u = lc_universe cell /\ m = own_mat) \/
     (u <> lc_universe cell /\
      exists r q, In (r, m) (leaves u) /\ r q /\ p = vadd RS (placement cell q) t)).

Hypothesis Hfill : lc_fill cell = FSpec bs spec.
Hypothesis Hne : bs <> [].
Hypothesis Hwf : wf_bounds bs.
Hypothesis Hlen : Z.of_nat (List.length spec) = size bs.
Hypothesis Hn : (List.length vecs <= List.length bs)%nat.
Hypothesis Hpad : Forall trivial_range (skipn (List.length vecs) bs).
Hypothesis Hshape : cell_shape_ok cell.

Lemma moved_translation (e : relem) (t : rvec) :
  (forall p, apply_tr (ne_trnsf e) p = vadd RS p t) ->
  forall p, moved (ne_trnsf e) unit_cell p <-> unit_cell (vdiff RS p t).
Proof.
  intros Htr p. unfold moved. split.
  - intros (q & Hq & ->). now rewrite Htr, vdiff_vadd.
  - intros H. exists (vdiff RS p t). split; [exact H|]. now rewrite Htr, vadd_vdiff.
Qed.

Theorem lattice_end_to_end :
  exists elems, develop_lattice_with RS (Ok vecs) cell = Ok elems /\
    forall p m, (exists r, In (r, m) (lattice_volumes elems) /\ r p) <-> lattice_owner p m.
Proof.
  destruct (develop_lattice_located_ranges cell vecs bs spec Hfill Hne Hwf Hlen Hn Hpad Hshape)
    as (elems & H1 & H2 & _ & H4).
  exists elems. split; [exact H1|]. intros p m.
  pose proof (develop_lattice_complete cell vecs bs spec elems Hne Hwf Hlen H2) as Hcomp.
  rewrite Forall_forall in H4. split.
  - intros (r & Hin & Hr). unfold lattice_volumes in Hin. apply in_flat_map in Hin as (e & He & Hv).
    destruct (H4 e He) as (Hrange & Hu & (Htr & Hf & Hftr)). cbv zeta in Hu, Htr, Hf, Hftr.
    exists (ne_index e). split; [exact Hrange|]. cbv zeta.
    set (u := nth (Z.to_nat (flat_index bs (ne_index e))) spec 0%Z) in *.
    set (t := lattice_point vecs (ne_index e)) in *.
    unfold volumes_of_elem in Hv. rewrite Hf in Hv.
    destruct (u =? lc_universe cell)%Z eqn:Eu.
    + destruct Hv as [Hv|[]]. injection Hv as <- <-.
      split; [now apply (moved_translation e t Htr)|]. split; [exact Hu|]. left. split; [lia|reflexivity].
    + apply in_map_iff in Hv as ([rf mf] & Hv & Hleaf). cbn [fst snd] in Hv. injection Hv as <- <-.
      destruct Hr as [Hcell (q & Hq & Hp)].
      split; [now apply (moved_translation e t Htr)|]. split; [exact Hu|]. right. split; [lia|].
      exists rf, q. split; [exact Hleaf|]. split; [exact Hq|]. now rewrite Hp, Hftr.
  - intros (idx & Hrange & Hunit & Hu & Hcase). cbv zeta in Hunit, Hu, Hcase.
    assert (Hidx : In idx (map (@ne_index R) elems)) by (apply Hcomp; now split).
    apply in_map_iff in Hidx as (e & Hei & He).
    destruct (H4 e He) as (_ & _ & (Htr & Hf & Hftr)). cbv zeta in Htr, Hf, Hftr.
    rewrite Hei in Htr, Hf, Hftr.
    set (u := nth (Z.to_nat (flat_index bs idx)) spec 0%Z) in *.
    set (t := lattice_point vecs idx) in *.
    destruct Hcase as [[Eu ->] | [Eu (rf & q & Hleaf & Hq & Hp)]].
    + exists (moved (ne_trnsf e) unit_cell). split.
      * unfold lattice_volumes. apply in_flat_map. exists e. split; [exact He|].
        unfold volumes_of_elem. rewrite Hf. replace (u =? lc_universe cell)%Z with true by lia. now left.
      * now apply (moved_translation e t Htr).
    + exists (fun p => moved (ne_trnsf e) unit_cell p /\ moved (ne_filltr e) rf p). split.
      * unfold lattice_volumes. apply in_flat_map. exists e. split; [exact He|].
        unfold volumes_of_elem. rewrite Hf. replace (u =? lc_universe cell)%Z with false by lia.
        apply in_map_iff. exists (rf, m). split; [reflexivity|exact Hleaf].
      * split; [now apply (moved_translation e t Htr)|].
        exists q. split; [exact Hq|]. now rewrite Hftr.
Qed.

(* corollaries in the words of the property text *)
Corollary nothing_outside_ranges (elems : list relem) :
  (forall p m, (exists r, In (r, m) (lattice_volumes elems) /\ r p) <-> lattice_owner p m) ->
  forall p m r, In (r, m) (lattice_volumes elems) -> r p ->
  exists idx, in_ranges idx bs /\ unit_cell (vdiff RS p (lattice_point vecs idx)) /\
              nth (Z.to_nat (flat_index bs idx)) spec 0%Z <> 0%Z.
Proof.
  intros H p m r Hin Hr. destruct (proj1 (H p m) (ex_intro _ r (conj Hin Hr))) as (idx & Hi & Hu & Hnz & _).
  exists idx. now repeat split.
Qed.
End EndToEnd.

(* the same on the top-level model function, three pairs of planes: base
   vectors from the card's surfaces, elements, fillers, materials *)
Theorem lattice_end_to_end_3d {M : Type} (unit_cell : region) (own_mat : M)
        (leaves : Z -> list (region * M)) (dic : Z -> list sfc) (ids : list Z)
        (cell : rcell) (bs : bounds) (spec : list Z) sa sb sc sd se sf :
  lc_fill cell = FSpec bs spec -> bs <> [] -> wf_bounds bs ->
  Z.of_nat (List.length spec) = size bs ->
  (3 <= List.length bs)%nat -> Forall trivial_range (skipn 3 bs) -> cell_shape_ok cell ->
  extract_surfaces dic ids = [sa; sb; sc; sd; se; sf] ->
  spacing sa sb <> 0 -> spacing sc sd <> 0 -> spacing se sf <> 0 ->
  triple (outward sa) (outward sc) (outward se) <> 0 ->
  exists a1 a2 a3 elems, develop_lattice RS dic ids cell = Ok elems /\
    dot a1 (outward sa) = spacing sa sb /\ dot a1 (outward sc) = 0 /\ dot a1 (outward se) = 0 /\
    dot a2 (outward sa) = 0 /\ dot a2 (outward sc) = spacing sc sd /\ dot a2 (outward se) = 0 /\
    dot a3 (outward sa) = 0 /\ dot a3 (outward sc) = 0 /\ dot a3 (outward se) = spacing se sf /\
    forall p m, (exists r, In (r, m) (lattice_volumes unit_cell own_mat leaves elems) /\ r p) <->
                lattice_owner unit_cell own_mat leaves cell [a1; a2; a3] bs spec p m.
Proof.
  intros Hfill Hne Hwf Hlen Hn Hpad Hshape He Hh1 Hh2 Hh3 Ht.
  destruct (square_base_vectors_3 sa sb sc sd se sf Hh1 Hh2 Hh3 Ht) as (a1 & a2 & a3 & Ha & H).
  rewrite <- He in Ha.
  destruct (lattice_end_to_end unit_cell own_mat leaves cell [a1; a2; a3] bs spec
              Hfill Hne Hwf Hlen Hn Hpad Hshape) as (elems & E1 & E2).
  exists a1, a2, a3, elems. unfold develop_lattice. rewrite Ha. split; [exact E1|].
  destruct H as (? & ? & ? & ? & ? & ? & ? & ? & ?). repeat (split; [assumption|]). exact E2.
Qed.

(* one and two pairs of planes (lattices infinite in the other directions) *)
Theorem lattice_end_to_end_1d {M : Type} (unit_cell : region) (own_mat : M)
        (leaves : Z -> list (region * M)) (dic : Z -> list sfc) (ids : list Z)
        (cell : rcell) (bs : bounds) (spec : list Z) sa sb :
  lc_fill cell = FSpec bs spec -> bs <> [] -> wf_bounds bs ->
  Z.of_nat (List.length spec) = size bs ->
  (1 <= List.length bs)%nat -> Forall trivial_range (skipn 1 bs) -> cell_shape_ok cell ->
  extract_surfaces dic ids = [sa; sb] -> spacing sa sb <> 0 ->
  exists a elems, develop_lattice RS dic ids cell = Ok elems /\
    dot a (outward sa) = spacing sa sb /\ (exists k, a = rescale RS k (outward sa)) /\
    forall p m, (exists r, In (r, m) (lattice_volumes unit_cell own_mat leaves elems) /\ r p) <->
                lattice_owner unit_cell own_mat leaves cell [a] bs spec p m.
Proof.
  intros Hfill Hne Hwf Hlen Hn Hpad Hshape He Hh.
  destruct (square_base_vectors_1 sa sb Hh) as (a & Ha & H1 & H2). rewrite <- He in Ha.
  destruct (lattice_end_to_end unit_cell own_mat leaves cell [a] bs spec
              Hfill Hne Hwf Hlen Hn Hpad Hshape) as (elems & E1 & E2).
  exists a, elems. unfold develop_lattice. rewrite Ha. auto.
Qed.

Theorem lattice_end_to_end_2d {M : Type} (unit_cell : region) (own_mat : M)
        (leaves : Z -> list (region * M)) (dic : Z -> list sfc) (ids : list Z)
        (cell : rcell) (bs : bounds) (spec : list Z) sa sb sc sd :
  lc_fill cell = FSpec bs spec -> bs <> [] -> wf_bounds bs ->
  Z.of_nat (List.length spec) = size bs ->
  (2 <= List.length bs)%nat -> Forall trivial_range (skipn 2 bs) -> cell_shape_ok cell ->
  extract_surfaces dic ids = [sa; sb; sc; sd] ->
  spacing sa sb <> 0 -> spacing sc sd <> 0 -> gram2 (outward sa) (outward sc) <> 0 ->
  exists a1 a2 elems, develop_lattice RS dic ids cell = Ok elems /\
    dot a1 (outward sa) = spacing sa sb /\ dot a1 (outward sc) = 0 /\
    dot a2 (outward sa) = 0 /\ dot a2 (outward sc) = spacing sc sd /\
    (exists x y, a1 = lin2 x y (outward sa) (outward sc)) /\
    (exists x y, a2 = lin2 x y (outward sa) (outward sc)) /\
    forall p m, (exists r, In (r, m) (lattice_volumes unit_cell own_mat leaves elems) /\ r p) <->
                lattice_owner unit_cell own_mat leaves cell [a1; a2] bs spec p m.
Proof.
  intros Hfill Hne Hwf Hlen Hn Hpad Hshape He Hh1 Hh2 Hg.
  destruct (square_base_vectors_2 sa sb sc sd Hh1 Hh2 Hg) as (a1 & a2 & Ha & H). rewrite <- He in Ha.
  destruct (lattice_end_to_end unit_cell own_mat leaves cell [a1; a2] bs spec
              Hfill Hne Hwf Hlen Hn Hpad Hshape) as (elems & E1 & E2).
  exists a1, a2, elems. unfold develop_lattice. rewrite Ha. split; [exact E1|].
  destruct H as (? & ? & ? & ? & ? & ?). repeat (split; [assumption|]). exact E2.
Qed.
