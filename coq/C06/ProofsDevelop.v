(* C06 — proofs about develop_lattice (model read over the reals): which
   elements are generated, where the unit cell and the filling universe go. *)
From Coq Require Import List ZArith Bool Reals Lra Lia ZifyBool.
From T4V Require Import Base.Scalar C06.Model C06.ProofsIndex C06.ProofsNumeric.
Import ListNotations.
Open Scope R_scope.

Notation rtransf := (list R).

(* ------------------------------------------------------------------------ *)
(* how a 12-number transformation [O1 O2 O3 B1..B9] moves a point            *)
(* ------------------------------------------------------------------------ *)
(* the map surfaces and cells undergo (MIP transform_frame): p -> O + B^T p *)
Definition apply_tr (t : rtransf) (p : rvec) : rvec :=
  match t with
  | [o1; o2; o3; b1; b2; b3; b4; b5; b6; b7; b8; b9] =>
      let '(x, y, z) := p in
      (o1 + (b1 * x + b4 * y + b7 * z), o2 + (b2 * x + b5 * y + b8 * z), o3 + (b3 * x + b6 * y + b9 * z))
  | _ => p
  end.

(* the reading of Transformation.transform_vector: p -> B p + O *)
Definition apply_tr_direct (t : rtransf) (p : rvec) : rvec :=
  match t with
  | [o1; o2; o3; b1; b2; b3; b4; b5; b6; b7; b8; b9] =>
      let '(x, y, z) := p in
      (o1 + (b1 * x + b2 * y + b3 * z), o2 + (b4 * x + b5 * y + b6 * z), o3 + (b7 * x + b8 * y + b9 * z))
  | _ => p
  end.

Definition is12 (t : rtransf) : Prop := List.length t = 12%nat.

Definition translation_of (t : rvec) : rtransf :=
  let '(tx, ty, tz) := t in [tx; ty; tz; 1; 0; 0; 0; 1; 0; 0; 0; 1].

Ltac list12 t H :=
  unfold is12 in H;
  do 12 (destruct t as [|? t]; [discriminate H|]); destruct t; [clear H|discriminate H].

Lemma apply_translation (t p : rvec) : apply_tr (translation_of t) p = vadd RS p t.
Proof.
  destruct t as [[tx ty] tz], p as [[x y] z]. cbn [translation_of apply_tr]. rs.
  f_equal; [f_equal|]; ring.
Qed.

(* compose_transform(t1, t2) is "t1 first, then t2" for the B p + O reading *)
Theorem compose_transform_direct (t1 t2 : rtransf) : is12 t1 -> is12 t2 ->
  exists t, compose_transform RS t1 t2 = Ok t /\ is12 t /\
    forall p, apply_tr_direct t p = apply_tr_direct t2 (apply_tr_direct t1 p).
Proof.
  intros H1 H2. list12 t1 H1. list12 t2 H2.
  eexists; split; [reflexivity|]. split; [reflexivity|].
  intros [[x y] z]. cbn [apply_tr_direct]. rs. f_equal; [f_equal|]; ring.
Qed.

(* for the map p -> O + B^T p that geometry undergoes it is "t1 first, then
   t2" when t2 is a pure translation: the only shape develop_lattice uses *)
Theorem compose_transform_point (t1 : rtransf) (t : rvec) : is12 t1 ->
  exists c, compose_transform RS t1 (translation_of t) = Ok c /\ is12 c /\
    forall p, apply_tr c p = vadd RS (apply_tr t1 p) t.
Proof.
  intros H1. list12 t1 H1. destruct t as [[tx ty] tz].
  eexists; split; [reflexivity|]. split; [reflexivity|].
  intros [[x y] z]. cbn [apply_tr]. rs. f_equal; [f_equal|]; ring.
Qed.

(* in the other order (translation first, then a rotation) the 12 numbers
   composed by the code do NOT represent "translate, then move by t2" on
   geometry: the reason why develop_lattice must compose (filltr, translation) *)
Theorem compose_transform_order_matters :
  exists (t : rvec) (t2 : rtransf) c p, is12 t2 /\
    compose_transform RS (translation_of t) t2 = Ok c /\
    apply_tr c p <> apply_tr t2 (apply_tr (translation_of t) p).
Proof.
  exists (1, 0, 0), [0; 0; 0; 0; 1; 0; -1; 0; 0; 0; 0; 1]. eexists. exists (0, 0, 0).
  split; [reflexivity|]. split; [reflexivity|].
  cbn [apply_tr translation_of]. rs. intros E. injection E as E1 E2 E3. lra.
Qed.

(* ------------------------------------------------------------------------ *)
(* latticeVector                                                             *)
(* ------------------------------------------------------------------------ *)
(* i*a1 + j*a2 + k*a3 (as many terms as there are indices AND vectors) *)
Fixpoint lattice_point (vecs : list rvec) (idx : list Z) {struct idx} : rvec :=
  match idx, vecs with
  | i :: tl, v :: r => vadd RS (rescale RS (IZR i) v) (lattice_point r tl)
  | _, _ => (0, 0, 0)
  end.

Lemma vadd_assoc (a b c : rvec) : vadd RS (vadd RS a b) c = vadd RS a (vadd RS b c).
Proof.
  destruct a as [[a1 a2] a3], b as [[b1 b2] b3], c as [[c1 c2] c3]. rs. f_equal; [f_equal|]; ring.
Qed.

Lemma vadd_0_r (a : rvec) : vadd RS a (0, 0, 0) = a.
Proof. destruct a as [[a1 a2] a3]. rs. f_equal; [f_equal|]; ring. Qed.

Lemma vadd_0_l (a : rvec) : vadd RS (0, 0, 0) a = a.
Proof. destruct a as [[a1 a2] a3]. rs. f_equal; [f_equal|]; ring. Qed.

Lemma fold_vadd (l : list rvec) (z : rvec) :
  fold_left (vadd RS) l z = vadd RS z (fold_right (vadd RS) (0, 0, 0) l).
Proof.
  revert z; induction l as [|v l IH]; intros z; cbn [fold_left fold_right].
  - now rewrite vadd_0_r.
  - now rewrite IH, vadd_assoc.
Qed.

Lemma latticeVector_point (vecs : list rvec) (idx : list Z) :
  latticeVector RS vecs idx = lattice_point vecs idx.
Proof.
  unfold latticeVector, vsum. rewrite fold_vadd. unfold vzero. cbn [s0 RS]. rewrite vadd_0_l.
  revert vecs; induction idx as [|i tl IH]; intros vecs; [reflexivity|].
  destruct vecs as [|v r]; [reflexivity|].
  cbn [combine map fold_right lattice_point fst snd sofZ RS]. now rewrite IH.
Qed.

(* ------------------------------------------------------------------------ *)
(* develop_lattice                                                           *)
(* ------------------------------------------------------------------------ *)
Notation rcell := (@lat_cell R).
Notation relem := (@new_elem R).

(* where the filling universe (or nothing, for the own universe) is put before
   the element translation: the fill transformation if there is one, else the
   cell's TRCL, else nothing *)
Definition placement (cell : rcell) (p : rvec) : rvec :=
  match lc_filltr cell, lc_trcl cell with
  | [], [T] => apply_tr T p
  | [], _ => p
  | F, _ => apply_tr F p
  end.

Definition cell_shape_ok (cell : rcell) : Prop :=
  (lc_filltr cell = [] \/ is12 (lc_filltr cell)) /\
  (lc_trcl cell = [] \/ exists T, lc_trcl cell = [T] /\ is12 T).

(* what must hold of the element generated for index idx with universe u *)
Definition elem_located (cell : rcell) (vecs : list rvec) (u : Z) (e : relem) : Prop :=
  let t := lattice_point vecs (ne_index e) in
  (* the unit cell is translated by i*a1 + j*a2 + k*a3 *)
  (forall p, apply_tr (ne_trnsf e) p = vadd RS p t) /\
  (* own universe: the lattice cell's material; otherwise filled with u *)
  ne_fill e = (if (u =? lc_universe cell)%Z then None else Some u) /\
  (* the filler is moved by the fill transformation (or TRCL) FIRST, then
     translated to the element *)
  (forall p, apply_tr (ne_filltr e) p = vadd RS (placement cell p) t).

Lemma develop_one_located (cell : rcell) (vecs : list rvec) (idx : list Z) (u : Z) :
  cell_shape_ok cell ->
  (u = 0%Z /\ develop_one RS cell vecs (idx, u) = Ok []) \/
  (u <> 0%Z /\ exists e, develop_one RS cell vecs (idx, u) = Ok [e] /\ ne_index e = idx /\
                         elem_located cell vecs u e).
Proof.
  intros [Hf Ht]. unfold develop_one.
  destruct (u =? 0)%Z eqn:E0; [left; split; [lia|reflexivity]|].
  right. split; [lia|].
  pose proof (latticeVector_point vecs idx) as HV.
  destruct (latticeVector RS vecs idx) as [[tx ty] tz] eqn:EV.
  unfold elem_located, placement.
  destruct Hf as [Hf | Hf].
  - (* no fill transformation *)
    rewrite Hf. cbn [is_nil negb andb bind].
    destruct Ht as [Ht | (T & Ht & HT)].
    + rewrite Ht. cbn [is_nil negb andb bind].
      eexists; split; [reflexivity|]. cbn [ne_index ne_trnsf ne_fill ne_filltr].
      rewrite <- HV. split; [reflexivity|]. split; [|split; [reflexivity|]].
      * intros p. apply (apply_translation (tx, ty, tz)).
      * intros p. apply (apply_translation (tx, ty, tz)).
    + rewrite Ht. cbn [is_nil negb andb fold_trcl].
      destruct (compose_transform_point T (tx, ty, tz) HT) as (c & Hc & _ & Hp).
      cbn [translation_of] in Hc.
      change ([tx; ty; tz] ++ identity9 RS) with [tx; ty; tz; 1; 0; 0; 0; 1; 0; 0; 0; 1].
      rewrite Hc. cbn [bind].
      eexists; split; [reflexivity|]. cbn [ne_index ne_trnsf ne_fill ne_filltr].
      rewrite <- HV. split; [reflexivity|]. split; [|split; [reflexivity|]].
      * intros p. apply (apply_translation (tx, ty, tz)).
      * exact Hp.
  - (* a fill transformation: TRCL is disregarded *)
    destruct (compose_transform_point (lc_filltr cell) (tx, ty, tz) Hf) as (c & Hc & _ & Hp).
    cbn [translation_of] in Hc.
    change ([tx; ty; tz] ++ identity9 RS) with [tx; ty; tz; 1; 0; 0; 0; 1; 0; 0; 0; 1].
    assert (Hnil : is_nil (lc_filltr cell) = false)
      by (destruct (lc_filltr cell); [discriminate Hf|reflexivity]).
    rewrite Hnil, Hc. cbn [bind andb]. rewrite Bool.andb_false_r. cbn [bind].
    eexists; split; [reflexivity|]. cbn [ne_index ne_trnsf ne_fill ne_filltr].
    rewrite <- HV. split; [reflexivity|]. split; [|split; [reflexivity|]].
    + intros p. apply (apply_translation (tx, ty, tz)).
    + intros p. rewrite Hp. destruct (lc_filltr cell); [discriminate Hf|reflexivity].
Qed.

Definition nonzero (iu : list Z * Z) : bool := negb (snd iu =? 0)%Z.

Lemma develop_loop_located (cell : rcell) (vecs : list rvec) (its : list (list Z * Z)) :
  cell_shape_ok cell ->
  exists elems, develop_loop RS cell vecs its = Ok elems /\
    map (@ne_index R) elems = map fst (filter nonzero its) /\
    Forall (fun e => exists u, In (ne_index e, u) its /\ u <> 0%Z /\ elem_located cell vecs u e) elems.
Proof.
  intros Hc. induction its as [|[idx u] r (elems & IH1 & IH2 & IH3)].
  - exists []. repeat split; constructor.
  - cbn [develop_loop]. rewrite IH1.
    assert (IH3' : Forall (fun e => exists u0, In (ne_index e, u0) ((idx, u) :: r) /\ u0 <> 0%Z /\
                                       elem_located cell vecs u0 e) elems).
    { eapply Forall_impl; [|exact IH3]. intros e (u0 & Hi & Hu & He).
      exists u0. split; [now right|]. now split. }
    destruct (develop_one_located cell vecs idx u Hc) as [[Hu H1] | [Hu (e & H1 & Hi & He)]];
      rewrite H1; cbn [bind app filter].
    + exists elems. split; [reflexivity|]. split; [|exact IH3'].
      assert (Hnz : nonzero (idx, u) = false) by (unfold nonzero; cbn [snd]; lia).
      rewrite Hnz. exact IH2.
    + exists (e :: elems). split; [reflexivity|]. split.
      * assert (Hnz : nonzero (idx, u) = true) by (unfold nonzero; cbn [snd]; lia).
        rewrite Hnz. cbn [map fst]. now rewrite Hi, IH2.
      * constructor; [|exact IH3']. exists u. rewrite Hi. split; [now left|]. now split.
Qed.

(* The statement of the property on the model: the generated elements are, in
   enumeration order, exactly the index tuples of the declared ranges whose
   array entry (first index fastest) is not 0; each is the unit cell translated
   by i*a1+j*a2+k*a3, filled with that entry (own universe: the cell's own
   material) placed by "fill transformation (or TRCL), then the translation". *)
Theorem develop_lattice_located (cell : rcell) (vecs : list rvec) (bs : bounds) (spec : list Z) :
  lc_fill cell = FSpec bs spec -> bs <> [] -> wf_bounds bs ->
  Z.of_nat (List.length spec) = size bs ->
  dimension_checks (List.length vecs) bs = Ok tt ->
  cell_shape_ok cell ->
  exists elems, develop_lattice_with RS (Ok vecs) cell = Ok elems /\
    map (@ne_index R) elems = map fst (filter nonzero (combine (indices bs) spec)) /\
    NoDup (map (@ne_index R) elems) /\
    Forall (fun e =>
      in_ranges (ne_index e) bs /\
      let u := nth (Z.to_nat (flat_index bs (ne_index e))) spec 0%Z in
      u <> 0%Z /\ elem_located cell vecs u e) elems.
Proof.
  intros Hfill Hne Hwf Hlen Hdim Hshape.
  destruct (items_array bs spec Hne Hwf Hlen) as (l & Hl & Hfst & _ & Hin).
  assert (Hitems : items bs spec = Ok (combine (indices bs) spec)) by now apply items_ok.
  assert (El : l = combine (indices bs) spec).
  { unfold lattice_spec in Hl. replace (size bs =? Z.of_nat (List.length spec))%Z with true in Hl by lia.
    cbn [bind fst snd] in Hl. rewrite Hitems in Hl. now injection Hl. }
  subst l.
  destruct (develop_loop_located cell vecs (combine (indices bs) spec) Hshape)
    as (elems & H1 & H2 & H3).
  exists elems. unfold develop_lattice_with. rewrite Hfill. cbn [bind]. rewrite Hdim. cbn [bind].
  rewrite Hitems. cbn [bind]. split; [exact H1|]. split; [exact H2|]. split.
  - rewrite H2. pose proof (indices_NoDup bs Hwf) as Hnd. rewrite <- Hfst in Hnd.
    clear - Hnd. induction (combine (indices bs) spec) as [|x r IH]; [constructor|].
    cbn [map] in Hnd. inversion Hnd as [|? ? Hx Hr]; subst.
    cbn [filter]. destruct (nonzero x); [|now apply IH].
    cbn [map]. constructor; [|now apply IH].
    intros Hc. apply Hx. clear - Hc. induction r as [|y r IH]; [contradiction|].
    cbn [filter] in Hc. destruct (nonzero y); cbn [map In] in *; [destruct Hc; auto|auto].
  - eapply Forall_impl; [|exact H3]. intros e (u & Hi & Hu & He).
    destruct (Hin _ _ Hi) as [Hr ->]. split; [exact Hr|]. cbv zeta. now split.
Qed.

(* nothing is generated for an index tuple outside the declared ranges, for an
   entry 0, and every other tuple of the ranges is generated exactly once *)
Corollary develop_lattice_complete (cell : rcell) (vecs : list rvec) (bs : bounds) (spec : list Z) elems :
  bs <> [] -> wf_bounds bs -> Z.of_nat (List.length spec) = size bs ->
  map (@ne_index R) elems = map fst (filter nonzero (combine (indices bs) spec)) ->
  forall idx, In idx (map (@ne_index R) elems) <->
              (in_ranges idx bs /\ nth (Z.to_nat (flat_index bs idx)) spec 0%Z <> 0%Z).
Proof.
  intros Hne Hwf Hlen Hmap idx. rewrite Hmap.
  destruct (items_array bs spec Hne Hwf Hlen) as (l & Hl & Hfst & Hnth & Hin).
  assert (El : l = combine (indices bs) spec).
  { unfold lattice_spec in Hl. replace (size bs =? Z.of_nat (List.length spec))%Z with true in Hl by lia.
    cbn [bind fst snd] in Hl. rewrite (items_ok bs spec Hne) in Hl. now injection Hl. }
  subst l. split.
  - intros H. apply in_map_iff in H as ([i u] & <- & H). apply filter_In in H as [H Hnz].
    destruct (Hin _ _ H) as [Hr Hu]. cbn [fst]. split; [exact Hr|].
    rewrite <- Hu. unfold nonzero in Hnz. cbn [snd] in Hnz. lia.
  - intros [Hr Hu]. apply in_map_iff.
    exists (idx, nth (Z.to_nat (flat_index bs idx)) spec 0%Z). split; [reflexivity|].
    apply filter_In. split.
    + eapply nth_error_In. apply Hnth. exact Hr.
    + unfold nonzero. cbn [snd]. lia.
Qed.

(* error branches *)
Theorem develop_lattice_not_spec (cell : rcell) base :
  (forall bs spec, lc_fill cell <> FSpec bs spec) -> develop_lattice_with RS base cell = Err EAssert.
Proof.
  intros H. unfold develop_lattice_with. destruct (lc_fill cell); try reflexivity. now elim (H bs spec).
Qed.

Theorem develop_lattice_bad_dimensions (cell : rcell) (vecs : list rvec) bs spec :
  lc_fill cell = FSpec bs spec ->
  ((List.length bs < List.length vecs)%nat \/ ~ Forall trivial_range (skipn (List.length vecs) bs)) ->
  develop_lattice_with RS (Ok vecs) cell = Err ELattice.
Proof.
  intros Hf H. unfold develop_lattice_with. rewrite Hf. cbn [bind].
  rewrite (dimension_checks_err (List.length vecs) bs); [reflexivity|].
  intros E. apply dimension_checks_spec in E. destruct E as [E1 E2]. destruct H as [H|H]; [lia|auto].
Qed.

(* the same statement with the dimension test spelled out: one range per base
   vector, the surplus ranges one-point; the leading ranges may be one-point
   ranges too (a row of a 2-D lattice, a single element) *)
Theorem develop_lattice_located_ranges (cell : rcell) (vecs : list rvec) (bs : bounds) (spec : list Z) :
  lc_fill cell = FSpec bs spec -> bs <> [] -> wf_bounds bs ->
  Z.of_nat (List.length spec) = size bs ->
  (List.length vecs <= List.length bs)%nat -> Forall trivial_range (skipn (List.length vecs) bs) ->
  cell_shape_ok cell ->
  exists elems, develop_lattice_with RS (Ok vecs) cell = Ok elems /\
    map (@ne_index R) elems = map fst (filter nonzero (combine (indices bs) spec)) /\
    NoDup (map (@ne_index R) elems) /\
    Forall (fun e =>
      in_ranges (ne_index e) bs /\
      let u := nth (Z.to_nat (flat_index bs (ne_index e))) spec 0%Z in
      u <> 0%Z /\ elem_located cell vecs u e) elems.
Proof.
  intros Hfill Hne Hwf Hlen Hn Hpad Hshape.
  apply (develop_lattice_located cell vecs bs spec); auto.
  apply dimension_checks_spec. now split.
Qed.

(* a row of a 2-D lattice: FILL=-1:1 k:k 0:0 *)
Lemma indices_row k : indices [(-1, 1); (k, k); (0, 0)]%Z = [[-1; k; 0]; [0; k; 0]; [1; k; 0]]%Z.
Proof.
  cbn [indices]. unfold zrange. replace (k + 1 - k)%Z with 1%Z by lia. reflexivity.
Qed.

Theorem degenerate_ranges_developed (cell : rcell) (a1 a2 : rvec) (k u0 u1 u2 : Z) :
  lc_fill cell = FSpec [(-1, 1); (k, k); (0, 0)]%Z [u0; u1; u2] -> cell_shape_ok cell ->
  exists elems, develop_lattice_with RS (Ok [a1; a2]) cell = Ok elems /\
    map (@ne_index R) elems
    = map fst (filter nonzero [([-1; k; 0], u0); ([0; k; 0], u1); ([1; k; 0], u2)]%Z) /\
    Forall (fun e => exists i u,
      ne_index e = [i; k; 0]%Z /\ (-1 <= i <= 1)%Z /\ u = nth (Z.to_nat (i + 1)) [u0; u1; u2] 0%Z /\
      u <> 0%Z /\ lattice_point [a1; a2] (ne_index e)
                  = vadd RS (rescale RS (IZR i) a1) (vadd RS (rescale RS (IZR k) a2) (0, 0, 0)) /\
      elem_located cell [a1; a2] u e) elems.
Proof.
  intros Hfill Hshape.
  destruct (develop_lattice_located_ranges cell [a1; a2] [(-1, 1); (k, k); (0, 0)]%Z [u0; u1; u2] Hfill)
    as (elems & H1 & H2 & _ & H4); auto.
  - discriminate.
  - repeat constructor; cbn [fst snd]; lia.
  - rewrite !size_cons, size_nil. cbn [List.length]. lia.
  - cbn; lia.
  - cbn [List.length skipn]. repeat constructor.
  - exists elems. split; [exact H1|]. split.
    + rewrite H2, indices_row. reflexivity.
    + eapply Forall_impl; [|exact H4]. intros e (Hin & Hu & He). cbv zeta in Hu, He.
      inversion Hin as [|i b1 tl1 r1 Hi Hin1 E1 E2]; subst.
      inversion Hin1 as [|j b2 tl2 r2 Hj Hin2 E3 E4]; subst.
      inversion Hin2 as [|l b3 tl3 r3 Hl Hin3 E5 E6]; subst.
      inversion Hin3; subst. cbn [fst snd] in Hi, Hj, Hl.
      assert (j = k) by lia. assert (l = 0%Z) by lia. subst j l.
      rewrite <- E1 in *.
      assert (Hflat : flat_index [(-1, 1); (k, k); (0, 0)]%Z [i; k; 0%Z] = (i + 1)%Z)
        by (cbn [flat_index]; lia).
      rewrite Hflat in Hu, He.
      exists i, (nth (Z.to_nat (i + 1)) [u0; u1; u2] 0%Z).
      split; [now symmetry|]. split; [lia|]. split; [reflexivity|]. split; [exact Hu|].
      split; [reflexivity|exact He].
Qed.
