(* C06 — the statements about the base vectors and about develop_lattice put
   together on the top-level model function develop_lattice (LAT=1), the one
   the correspondence tie executes. *)
From Coq Require Import List ZArith Bool Reals Lra Lia.
From T4V Require Import Base.Scalar C06.Model C06.ProofsIndex C06.ProofsNumeric C06.ProofsDevelop.
Import ListNotations.
Open Scope R_scope.

(* what extract_surfaces hands over: the planes of the surfaces of the cell
   card, in card order, the side reversed for a negative literal *)
Lemma extract_surfaces_cons (dic : Z -> list sfc) (id : Z) (ids : list Z) :
  extract_surfaces dic (id :: ids) =
  map (fun ps : sfc => (fst ps, if (0 <? id)%Z then snd ps else (- snd ps)%Z)) (dic (Z.abs id))
  ++ extract_surfaces dic ids.
Proof. reflexivity. Qed.

Lemma extract_surfaces_planes (dic : Z -> list sfc) (ids : list Z) :
  (forall id, In id ids -> exists P, dic (Z.abs id) = [(P, 1%Z)]) ->
  List.length (extract_surfaces dic ids) = List.length ids /\
  forall k id, nth_error ids k = Some id ->
    exists P, dic (Z.abs id) = [(P, 1%Z)] /\
              nth_error (extract_surfaces dic ids) k = Some (P, if (0 <? id)%Z then 1%Z else (-1)%Z).
Proof.
  induction ids as [|id ids IH]; intros H.
  - split; [reflexivity|]. intros [|k] id Hk; discriminate.
  - destruct (H id (or_introl eq_refl)) as [P HP].
    destruct IH as [IHl IHn]; [intros i Hi; apply H; now right|].
    rewrite extract_surfaces_cons, HP. cbn [map app List.length fst snd]. split; [now rewrite IHl|].
    intros [|k] id' Hk; cbn [nth_error] in *.
    + injection Hk as <-. exists P. split; [exact HP|]. destruct (0 <? id)%Z; reflexivity.
    + now apply IHn.
Qed.

Section Top.
Variable dic : Z -> list sfc.
Variable ids : list Z.
Variable cell : @lat_cell R.
Variables (bs : bounds) (spec : list Z).
Hypothesis Hfill : lc_fill cell = FSpec bs spec.
Hypothesis Hne : bs <> [].
Hypothesis Hwf : wf_bounds bs.
Hypothesis Hlen : Z.of_nat (List.length spec) = size bs.
Hypothesis Hshape : cell_shape_ok cell.

Definition located_elems (vecs : list rvec) (elems : list (@new_elem R)) : Prop :=
  map (@ne_index R) elems = map fst (filter nonzero (combine (indices bs) spec)) /\
  NoDup (map (@ne_index R) elems) /\
  Forall (fun e =>
    in_ranges (ne_index e) bs /\
    let u := nth (Z.to_nat (flat_index bs (ne_index e))) spec 0%Z in
    u <> 0%Z /\ elem_located cell vecs u e) elems.

Lemma develop_with_vecs (vecs : list rvec) :
  squareLatticeBaseVectors RS (extract_surfaces dic ids) = Ok vecs ->
  dimension_checks (List.length vecs) bs = Ok tt ->
  exists elems, develop_lattice RS dic ids cell = Ok elems /\ located_elems vecs elems.
Proof.
  intros Hv Hd. unfold develop_lattice. rewrite Hv.
  destruct (develop_lattice_located cell vecs bs spec Hfill Hne Hwf Hlen Hd Hshape)
    as (elems & H1 & H2 & H3 & H4).
  exists elems. split; [exact H1|]. unfold located_elems. auto.
Qed.

Theorem develop_lattice_1d sa sb :
  extract_surfaces dic ids = [sa; sb] -> spacing sa sb <> 0 ->
  dimension_checks 1 bs = Ok tt ->
  exists a elems, develop_lattice RS dic ids cell = Ok elems /\
    dot a (outward sa) = spacing sa sb /\ (exists k, a = rescale RS k (outward sa)) /\
    located_elems [a] elems.
Proof.
  intros He Hh Hd. destruct (square_base_vectors_1 sa sb Hh) as (a & Ha & H1 & H2).
  rewrite <- He in Ha. destruct (develop_with_vecs [a] Ha Hd) as (elems & E1 & E2).
  exists a, elems. auto.
Qed.

Theorem develop_lattice_2d sa sb sc sd :
  extract_surfaces dic ids = [sa; sb; sc; sd] ->
  spacing sa sb <> 0 -> spacing sc sd <> 0 -> gram2 (outward sa) (outward sc) <> 0 ->
  dimension_checks 2 bs = Ok tt ->
  exists a1 a2 elems, develop_lattice RS dic ids cell = Ok elems /\
    dot a1 (outward sa) = spacing sa sb /\ dot a1 (outward sc) = 0 /\
    dot a2 (outward sa) = 0 /\ dot a2 (outward sc) = spacing sc sd /\
    (exists x y, a1 = lin2 x y (outward sa) (outward sc)) /\
    (exists x y, a2 = lin2 x y (outward sa) (outward sc)) /\
    located_elems [a1; a2] elems.
Proof.
  intros He Hh1 Hh2 Hg Hd.
  destruct (square_base_vectors_2 sa sb sc sd Hh1 Hh2 Hg) as (a1 & a2 & Ha & H).
  rewrite <- He in Ha. destruct (develop_with_vecs [a1; a2] Ha Hd) as (elems & E1 & E2).
  exists a1, a2, elems. split; [exact E1|]. tauto.
Qed.

Theorem develop_lattice_3d sa sb sc sd se sf :
  extract_surfaces dic ids = [sa; sb; sc; sd; se; sf] ->
  spacing sa sb <> 0 -> spacing sc sd <> 0 -> spacing se sf <> 0 ->
  triple (outward sa) (outward sc) (outward se) <> 0 ->
  dimension_checks 3 bs = Ok tt ->
  exists a1 a2 a3 elems, develop_lattice RS dic ids cell = Ok elems /\
    dot a1 (outward sa) = spacing sa sb /\ dot a1 (outward sc) = 0 /\ dot a1 (outward se) = 0 /\
    dot a2 (outward sa) = 0 /\ dot a2 (outward sc) = spacing sc sd /\ dot a2 (outward se) = 0 /\
    dot a3 (outward sa) = 0 /\ dot a3 (outward sc) = 0 /\ dot a3 (outward se) = spacing se sf /\
    located_elems [a1; a2; a3] elems.
Proof.
  intros He Hh1 Hh2 Hh3 Ht Hd.
  destruct (square_base_vectors_3 sa sb sc sd se sf Hh1 Hh2 Hh3 Ht) as (a1 & a2 & a3 & Ha & H).
  rewrite <- He in Ha. destruct (develop_with_vecs [a1; a2; a3] Ha Hd) as (elems & E1 & E2).
  exists a1, a2, a3, elems. split; [exact E1|]. tauto.
Qed.

(* error branches of the top-level function *)
Theorem develop_lattice_errors :
  (List.length (extract_surfaces dic ids) <> 2%nat -> List.length (extract_surfaces dic ids) <> 4%nat ->
   List.length (extract_surfaces dic ids) <> 6%nat -> develop_lattice RS dic ids cell = Err ELattice) /\
  (forall vecs, squareLatticeBaseVectors RS (extract_surfaces dic ids) = Ok vecs ->
     ((List.length bs < List.length vecs)%nat \/ ~ Forall trivial_range (skipn (List.length vecs) bs)) ->
     develop_lattice RS dic ids cell = Err ELattice).
Proof.
  split.
  - intros H2 H4 H6. unfold develop_lattice, develop_lattice_with.
    rewrite (square_wrong_count _ H2 H4 H6), Hfill. reflexivity.
  - intros vecs Hv H. unfold develop_lattice. rewrite Hv.
    now apply (develop_lattice_bad_dimensions cell vecs bs spec).
Qed.
End Top.
