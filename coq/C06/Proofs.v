(* C06 — proofs about the model (C06/Model.v). *)
From Coq Require Import List ZArith Bool Lia.
From T4V Require Import Base.Str Base.Scalar C06.Model.
Import ListNotations.
Open Scope Z_scope.

Lemma zrange_from_length lo n : List.length (zrange_from lo n) = n.
Proof. revert lo; induction n as [|n IH]; intros lo; cbn; [reflexivity|now rewrite IH]. Qed.
