(* C06 — proofs about the numeric side of the model, read over the reals:
   latticeReciprocal is the dual basis; squareLatticeBaseVectors returns, for
   pairs of planes listed in any order and sense, the translation of each pair
   across its first-listed surface. *)
From Coq Require Import List ZArith Bool Reals Lra Lia.
From T4V Require Import Base.Scalar C06.Model.
Import ListNotations.
Open Scope R_scope.

Notation rvec := (@vec R).
Notation rplane := (@plane R).

Ltac rs :=
  cbn [scal vect rescale vadd vsum vdiff mag2 vzero fold_left sadd ssub smul sdiv sneg
       s0 s1 sofZ RS fst snd] in *.

Lemma pydiv_ok a b : b <> 0 -> pydiv RS a b = Ok (a / b).
Proof.
  intros H. unfold pydiv. cbn [seqb s0 sdiv RS]. apply Reqb_false in H. now rewrite H.
Qed.

Lemma pydiv_zero a : pydiv RS a 0 = Err EZeroDiv.
Proof.
  unfold pydiv. cbn [seqb s0 sdiv RS]. now rewrite (proj2 (Reqb_true 0 0) eq_refl).
Qed.

(* ------------------------------------------------------------------------ *)
(* vocabulary                                                                *)
(* ------------------------------------------------------------------------ *)
Definition dot (a b : rvec) : R := scal RS a b.
(* Gram determinant of two vectors: zero iff they are parallel *)
Definition gram2 (v1 v2 : rvec) : R :=
  ssub RS (smul RS (mag2 RS v1) (mag2 RS v2)) (smul RS (scal RS v1 v2) (scal RS v1 v2)).
(* triple product: zero iff the three vectors are coplanar *)
Definition triple (v1 v2 v3 : rvec) : R := scal RS v1 (vect RS v2 v3).
Definition lin2 (a b : R) (v1 v2 : rvec) : rvec := vadd RS (rescale RS a v1) (rescale RS b v2).

Lemma vsum2 (u v : rvec) : vsum RS [u; v] = vadd RS u v.
Proof.
  destruct u as [[u1 u2] u3], v as [[v1 v2] v3]. rs. f_equal; [f_equal|]; ring.
Qed.

Lemma vadd_comm (u v : rvec) : vadd RS u v = vadd RS v u.
Proof.
  destruct u as [[u1 u2] u3], v as [[v1 v2] v3]. rs. f_equal; [f_equal|]; ring.
Qed.

Lemma dot_rescale_r k (a w : rvec) : dot a (rescale RS k w) = k * dot a w.
Proof. destruct a as [[a1 a2] a3], w as [[w1 w2] w3]. unfold dot. rs. ring. Qed.

Lemma dot_comm (a b : rvec) : dot a b = dot b a.
Proof. destruct a as [[a1 a2] a3], b as [[b1 b2] b3]. unfold dot. rs. ring. Qed.

Lemma dot_self_zero (w : rvec) : dot w w = 0 -> w = (0, 0, 0).
Proof.
  destruct w as [[x y] z]. unfold dot. rs. intros H.
  assert (x = 0) by nra. assert (y = 0) by nra. assert (z = 0) by nra. now subst.
Qed.

Lemma gram2_rescale k1 k2 (w1 w2 : rvec) :
  gram2 (rescale RS k1 w1) (rescale RS k2 w2) = (k1 * k1 * (k2 * k2)) * gram2 w1 w2.
Proof. destruct w1 as [[a1 a2] a3], w2 as [[b1 b2] b3]. unfold gram2. rs. ring. Qed.

Lemma triple_rescale k1 k2 k3 (w1 w2 w3 : rvec) :
  triple (rescale RS k1 w1) (rescale RS k2 w2) (rescale RS k3 w3) = (k1 * k2 * k3) * triple w1 w2 w3.
Proof.
  destruct w1 as [[a1 a2] a3], w2 as [[b1 b2] b3], w3 as [[c1 c2] c3]. unfold triple. rs. ring.
Qed.

(* ------------------------------------------------------------------------ *)
(* latticeReciprocal                                                         *)
(* ------------------------------------------------------------------------ *)
Lemma reciprocal_dual_1 (v : rvec) : dot v v <> 0 ->
  exists r, latticeReciprocal RS [v] = Ok [r] /\ dot r v = 1 /\ exists k, r = rescale RS k v.
Proof.
  intros H. unfold latticeReciprocal. unfold dot in H. rewrite pydiv_ok by exact H.
  cbn [bind]. eexists; split; [reflexivity|]. split; [|eexists; reflexivity].
  destruct v as [[x y] z]. unfold dot. rs. field. exact H.
Qed.

Lemma reciprocal_dual_2 (v1 v2 : rvec) : gram2 v1 v2 <> 0 ->
  exists r1 r2, latticeReciprocal RS [v1; v2] = Ok [r1; r2] /\
    dot r1 v1 = 1 /\ dot r1 v2 = 0 /\ dot r2 v1 = 0 /\ dot r2 v2 = 1 /\
    (exists a b, r1 = lin2 a b v1 v2) /\ (exists a b, r2 = lin2 a b v1 v2).
Proof.
  intros H. unfold latticeReciprocal. cbv zeta. unfold gram2 in H.
  rewrite !pydiv_ok by exact H. cbn [bind].
  eexists; eexists; split; [reflexivity|].
  assert (Hs : (exists a b, vsum RS [rescale RS (sdiv RS (mag2 RS v2) (ssub RS (smul RS (mag2 RS v1) (mag2 RS v2)) (smul RS (scal RS v1 v2) (scal RS v1 v2)))) v1;
                                    rescale RS (sdiv RS (sneg RS (scal RS v1 v2)) (ssub RS (smul RS (mag2 RS v1) (mag2 RS v2)) (smul RS (scal RS v1 v2) (scal RS v1 v2)))) v2]
                       = lin2 a b v1 v2) /\
               (exists a b, vsum RS [rescale RS (sdiv RS (mag2 RS v1) (ssub RS (smul RS (mag2 RS v1) (mag2 RS v2)) (smul RS (scal RS v1 v2) (scal RS v1 v2)))) v2;
                                    rescale RS (sdiv RS (sneg RS (scal RS v1 v2)) (ssub RS (smul RS (mag2 RS v1) (mag2 RS v2)) (smul RS (scal RS v1 v2) (scal RS v1 v2)))) v1]
                       = lin2 a b v1 v2)).
  { split.
    - eexists; eexists. apply vsum2.
    - eexists; eexists. rewrite vsum2. apply vadd_comm. }
  destruct Hs as [Hs1 Hs2].
  split; [|split; [|split; [|split; [|split; [exact Hs1|exact Hs2]]]]];
    clear Hs1 Hs2; destruct v1 as [[x1 y1] z1], v2 as [[x2 y2] z2]; unfold dot; rs;
    field; exact H.
Qed.

Lemma reciprocal_dual_3 (v1 v2 v3 : rvec) : triple v1 v2 v3 <> 0 ->
  exists r1 r2 r3, latticeReciprocal RS [v1; v2; v3] = Ok [r1; r2; r3] /\
    dot r1 v1 = 1 /\ dot r1 v2 = 0 /\ dot r1 v3 = 0 /\
    dot r2 v1 = 0 /\ dot r2 v2 = 1 /\ dot r2 v3 = 0 /\
    dot r3 v1 = 0 /\ dot r3 v2 = 0 /\ dot r3 v3 = 1.
Proof.
  intros H. unfold latticeReciprocal. cbv zeta.
  assert (Hden : sadd RS (sadd RS (scal RS v1 (vect RS v2 v3)) (scal RS v2 (vect RS v3 v1)))
                      (scal RS v3 (vect RS v1 v2)) <> 0).
  { intros E. apply H. unfold triple.
    destruct v1 as [[x1 y1] z1], v2 as [[x2 y2] z2], v3 as [[x3 y3] z3]. rs. lra. }
  rewrite pydiv_ok by exact Hden. cbn [bind].
  eexists; eexists; eexists; split; [reflexivity|].
  destruct v1 as [[x1 y1] z1], v2 as [[x2 y2] z2], v3 as [[x3 y3] z3]. unfold dot. rs.
  repeat split; field; exact Hden.
Qed.

(* a singular basis makes the code divide by zero (ZeroDivisionError) *)
Lemma reciprocal_singular_1 (v : rvec) : dot v v = 0 -> latticeReciprocal RS [v] = Err EZeroDiv.
Proof.
  intros H. unfold latticeReciprocal. unfold dot in H. rewrite H, pydiv_zero. reflexivity.
Qed.

(* ------------------------------------------------------------------------ *)
(* squareLatticeReciprocalVecs / squareLatticeBaseVectors                    *)
(* ------------------------------------------------------------------------ *)
Notation sfc := (@plane R * Z)%type.       (* ((point, normal), side) *)
Definition spoint (s : sfc) : rvec := fst (fst s).
Definition snormal (s : sfc) : rvec := snd (fst s).

(* the normal of the surface, turned so that it points OUT of the unit cell
   (side = +1 means the cell lies on the positive side of the plane) *)
Definition outward (s : sfc) : rvec :=
  if (snd s =? 1)%Z then rescale RS (sneg RS (s1 RS)) (snormal s) else snormal s.

Lemma outward_flipped (s : sfc) : snd s = 1%Z ->
  outward s = (let '(x, y, z) := snormal s in (- x, - y, - z)).
Proof.
  intros H. unfold outward. rewrite H. cbn [Z.eqb Pos.eqb].
  destruct (snormal s) as [[x y] z]. rs. f_equal; [f_equal|]; ring.
Qed.

(* distance from the second-listed to the first-listed surface of a pair,
   measured along the outward normal of the first one (in units of it) *)
Definition spacing (sa sb : sfc) : R := dot (vdiff RS (spoint sa) (spoint sb)) (outward sa).

Lemma square_rec_loop_pair (sa sb : sfc) (rest : list sfc) :
  square_rec_loop RS (sa :: sb :: rest) =
  bind (pydiv RS 1 (spacing sa sb)) (fun k =>
  bind (square_rec_loop RS rest) (fun l => Ok (rescale RS k (outward sa) :: l))).
Proof.
  destruct sa as [[pa na] sda], sb as [[pb nb] sdb]. reflexivity.
Qed.

Lemma inv_neq_0 h : h <> 0 -> 1 / h <> 0.
Proof. intros H. unfold Rdiv. rewrite Rmult_1_l. now apply Rinv_neq_0_compat. Qed.

Lemma dual_to_spacing (a w : rvec) h d : h <> 0 -> dot a (rescale RS (1 / h) w) = d -> dot a w = h * d.
Proof. intros Hh H. rewrite dot_rescale_r in H. rewrite <- H. field. exact Hh. Qed.

Lemma spacing_outward_nonzero sa sb : spacing sa sb <> 0 -> dot (outward sa) (outward sa) <> 0.
Proof.
  intros H E. apply H. apply dot_self_zero in E. unfold spacing. rewrite E.
  destruct (vdiff RS (spoint sa) (spoint sb)) as [[x y] z]. unfold dot. rs. ring.
Qed.

Lemma rescale_rescale a k (w : rvec) : rescale RS a (rescale RS k w) = rescale RS (a * k) w.
Proof. destruct w as [[x y] z]. rs. f_equal; [f_equal|]; ring. Qed.

Lemma lin2_rescale a b k1 k2 (w1 w2 : rvec) :
  lin2 a b (rescale RS k1 w1) (rescale RS k2 w2) = lin2 (a * k1) (b * k2) w1 w2.
Proof. unfold lin2. now rewrite !rescale_rescale. Qed.

(* one pair of planes *)
Theorem square_base_vectors_1 (sa sb : sfc) : spacing sa sb <> 0 ->
  exists a, squareLatticeBaseVectors RS [sa; sb] = Ok [a] /\
    dot a (outward sa) = spacing sa sb /\ exists k, a = rescale RS k (outward sa).
Proof.
  intros Hh. set (h := spacing sa sb) in *. set (w := outward sa).
  assert (Hrec : squareLatticeReciprocalVecs RS [sa; sb] = Ok [rescale RS (1 / h) w]).
  { unfold squareLatticeReciprocalVecs. cbn [List.length Nat.eqb orb].
    rewrite square_rec_loop_pair. fold h. rewrite pydiv_ok by exact Hh. reflexivity. }
  unfold squareLatticeBaseVectors. rewrite Hrec. cbn [bind].
  pose proof (spacing_outward_nonzero sa sb Hh) as Hw. fold w in Hw.
  destruct (reciprocal_dual_1 (rescale RS (1 / h) w)) as (a & Ha & Hd & k & Hk).
  { rewrite dot_rescale_r, dot_comm, dot_rescale_r. pose proof (inv_neq_0 h Hh).
    apply Rmult_integral_contrapositive_currified; [assumption|].
    apply Rmult_integral_contrapositive_currified; assumption. }
  exists a. split; [exact Ha|]. split.
  - rewrite (dual_to_spacing a w h 1 Hh Hd). ring.
  - exists (k * (1 / h)). now rewrite Hk, rescale_rescale.
Qed.

(* two pairs *)
Theorem square_base_vectors_2 (sa sb sc sd : sfc) :
  spacing sa sb <> 0 -> spacing sc sd <> 0 -> gram2 (outward sa) (outward sc) <> 0 ->
  exists a1 a2, squareLatticeBaseVectors RS [sa; sb; sc; sd] = Ok [a1; a2] /\
    dot a1 (outward sa) = spacing sa sb /\ dot a1 (outward sc) = 0 /\
    dot a2 (outward sa) = 0 /\ dot a2 (outward sc) = spacing sc sd /\
    (exists x y, a1 = lin2 x y (outward sa) (outward sc)) /\
    (exists x y, a2 = lin2 x y (outward sa) (outward sc)).
Proof.
  intros Hh1 Hh2 Hg.
  set (h1 := spacing sa sb) in *. set (h2 := spacing sc sd) in *.
  set (w1 := outward sa) in *. set (w2 := outward sc) in *.
  assert (Hrec : squareLatticeReciprocalVecs RS [sa; sb; sc; sd]
                 = Ok [rescale RS (1 / h1) w1; rescale RS (1 / h2) w2]).
  { unfold squareLatticeReciprocalVecs. cbn [List.length Nat.eqb orb].
    rewrite !square_rec_loop_pair. fold h1 h2. rewrite !pydiv_ok by assumption. reflexivity. }
  unfold squareLatticeBaseVectors. rewrite Hrec. cbn [bind].
  pose proof (inv_neq_0 h1 Hh1) as Hi1. pose proof (inv_neq_0 h2 Hh2) as Hi2.
  destruct (reciprocal_dual_2 (rescale RS (1 / h1) w1) (rescale RS (1 / h2) w2))
    as (a1 & a2 & Ha & D11 & D12 & D21 & D22 & (x1 & y1 & S1) & (x2 & y2 & S2)).
  { rewrite gram2_rescale. repeat (apply Rmult_integral_contrapositive_currified; try assumption). }
  exists a1, a2. split; [exact Ha|].
  rewrite (dual_to_spacing a1 w1 h1 1 Hh1 D11), (dual_to_spacing a1 w2 h2 0 Hh2 D12),
          (dual_to_spacing a2 w1 h1 0 Hh1 D21), (dual_to_spacing a2 w2 h2 1 Hh2 D22).
  repeat split; try ring.
  - exists (x1 * (1 / h1)), (y1 * (1 / h2)). now rewrite S1, lin2_rescale.
  - exists (x2 * (1 / h1)), (y2 * (1 / h2)). now rewrite S2, lin2_rescale.
Qed.

(* three pairs *)
Theorem square_base_vectors_3 (sa sb sc sd se sf : sfc) :
  spacing sa sb <> 0 -> spacing sc sd <> 0 -> spacing se sf <> 0 ->
  triple (outward sa) (outward sc) (outward se) <> 0 ->
  exists a1 a2 a3, squareLatticeBaseVectors RS [sa; sb; sc; sd; se; sf] = Ok [a1; a2; a3] /\
    dot a1 (outward sa) = spacing sa sb /\ dot a1 (outward sc) = 0 /\ dot a1 (outward se) = 0 /\
    dot a2 (outward sa) = 0 /\ dot a2 (outward sc) = spacing sc sd /\ dot a2 (outward se) = 0 /\
    dot a3 (outward sa) = 0 /\ dot a3 (outward sc) = 0 /\ dot a3 (outward se) = spacing se sf.
Proof.
  intros Hh1 Hh2 Hh3 Ht.
  set (h1 := spacing sa sb) in *. set (h2 := spacing sc sd) in *. set (h3 := spacing se sf) in *.
  set (w1 := outward sa) in *. set (w2 := outward sc) in *. set (w3 := outward se) in *.
  assert (Hrec : squareLatticeReciprocalVecs RS [sa; sb; sc; sd; se; sf]
                 = Ok [rescale RS (1 / h1) w1; rescale RS (1 / h2) w2; rescale RS (1 / h3) w3]).
  { unfold squareLatticeReciprocalVecs. cbn [List.length Nat.eqb orb].
    rewrite !square_rec_loop_pair. fold h1 h2 h3. rewrite !pydiv_ok by assumption. reflexivity. }
  unfold squareLatticeBaseVectors. rewrite Hrec. cbn [bind].
  pose proof (inv_neq_0 h1 Hh1) as Hi1. pose proof (inv_neq_0 h2 Hh2) as Hi2.
  pose proof (inv_neq_0 h3 Hh3) as Hi3.
  destruct (reciprocal_dual_3 (rescale RS (1 / h1) w1) (rescale RS (1 / h2) w2)
                              (rescale RS (1 / h3) w3))
    as (a1 & a2 & a3 & Ha & D11 & D12 & D13 & D21 & D22 & D23 & D31 & D32 & D33).
  { rewrite triple_rescale. repeat (apply Rmult_integral_contrapositive_currified; try assumption). }
  exists a1, a2, a3. split; [exact Ha|].
  rewrite (dual_to_spacing a1 w1 h1 1 Hh1 D11), (dual_to_spacing a1 w2 h2 0 Hh2 D12),
          (dual_to_spacing a1 w3 h3 0 Hh3 D13),
          (dual_to_spacing a2 w1 h1 0 Hh1 D21), (dual_to_spacing a2 w2 h2 1 Hh2 D22),
          (dual_to_spacing a2 w3 h3 0 Hh3 D23),
          (dual_to_spacing a3 w1 h1 0 Hh1 D31), (dual_to_spacing a3 w2 h2 0 Hh2 D32),
          (dual_to_spacing a3 w3 h3 1 Hh3 D33).
  repeat split; ring.
Qed.

(* any other number of surfaces is a LatticeError; coincident planes divide
   by zero *)
Theorem square_wrong_count (l : list sfc) :
  List.length l <> 2%nat -> List.length l <> 4%nat -> List.length l <> 6%nat ->
  squareLatticeBaseVectors RS l = Err ELattice.
Proof.
  intros H2 H4 H6. unfold squareLatticeBaseVectors, squareLatticeReciprocalVecs.
  cbv zeta. apply Nat.eqb_neq in H2, H4, H6. rewrite H2, H4, H6. reflexivity.
Qed.

Theorem square_coincident_pair (sa sb : sfc) (rest : list sfc) :
  spacing sa sb = 0 ->
  (List.length rest = 0 \/ List.length rest = 2 \/ List.length rest = 4)%nat ->
  squareLatticeBaseVectors RS (sa :: sb :: rest) = Err EZeroDiv.
Proof.
  intros H Hl. unfold squareLatticeBaseVectors, squareLatticeReciprocalVecs.
  cbv zeta. cbn [List.length].
  replace (Nat.eqb (S (S (List.length rest))) 2 || Nat.eqb (S (S (List.length rest))) 4
           || Nat.eqb (S (S (List.length rest))) 6)%bool with true
    by (destruct Hl as [-> | [-> | ->]]; reflexivity).
  rewrite square_rec_loop_pair, H, pydiv_zero. reflexivity.
Qed.

(* ------------------------------------------------------------------------ *)
(* geometric reading of  a_i . w_j = delta_ij h_i                            *)
(* ------------------------------------------------------------------------ *)
(* signed distance (in units of the outward normal w of surface s) from the
   plane through pt with that normal *)
Definition out_dist (w pt x : rvec) : R := dot w (vdiff RS x pt).

(* a . w = h where h is the spacing of the pair: translating by a carries the
   second-listed plane onto the first-listed one, and a point at outward
   distance t from the second plane to outward distance t from the first: the
   unit cell (t in [0, h]... inside the pair) lands ACROSS the first surface *)
Theorem translate_pair (a : rvec) (sa sb : sfc) :
  dot a (outward sa) = spacing sa sb ->
  forall x, out_dist (outward sa) (spoint sa) (vadd RS x a) = out_dist (outward sa) (spoint sb) x.
Proof.
  intros H x. unfold out_dist, spacing in *.
  destruct (outward sa) as [[w1 w2] w3], (spoint sa) as [[p1 p2] p3], (spoint sb) as [[q1 q2] q3],
           a as [[a1 a2] a3], x as [[x1 x2] x3]. unfold dot in *. rs. lra.
Qed.

(* a . w = 0: translating by a changes no distance to a plane with normal w
   (either surface of another pair): a is parallel to that pair *)
Theorem translate_other (a w : rvec) : dot a w = 0 ->
  forall pt x, out_dist w pt (vadd RS x a) = out_dist w pt x.
Proof.
  intros H pt x. unfold out_dist.
  destruct w as [[w1 w2] w3], pt as [[p1 p2] p3], a as [[a1 a2] a3], x as [[x1 x2] x3].
  unfold dot in *. rs. lra.
Qed.

(* ------------------------------------------------------------------------ *)
(* the recorded sides do not matter                                          *)
(* ------------------------------------------------------------------------ *)
(* rec = w / ((p - q).w) is unchanged when w is replaced by -w: whatever the
   "side" entries say, the reciprocal vector of a pair points from the
   second-listed plane to the first-listed one.  (This is why replacing the
   test "side_1 == 1" of the code by "side_1 == -1" changes nothing.) *)
Lemma rec_vector_flip (d n : rvec) :
  let w := rescale RS (sneg RS (s1 RS)) n in
  dot d w = - dot d n /\
  (dot d n <> 0 -> rescale RS (1 / dot d w) w = rescale RS (1 / dot d n) n).
Proof.
  destruct d as [[d1 d2] d3], n as [[n1 n2] n3]. cbv zeta. unfold dot. rs. split; [ring|].
  intros H. f_equal; [f_equal|]; field; (split; [exact H|]);
    intros E; apply H; lra.
Qed.

Lemma rec_pair_sides (P Q Q' : rplane) (s s' t t' : Z) (rest rest' : list sfc) :
  fst Q = fst Q' ->
  square_rec_loop RS rest = square_rec_loop RS rest' ->
  square_rec_loop RS ((P, s) :: (Q, t) :: rest) = square_rec_loop RS ((P, s') :: (Q', t') :: rest').
Proof.
  intros HQ Hrest. rewrite !square_rec_loop_pair, Hrest.
  unfold spacing, outward, spoint, snormal. cbn [fst snd]. rewrite HQ.
  destruct P as [p n]. cbn [fst snd].
  set (d := vdiff RS p (fst Q')).
  destruct (rec_vector_flip d n) as [Hneg Hvec]. cbv zeta in Hneg, Hvec.
  destruct (s =? 1)%Z, (s' =? 1)%Z; try reflexivity.
  - destruct (Req_EM_T (dot d n) 0) as [E | E].
    + rewrite Hneg, E, Ropp_0, !pydiv_zero. reflexivity.
    + rewrite !pydiv_ok by (try rewrite Hneg; lra). cbn [bind]. now rewrite (Hvec E).
  - destruct (Req_EM_T (dot d n) 0) as [E | E].
    + rewrite Hneg, E, Ropp_0, !pydiv_zero. reflexivity.
    + rewrite !pydiv_ok by (try rewrite Hneg; lra). cbn [bind]. now rewrite (Hvec E).
Qed.

Lemma square_rec_loop_sides (n : nat) : forall l l' : list sfc,
  (List.length l <= n)%nat -> map fst l = map fst l' ->
  square_rec_loop RS l = square_rec_loop RS l'.
Proof.
  induction n as [|n IH]; intros l l' Hn Hm.
  - destruct l; [|cbn in Hn; lia]. destruct l'; [reflexivity|discriminate].
  - destruct l as [|[[p nn] s] [|[[q m] t] rest]];
      destruct l' as [|[[p' nn'] s'] [|[[q' m'] t'] rest']];
      try discriminate Hm; try reflexivity.
    cbn [map fst] in Hm. injection Hm as -> -> -> -> Hm.
    apply rec_pair_sides; [reflexivity|]. apply IH; [cbn in Hn; lia|exact Hm].
Qed.

(* same planes, any sides: same reciprocal vectors, base vectors and errors *)
Theorem square_sides_irrelevant (l l' : list sfc) :
  map fst l = map fst l' -> squareLatticeBaseVectors RS l = squareLatticeBaseVectors RS l'.
Proof.
  intros H. unfold squareLatticeBaseVectors, squareLatticeReciprocalVecs. cbv zeta.
  assert (Hl : List.length l = List.length l') by (rewrite <- (map_length fst l), H; apply map_length).
  rewrite Hl, (square_rec_loop_sides (List.length l) l l' (le_n _) H).
  reflexivity.
Qed.
