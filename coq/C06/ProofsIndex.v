(* C06 — proofs about the integer side of the model: enumeration order of
   LatticeBounds.indices, LatticeSpec.items, to_fillid (homogeneous fill) and
   the dimension checks of develop_lattice. *)
From Coq Require Import List ZArith Bool Lia ZifyBool.
From T4V Require Import Base.Str Base.Scalar C06.Model.
Import ListNotations.
Open Scope Z_scope.

(* ------------------------------------------------------------------------ *)
(* Specification vocabulary (does not look at the code)                      *)
(* ------------------------------------------------------------------------ *)

(* idx has one component per range and each lies inside its range *)
Definition in_ranges (idx : list Z) (bs : bounds) : Prop :=
  Forall2 (fun i (b : Z * Z) => fst b <= i <= snd b) idx bs.

(* position of element idx in an array read with the FIRST index fastest:
   (i-i0) + n_i * ((j-j0) + n_j * ((k-k0) + ...)) *)
Fixpoint flat_index (bs : bounds) (idx : list Z) : Z :=
  match bs, idx with
  | (lo, hi) :: r, i :: tl => (i - lo) + (hi - lo + 1) * flat_index r tl
  | _, _ => 0
  end.

Definition wf_bounds (bs : bounds) : Prop := Forall (fun b : Z * Z => fst b <= snd b) bs.

(* ------------------------------------------------------------------------ *)
(* size                                                                      *)
(* ------------------------------------------------------------------------ *)
Lemma size_fold_scale (bs : bounds) (a : Z) :
  fold_left (fun x (y : Z * Z) => x * (snd y - fst y + 1)) bs a =
  a * fold_left (fun x (y : Z * Z) => x * (snd y - fst y + 1)) bs 1.
Proof.
  revert a; induction bs as [|b r IH]; intros a; cbn [fold_left].
  - lia.
  - rewrite IH. rewrite (IH (1 * _)). lia.
Qed.

Lemma size_nil : size [] = 1.
Proof. reflexivity. Qed.

Lemma size_cons lo hi r : size ((lo, hi) :: r) = (hi - lo + 1) * size r.
Proof.
  unfold size; cbn [fold_left fst snd]. rewrite size_fold_scale. lia.
Qed.

Lemma size_pos bs : wf_bounds bs -> 0 < size bs.
Proof.
  induction 1 as [|[lo hi] r Hb _ IH].
  - rewrite size_nil; lia.
  - rewrite size_cons. cbn [fst snd] in Hb. apply Z.mul_pos_pos; lia.
Qed.

(* ------------------------------------------------------------------------ *)
(* range(lo, hi + 1)                                                         *)
(* ------------------------------------------------------------------------ *)
Lemma zrange_from_length lo n : List.length (zrange_from lo n) = n.
Proof. revert lo; induction n as [|n IH]; intros lo; cbn; [reflexivity|now rewrite IH]. Qed.

Lemma zrange_from_nth lo n r :
  (r < n)%nat -> nth_error (zrange_from lo n) r = Some (lo + Z.of_nat r).
Proof.
  revert lo r; induction n as [|n IH]; intros lo r Hr; [lia|].
  destruct r as [|r]; cbn [zrange_from nth_error].
  - f_equal; lia.
  - rewrite IH by lia. f_equal; lia.
Qed.

Lemma zrange_length lo hi : List.length (zrange lo hi) = Z.to_nat (hi + 1 - lo).
Proof. apply zrange_from_length. Qed.

(* ------------------------------------------------------------------------ *)
(* positions in a flat_map whose blocks all have the same length             *)
(* ------------------------------------------------------------------------ *)
Lemma nth_error_flat_map_block {A B} (f : A -> list B) (L : nat) (l : list A) :
  (forall x, List.length (f x) = L) ->
  forall q r x, nth_error l q = Some x -> (r < L)%nat ->
  nth_error (flat_map f l) (q * L + r) = nth_error (f x) r.
Proof.
  intros HL. induction l as [|a l IH]; intros q r x Hq Hr.
  - destruct q; discriminate.
  - cbn [flat_map]. destruct q as [|q]; cbn [nth_error] in Hq.
    + injection Hq as ->. cbn [Nat.mul Nat.add].
      apply nth_error_app1. rewrite HL; exact Hr.
    + rewrite nth_error_app2 by (rewrite HL; lia).
      rewrite HL. replace (S q * L + r - L)%nat with (q * L + r)%nat by lia.
      now apply IH.
Qed.

Lemma nth_error_flat_map_block_inv {A B} (f : A -> list B) (L : nat) (l : list A) :
  (forall x, List.length (f x) = L) ->
  forall n y, nth_error (flat_map f l) n = Some y ->
  exists q r x, n = (q * L + r)%nat /\ (r < L)%nat /\ nth_error l q = Some x /\
                nth_error (f x) r = Some y.
Proof.
  intros HL. induction l as [|a l IH]; intros n y Hn.
  - destruct n; discriminate.
  - cbn [flat_map] in Hn. destruct (Nat.ltb n L) eqn:E.
    + apply Nat.ltb_lt in E. rewrite nth_error_app1 in Hn by (rewrite HL; exact E).
      exists 0%nat, n, a. repeat split; try assumption; lia.
    + apply Nat.ltb_ge in E. rewrite nth_error_app2 in Hn by (rewrite HL; exact E).
      rewrite HL in Hn. destruct (IH _ _ Hn) as (q & r & x & Hq & Hr & Hx & Hy).
      exists (S q), r, x. repeat split; try assumption. lia.
Qed.

Lemma flat_map_length_block {A B} (f : A -> list B) (L : nat) (l : list A) :
  (forall x, List.length (f x) = L) -> List.length (flat_map f l) = (List.length l * L)%nat.
Proof.
  intros HL; induction l as [|a l IH]; cbn [flat_map List.length]; [reflexivity|].
  rewrite app_length, HL, IH. lia.
Qed.

(* ------------------------------------------------------------------------ *)
(* LatticeBounds.indices                                                     *)
(* ------------------------------------------------------------------------ *)
Lemma indices_cons lo hi r :
  indices ((lo, hi) :: r) =
  flat_map (fun tl => map (fun x => x :: tl) (zrange lo hi)) (indices r).
Proof. reflexivity. Qed.

Lemma block_length lo hi (tl : list Z) :
  List.length (map (fun x => x :: tl) (zrange lo hi)) = Z.to_nat (hi + 1 - lo).
Proof. now rewrite map_length, zrange_length. Qed.

Lemma indices_length bs : wf_bounds bs -> List.length (indices bs) = Z.to_nat (size bs).
Proof.
  induction 1 as [|[lo hi] r Hb Hr IH].
  - reflexivity.
  - rewrite indices_cons, (flat_map_length_block _ (Z.to_nat (hi + 1 - lo))) by (intro; apply block_length).
    rewrite IH, size_cons. cbn [fst snd] in Hb.
    pose proof (size_pos r Hr). rewrite <- Z2Nat.inj_mul by lia. f_equal; lia.
Qed.

(* forward: the tuple sits at its first-index-fastest position *)
Lemma indices_at_flat_index bs : wf_bounds bs ->
  forall idx, in_ranges idx bs ->
  0 <= flat_index bs idx < size bs /\
  nth_error (indices bs) (Z.to_nat (flat_index bs idx)) = Some idx.
Proof.
  induction 1 as [|[lo hi] r Hb Hr IH]; intros idx Hin.
  - inversion Hin; subst. cbn. split; [lia|reflexivity].
  - inversion Hin as [|i b tl r' Hi Htl]; subst. cbn [fst snd] in Hi, Hb.
    destruct (IH _ Htl) as [Hrange Hnth].
    cbn [flat_index]. rewrite size_cons. split; [nia|].
    rewrite indices_cons.
    replace (Z.to_nat (i - lo + (hi - lo + 1) * flat_index r tl))
      with (Z.to_nat (flat_index r tl) * Z.to_nat (hi + 1 - lo) + Z.to_nat (i - lo))%nat by nia.
    rewrite (nth_error_flat_map_block _ (Z.to_nat (hi + 1 - lo)) _
               (fun x => block_length lo hi x) _ _ tl Hnth) by lia.
    rewrite nth_error_map. unfold zrange. rewrite zrange_from_nth by lia.
    cbn [option_map]. do 2 f_equal. lia.
Qed.

(* backward: whatever is listed at position n is a tuple of the declared
   ranges whose first-index-fastest position is n *)
Lemma indices_position bs : wf_bounds bs ->
  forall n idx, nth_error (indices bs) n = Some idx ->
  in_ranges idx bs /\ flat_index bs idx = Z.of_nat n.
Proof.
  induction 1 as [|[lo hi] r Hb Hr IH]; intros n idx Hn.
  - destruct n as [|n]; cbn in Hn; [|destruct n; discriminate].
    injection Hn as <-. split; [constructor|reflexivity].
  - rewrite indices_cons in Hn.
    destruct (nth_error_flat_map_block_inv _ (Z.to_nat (hi + 1 - lo)) _
                (fun x => block_length lo hi x) _ _ Hn) as (q & k & tl & -> & Hk & Hq & Hy).
    rewrite nth_error_map in Hy. unfold zrange in Hy. rewrite zrange_from_nth in Hy by exact Hk.
    cbn [option_map] in Hy. injection Hy as <-.
    destruct (IH _ _ Hq) as [Hin Hflat]. cbn [fst snd] in Hb. split.
    + constructor; [cbn [fst snd]; lia|exact Hin].
    + cbn [flat_index]. rewrite Hflat. nia.
Qed.

Lemma indices_in_ranges bs idx : wf_bounds bs -> In idx (indices bs) -> in_ranges idx bs.
Proof.
  intros Hwf Hin. apply In_nth_error in Hin as [n Hn]. now apply (indices_position bs Hwf n).
Qed.

Lemma indices_NoDup bs : wf_bounds bs -> NoDup (indices bs).
Proof.
  intros Hwf. apply NoDup_nth_error. intros i j Hi Hij.
  destruct (nth_error (indices bs) i) as [idx|] eqn:Ei.
  - symmetry in Hij.
    pose proof (proj2 (indices_position bs Hwf _ _ Ei)).
    pose proof (proj2 (indices_position bs Hwf _ _ Hij)). lia.
  - apply nth_error_None in Ei. lia.
Qed.

(* a reversed range (hi < lo) yields no element at all *)
Lemma zrange_empty lo hi : hi < lo -> zrange lo hi = [].
Proof. intros H. unfold zrange. replace (Z.to_nat (hi + 1 - lo)) with 0%nat by lia. reflexivity. Qed.

(* ------------------------------------------------------------------------ *)
(* LatticeSpec.items                                                         *)
(* ------------------------------------------------------------------------ *)
Lemma nth_error_combine {A B} (l : list A) (s : list B) n a b :
  nth_error l n = Some a -> nth_error s n = Some b -> nth_error (combine l s) n = Some (a, b).
Proof.
  revert s n; induction l as [|x l IH]; intros s n Ha Hb; [destruct n; discriminate|].
  destruct s as [|y s]; [destruct n; discriminate|].
  destruct n as [|n]; cbn in *.
  - now injection Ha as ->; injection Hb as ->.
  - now apply IH.
Qed.

Lemma nth_error_combine_inv {A B} (l : list A) (s : list B) n a b :
  nth_error (combine l s) n = Some (a, b) -> nth_error l n = Some a /\ nth_error s n = Some b.
Proof.
  revert s n; induction l as [|x l IH]; intros s n H; [destruct n; discriminate|].
  destruct s as [|y s]; [destruct n; discriminate|].
  destruct n as [|n]; cbn in *.
  - injection H as -> ->. now split.
  - now apply IH.
Qed.

Lemma combine_map_fst {A B} (l : list A) (s : list B) :
  List.length l = List.length s -> map fst (combine l s) = l.
Proof.
  revert s; induction l as [|x l IH]; intros [|y s] H; cbn in *; try discriminate; [reflexivity|].
  f_equal. apply IH. lia.
Qed.

Lemma items_ok bs spec : bs <> [] -> items bs spec = Ok (combine (indices bs) spec).
Proof. intros H. destruct bs; [contradiction|reflexivity]. Qed.

Theorem items_array bs spec : bs <> [] -> wf_bounds bs ->
  Z.of_nat (List.length spec) = size bs ->
  exists l, bind (lattice_spec bs spec) (fun p => items (fst p) (snd p)) = Ok l /\
    map fst l = indices bs /\
    (forall idx, in_ranges idx bs ->
       nth_error l (Z.to_nat (flat_index bs idx))
       = Some (idx, nth (Z.to_nat (flat_index bs idx)) spec 0)) /\
    (forall idx u, In (idx, u) l ->
       in_ranges idx bs /\ u = nth (Z.to_nat (flat_index bs idx)) spec 0).
Proof.
  intros Hne Hwf Hlen. exists (combine (indices bs) spec).
  assert (Hlen' : List.length (indices bs) = List.length spec)
    by (rewrite indices_length by exact Hwf; lia).
  repeat split.
  - unfold lattice_spec. replace (size bs =? Z.of_nat (List.length spec)) with true by lia.
    cbn [bind fst snd]. now apply items_ok.
  - now apply combine_map_fst.
  - intros idx Hin. destruct (indices_at_flat_index bs Hwf idx Hin) as [Hr Hn].
    apply nth_error_combine; [exact Hn|]. apply nth_error_nth'. lia.
  - apply In_nth_error in H as [n Hn]. apply nth_error_combine_inv in Hn as [Hn _].
    now apply (indices_position bs Hwf n).
  - apply In_nth_error in H as [n Hn]. apply nth_error_combine_inv in Hn as [Hn Hs].
    destruct (indices_position bs Hwf _ _ Hn) as [_ ->]. rewrite Nat2Z.id.
    symmetry. now apply nth_error_nth.
Qed.

Lemma flat_index_3d i0 i1 j0 j1 k0 k1 i j k :
  flat_index [(i0, i1); (j0, j1); (k0, k1)] [i; j; k]
  = (i - i0) + (i1 - i0 + 1) * ((j - j0) + (j1 - j0 + 1) * (k - k0)).
Proof. cbn [flat_index]. lia. Qed.

(* ------------------------------------------------------------------------ *)
(* to_fillid: FILL=n on a lattice cell + --lattice                           *)
(* ------------------------------------------------------------------------ *)
Lemma nth_repeat_lt {A} (a d : A) m k : (k < m)%nat -> nth k (repeat a m) d = a.
Proof.
  revert k; induction m as [|m IH]; intros k Hk; [lia|].
  destruct k as [|k]; cbn; [reflexivity|]. apply IH. lia.
Qed.

Theorem homogeneous_fill (fb : option bounds) (n lat : Z) (bs : bounds) : wf_bounds bs ->
  to_fillid fb (Some (FInt n)) (Some lat) None = Err EMissingLatticeOpt /\
  exists spec, to_fillid fb (Some (FInt n)) (Some lat) (Some bs) = Ok (FSpec bs spec) /\
    Z.of_nat (List.length spec) = size bs /\
    forall k, (k < List.length spec)%nat -> nth k spec 0 = n.
Proof.
  intros Hwf. pose proof (size_pos bs Hwf) as Hpos. split.
  - destruct fb; reflexivity.
  - exists (py_repeat n (size bs)).
    assert (Hl : Z.of_nat (List.length (py_repeat n (size bs))) = size bs)
      by (unfold py_repeat; rewrite repeat_length; lia).
    repeat split.
    + assert (E : lattice_spec bs (py_repeat n (size bs)) = Ok (bs, py_repeat n (size bs))).
      { unfold lattice_spec. rewrite Hl, Z.eqb_refl. reflexivity. }
      destruct fb; cbn [to_fillid]; rewrite E; reflexivity.
    + exact Hl.
    + intros k Hk. unfold py_repeat in *. rewrite repeat_length in Hk.
      apply nth_repeat_lt. exact Hk.
Qed.

(* ------------------------------------------------------------------------ *)
(* the dimension checks of develop_lattice                                   *)
(* ------------------------------------------------------------------------ *)
Lemma dims_le_length bs : dims bs <= Z.of_nat (List.length bs).
Proof.
  unfold dims. induction bs as [|b r IH]; cbn [filter List.length]; [lia|].
  destruct (negb (fst b =? snd b)); cbn [List.length]; lia.
Qed.

Definition trivial_range (b : Z * Z) : Prop := fst b = snd b.

Lemma padding_loop_spec (rest : bounds) : padding_loop rest = Ok tt <-> Forall trivial_range rest.
Proof.
  induction rest as [|r tl IH]; cbn [padding_loop].
  - split; [constructor|reflexivity].
  - destruct (negb (fst r =? snd r)) eqn:E.
    + split; [discriminate|]. intros H. inversion H as [|? ? Hr _]; subst. unfold trivial_range in Hr. lia.
    + rewrite IH. split; intros H.
      * constructor; [unfold trivial_range; lia|exact H].
      * now inversion H.
Qed.

Lemma padding_loop_err (rest : bounds) : padding_loop rest <> Ok tt -> padding_loop rest = Err ELattice.
Proof.
  induction rest as [|r tl IH]; cbn [padding_loop]; intros H; [now elim H|].
  destruct (negb (fst r =? snd r)); [reflexivity|now apply IH].
Qed.

(* what the (repaired) checks amount to: at least one range per base vector,
   and the ranges beyond the lattice dimensions are one-point ranges; the
   leading ranges - the lattice's own dimensions - may be anything *)
Theorem dimension_checks_spec (nvec : nat) (bs : bounds) :
  dimension_checks nvec bs = Ok tt <->
  ((nvec <= List.length bs)%nat /\ Forall trivial_range (skipn nvec bs)).
Proof.
  unfold dimension_checks. destruct (Nat.ltb (List.length bs) nvec) eqn:E.
  - apply Nat.ltb_lt in E. split; [discriminate|]. intros [H _]. lia.
  - apply Nat.ltb_ge in E. rewrite padding_loop_spec. tauto.
Qed.

Theorem dimension_checks_err (nvec : nat) (bs : bounds) :
  dimension_checks nvec bs <> Ok tt -> dimension_checks nvec bs = Err ELattice.
Proof.
  unfold dimension_checks. destruct (Nat.ltb (List.length bs) nvec); [reflexivity|].
  apply padding_loop_err.
Qed.

(* as many ranges as vectors: always accepted, whatever the ranges *)
Corollary dimension_checks_same_length (bs : bounds) : dimension_checks (List.length bs) bs = Ok tt.
Proof.
  apply dimension_checks_spec. split; [lia|]. rewrite skipn_all. constructor.
Qed.

(* ------------------------------------------------------------------------ *)
(* LatticeSpec.__getitem__(tuple): reads the array with the LAST index       *)
(* fastest — the opposite of items(); it is not used by the converter        *)
(* ------------------------------------------------------------------------ *)
Fixpoint last_fastest_index (bs : bounds) (idx : list Z) : Z :=
  match bs, idx with
  | (lo, hi) :: r, i :: tl => (i - lo) * size r + last_fastest_index r tl
  | _, _ => 0
  end.

Lemma getitem_index_spec bs : forall arg acc, in_ranges arg bs ->
  getitem_index bs arg acc = Ok (acc * size bs + last_fastest_index bs arg).
Proof.
  induction bs as [|[lo hi] r IH]; intros arg acc Hin; inversion Hin as [|i b tl r' Hi Htl]; subst.
  - cbn [getitem_index last_fastest_index]. rewrite size_nil. f_equal; lia.
  - cbn [fst snd] in Hi. cbn [getitem_index last_fastest_index].
    replace ((i <? lo) || (hi <? i)) with false by lia.
    rewrite (IH _ _ Htl), size_cons. f_equal. lia.
Qed.

Theorem getitem_tuple_last_fastest bs spec arg : in_ranges arg bs ->
  spec_getitem_tuple bs spec arg = py_list_get spec (last_fastest_index bs arg).
Proof.
  intros Hin. unfold spec_getitem_tuple.
  assert (Hl : List.length arg = List.length bs) by (induction Hin; cbn; lia).
  rewrite Hl, Nat.eqb_refl. cbn [negb]. rewrite (getitem_index_spec bs arg 0 Hin). cbn [bind].
  f_equal.
Qed.

(* so indexing by a tuple disagrees with items(): [(1,2);(0,1)], element (2,0) *)
Theorem getitem_tuple_disagrees_with_items :
  exists bs spec idx u v,
    items bs spec = Ok (combine (indices bs) spec) /\ In (idx, u) (combine (indices bs) spec) /\
    spec_getitem_tuple bs spec idx = Ok v /\ u <> v.
Proof.
  exists [(1, 2); (0, 1)], [10; 11; 12; 13], [2; 0], 11, 12.
  repeat split; try reflexivity; [vm_compute; tauto|lia].
Qed.
