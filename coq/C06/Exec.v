(* C06 — executable comparison functions used by the generated correspondence
   files (model at binary64 / on integers vs values observed on the
   implementation). *)
From Coq Require Import List ZArith Bool String Ascii PrimFloat.
From T4V Require Import Base.Str Base.Scalar Base.Cases C06.Model.
Import ListNotations.

Definition err_eqb (a b : err) : bool :=
  match a, b with
  | ELattice, ELattice | EZeroDiv, EZeroDiv | EValue, EValue | EIndex, EIndex
  | EAssert, EAssert | EMissingLatticeOpt, EMissingLatticeOpt
  | EParseCell, EParseCell | EOutOfModel, EOutOfModel => true
  | _, _ => false
  end.

Definition res_eqb {A} (e : A -> A -> bool) (a b : res A) : bool :=
  match a, b with
  | Ok x, Ok y => e x y
  | Err x, Err y => err_eqb x y
  | _, _ => false
  end.

Definition zpair_eqb : Z * Z -> Z * Z -> bool := pair_eqb Z.eqb Z.eqb.
Definition bounds_eqb : bounds -> bounds -> bool := list_eqb zpair_eqb.

(* text level *)
Definition check_ranges (c : list string * res bounds) : bool :=
  res_eqb bounds_eqb (parse_ranges (fst c)) (snd c).

Definition check_parse_lattice (c : list string * res (list (Z * bounds))) : bool :=
  res_eqb (list_eqb (pair_eqb Z.eqb bounds_eqb)) (parse_lattice (fst c)) (snd c).

(* LatticeBounds: size, dims, list(indices()) *)
Definition check_bounds (c : bounds * (Z * Z * res (list (list Z)))) : bool :=
  let '(bs, (sz, dm, idx)) := c in
  Z.eqb (size bs) sz && Z.eqb (dims bs) dm
  && res_eqb (list_eqb (list_eqb Z.eqb)) (indices_py bs) idx.

Definition check_getitem (c : bounds * Z * res (Z * Z)) : bool :=
  let '(bs, i, r) := c in res_eqb zpair_eqb (bounds_getitem bs i) r.

(* LatticeSpec(bounds, spec) then list(items()) *)
Definition check_items (c : bounds * list Z * res (list (list Z * Z))) : bool :=
  let '(bs, spec, r) := c in
  res_eqb (list_eqb (pair_eqb (list_eqb Z.eqb) Z.eqb))
          (bind (lattice_spec bs spec) (fun p => items (fst p) (snd p))) r.

(* LatticeSpec(bounds, spec)[tuple] and [int] *)
Definition check_spec_getitem (c : bounds * list Z * (list Z + Z) * res Z) : bool :=
  let '(bs, spec, arg, r) := c in
  res_eqb Z.eqb
    (bind (lattice_spec bs spec) (fun p =>
       match arg with
       | inl t => spec_getitem_tuple (fst p) (snd p) t
       | inr i => py_list_get (snd p) i
       end)) r.

Definition fillid_eqb (a b : fillid) : bool :=
  match a, b with
  | FNone, FNone => true
  | FUniv u, FUniv v => Z.eqb u v
  | FSpec b1 s1, FSpec b2 s2 => bounds_eqb b1 b2 && list_eqb Z.eqb s1 s2
  | _, _ => false
  end.

Definition check_fillid
  (c : option bounds * option funivs * option Z * option bounds * res fillid) : bool :=
  let '(fb, fu, lat, lo, r) := c in res_eqb fillid_eqb (to_fillid fb fu lat lo) r.

(* numeric, binary64 *)
Definition fvec := (float * float * float)%type.
Definition fvec_close (a b : fvec) : bool :=
  let '(a1, a2, a3) := a in let '(b1, b2, b3) := b in
  f_close9 a1 b1 && f_close9 a2 b2 && f_close9 a3 b3.
Definition fplane := (fvec * fvec)%type.

Definition check_reciprocal (c : list fvec * res (list fvec)) : bool :=
  res_eqb (list_eqb fvec_close) (latticeReciprocal FS (fst c)) (snd c).

Definition check_latvec (c : list fvec * list Z * fvec) : bool :=
  let '(base, idx, r) := c in fvec_close (latticeVector FS base idx) r.

Definition check_square_rec (c : list (fplane * Z) * res (list fvec)) : bool :=
  res_eqb (list_eqb fvec_close) (squareLatticeReciprocalVecs FS (fst c)) (snd c).

Definition check_square_base (c : list (fplane * Z) * res (list fvec)) : bool :=
  res_eqb (list_eqb fvec_close) (squareLatticeBaseVectors FS (fst c)) (snd c).

Definition check_compose (c : list float * list float * res (list float)) : bool :=
  let '(t1, t2, r) := c in res_eqb (list_eqb f_close9) (compose_transform FS t1 t2) r.

(* develop_lattice: signed surface numbers of the cell card, dic_surf_mcnp as
   an association list, the lattice cell, and per new cell in creation order
   (translation applied to the geometry, fill universe or None, filltr) *)
Definition dic_of (d : list (Z * list (fplane * Z))) (k : Z) : list (fplane * Z) :=
  match dict_get d k with Some l => l | None => [] end.

Definition elem_out := (list float * option Z * list float)%type.

Definition elem_close (e : new_elem (T:=float)) (o : elem_out) : bool :=
  let '(tr, fill, ftr) := o in
  list_eqb f_close9 (ne_trnsf e) tr && option_eqb Z.eqb (ne_fill e) fill
  && list_eqb f_close9 (ne_filltr e) ftr.

Fixpoint list_eqb2 {A B} (e : A -> B -> bool) (a : list A) (b : list B) : bool :=
  match a, b with
  | [], [] => true
  | x :: a', y :: b' => e x y && list_eqb2 e a' b'
  | _, _ => false
  end.

Definition develop_case :=
  (list Z * list (Z * list (fplane * Z)) * (Z * fillid * list float * list (list float))
   * res (list elem_out))%type.

Definition check_develop (c : develop_case) : bool :=
  let '(ids, dic, (u, fill, ftr, trcl), expected) := c in
  match develop_lattice FS (dic_of dic) ids (mkLatCell u fill ftr trcl), expected with
  | Ok l, Ok l' => list_eqb2 elem_close l l'
  | Err e, Err e' => err_eqb e e'
  | _, _ => false
  end.

(* parse_fill_kw: first argument, the rest of the keyword list in reading
   order; expected: f_bounds, f_univs, number of parameter tokens taken, what is
   left of the keyword list *)
Definition funivs_eqb (a b : funivs) : bool :=
  match a, b with
  | FInt x, FInt y => Z.eqb x y
  | FArr x, FArr y => list_eqb Z.eqb x y
  | _, _ => false
  end.

Definition check_fill_kw
  (c : string * list string * res (option bounds * funivs * nat * list string)) : bool :=
  let '(first, stack, expected) := c in
  match parse_fill_kw first stack, expected with
  | Ok k, Ok (b, u, np, rest) =>
      option_eqb bounds_eqb (fk_bounds k) b && funivs_eqb (fk_univs k) u
      && Nat.eqb (List.length (fk_params k)) np && list_eqb String.eqb (fk_rest k) rest
  | Err e, Err e' => err_eqb e e'
  | _, _ => false
  end.

(* the option string of a cell card -> tokens in reading order *)
Definition check_tokenize (c : string * list string) : bool :=
  list_eqb String.eqb (tokenize_options (fst c)) (snd c).
