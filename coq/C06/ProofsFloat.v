(* C06 — every spelling to_float accepts (is_float_spelling) ends in a digit or
   a decimal point and contains no colon: the explicit hypotheses of tr_token
   follow from param_token. *)
From Coq Require Import List ZArith NArith Bool String Ascii Lia.
From T4V Require Import Base.Str Base.Scalar C06.Model C06.ProofsText.
Import ListNotations.
Open Scope string_scope.

(* characters a number may contain *)
Definition numc (c : ascii) : bool :=
  is_digit c || Ascii.eqb c "." || Ascii.eqb c "+" || Ascii.eqb c "-" || Ascii.eqb c "e" || Ascii.eqb c "d".
Fixpoint all_numc (s : string) : bool :=
  match s with "" => true | String c r => numc c && all_numc r end.

Lemma numc_not_colon c : numc c = true -> Ascii.eqb ":" c = false.
Proof. destruct c as [[] [] [] [] [] [] [] []]; intros H; try discriminate H; reflexivity. Qed.

Lemma all_numc_no_colon s : all_numc s = true -> contains_char ":" s = false.
Proof.
  induction s as [|c r IH]; cbn [all_numc contains_char]; intros H; [reflexivity|].
  apply andb_true_iff in H as [Hc Hr]. now rewrite (numc_not_colon c Hc), (IH Hr).
Qed.

Lemma digit_numc c : is_digit c = true -> numc c = true.
Proof. intros H. unfold numc. now rewrite H. Qed.

Lemma all_digits_numc s : all_digits s = true -> all_numc s = true.
Proof.
  induction s as [|c r IH]; cbn [all_digits all_numc]; intros H; [reflexivity|].
  apply andb_true_iff in H as [Hc Hr]. now rewrite (digit_numc c Hc), (IH Hr).
Qed.

(* "ends like a number, or is empty and the flag says so" *)
Definition ends_ok (s : string) (dflt : bool) : bool :=
  match last_char s with
  | Some c => is_digit c || Ascii.eqb c "."
  | None => dflt
  end.

Lemma ends_ok_cons c r d : r <> "" -> ends_ok (String c r) d = ends_ok r d.
Proof. intros H. unfold ends_ok. now rewrite (last_char_cons c r H). Qed.

Lemma ends_ok_nonempty_indep r a b : r <> "" -> ends_ok r a = ends_ok r b.
Proof.
  intros H. unfold ends_ok.
  assert (E : exists c, last_char r = Some c).
  { induction r as [|x r IH]; [contradiction|]. destruct r as [|y r']; [now exists x|].
    destruct IH as [c Hc]; [discriminate|]. exists c. exact Hc. }
  destruct E as [c ->]. reflexivity.
Qed.

Lemma ends_ok_char c r d : ends_ok (String c r) d = ends_ok r (is_digit c || Ascii.eqb c ".").
Proof.
  destruct r as [|y r']; [reflexivity|].
  rewrite ends_ok_cons by discriminate. apply ends_ok_nonempty_indep. discriminate.
Qed.

Lemma digits1_facts s : digits1 s = true -> all_numc s = true /\ ends_ok s false = true /\ s <> "".
Proof.
  unfold digits1. destruct s as [|c r]; [discriminate|]. intros H.
  split; [now apply all_digits_numc|]. split; [|discriminate].
  destruct (all_digits_last (String c r) ltac:(discriminate) H) as (x & Hx & Hd).
  unfold ends_ok. now rewrite Hx, Hd.
Qed.

Lemma strip_sign_facts s :
  all_numc (strip_sign s) = true -> (forall d, ends_ok (strip_sign s) d = true) -> strip_sign s <> "" ->
  all_numc s = true /\ ends_ok s false = true.
Proof.
  destruct s as [|c r]; [intros _ _ H; now elim H|]. cbn [strip_sign].
  destruct (Ascii.eqb c "+" || Ascii.eqb c "-") eqn:E; intros Hn He Hne.
  - split.
    + cbn [all_numc]. rewrite Hn, andb_true_r. unfold numc.
      apply orb_true_iff in E as [E|E]; rewrite E; now rewrite ?orb_true_r.
    + rewrite ends_ok_cons by exact Hne. apply He.
  - split; [exact Hn|apply He].
Qed.

(* the exponent part: characters of numbers; it ends in a digit unless it is empty *)
Lemma exponent_part_facts r : exponent_part r = true ->
  all_numc r = true /\ forall d, ends_ok r d = match r with "" => d | _ => true end.
Proof.
  destruct r as [|c r']; [intros _; split; [reflexivity|reflexivity]|].
  cbn [exponent_part]. intros H.
  destruct (Ascii.eqb c "e" || Ascii.eqb c "d") eqn:Eed.
  - (* letter, optional sign, digits *)
    assert (Hc : numc c = true).
    { unfold numc. apply orb_true_iff in Eed as [E|E]; rewrite E; now rewrite ?orb_true_r. }
    destruct (digits1_facts _ H) as (Hn & He & Hne).
    assert (Hr : all_numc r' = true /\ ends_ok r' false = true /\ r' <> "").
    { destruct r' as [|x r'']; [now elim Hne|]. cbn [strip_sign] in *.
      destruct (Ascii.eqb x "+" || Ascii.eqb x "-") eqn:Es.
      - split; [|split; [|discriminate]].
        + cbn [all_numc]. rewrite Hn, andb_true_r. unfold numc.
          apply orb_true_iff in Es as [E|E]; rewrite E; now rewrite ?orb_true_r.
        + rewrite ends_ok_cons by exact Hne. exact He.
      - split; [exact Hn|]. split; [exact He|discriminate]. }
    destruct Hr as (Hrn & Hre & Hrne). split.
    + cbn [all_numc]. now rewrite Hc, Hrn.
    + intros d. rewrite ends_ok_cons by exact Hrne.
      rewrite (ends_ok_nonempty_indep r' d false Hrne). exact Hre.
  - destruct (Ascii.eqb c "+" || Ascii.eqb c "-") eqn:Es; [|discriminate].
    destruct (digits1_facts _ H) as (Hn & He & Hne). split.
    + cbn [all_numc]. rewrite Hn, andb_true_r. unfold numc.
      apply orb_true_iff in Es as [E|E]; rewrite E; now rewrite ?orb_true_r.
    + intros d. rewrite ends_ok_cons by exact Hne.
      rewrite (ends_ok_nonempty_indep r' d false Hne). exact He.
Qed.

(* skip_digits: s = digits ++ rest *)
Lemma skip_digits_facts : forall s n r, skip_digits s = (n, r) ->
  forall (rest_ok : bool),
  all_numc r = true -> all_numc s = true.
Proof.
  induction s as [|c s' IH]; intros n r H rest_ok Hr.
  - cbn in H. injection H as <- <-. reflexivity.
  - cbn [skip_digits] in H. destruct (is_digit c) eqn:Ed.
    + destruct (skip_digits s') as [n0 r0] eqn:E0. injection H as <- <-.
      cbn [all_numc]. rewrite (digit_numc c Ed). cbn [andb]. exact (IH _ _ eq_refl rest_ok Hr).
    + injection H as <- <-. exact Hr.
Qed.

(* how s ends, given how the rest ends: if the rest is empty the last digit decides *)
Lemma skip_digits_ends : forall s n r d, skip_digits s = (n, r) ->
  ends_ok s d = ends_ok r (match n with O => d | S _ => true end).
Proof.
  induction s as [|c s' IH]; intros n r d H.
  - cbn in H. injection H as <- <-. reflexivity.
  - cbn [skip_digits] in H. destruct (is_digit c) eqn:Ed.
    + destruct (skip_digits s') as [n0 r0] eqn:E0. injection H as <- <-.
      rewrite ends_ok_char, Ed. cbn [orb]. rewrite (IH n0 r0 true eq_refl). now destruct n0.
    + injection H as <- <-. reflexivity.
Qed.

Theorem float_spelling_facts t : is_float_spelling t = true ->
  has_colon t = false /\ ends_plain t.
Proof.
  intros H. unfold is_float_spelling in H.
  destruct (skip_digits (strip_sign t)) as [n1 r1] eqn:E1.
  assert (Goal : all_numc (strip_sign t) = true /\ ends_ok (strip_sign t) false = true).
  { assert (Hdot : forall r2, r1 = String "." r2 ->
              all_numc (strip_sign t) = true /\ ends_ok (strip_sign t) false = true).
    { intros r2 ->. destruct (skip_digits r2) as [n2 r3] eqn:E3.
      destruct (Nat.eqb (n1 + n2) 0) eqn:En; [discriminate|]. apply Nat.eqb_neq in En.
      destruct (exponent_part_facts r3 H) as (Hn3 & He3).
      pose proof (skip_digits_facts r2 n2 r3 E3 true Hn3) as Hn2.
      assert (Hn1 : all_numc (String "." r2) = true) by (cbn [all_numc]; now rewrite Hn2).
      split; [exact (skip_digits_facts _ _ _ E1 true Hn1)|].
      rewrite (skip_digits_ends _ _ _ false E1), ends_ok_char. cbn [is_digit orb].
      change (is_digit "." || Ascii.eqb "." ".") with true.
      rewrite (skip_digits_ends _ _ _ true E3), He3. now destruct r3, n2. }
    destruct r1 as [|c r2].
    - destruct (Nat.eqb n1 0) eqn:En; [discriminate|]. apply Nat.eqb_neq in En.
      split; [exact (skip_digits_facts _ _ _ E1 true eq_refl)|].
      rewrite (skip_digits_ends _ _ _ false E1). destruct n1; [lia|reflexivity].
    - destruct (Ascii.eqb c ".") eqn:Ec.
      + apply Ascii.eqb_eq in Ec. subst c. now apply (Hdot r2).
      + assert (H' : (if Nat.eqb n1 0 then false else exponent_part (String c r2)) = true).
        { destruct c as [[] [] [] [] [] [] [] []]; try discriminate Ec; exact H. }
        destruct (Nat.eqb n1 0) eqn:En; [discriminate|].
        destruct (exponent_part_facts _ H') as (Hn & He).
        split; [exact (skip_digits_facts _ _ _ E1 true Hn)|].
        rewrite (skip_digits_ends _ _ _ false E1). now rewrite He. }
  destruct Goal as [Gn Ge].
  assert (Gne : strip_sign t <> "").
  { intros E. rewrite E in Ge. discriminate Ge. }
  assert (Full : all_numc t = true /\ ends_ok t false = true).
  { destruct t as [|c r]; [now elim Gne|]. cbn [strip_sign] in *.
    destruct (Ascii.eqb c "+" || Ascii.eqb c "-") eqn:Es.
    - split.
      + cbn [all_numc]. rewrite Gn, andb_true_r. unfold numc.
        apply orb_true_iff in Es as [E|E]; rewrite E; now rewrite ?orb_true_r.
      + rewrite ends_ok_cons by exact Gne. exact Ge.
    - now split. }
  destruct Full as [Fn Fe]. split; [exact (all_numc_no_colon t Fn)|].
  unfold ends_ok in Fe. unfold ends_plain. destruct (last_char t) as [c|]; [|discriminate].
  exists c. split; [reflexivity|]. apply orb_true_iff in Fe as [Fe|Fe]; [now left|].
  right. now apply Ascii.eqb_eq in Fe.
Qed.

Corollary param_token_tr_token t : param_token t -> tr_token t.
Proof.
  intros [Hs Hf]. destruct (float_spelling_facts t Hf) as [Hc He]. now repeat split.
Qed.

(* C06_fill_array_read_as_mcnp with the hypothesis on the transformation tokens
   reduced to "to_float reads them" *)
Theorem fill_array_read_as_mcnp_param (first : string) (more : list string) (bs : bounds)
        (es : list entry) (us : list Z) (tail : list string) :
  Forall2 spells_range (first :: more) bs ->
  Forall (fun b : Z * Z => (fst b <= snd b)%Z) bs ->
  Forall2 spells_int (map fst es) us -> Z.of_nat (List.length us) = size bs ->
  Forall (fun e : entry => Forall param_token (snd e)) es -> keyword_or_end tail ->
  ((exists k, parse_fill_kw first (more ++ flatten_entries es ++ tail)%list = Ok k /\ mcnp_equivalent k us es)
   <-> ((forall e, In e es -> snd e = []) \/ List.length es = 1%nat)).
Proof.
  intros Hr Hwf Hu Hlen Htr Htail.
  apply (fill_array_read_as_mcnp first more bs es us tail Hr Hwf Hu Hlen); [|exact Htail].
  eapply Forall_impl; [|exact Htr]. intros e He.
  eapply Forall_impl; [|exact He]. exact param_token_tr_token.
Qed.
