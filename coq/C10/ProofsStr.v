(* C10 — lemmas about the string functions of Base/Str.v and C10/Model.v *)
From Coq Require Import List NArith ZArith Bool String Ascii Lia.
From T4V Require Import Base.Str C10.Model.
Import ListNotations.
Open Scope string_scope.

(* ------------------------------------------------------------------ *)
(* append, length, substring                                            *)
(* ------------------------------------------------------------------ *)
Lemma sapp_nil_r (s : string) : s ++ "" = s.
Proof. induction s as [|c r IH]; simpl; [reflexivity|now rewrite IH]. Qed.

Lemma sapp_assoc (a b c : string) : (a ++ b) ++ c = a ++ (b ++ c).
Proof. induction a as [|x r IH]; simpl; [reflexivity|now rewrite IH]. Qed.

Lemma slength_app (a b : string) : String.length (a ++ b) = String.length a + String.length b.
Proof. induction a as [|x r IH]; simpl; [reflexivity|now rewrite IH]. Qed.

Lemma substring_0_all (s : string) : substring 0 (String.length s) s = s.
Proof. induction s as [|c r IH]; simpl; [reflexivity|now rewrite IH]. Qed.

Lemma substring_prefix (a b : string) : substring 0 (String.length a) (a ++ b) = a.
Proof.
  induction a as [|c r IH]; simpl.
  - destruct b; reflexivity.
  - now rewrite IH.
Qed.

Lemma substring_suffix (a b : string) :
  substring (String.length a) (String.length b) (a ++ b) = b.
Proof.
  induction a as [|c r IH]; simpl; [apply substring_0_all|exact IH].
Qed.

Lemma take_last_app (a b : string) : take_last (String.length b) (a ++ b) = b.
Proof.
  unfold take_last. rewrite slength_app.
  replace (String.length a + String.length b - String.length b) with (String.length a) by lia.
  apply substring_suffix.
Qed.

Lemma drop_last_app (a b : string) : drop_last (String.length b) (a ++ b) = a.
Proof.
  unfold drop_last. rewrite slength_app.
  replace (String.length a + String.length b - String.length b) with (String.length a) by lia.
  apply substring_prefix.
Qed.

(* ------------------------------------------------------------------ *)
(* character classes                                                    *)
(* ------------------------------------------------------------------ *)
Fixpoint all_chars (p : ascii -> bool) (s : string) : bool :=
  match s with EmptyString => true | String c r => p c && all_chars p r end.

(* the first character, if any, does not satisfy p *)
Definition stops (p : ascii -> bool) (s : string) : bool :=
  match s with EmptyString => true | String c _ => negb (p c) end.

Lemma all_chars_app p a b : all_chars p (a ++ b) = all_chars p a && all_chars p b.
Proof. induction a as [|c r IH]; simpl; [reflexivity|]. now rewrite IH, andb_assoc. Qed.

Lemma all_digits_all_chars s : all_digits s = all_chars is_digit s.
Proof. induction s as [|c r IH]; simpl; [reflexivity|now rewrite IH]. Qed.

Lemma span_app p a b : all_chars p a = true -> stops p b = true -> span p (a ++ b) = (a, b).
Proof.
  induction a as [|c r IH]; simpl; intros Ha Hb.
  - destruct b as [|d b']; [reflexivity|]. simpl in Hb. apply negb_true_iff in Hb.
    simpl. now rewrite Hb.
  - apply andb_prop in Ha. destruct Ha as [Hc Hr]. rewrite Hc, (IH Hr Hb). reflexivity.
Qed.

Lemma span_spec p s a b : span p s = (a, b) ->
  s = a ++ b /\ all_chars p a = true /\ stops p b = true.
Proof.
  revert a b. induction s as [|c r IH]; simpl; intros a b H.
  - inversion H; subst. repeat split.
  - destruct (p c) eqn:E.
    + destruct (span p r) as [a' b'] eqn:E'. inversion H; subst.
      destruct (IH a' b eq_refl) as (H1 & H2 & H3). repeat split.
      * simpl. now rewrite <- H1.
      * simpl. now rewrite E, H2.
      * exact H3.
    + inversion H; subst. repeat split. simpl. now rewrite E.
Qed.

Lemma all_chars_impl (p q : ascii -> bool) s :
  (forall c, p c = true -> q c = true) -> all_chars p s = true -> all_chars q s = true.
Proof.
  intros H. induction s as [|c r IH]; simpl; [reflexivity|]. intros Hs.
  apply andb_prop in Hs. destruct Hs as [H1 H2]. now rewrite (H _ H1), (IH H2).
Qed.

Lemma all_chars_contains p c s : p c = false -> all_chars p s = true -> contains_char c s = false.
Proof.
  intros Hc. induction s as [|d r IH]; simpl; [reflexivity|]. intros Hs.
  apply andb_prop in Hs. destruct Hs as [H1 H2]. rewrite (IH H2), orb_false_r.
  destruct (Ascii.eqb c d) eqn:E; [|reflexivity]. apply Ascii.eqb_eq in E. subst. congruence.
Qed.

(* ------------------------------------------------------------------ *)
(* split_ws                                                             *)
(* ------------------------------------------------------------------ *)
Definition no_ws (s : string) : bool := all_chars (fun c => negb (is_ws c)) s.

Lemma split_ws_aux_word t : no_ws t = true -> forall rest cur,
  split_ws_aux (t ++ rest) cur = split_ws_aux rest (cur ++ t).
Proof.
  unfold no_ws. induction t as [|c r IH]; simpl; intros Ht rest cur.
  - now rewrite sapp_nil_r.
  - apply andb_prop in Ht. destruct Ht as [Hc Hr]. apply negb_true_iff in Hc. rewrite Hc.
    rewrite (IH Hr). rewrite sapp_assoc. reflexivity.
Qed.

(* a word is a non-empty string without blanks *)
Definition is_word (t : string) : bool :=
  match t with EmptyString => false | _ => no_ws t end.

Definition blank_join (toks : list string) : string :=
  fold_right (fun t acc => String " " (t ++ acc)) "" toks.

Lemma split_ws_blank_join toks (trail : bool) :
  forallb is_word toks = true ->
  split_ws (blank_join toks ++ (if trail then " " else "")) = toks.
Proof.
  unfold split_ws. induction toks as [|t r IH]; simpl; intros H.
  - destruct trail; reflexivity.
  - apply andb_prop in H. destruct H as [Ht Hr].
    assert (Hw : no_ws t = true) by (destruct t; [discriminate|exact Ht]).
    rewrite sapp_assoc, (split_ws_aux_word t Hw). simpl.
    specialize (IH Hr).
    destruct r as [|t' r'].
    + simpl. destruct t; [discriminate|]. destruct trail; reflexivity.
    + simpl in *. destruct t; [discriminate|]. simpl. f_equal. exact IH.
Qed.

(* ------------------------------------------------------------------ *)
(* decimal rendering                                                    *)
(* ------------------------------------------------------------------ *)
Lemma digit_char_ok k : (k < 10)%N ->
  is_digit (digit_char k) = true /\ digit_val (digit_char k) = k.
Proof.
  intros H.
  assert (E : (k = 0 \/ k = 1 \/ k = 2 \/ k = 3 \/ k = 4 \/ k = 5 \/ k = 6 \/ k = 7 \/ k = 8 \/ k = 9)%N) by lia.
  repeat (destruct E as [->|E]; [split; reflexivity|]). subst k. split; reflexivity.
Qed.

Lemma parse_digits_app s : forall t a, parse_digits (s ++ t) a = parse_digits t (parse_digits s a).
Proof. induction s as [|c s IH]; intros t a; cbn; [reflexivity|apply IH]. Qed.

Lemma all_digits_app s t : all_digits (s ++ t) = all_digits s && all_digits t.
Proof. induction s as [|c s IH]; cbn; [reflexivity|]. now rewrite IH, andb_assoc. Qed.

Lemma dec_fuel_spec : forall f n acc, (n < 10 ^ N.of_nat f)%N -> f <> O ->
  exists s, dec_fuel f n acc = s ++ acc /\ all_digits s = true /\ s <> "" /\ parse_digits s 0%N = n.
Proof.
  induction f as [|f IH]; intros n acc Hn Hf; [congruence|].
  cbn [dec_fuel]. assert (Hm : (n mod 10 < 10)%N) by (apply N.mod_lt; lia).
  destruct (digit_char_ok _ Hm) as [Hd Hv].
  destruct (n <? 10)%N eqn:E.
  - apply N.ltb_lt in E. exists (String (digit_char (n mod 10)) ""). repeat split.
    + cbn. now rewrite Hd.
    + discriminate.
    + cbn. rewrite Hv. apply N.mod_small. exact E.
  - apply N.ltb_ge in E.
    assert (Hf' : f <> O).
    { intros ->. cbn in Hn. lia. }
    assert (Hq : (n / 10 < 10 ^ N.of_nat f)%N).
    { apply N.div_lt_upper_bound; [lia|]. rewrite Nat2N.inj_succ, N.pow_succ_r' in Hn. exact Hn. }
    destruct (IH (n / 10)%N (String (digit_char (n mod 10)) acc) Hq Hf') as (s & Es & Ha & Hne & Hp).
    exists (s ++ String (digit_char (n mod 10)) ""). repeat split.
    + rewrite Es. now rewrite sapp_assoc.
    + rewrite all_digits_app, Ha. cbn. now rewrite Hd.
    + destruct s; [congruence|discriminate].
    + rewrite parse_digits_app, Hp. cbn. rewrite Hv.
      rewrite N.mul_comm. symmetry. apply N.div_mod. lia.
Qed.

Lemma dec_spec n : all_digits (dec n) = true /\ dec n <> "" /\ parse_digits (dec n) 0%N = n.
Proof.
  unfold dec.
  assert (Hn : (n < 10 ^ N.of_nat (S (N.to_nat (N.log2 n))))%N).
  { rewrite Nat2N.inj_succ, N2Nat.id.
    destruct n as [|p]; [cbn; lia|].
    apply N.lt_le_trans with (2 ^ N.succ (N.log2 (N.pos p)))%N.
    - apply N.log2_spec. lia.
    - apply N.pow_le_mono_l. lia. }
  destruct (dec_fuel_spec _ n "" Hn) as (s & Es & Ha & Hne & Hp); [discriminate|].
  rewrite Es, sapp_nil_r. auto.
Qed.

Lemma int_of_string_dec n : int_of_string (dec n) = Some n.
Proof.
  destruct (dec_spec n) as (Ha & Hne & Hp). unfold int_of_string.
  destruct (dec n) eqn:E; [congruence|]. now rewrite Ha, Hp.
Qed.

Lemma dec_inj a b : dec a = dec b -> a = b.
Proof.
  intros H. pose proof (int_of_string_dec a) as Ea. rewrite H, int_of_string_dec in Ea. congruence.
Qed.

Lemma dec_length_pos n : 1 <= String.length (dec n).
Proof. destruct (dec_spec n) as (_ & Hne & _). destruct (dec n); [congruence|simpl; lia]. Qed.

(* Python's int() agrees with the digits-only reading on digit strings *)
Lemma py_digits_all s : forall prev acc, all_digits s = true ->
  py_digits s prev acc = if (match s with EmptyString => negb prev | _ => false end) then None
                         else Some (parse_digits s acc).
Proof.
  induction s as [|c r IH]; intros prev acc H; simpl.
  - destruct prev; reflexivity.
  - simpl in H. apply andb_prop in H. destruct H as [Hc Hr]. rewrite Hc, (IH true _ Hr).
    destruct r; reflexivity.
Qed.

Lemma int_py s n : int_of_string s = Some n -> py_int s = Some (Z.of_N n).
Proof.
  unfold int_of_string. destruct s as [|c r]; [discriminate|].
  destruct (all_digits (String c r)) eqn:E; [|discriminate]. intros H. inversion H; subst.
  assert (Hc : is_digit c = true) by (simpl in E; apply andb_prop in E; tauto).
  unfold py_int.
  assert (Hpy : py_digits (String c r) false 0 = Some (parse_digits (String c r) 0))
    by (rewrite (py_digits_all _ false 0%N E); reflexivity).
  destruct c as [[] [] [] [] [] [] [] []]; try discriminate Hc; rewrite Hpy; reflexivity.
Qed.

Lemma dec_Z_of_N n : dec_Z (Z.of_N n) = dec n.
Proof. destruct n; reflexivity. Qed.

(* leading zeros *)
Fixpoint zeros (k : nat) : string :=
  match k with O => "" | S k' => String "0" (zeros k') end.

Lemma zeros_digits k : all_digits (zeros k) = true.
Proof. induction k; simpl; auto. Qed.

Lemma parse_zeros k : parse_digits (zeros k) 0%N = 0%N.
Proof. induction k; simpl; auto. Qed.

Lemma int_of_string_zeros_dec k n : int_of_string (zeros k ++ dec n) = Some n.
Proof.
  destruct (dec_spec n) as (Ha & Hne & Hp). unfold int_of_string.
  destruct (zeros k ++ dec n) eqn:E.
  - destruct k; simpl in E; [congruence|discriminate].
  - rewrite <- E, all_digits_app, zeros_digits, Ha, parse_digits_app, parse_zeros, Hp. reflexivity.
Qed.

(* ranges of N, for finite sweeps *)
Definition Nrange (lo : N) (n : nat) : list N := map (fun k => (lo + N.of_nat k)%N) (seq 0 n).

Lemma Nrange_in lo n x : (lo <= x < lo + N.of_nat n)%N -> In x (Nrange lo n).
Proof.
  intros H. unfold Nrange. apply in_map_iff. exists (N.to_nat (x - lo)). split; [lia|].
  apply in_seq. lia.
Qed.

Lemma Nrange_forallb (f : N -> bool) lo n :
  forallb f (Nrange lo n) = true -> forall x, (lo <= x < lo + N.of_nat n)%N -> f x = true.
Proof. intros H x Hx. rewrite forallb_forall in H. apply H. now apply Nrange_in. Qed.

(* three-digit mass numbers *)
Lemma pad3_checked :
  forallb (fun a => Nat.eqb (String.length (pad3 a)) 3 && all_digits (pad3 a)
                    && match int_of_string (pad3 a) with Some b => (a =? b)%N | None => false end
                    && (negb (starts_with_char "0" (dec a)) || (a =? 0)%N)
                    && (String.eqb (dec a) "0" || negb (a =? 0)%N))
          (Nrange 0 1000) = true.
Proof. vm_compute. reflexivity. Qed.

Lemma pad3_facts a : (a <= 999)%N ->
  String.length (pad3 a) = 3 /\ all_digits (pad3 a) = true /\ int_of_string (pad3 a) = Some a /\
  (a <> 0%N -> starts_with_char "0" (dec a) = false) /\ (a = 0%N -> dec a = "0").
Proof.
  intros Ha. pose proof (Nrange_forallb _ _ _ pad3_checked a ltac:(lia)) as H. cbv beta in H.
  repeat (apply andb_prop in H; destruct H as [H ?]).
  repeat split.
  - now apply Nat.eqb_eq.
  - assumption.
  - destruct (int_of_string (pad3 a)) as [b|]; [|discriminate]. f_equal. symmetry. now apply N.eqb_eq.
  - intros Hne. apply orb_prop in H1. destruct H1 as [H1|H1].
    + now apply negb_true_iff.
    + apply N.eqb_eq in H1. congruence.
  - intros ->. reflexivity.
Qed.
