(* C10 linked with C09, second part: both properties model writeT4Composition
   (C09: write_compositions over its own cell dictionary, names and types of
   the blocks; C10: composition_lines).  On their common inputs the two models
   produce the same text, so they cannot drift apart. *)
From Coq Require Import List NArith ZArith Bool String Ascii Reals Lra Lia.
From T4V Require Import Base.Str Base.Scalar C10.Model C10.ProofsStr C10.Spec C10.ProofsHead
  C10.ProofsCard C10.ProofsDeck C10.ProofsPipe C10.LinkC09.
From T4V Require C09.Model.
Import ListNotations.
Open Scope string_scope.

Module M9 := T4V.C09.Model.

(* ---- the common inputs ---- *)
(* a cell of C09's dictionary as a cell of the C10 model: the material token
   read as an integer z (C09 keeps the raw token), the importance as a real *)
Definition cell10 (c : M9.cell) (z : Z) : cell (T:=R) :=
  mkCell (IZR (M9.c_imp c)) (M9.c_univ c)
         (match M9.c_fill c with Some _ => true | None => false end) z (M9.c_dens c).

Fixpoint to10 (cells : M9.dict M9.cell) : option (list (cell (T:=R))) :=
  match cells with
  | [] => Some []
  | (_, c) :: r => match M9.int_of_token (M9.c_mat c), to10 r with
                   | Some z, Some l => Some (cell10 c z :: l)
                   | _, _ => None
                   end
  end.

(* float(normalize_float(d)): C09 models acceptance (float_ok) and the sign
   (neg_density) only; any value of that sign will do *)
Definition fval9 (d : string) : option R :=
  match M9.normalize_float d with
  | M9.Ok nd => if M9.float_ok nd then Some (if M9.neg_density nd then (-1)%R else 1%R) else None
  | M9.Err _ => None
  end.

(* C09's view of a converted card *)
Definition mc9 (key : N) (entries : list (string * string)) (atom : option bool) : M9.mcard :=
  M9.mkMcard (Z.of_N key) (match atom with Some true => true | _ => false end) entries.

Definition mc_of (m : N * abundances) : M9.mcard :=
  match extract (fst (snd m)) with
  | Ok entries => mc9 (fst m) entries (snd (snd m))
  | Err _ => mc9 (fst m) [] (snd (snd m))
  end.

(* C09's table of the computed amounts holds what C10 renders *)
Definition pw_agrees (rend : string -> nat -> R -> string)
           (pw : list (string * list (string * string))) (b : block (T:=R)) : Prop :=
  match b_body b with
  | BNum _ => M9.find_isos (block_name b) pw = body_items rend b
  | BStr _ => True
  end.

(* ---- text ---- *)
Lemma text_of_app a b : text_of (a ++ b)%list = text_of a ++ text_of b.
Proof. induction a as [|x r IH]; simpl; [reflexivity|]. now rewrite IH, sapp_assoc. Qed.

Lemma text_items l : text_of (item_lines l) = "  " ++ M9.join_isos l ++ M9.nl.
Proof.
  destruct l as [|e r]; [reflexivity|]. unfold item_lines.
  revert e. induction r as [|e' r IH]; intros [n a].
  - simpl. unfold item_line. simpl. now rewrite !sapp_assoc.
  - change (text_of (map item_line ((n, a) :: e' :: r)))
      with (item_line (n, a) ++ String "010" (text_of (map item_line (e' :: r)))).
    rewrite IH. destruct e' as [n' a'].
    change (M9.join_isos ((n, a) :: (n', a') :: r))
      with (n ++ " " ++ a ++ M9.nl ++ "  " ++ M9.join_isos ((n', a') :: r)).
    unfold item_line. simpl. rewrite !sapp_assoc. simpl. rewrite !sapp_assoc. reflexivity.
Qed.

Lemma Rleb_IZR z : Rleb (IZR z) 0 = (z <=? 0)%Z.
Proof.
  destruct (z <=? 0)%Z eqn:E.
  - apply Rleb_true. apply Z.leb_le in E. apply (IZR_le z 0). exact E.
  - apply Rleb_false. apply Z.leb_gt in E. apply (IZR_lt 0 z). exact E.
Qed.

Lemma mem_string_mem d l : M9.mem_string d l = mem d l.
Proof. induction l as [|x r IH]; simpl; [reflexivity|]. unfold mem in *. simpl. now rewrite IH. Qed.

Lemma live_agree c z : live RS (cell10 c z) = M9.live c.
Proof.
  unfold live, M9.live, cell10. cbn [c_imp c_univ c_filled sleb s0 RS]. rewrite Rleb_IZR.
  destruct (M9.c_imp c <=? 0)%Z, (M9.c_univ c =? 0)%Z, (M9.c_fill c); reflexivity.
Qed.

Section Agree.
  Context (rend : string -> nat -> R -> string) (pw : list (string * list (string * string))).

  (* one block *)
  Lemma block_agree key entries atom d fd b :
    fval9 d = Some fd -> block_for RS c09_norm fval9 key entries atom d fd = Ok b ->
    pw_agrees rend pw b ->
    exists nd, M9.normalize_float d = M9.Ok nd /\ M9.float_ok nd = true /\ b_dens b = nd /\
      text_of (block_lines rend b) = M9.block_text (mc9 key entries atom) pw nd.
  Proof.
    intros Hf Hb Hpw. assert (Hf' := Hf). unfold fval9 in Hf'.
    destruct (M9.normalize_float d) as [nd|] eqn:En; [|discriminate].
    destruct (M9.float_ok nd) eqn:Eok; [|discriminate]. inversion Hf'; subst fd. clear Hf'.
    assert (Hn : c09_norm d = nd) by (unfold c09_norm; now rewrite En).
    exists nd. split; [reflexivity|]. split; [exact Eok|].
    unfold block_for in Hb. rewrite Hn in Hb. cbn [sltb s0 RS] in Hb.
    unfold M9.block_text. cbn [M9.k_key M9.k_atom M9.k_fracs mc9]. rewrite dec_Z_of_N.
    destruct (M9.neg_density nd) eqn:Eneg.
    - assert (Hlt : Rltb (-1) 0 = true) by (apply Rltb_true; lra). rewrite Hlt in Hb.
      inversion Hb; subst b. split; [reflexivity|].
      unfold block_lines, header_line, body_items. cbn [b_pw b_body b_dens b_atom b_mat block_name].
      cbn [text_of fold_right]. fold (text_of (item_lines entries)). rewrite text_items.
      change M9.str_fabs with str_fabs.
      destruct atom as [[]|]; simpl; rewrite !sapp_assoc; simpl; rewrite ?sapp_assoc; reflexivity.
    - assert (Hlt : Rltb 1 0 = false) by (apply Rltb_false; lra). rewrite Hlt in Hb.
      destruct atom as [[]|].
      + destruct (rescale_entries RS fval9 entries 1%R) as [cs|] eqn:Er; [|discriminate].
        inversion Hb; subst b. split; [reflexivity|].
        unfold pw_agrees in Hpw. cbn [b_body] in Hpw.
        unfold block_lines, header_line. cbn [b_pw].
        cbn [text_of fold_right]. fold (text_of (item_lines (body_items rend
          {| b_pw := true; b_mat := key; b_dens := nd; b_body := BNum cs; b_atom := Some true |}))).
        rewrite text_items, <- Hpw. unfold block_name. cbn [b_mat b_dens].
        simpl. rewrite !sapp_assoc. simpl. rewrite ?sapp_assoc. reflexivity.
      + inversion Hb; subst b. split; [reflexivity|]. simpl. rewrite !sapp_assoc. reflexivity.
      + inversion Hb; subst b. split; [reflexivity|]. simpl. rewrite !sapp_assoc. reflexivity.
  Qed.

  (* the loop over the cells for one material *)
  Lemma scan_agree key entries atom cells9 : forall cells seen bs,
    to10 cells9 = Some cells ->
    scan RS c09_norm fval9 key entries atom cells seen = Ok bs ->
    Forall (pw_agrees rend pw) bs ->
    M9.comp_dens (Z.of_N key) cells9 seen = M9.Ok (map (b_dens (T:=R)) bs) /\
    map (fun b => text_of (block_lines rend b)) bs =
      map (M9.block_text (mc9 key entries atom) pw) (map (b_dens (T:=R)) bs).
  Proof.
    induction cells9 as [|[k c] r IH]; intros cells seen bs Ht Hs Hpw.
    - inversion Ht; subst. simpl in Hs. inversion Hs. split; reflexivity.
    - cbn [to10] in Ht. destruct (M9.int_of_token (M9.c_mat c)) as [z|] eqn:Ez; [|discriminate].
      destruct (to10 r) as [l|] eqn:El; [|discriminate]. inversion Ht; subst cells. clear Ht.
      cbn [scan] in Hs. cbn [M9.comp_dens]. rewrite live_agree in Hs.
      destruct (M9.live c); cbn [negb] in *; [|exact (IH l seen bs eq_refl Hs Hpw)].
      rewrite Ez. cbn [c_mat cell10] in Hs.
      destruct (z =? Z.of_N key)%Z; cbn [negb] in *; [|exact (IH l seen bs eq_refl Hs Hpw)].
      change (c_dens (cell10 c z)) with (M9.c_dens c) in Hs. destruct (M9.c_dens c) as [d|]; [|discriminate].
      rewrite mem_string_mem. destruct (mem d seen); [exact (IH l seen bs eq_refl Hs Hpw)|].
      destruct (fval9 d) as [fd|] eqn:Ef; [|discriminate].
      destruct (block_for RS c09_norm fval9 key entries atom d fd) as [b|] eqn:Eb; [|discriminate].
      destruct (scan RS c09_norm fval9 key entries atom l (d :: seen)) as [bs'|] eqn:Es; [|discriminate].
      inversion Hs; subst bs. inversion Hpw as [|? ? Hb Hbs]; subst.
      destruct (block_agree key entries atom d fd b Ef Eb Hb) as (nd & En & Eok & Ed & Etext).
      rewrite En, Eok. destruct (IH l (d :: seen) bs' eq_refl Es Hbs) as [-> Hmap].
      cbn [map]. rewrite Ed, Etext, Hmap. split; reflexivity.
  Qed.

  (* all the cards *)
  Lemma construct_agree cells9 cells : to10 cells9 = Some cells ->
    forall mats d,
    construct RS c09_norm fval9 mats cells = Ok d ->
    Forall (pw_agrees rend pw) (all_blocks d) ->
    M9.all_blocks (map mc_of mats) cells9 pw =
      M9.Ok (map (fun b => text_of (block_lines rend b)) (all_blocks d)).
  Proof.
    intros Ht. induction mats as [|[key [isos atom]] r IH]; intros d Hc Hpw.
    - simpl in Hc. inversion Hc. reflexivity.
    - cbn [construct] in Hc. destruct (extract isos) as [entries|] eqn:Ee; [|discriminate].
      destruct (scan RS c09_norm fval9 key entries atom cells []) as [bs|] eqn:Es; [|discriminate].
      destruct (construct RS c09_norm fval9 r cells) as [rest|] eqn:Er; [|discriminate].
      assert (Hall : all_blocks d = (bs ++ all_blocks rest)%list).
      { destruct bs; inversion Hc; subst; reflexivity. }
      rewrite Hall in Hpw |- *. apply Forall_app in Hpw. destruct Hpw as [Hp1 Hp2].
      assert (Emc : mc_of (key, (isos, atom)) = mc9 key entries atom)
        by (unfold mc_of; cbn [fst snd]; now rewrite Ee).
      change (map mc_of ((key, (isos, atom)) :: r)) with (mc_of (key, (isos, atom)) :: map mc_of r).
      rewrite Emc. cbn [M9.all_blocks].
      destruct (scan_agree key entries atom cells9 cells [] bs Ht Es Hp1) as [Hd Hm].
      cbn [M9.k_key mc9]. rewrite Hd, (IH rest eq_refl Hp2). rewrite map_app, Hm. reflexivity.
  Qed.

  Lemma text_blocks bs :
    text_of (flat_map (block_lines rend) bs) = M9.concat_str (map (fun b => text_of (block_lines rend b)) bs).
  Proof. induction bs as [|b r IH]; [reflexivity|]. cbn [flat_map map M9.concat_str]. now rewrite text_of_app, IH. Qed.

  (* C10_write_compositions_agree_linked *)
  Theorem write_compositions_agree cells9 cells mats d :
    to10 cells9 = Some cells ->
    construct RS c09_norm fval9 mats cells = Ok d ->
    Forall (pw_agrees rend pw) (all_blocks d) ->
    M9.write_compositions (map mc_of mats) cells9 pw = M9.Ok (text_of (composition_lines_of rend d)).
  Proof.
    intros Ht Hc Hpw. unfold M9.write_compositions.
    rewrite (construct_agree cells9 cells Ht mats d Hc Hpw). rewrite map_length.
    unfold composition_lines_of. rewrite !text_of_app, text_blocks. f_equal.
    simpl. rewrite !sapp_assoc. simpl. reflexivity.
  Qed.
End Agree.
