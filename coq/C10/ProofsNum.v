(* C10 — rescale_fractions over the reals *)
From Coq Require Import List NArith ZArith Bool String Ascii Lia Reals Lra.
From T4V Require Import Base.Str Base.Scalar C10.Model.
Import ListNotations.
Open Scope R_scope.

Lemma ssum_map_div (l : list R) (c t : R) :
  ssum RS (map (fun f => f * c / t) l) = ssum RS l * c / t.
Proof.
  unfold ssum. cbn [sadd s0 RS].
  induction l as [|x r IH]; cbn [map fold_right].
  - unfold Rdiv. ring.
  - rewrite IH. unfold Rdiv. ring.
Qed.

Theorem rescale_sum (fracs : list R) (rho : R) :
  ssum RS fracs <> 0 -> ssum RS (rescale RS fracs rho) = rho.
Proof.
  intros Hne. unfold rescale. cbn [sdiv smul RS]. rewrite ssum_map_div. field. exact Hne.
Qed.

Lemma rescale_nth (fracs : list R) (rho : R) (i : nat) :
  nth i (rescale RS fracs rho) 0 = nth i fracs 0 * rho / ssum RS fracs.
Proof.
  unfold rescale. cbn [sdiv smul RS].
  set (g := fun f => f * rho / ssum RS fracs).
  assert (g 0 = 0) as G0 by (unfold g, Rdiv; ring).
  transitivity (nth i (map g fracs) (g 0)); [now rewrite G0 | apply map_nth].
Qed.

Theorem rescale_proportional (fracs : list R) (rho : R) (i j : nat) :
  ssum RS fracs <> 0 ->
  nth i (rescale RS fracs rho) 0 * nth j fracs 0 = nth j (rescale RS fracs rho) 0 * nth i fracs 0.
Proof. intros Hne. rewrite !rescale_nth. unfold Rdiv. ring. Qed.

Theorem rescale_length {T} (S : Scalar T) (fracs : list T) rho :
  List.length (rescale S fracs rho) = List.length fracs.
Proof. unfold rescale. apply map_length. Qed.

(* every entry is rescaled on its own: equal nuclide names do not interact *)
Theorem rescale_entry (fracs : list R) (rho : R) (i : nat) :
  (i < List.length fracs)%nat ->
  nth_error (rescale RS fracs rho) i = Some (nth i fracs 0 * rho / ssum RS fracs).
Proof.
  intros Hi. rewrite <- rescale_nth. apply nth_error_nth'. now rewrite rescale_length.
Qed.
