(* C10 — the written lines read back: the text determines the blocks *)
From Coq Require Import List NArith ZArith Bool String Ascii Lia.
From T4V Require Import Base.Str Base.Scalar C10.Model C10.ProofsStr C10.ProofsDeck.
Import ListNotations.
Open Scope string_scope.

(* group the lines of the body of a COMPOSITION section, from the end: a line
   that opens a block (is_header) takes the lines that follow it up to the
   next header; the first component holds the lines in front of the first
   header *)
Fixpoint group_lines (ls : list string) : list string * list (string * list string) :=
  match ls with
  | [] => ([], [])
  | l :: r => let (pend, gs) := group_lines r in
              if is_header l then ([], (l, pend) :: gs) else (l :: pend, gs)
  end.

Section Read.
  Context {T : Type} (rend : string -> nat -> T -> string).

  Lemma group_items (items : list string) rest :
    Forall (fun l => is_header l = false) items ->
    group_lines (items ++ rest)%list =
    ((items ++ fst (group_lines rest))%list, snd (group_lines rest)).
  Proof.
    induction 1 as [|l r Hl _ IH]; simpl.
    - destruct (group_lines rest); reflexivity.
    - rewrite IH, Hl. reflexivity.
  Qed.

  Lemma item_lines_plain (l : list (string * string)) :
    Forall (fun x => is_header x = false) (item_lines l).
  Proof.
    destruct l as [|e r]; [repeat constructor|]. unfold item_lines.
    apply Forall_forall. intros x Hx. apply in_map_iff in Hx. destruct Hx as (e' & <- & _).
    apply item_not_header.
  Qed.

  Lemma group_block (b : block (T:=T)) rest :
    group_lines (block_lines rend b ++ rest)%list =
    ([], (header_line rend b, (item_lines (body_items rend b) ++ fst (group_lines rest))%list)
         :: snd (group_lines rest)).
  Proof.
    unfold block_lines. cbn [app group_lines].
    rewrite (group_items _ rest (item_lines_plain _)), (header_is_header rend b). reflexivity.
  Qed.

  Definition read_block (b : block (T:=T)) : string * list string :=
    (header_line rend b, item_lines (body_items rend b)).

  Lemma group_blocks (bs : list (block (T:=T))) rest :
    fst (group_lines rest) = [] ->
    group_lines (flat_map (block_lines rend) bs ++ rest)%list =
    ([], (map read_block bs ++ snd (group_lines rest))%list).
  Proof.
    intros Hr. induction bs as [|b r IH]; cbn [flat_map map app].
    - destruct (group_lines rest) as [p g]. simpl in Hr. now subst.
    - rewrite <- app_assoc, group_block, IH. cbn [fst snd]. now rewrite app_nil_r.
  Qed.

  (* C10_text_read_back *)
  Theorem text_read_back (d : list (N * list (block (T:=T)))) :
    exists body,
      composition_lines_of rend d =
        (["" ; "COMPOSITION"; dec (N.of_nat (List.length (all_blocks d)) + 1)]
         ++ body ++ [""; "END_COMPOSITION"])%list /\
      group_lines body =
        ([], (map read_block (all_blocks d) ++ [("POINT_WISE 300 m0 1", ["  HE4 1E-30"])])%list).
  Proof.
    exists (flat_map (block_lines rend) (all_blocks d) ++ void_lines)%list. split.
    - unfold composition_lines_of. now rewrite <- !app_assoc.
    - now rewrite group_blocks.
  Qed.

  (* the same lines come from the same blocks: headers (type, name, density,
     NB_ATOM, count) and nuclide lines coincide, block by block *)
  Corollary lines_determine_blocks (d d' : list (N * list (block (T:=T)))) :
    composition_lines_of rend d = composition_lines_of rend d' ->
    map read_block (all_blocks d) = map read_block (all_blocks d').
  Proof.
    intros H. unfold composition_lines_of in H.
    apply (f_equal (fun l => group_lines (tl (tl (tl l))))) in H. cbn [tl app] in H.
    rewrite !group_blocks in H by reflexivity.
    injection H as H. apply app_inv_tail in H. exact H.
  Qed.
End Read.
