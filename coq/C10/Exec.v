(* C10 — executable comparison functions used by the generated correspondence
   files (model at binary64 vs values observed on the implementation). *)
From Coq Require Import List NArith ZArith Bool String Ascii PrimFloat.
From T4V Require Import Base.Str Base.Scalar Base.Cases C10.Model.
Import ListNotations.
Open Scope string_scope.

Definition err_eqb (a b : err) : bool :=
  match a, b with
  | EIndex, EIndex | EValue, EValue | EAttribute, EAttribute | EMixedSigns, EMixedSigns
  | EType, EType | EZeroDiv, EZeroDiv => true
  | _, _ => false
  end.

Definition res_eqb {A} (e : A -> A -> bool) (a b : res A) : bool :=
  match a, b with
  | Ok x, Ok y => e x y
  | Err e1, Err e2 => err_eqb e1 e2
  | _, _ => false
  end.

Definition strs_eqb := list_eqb String.eqb.

(* (a) datacard.split on the content of a data card *)
Definition quad_eqb (a b : string * string * string * string) : bool :=
  let '(a1, a2, a3, a4) := a in let '(b1, b2, b3, b4) := b in
  String.eqb a1 b1 && String.eqb a2 b2 && String.eqb a3 b3 && String.eqb a4 b4.
Definition check_split (c : string * option (string * string * string * string)) : bool :=
  option_eqb quad_eqb (data_split (fst c)) (snd c).

(* (b) get_material_composition on the contents of the data cards of a deck *)
Definition mats_eqb : list (N * list string) -> list (N * list string) -> bool :=
  list_eqb (pair_eqb N.eqb strs_eqb).
Definition check_materials (c : list string * res (list (N * list string))) : bool :=
  res_eqb mats_eqb (get_materials (fst c)) (snd c).

(* (c) tokens of an M card and what compositionConversionMCNPToT4 +
   extract_isotopes_fractions returned (or the exception class) *)
Definition card_out_eqb : card_out -> card_out -> bool :=
  res_eqb (fun a b => list_eqb (pair_eqb String.eqb String.eqb) (fst a) (fst b)
                      && option_eqb Bool.eqb (snd a) (snd b)).
Definition check_card (c : list string * card_out) : bool :=
  card_out_eqb (convert_card (fst c)) (snd c).

(* (d) the element enums: str(Z) -> name through both enums *)
Definition check_symbol (c : N * string) : bool :=
  match atomic_value (dec (fst c)) with
  | Some v => match element_name v with Some s => String.eqb s (snd c) | None => false end
  | None => false
  end.

(* (e) the whole COMPOSITION block, byte for byte.  The number renderings are
   the implementation's own: [norms] = normalize_float of every density,
   [fvals] = float(normalize_float(.)) of every density and amount (None =
   ValueError), [rends] = per block name the amounts written, with their
   values; a computed amount is rendered by the string written at the same
   place if its value agrees to 1e-14 relative. *)
Fixpoint lookup {V} (tbl : list (string * V)) (k : string) : option V :=
  match tbl with
  | [] => None
  | (k', v) :: r => if String.eqb k k' then Some v else lookup r k
  end.

Definition tol14 : float := 0x1.c25c268497682p-47.  (* 1e-14 *)

Record text_case := mkText {
  t_cards : list string;
  t_cells : list (cell (T:=float));
  t_norms : list (string * string);
  t_fvals : list (string * option float);
  t_rends : list (string * list (float * string));
  t_expected : res (list string)
}.

Definition norm_of (c : text_case) (s : string) : string :=
  match lookup (t_norms c) s with Some n => n | None => "<norm?>" end.
Definition fval_of (c : text_case) (s : string) : option float :=
  match lookup (t_fvals c) s with Some v => v | None => None end.
Definition rend_of (c : text_case) (name : string) (j : nat) (x : float) : string :=
  match lookup (t_rends c) name with
  | None => "<block?>"
  | Some l => match nth_error l j with
              | None => "<amount?>"
              | Some (v, s) => if f_close tol14 x v then s else "<value differs>"
              end
  end.

Definition model_text (c : text_case) : res (list string) :=
  composition_lines FS (norm_of c) (fval_of c) (rend_of c) (t_cards c) (t_cells c).

Definition check_text (c : text_case) : bool :=
  res_eqb strs_eqb (model_text c) (t_expected c).

(* (f) a run that fails in the composition path: the lines left at the end of
   the partial file *)
Definition check_partial (c : text_case * list string) : bool :=
  match composition_written FS (norm_of (fst c)) (fval_of (fst c)) (rend_of (fst c))
          (t_cards (fst c)) (t_cells (fst c)) with
  | (l, Some e) => strs_eqb l (snd c) && res_eqb strs_eqb (Err e) (t_expected (fst c))
  | (l, None) => res_eqb strs_eqb (Ok l) (t_expected (fst c))
  end.
