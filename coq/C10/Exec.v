(* C10 — executable comparison functions used by the generated correspondence
   files (model at binary64 vs values observed on the implementation). *)
From Coq Require Import List NArith ZArith Bool String Ascii PrimFloat.
From T4V Require Import Base.Str Base.Scalar Base.Cases C10.Model.
Import ListNotations.
Open Scope string_scope.

Definition err_eqb (a b : err) : bool :=
  match a, b with
  | EIndex, EIndex | EValue, EValue | EAttribute, EAttribute | EMixedSigns, EMixedSigns => true
  | _, _ => false
  end.

Definition card_out := res (list (string * string) * option bool).

Definition card_out_eqb (a b : card_out) : bool :=
  match a, b with
  | Ok (l1, f1), Ok (l2, f2) =>
      list_eqb (pair_eqb String.eqb String.eqb) l1 l2 && option_eqb Bool.eqb f1 f2
  | Err e1, Err e2 => err_eqb e1 e2
  | _, _ => false
  end.

(* case (a): tokens of an M card and what compositionConversionMCNPToT4 +
   extract_isotopes_fractions returned (or the exception class) *)
Definition check_card (c : list string * card_out) : bool :=
  card_out_eqb (convert_card (fst c)) (snd c).

(* case (b): tokens, float(normalize_float(fraction)) for each nuclide, the
   cell density as a float, and the block parsed back from the written file *)
Definition block_eqb (a b : block (T:=float)) : bool :=
  match a, b with
  | BDensity n1 l1, BDensity n2 l2 => Bool.eqb n1 n2 && list_eqb String.eqb l1 l2
  | BPointWise l1, BPointWise l2 =>
      list_eqb (pair_eqb String.eqb (f_close 0x1.c25c268497682p-47 (* 1e-14 *))) l1 l2
  | _, _ => false
  end.

Definition check_block (c : list string * list float * float * block (T:=float)) : bool :=
  let '(toks, fracs, density, expected) := c in
  match convert_card toks with
  | Ok (entries, Some atom) => block_eqb (block_of FS (map fst entries) atom fracs density) expected
  | _ => false
  end.

(* the symbol table against the implementation's enum *)
Definition check_symbol (c : N * string) : bool := String.eqb (symbol (fst c)) (snd c).
