(* C10 linked with C14: the contents of the data cards, which the C10 model
   starts from, are C14's model of get_cards + Card.content applied to the
   physical lines of the data block, for any layout of the cards' tokens. *)
From Coq Require Import List NArith ZArith Bool String Ascii.
From T4V Require Import Base.Str C10.Model C10.ProofsStr C10.Spec C10.ProofsHead.
From T4V Require C14.Model C14.ProofsContent C14.ProofsCards.
Import ListNotations.
Open Scope string_scope.

Module M14 := T4V.C14.Model.
Module P14 := T4V.C14.ProofsContent.
Module K14 := T4V.C14.ProofsCards.

Lemma join_blank_join name toks : M14.join " " (name :: toks) = name ++ blank_join toks.
Proof.
  revert name. induction toks as [|t r IH]; intros name.
  - simpl. now rewrite sapp_nil_r.
  - change (M14.join " " (name :: t :: r)) with (name ++ " " ++ M14.join " " (t :: r)).
    rewrite IH. reflexivity.
Qed.

(* a laid-out card carries an abstract data card *)
Definition carries (c : K14.lcard) (d : dcard) : Prop :=
  match d with
  | DMat m => K14.lc_toks c = card_name m :: render (m_items m) /\
              m_lead m = P14.starts_ws (P14.joined (K14.lc_lines c)) /\
              m_trail m = P14.ends_ws (P14.joined (K14.lc_lines c))
  | DOther t => K14.card_content_form c = t
  end.

Lemma carries_content c d : carries c d -> K14.card_content_form c = render_dcard d.
Proof.
  destruct d as [m|t]; simpl; [|auto]. intros (Ht & Hl & Hr).
  unfold K14.card_content_form, render_mcard. rewrite Ht, join_blank_join, <- Hl, <- Hr.
  cbn [P14.nonnil]. rewrite andb_true_r. unfold P14.pad. now rewrite !sapp_assoc.
Qed.

(* the contents the C10 model is run on *)
Definition deck_contents (cs : list K14.lcard) (tailc : list string) : list string :=
  map M14.content (M14.get_cards_lines (flat_map K14.pc_phys (map K14.lc_pcard cs) ++ tailc)%list).

Theorem contents_linked (cs : list K14.lcard) (tailc : list string) (cards : list dcard) :
  K14.lblock_ok K14.noline cs -> T4V.C14.ProofsCards.comment_lines tailc ->
  Forall2 carries cs cards -> deck_contents cs tailc = map render_dcard cards.
Proof.
  intros Hb Ht Hc. unfold deck_contents.
  rewrite (K14.cards_layout cs tailc Hb Ht).
  clear - Hc. induction Hc as [|c d cs' ds H _ IH]; [reflexivity|]. simpl.
  now rewrite (carries_content c d H), IH.
Qed.

(* C10_material_cards_recognised_linked *)
Theorem material_cards_recognised_linked (cs : list K14.lcard) (tailc : list string) (cards : list dcard) :
  K14.lblock_ok K14.noline cs -> T4V.C14.ProofsCards.comment_lines tailc ->
  Forall2 carries cs cards ->
  Forall wf_dcard cards -> NoDup (map m_num (mcards cards)) ->
  get_materials (deck_contents cs tailc) =
  Ok (map (fun m => (m_num m, render (m_items m))) (mcards cards)).
Proof.
  intros Hb Ht Hc Hwf Hnd. rewrite (contents_linked cs tailc cards Hb Ht Hc).
  now apply material_cards_recognised.
Qed.
