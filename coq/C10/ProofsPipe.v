(* C10 — the whole path on an abstract deck: data cards + cells -> lines *)
From Coq Require Import List NArith ZArith Bool String Ascii Lia.
From T4V Require Import Base.Str Base.Scalar C10.Model C10.ProofsStr C10.Spec C10.ProofsHead
  C10.ProofsCard C10.ProofsDeck.
Import ListNotations.
Open Scope string_scope.

Definition wf_cards (cards : list dcard) : Prop :=
  Forall wf_dcard cards /\ NoDup (map m_num (mcards cards)).

Definition wf_deck (cards : list dcard) : Prop :=
  wf_cards cards /\ Forall one_sign (mcards cards).

Lemma wf_items_of_cards cards : Forall wf_dcard cards ->
  Forall (fun m => Forall wf_item (m_items m)) (mcards cards).
Proof.
  induction cards as [|[m|t] r IH]; intros H; inversion H as [|? ? Hd Hr]; subst; cbn [mcards]; auto.
  constructor; [apply Hd|auto].
Qed.

Section Pipe.
  Context {T : Type} (S : Scalar T).
  Context (norm : string -> string) (fval : string -> option T)
          (rend : string -> nat -> T -> string).

  Theorem pipeline cards cells : wf_deck cards ->
    composition_lines S norm fval rend (map render_dcard cards) cells =
    bind (construct S norm fval (map card_abundances (mcards cards)) cells)
         (fun d => Ok (composition_lines_of rend d)).
  Proof.
    intros [[Hwf Hnd] Hs]. unfold composition_lines.
    rewrite (material_cards_recognised cards Hwf Hnd). cbn [bind].
    change (map (fun m : mcard => (m_num m, render (m_items m))) (mcards cards))
      with (map card_tokens (mcards cards)).
    rewrite (convert_all_cards _ (wf_items_of_cards cards Hwf) Hs). reflexivity.
  Qed.

  (* a card mixing signs, used or not, stops everything *)
  Theorem unused_card_still_checked cards cells : wf_cards cards ->
    (exists m n1 n2, In m (mcards cards) /\ In n1 (nuclides (m_items m)) /\
                     In n2 (nuclides (m_items m)) /\ nneg n1 <> nneg n2) ->
    composition_lines S norm fval rend (map render_dcard cards) cells = Err EMixedSigns.
  Proof.
    intros [Hwf Hnd] Hmix. unfold composition_lines.
    rewrite (material_cards_recognised cards Hwf Hnd). cbn [bind].
    change (map (fun m : mcard => (m_num m, render (m_items m))) (mcards cards))
      with (map card_tokens (mcards cards)).
    now rewrite (convert_all_mixed _ (wf_items_of_cards cards Hwf) Hmix).
  Qed.

  Definition card_blocks (cells : list (cell (T:=T))) (m : mcard) (bs : list (block (T:=T))) : Prop :=
    scan S norm fval (m_num m) (card_entries m) (card_flag m) cells [] = Ok bs.

  Theorem deck_blocks cards cells lines : wf_deck cards ->
    composition_lines S norm fval rend (map render_dcard cards) cells = Ok lines ->
    exists d bss, lines = composition_lines_of rend d /\ all_blocks d = List.concat bss /\
                  Forall2 (card_blocks cells) (mcards cards) bss.
  Proof.
    intros Hwf H. rewrite (pipeline cards cells Hwf) in H.
    destruct (construct S norm fval (map card_abundances (mcards cards)) cells) as [d|] eqn:Ec; [|discriminate].
    cbn [bind] in H. inversion H; subst. clear H.
    destruct (construct_spec S norm fval _ _ _ Ec) as (bss & F & Eb).
    exists d, bss. repeat split; auto.
    destruct Hwf as [[Hwf _] _]. pose proof (wf_items_of_cards cards Hwf) as Hit.
    clear - F Hit. remember (map card_abundances (mcards cards)) as ms eqn:Ems.
    revert Ems Hit. generalize (mcards cards). intros cs. revert cs.
    induction F as [|x bs ms bss' (entries & Ee & Es) F IH]; intros [|m cs] Ems Hit; try discriminate; constructor.
    - inversion Ems; subst x. inversion Hit as [|? ? Hm _]; subst.
      cbn [card_abundances fst snd] in Ee, Es.
      rewrite (extract_stored _ (wf_nuclides _ Hm)) in Ee. inversion Ee; subst. exact Es.
    - inversion Ems. inversion Hit; subst. now apply IH.
  Qed.

  (* one block per (material, density string) of the cells that use the
     material, named m<number>_<normalised density>, in card order then in
     order of first use *)
  Theorem one_block_per_material_density cards cells lines : wf_deck cards ->
    composition_lines S norm fval rend (map render_dcard cards) cells = Ok lines ->
    exists d, lines = composition_lines_of rend d /\
      map (block_name (T:=T)) (all_blocks d) =
      flat_map (fun m => map (name_for norm m) (dedup [] (used S (m_num m) cells))) (mcards cards).
  Proof.
    intros Hwf H. destruct (deck_blocks cards cells lines Hwf H) as (d & bss & El & Eb & F).
    exists d. split; [exact El|]. rewrite Eb. clear - F.
    induction F as [|m bs ms bss' Hm _ IH]; [reflexivity|].
    cbn [List.concat flat_map]. rewrite map_app, IH. f_equal.
    destruct (blocks_of_material S norm fval _ _ _ _ _ Hm) as (Hn & _). exact Hn.
  Qed.

  (* every block of the file belongs to a card and a density string used by a
     live cell, and is the block [block_for] describes *)
  Theorem block_origin cards cells lines : wf_deck cards ->
    composition_lines S norm fval rend (map render_dcard cards) cells = Ok lines ->
    exists d, lines = composition_lines_of rend d /\
      forall b, In b (all_blocks d) ->
        exists m dn fd, In m (mcards cards) /\ In dn (used S (m_num m) cells) /\ fval dn = Some fd /\
          block_for S norm fval (m_num m) (card_entries m) (card_flag m) dn fd = Ok b.
  Proof.
    intros Hwf H. destruct (deck_blocks cards cells lines Hwf H) as (d & bss & El & Eb & F).
    exists d. split; [exact El|]. rewrite Eb. clear - F. intros b Hb.
    induction F as [|m bs ms bss' Hm _ IH]; [inversion Hb|].
    cbn [List.concat] in Hb. apply in_app_or in Hb. destruct Hb as [Hb|Hb].
    - pose proof (scan_spec S norm fval _ _ _ _ _ _ Hm) as F2.
      assert (Hex : exists dn, In dn (dedup [] (used S (m_num m) cells)) /\
                               made S norm fval (m_num m) (card_entries m) (card_flag m) dn b).
      { clear - F2 Hb. induction F2 as [|dn b' ds bs' Hmade _ IH2]; [inversion Hb|].
        destruct Hb as [->|Hb]; [exists dn; split; [now left|exact Hmade]|].
        destruct (IH2 Hb) as (dn' & Hin & Hm'). exists dn'. split; [now right|exact Hm']. }
      destruct Hex as (dn & Hin & fd & Ef & Ebk). exists m, dn, fd. repeat split; auto.
      + now left.
      + apply dedup_In in Hin. tauto.
    - destruct (IH Hb) as (m' & dn & fd & Hin & Hrest). exists m', dn, fd. split; [now right|exact Hrest].
  Qed.
End Pipe.
