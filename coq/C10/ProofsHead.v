(* C10 — which data cards are material cards (datacard.split +
   get_material_composition) *)
From Coq Require Import List NArith ZArith Bool String Ascii Lia.
From T4V Require Import Base.Str C10.Model C10.ProofsStr C10.Spec.
Import ListNotations.
Open Scope string_scope.

(* the character that may not follow the digits of the number: another digit
   (it would belong to the number) or a star (it would make the type '*m') *)
Definition digit_or_star (c : ascii) : bool := is_digit c || is_star c.

Lemma class_facts :
  forallb (fun n => let c := ascii_of_N n in
     (* letters are neither blanks, stars nor digits; digits are not stars *)
     implb (is_alpha c) (negb (is_ws c) && negb (is_star c) && negb (is_digit c))
     && implb (is_digit c) (negb (is_star c) && negb (is_alpha c))
     && implb (is_star c) (negb (is_ws c)))
    (Nrange 0 256) = true.
Proof. vm_compute. reflexivity. Qed.

Lemma ascii_in_range c : (0 <= N_of_ascii c < 0 + N.of_nat 256)%N.
Proof. pose proof (N_ascii_bounded c). simpl. lia. Qed.

Lemma class_of c :
  (is_alpha c = true -> is_ws c = false /\ is_star c = false /\ is_digit c = false) /\
  (is_digit c = true -> is_star c = false /\ is_alpha c = false) /\
  (is_star c = true -> is_ws c = false).
Proof.
  pose proof (Nrange_forallb _ _ _ class_facts (N_of_ascii c) (ascii_in_range c)) as H.
  cbv beta zeta in H. rewrite ascii_N_embedding in H.
  destruct (is_alpha c), (is_digit c), (is_star c), (is_ws c); simpl in H;
    try discriminate; repeat split; intros; try reflexivity; try discriminate.
Qed.

Lemma lower_m c : lower (String c "") = "m" <-> (c = "m" \/ c = "M")%char.
Proof.
  split.
  - intros H.
    assert (E : forallb (fun n => implb (String.eqb (lower (String (ascii_of_N n) "")) "m")
                                        ((n =? 109)%N || (n =? 77)%N)) (Nrange 0 256) = true)
      by (vm_compute; reflexivity).
    pose proof (Nrange_forallb _ _ _ E (N_of_ascii c) (ascii_in_range c)) as H'.
    cbv beta in H'. rewrite ascii_N_embedding, H in H'. simpl in H'.
    apply orb_prop in H'. destruct H' as [H'|H']; apply N.eqb_eq in H'.
    + left. rewrite <- (ascii_N_embedding c), H'. reflexivity.
    + right. rewrite <- (ascii_N_embedding c), H'. reflexivity.
  - intros [->| ->]; reflexivity.
Qed.

Lemma lower_length s : String.length (lower s) = String.length s.
Proof. induction s as [|c r IH]; simpl; [reflexivity|now rewrite IH]. Qed.

Lemma lower_app a b : lower (a ++ b) = lower a ++ lower b.
Proof. induction a as [|c r IH]; simpl; [reflexivity|now rewrite IH]. Qed.

(* ------------------------------------------------------------------ *)
(* data_split on a decomposed content                                   *)
(* ------------------------------------------------------------------ *)
Lemma stops_app_nonempty p a b : a <> "" -> stops p (a ++ b) = stops p a.
Proof. destruct a; [congruence|reflexivity]. Qed.

Lemma data_split_parts ws stars letters nondig digits rest :
  all_chars is_ws ws = true -> all_chars is_star stars = true ->
  all_chars is_alpha letters = true -> letters <> "" ->
  all_chars not_digit nondig = true -> stops is_alpha nondig = true ->
  all_chars is_digit digits = true ->
  (nondig <> "" \/ digits <> "" \/ True) ->
  stops is_digit rest = true ->
  (digits = "" -> stops not_digit rest = true) ->
  data_split (ws ++ stars ++ letters ++ nondig ++ digits ++ rest) =
  Some (stars ++ letters ++ nondig, digits,
        match rest with String "*" _ => "*" | _ => "" end,
        match rest with String "*" r => r | _ => rest end).
Proof.
  intros Hws Hst Hle Hne Hnd Hnds Hdg _ Hrest Hrest'.
  unfold data_split.
  assert (Hl0 : exists c l', letters = String c l' /\ is_alpha c = true).
  { destruct letters as [|c l']; [congruence|]. simpl in Hle. apply andb_prop in Hle. destruct Hle as [Hle _]. eauto. }
  destruct Hl0 as (c0 & l' & El & Hc0). destruct (class_of c0) as (Ha & _ & _).
  destruct (Ha Hc0) as (Hc1 & Hc2 & Hc3).
  (* blanks *)
  rewrite (span_app is_ws ws (stars ++ letters ++ nondig ++ digits ++ rest) Hws).
  2:{ destruct stars as [|s0 st'].
      - simpl. rewrite El. simpl. now rewrite Hc1.
      - simpl in Hst. apply andb_prop in Hst. destruct Hst as [Hs0 _].
        destruct (class_of s0) as (_ & _ & Hs). simpl. now rewrite (Hs Hs0). }
  (* stars *)
  rewrite (span_app is_star stars (letters ++ nondig ++ digits ++ rest) Hst).
  2:{ rewrite El. simpl. now rewrite Hc2. }
  (* letters *)
  rewrite (span_app is_alpha letters (nondig ++ digits ++ rest) Hle).
  2:{ destruct nondig as [|n0 nd'].
      - simpl. destruct digits as [|d0 dg'].
        + simpl. specialize (Hrest' eq_refl). destruct rest as [|r0 rest']; [reflexivity|].
          simpl in *. unfold not_digit in Hrest'. apply negb_true_iff in Hrest'.
          apply negb_false_iff in Hrest'.
          destruct (class_of r0) as (_ & Hd & _). destruct (Hd Hrest') as [_ Hr]. now rewrite Hr.
        + simpl in Hdg. apply andb_prop in Hdg. destruct Hdg as [Hd0 _].
          destruct (class_of d0) as (_ & Hd & _). destruct (Hd Hd0) as [_ Hr]. simpl. now rewrite Hr.
      - simpl in *. exact Hnds. }
  clear El. destruct letters as [|lc lr]; [congruence|].
  (* non-digits *)
  rewrite (span_app not_digit nondig (digits ++ rest) Hnd).
  2:{ destruct digits as [|d0 dg'].
      - simpl. exact (Hrest' eq_refl).
      - simpl in Hdg. apply andb_prop in Hdg. destruct Hdg as [Hd0 _].
        simpl. unfold not_digit. now rewrite Hd0. }
  (* digits *)
  rewrite (span_app is_digit digits rest Hdg Hrest).
  destruct rest as [|r0 rest']; [reflexivity|].
  destruct r0 as [[] [] [] [] [] [] [] []]; reflexivity.
Qed.

(* ------------------------------------------------------------------ *)
(* C10_material_card_recognised                                         *)
(* ------------------------------------------------------------------ *)
Theorem material_card_recognised ws c ds p :
  all_chars is_ws ws = true -> (c = "m" \/ c = "M")%char ->
  ds <> "" -> all_digits ds = true -> stops digit_or_star p = true ->
  material_head (ws ++ String c (ds ++ p)) = Ok (Some (parse_digits ds 0%N, split_ws p)).
Proof.
  intros Hws Hc Hne Hds Hp. rewrite all_digits_all_chars in Hds.
  assert (Hal : is_alpha c = true) by (destruct Hc as [->| ->]; reflexivity).
  assert (Hpd : stops is_digit p = true /\ (forall r, p <> String "*" r)).
  { destruct p as [|p0 p']; [split; [reflexivity|discriminate]|].
    simpl in Hp. unfold digit_or_star in Hp. apply negb_true_iff in Hp.
    apply orb_false_iff in Hp. destruct Hp as [H1 H2]. split.
    - simpl. now rewrite H1.
    - intros r E. inversion E; subst. discriminate. }
  destruct Hpd as [Hpd Hps].
  pose proof (data_split_parts ws "" (String c "") "" ds p Hws eq_refl) as H.
  simpl in H. rewrite Hal in H. specialize (H eq_refl ltac:(discriminate) eq_refl eq_refl Hds
                                             (or_intror (or_intror I)) Hpd).
  assert (Hd0 : ds = "" -> stops not_digit p = true) by congruence.
  specialize (H Hd0).
  unfold material_head. rewrite H.
  assert (Es : match p with String "*" _ => "*" | _ => "" end = "").
  { destruct p as [|p0 p']; [reflexivity|].
    destruct p0 as [[] [] [] [] [] [] [] []]; try reflexivity. exfalso. eapply Hps. reflexivity. }
  assert (Er : match p with String "*" r => r | _ => p end = p).
  { destruct p as [|p0 p']; [reflexivity|].
    destruct p0 as [[] [] [] [] [] [] [] []]; try reflexivity. exfalso. eapply Hps. reflexivity. }
  rewrite Es, Er. cbn [append].
  assert (El : lower (String c "") = "m") by (apply lower_m; exact Hc).
  rewrite El. rewrite String.eqb_refl.
  unfold int_of_string. destruct ds as [|d0 ds']; [congruence|].
  rewrite all_digits_all_chars, Hds. reflexivity.
Qed.

(* ------------------------------------------------------------------ *)
(* C10_material_card_shape: nothing else is recognised                  *)
(* ------------------------------------------------------------------ *)
Lemma string_length_one s : String.length s = 1 -> exists c, s = String c "".
Proof. destruct s as [|c [|d r]]; simpl; intros H; try discriminate. eauto. Qed.

Theorem material_card_shape txt n toks :
  material_head txt = Ok (Some (n, toks)) ->
  exists ws c ds p,
    txt = ws ++ String c (ds ++ p) /\ all_chars is_ws ws = true /\ (c = "m" \/ c = "M")%char /\
    ds <> "" /\ all_digits ds = true /\ stops digit_or_star p = true /\
    n = parse_digits ds 0%N /\ toks = split_ws p.
Proof.
  unfold material_head, data_split.
  destruct (span is_ws txt) as [ws s1] eqn:E1.
  destruct (span is_star s1) as [stars s2] eqn:E2.
  destruct (span is_alpha s2) as [letters s3] eqn:E3.
  destruct letters as [|l0 lr] eqn:El; [discriminate|]. rewrite <- El in *.
  destruct (span not_digit s3) as [nondig s4] eqn:E4.
  destruct (span is_digit s4) as [digits s5] eqn:E5.
  destruct (span_spec _ _ _ _ E1) as (T1 & A1 & _).
  destruct (span_spec _ _ _ _ E2) as (T2 & A2 & _).
  destruct (span_spec _ _ _ _ E3) as (T3 & A3 & _).
  destruct (span_spec _ _ _ _ E4) as (T4 & A4 & S4).
  destruct (span_spec _ _ _ _ E5) as (T5 & A5 & S5).
  set (star := match s5 with String "*" _ => "*" | _ => "" end).
  set (s6 := match s5 with String "*" r => r | _ => s5 end).
  assert (Epair : (let (star0, s60) := match s5 with
                                       | String "*" r => ("*", r)
                                       | _ => ("", s5) end in
                   Some (stars ++ letters ++ nondig, digits, star0, s60))
                  = Some (stars ++ letters ++ nondig, digits, star, s6)).
  { unfold star, s6. destruct s5 as [|c5 r5]; [reflexivity|].
    destruct c5 as [[] [] [] [] [] [] [] []]; reflexivity. }
  rewrite Epair. clear Epair.
  destruct (String.eqb (lower (star ++ stars ++ letters ++ nondig)) "m") eqn:Em; [|discriminate].
  apply String.eqb_eq in Em.
  destruct (int_of_string digits) as [k|] eqn:Ei; [|discriminate].
  intros H. inversion H as [[Hk Htoks]]. subst n toks. clear H.
  (* the type has one character: no star, no stars, one letter, no non-digit *)
  assert (Hlen : String.length (star ++ stars ++ letters ++ nondig) = 1).
  { rewrite <- lower_length, Em. reflexivity. }
  rewrite !slength_app in Hlen.
  assert (Hl1 : 1 <= String.length letters) by (rewrite El; simpl; lia).
  assert (Estar : star = "") by (destruct star; [reflexivity|simpl in Hlen; lia]).
  assert (Estars : stars = "") by (destruct stars; [reflexivity|simpl in Hlen; lia]).
  assert (End : nondig = "") by (destruct nondig; [reflexivity|simpl in Hlen; lia]).
  assert (Hl : String.length letters = 1) by lia.
  destruct (string_length_one _ Hl) as [c Ec].
  rewrite Estar, Estars, End, Ec in Em. simpl in Em.
  assert (Hc : (c = "m" \/ c = "M")%char) by (apply lower_m; exact Em).
  (* the digits *)
  assert (Hdig : digits <> "" /\ all_digits digits = true /\ k = parse_digits digits 0%N).
  { unfold int_of_string in Ei. destruct digits as [|d0 dr]; [discriminate|].
    destruct (all_digits (String d0 dr)) eqn:Ead; [|discriminate].
    inversion Ei. repeat split; congruence. }
  destruct Hdig as (Hdne & Hdad & Hk).
  exists ws, c, digits, s5. repeat split; auto.
  - rewrite T1, T2, T3, T4, T5, Estars, End, Ec. reflexivity.
  - (* what follows is neither a digit nor a star *)
    destruct s5 as [|c5 r5]; [reflexivity|]. simpl in S5. apply negb_true_iff in S5.
    simpl. unfold digit_or_star. rewrite S5. simpl.
    unfold star in Estar. destruct c5 as [[] [] [] [] [] [] [] []]; try reflexivity. discriminate.
  - unfold s6. destruct s5 as [|c5 r5]; [reflexivity|].
    unfold star in Estar. destruct c5 as [[] [] [] [] [] [] [] []]; try reflexivity. discriminate.
Qed.

(* ------------------------------------------------------------------ *)
(* C10_other_cards_ignored                                              *)
(* ------------------------------------------------------------------ *)
Theorem other_cards_ignored ws stars letters rest :
  all_chars is_ws ws = true -> all_chars is_star stars = true ->
  letters <> "" -> all_chars is_alpha letters = true -> stops is_alpha rest = true ->
  (stars <> "" \/ lower letters <> "m" \/ (rest <> "" /\ stops is_digit rest = true)) ->
  material_head (ws ++ stars ++ letters ++ rest) = Ok None.
Proof.
  intros Hws Hst Hne Hle Hrest Hwhy.
  destruct (material_head (ws ++ stars ++ letters ++ rest)) as [[[n toks]|]|e] eqn:E.
  - (* recognised: impossible *)
    exfalso. destruct (material_card_shape _ _ _ E) as (ws' & c & ds & p & T & Hws' & Hc & Hdne & Hds & Hp & _).
    (* compare the two decompositions through span *)
    assert (Hal : is_alpha c = true) by (destruct Hc as [->| ->]; reflexivity).
    destruct (class_of c) as (Ha & _ & _). destruct (Ha Hal) as (Hc1 & Hc2 & Hc3).
    assert (Hl0 : exists l0 l', letters = String l0 l' /\ is_alpha l0 = true).
    { destruct letters as [|l0 l']; [congruence|]. simpl in Hle. apply andb_prop in Hle. destruct Hle as [Hle _]. eauto. }
    destruct Hl0 as (l0 & l' & El & Hl0). destruct (class_of l0) as (Ha0 & _ & _).
    destruct (Ha0 Hl0) as (Hl1 & Hl2 & Hl3).
    assert (S1 : span is_ws (ws ++ stars ++ letters ++ rest) = (ws, stars ++ letters ++ rest)).
    { apply span_app; [exact Hws|]. destruct stars as [|s0 st'].
      - simpl. rewrite El. simpl. now rewrite Hl1.
      - simpl in Hst. apply andb_prop in Hst. destruct Hst as [Hs0 _].
        destruct (class_of s0) as (_ & _ & Hs). simpl. now rewrite (Hs Hs0). }
    assert (S1' : span is_ws (ws' ++ String c (ds ++ p)) = (ws', String c (ds ++ p))).
    { apply span_app; [exact Hws'|]. simpl. now rewrite Hc1. }
    rewrite T, S1' in S1. inversion S1 as [[Ews Erest]]. clear S1 S1'.
    destruct stars as [|s0 st'].
    + simpl in Erest. rewrite El in Erest. simpl in Erest. inversion Erest as [[Ec Etail]]. subst l0.
      (* after c come digits: the letters stop there *)
      assert (Hds0 : exists d0 dr, ds = String d0 dr /\ is_digit d0 = true).
      { destruct ds as [|d0 dr]; [congruence|]. simpl in Hds. apply andb_prop in Hds. destruct Hds as [Hds _]. eauto. }
      destruct Hds0 as (d0 & dr & Ed & Hd0). destruct (class_of d0) as (_ & Hdd & _).
      destruct (Hdd Hd0) as [_ Hd0a].
      destruct l' as [|l1 l''].
      * simpl in Etail. destruct Hwhy as [Hw|[Hw|[Hw1 Hw2]]].
        -- congruence.
        -- apply Hw. rewrite El. apply lower_m. exact Hc.
        -- rewrite <- Etail, Ed in Hw2. simpl in Hw2. now rewrite Hd0 in Hw2.
      * rewrite El in Hle. simpl in Hle. rewrite Ed in Etail. simpl in Etail.
        inversion Etail; subst l1. rewrite Hd0a in Hle. simpl in Hle.
        rewrite andb_false_r in Hle. discriminate.
    + simpl in Erest. inversion Erest; subst s0. simpl in Hst. rewrite Hc2 in Hst. discriminate.
  - reflexivity.
  - (* an error: the type would have to be exactly m without a number *)
    exfalso. unfold material_head in E.
    pose proof (span_spec not_digit rest) as Hsp.
    destruct (span not_digit rest) as [nondig r4] eqn:E4. destruct (Hsp _ _ eq_refl) as (T4 & A4 & S4).
    destruct (span is_digit r4) as [digits r5] eqn:E5.
    destruct (span_spec _ _ _ _ E5) as (T5 & A5 & S5).
    assert (Hnds : stops is_alpha nondig = true).
    { rewrite T4 in Hrest. destruct nondig; [reflexivity|exact Hrest]. }
    assert (Hr5 : digits = "" -> stops not_digit r5 = true).
    { intros ->. simpl in T5. subst r5. destruct r4 as [|c4 r4']; [reflexivity|].
      simpl in S4. unfold not_digit in S4. rewrite negb_involutive in S4.
      simpl in E5. rewrite S4 in E5. destruct (span is_digit r4'); discriminate. }
    pose proof (data_split_parts ws stars letters nondig digits r5 Hws Hst Hle Hne A4 Hnds A5
                  (or_intror (or_intror I)) S5 Hr5) as H.
    rewrite <- T5, <- T4 in H. rewrite H in E.
    destruct (String.eqb (lower (match r5 with String "*" _ => "*" | _ => "" end
                                 ++ stars ++ letters ++ nondig)) "m") eqn:Em; [|discriminate].
    apply String.eqb_eq in Em.
    assert (Hlen : String.length (match r5 with String "*" _ => "*" | _ => "" end
                                  ++ stars ++ letters ++ nondig) = 1).
    { rewrite <- lower_length, Em. reflexivity. }
    rewrite !slength_app in Hlen.
    assert (Hl1 : 1 <= String.length letters) by (destruct letters; [congruence|simpl; lia]).
    assert (Estars : stars = "") by (destruct stars; [reflexivity|simpl in Hlen; lia]).
    assert (End : nondig = "") by (destruct nondig; [reflexivity|simpl in Hlen; lia]).
    assert (Estar : match r5 with String "*" _ => "*" | _ => "" end = "").
    { destruct (match r5 with String "*" _ => "*" | _ => "" end); [reflexivity|simpl in Hlen; lia]. }
    rewrite Estar, Estars, End, sapp_nil_r in Em. simpl in Em.
    destruct Hwhy as [Hw|[Hw|[Hw1 Hw2]]]; [congruence|congruence|].
    (* rest starts with a non-digit, so nondig is not empty *)
    rewrite T4, End in Hw1, Hw2. simpl in Hw1, Hw2.
    destruct r4 as [|c4 r4']; [congruence|]. simpl in S4, Hw2.
    unfold not_digit in S4. rewrite negb_involutive in S4. rewrite S4 in Hw2. discriminate.
Qed.

(* ------------------------------------------------------------------ *)
(* whole data block                                                     *)
(* ------------------------------------------------------------------ *)
Lemma dict_set_new {V} k (v : V) d : ~ In k (map fst d) -> dict_set k v d = (d ++ [(k, v)])%list.
Proof.
  induction d as [|[k' v'] r IH]; simpl; intros H; [reflexivity|].
  destruct (k =? k')%N eqn:E.
  - apply N.eqb_eq in E. exfalso. apply H. left. congruence.
  - rewrite IH; [reflexivity|]. intros Hin. apply H. now right.
Qed.

Definition word_card (m : mcard) : bool := forallb word_item (m_items m).

Lemma render_words items : forallb word_item items = true ->
  (forall n, In (INuc n) items -> no_ws (zaid n) = true) ->
  forallb is_word (render items) = true.
Proof.
  induction items as [|it r IH]; simpl; intros H Hz; [reflexivity|].
  apply andb_prop in H. destruct H as [Hit Hr].
  assert (IH' : forallb is_word (render r) = true).
  { apply IH; [exact Hr|]. intros n Hn. apply Hz. now right. }
  destruct it as [n|k]; simpl.
  - simpl in Hit. apply andb_prop in Hit. destruct Hit as [Hs Hf].
    rewrite IH'. rewrite andb_true_r.
    assert (Hzn : no_ws (zaid n) = true) by (apply Hz; now left).
    apply andb_true_intro. split.
    + unfold nuc_token. unfold is_word.
      assert (Hnw : no_ws (zaid n ++ match nsuf n with Some s => String "." s | None => "" end) = true).
      { unfold no_ws. rewrite all_chars_app. fold (no_ws (zaid n)). rewrite Hzn. simpl.
        destruct (nsuf n) as [s|]; [|reflexivity]. simpl. exact Hs. }
      destruct (zaid n ++ match nsuf n with Some s => String "." s | None => "" end) eqn:E; [|exact Hnw].
      unfold zaid, zaid_of in E. destruct (dec_spec (nz n)) as (_ & Hne & _).
      destruct (zeros (nlead n)); simpl in E; [|discriminate].
      destruct (dec (nz n)); [congruence|discriminate].
    + unfold frac_token. destruct (nneg n); [|exact Hf].
      unfold is_word in *. destruct (nfrac n); [discriminate|]. exact Hf.
  - simpl in Hit. now rewrite Hit, IH'.
Qed.

Lemma digits_no_ws s : all_digits s = true -> no_ws s = true.
Proof.
  rewrite all_digits_all_chars. unfold no_ws. apply all_chars_impl.
  intros c Hc.
  assert (E : forallb (fun n => implb (is_digit (ascii_of_N n)) (negb (is_ws (ascii_of_N n))))
                      (Nrange 0 256) = true) by (vm_compute; reflexivity).
  pose proof (Nrange_forallb _ _ _ E (N_of_ascii c) (ascii_in_range c)) as H.
  cbv beta in H. rewrite ascii_N_embedding, Hc in H. exact H.
Qed.

Lemma zaid_digits lead z a : (a <= 999)%N -> all_digits (zaid_of lead z a) = true.
Proof.
  intros Ha. unfold zaid_of. rewrite !all_digits_app, zeros_digits.
  destruct (dec_spec z) as (Hz & _). destruct (pad3_facts a Ha) as (_ & Hp & _).
  now rewrite Hz, Hp.
Qed.

Definition wf_mcard (m : mcard) : Prop :=
  Forall wf_item (m_items m) /\ word_card m = true.

Lemma material_head_mcard m : wf_mcard m ->
  material_head (render_mcard m) = Ok (Some (m_num m, render (m_items m))).
Proof.
  intros [Hwf Hw]. unfold render_mcard, card_name.
  set (toks := render (m_items m)).
  assert (Hwords : forallb is_word toks = true).
  { apply render_words; [exact Hw|]. intros n Hn. apply digits_no_ws. apply zaid_digits.
    rewrite Forall_forall in Hwf. specialize (Hwf _ Hn). simpl in Hwf. apply Hwf. }
  assert (E : (if m_lead m then " " else "") ++ String (if m_upper m then "M" else "m")%char
                 (zeros (m_zeros m) ++ dec (m_num m)) ++ blank_join toks ++ (if m_trail m then " " else "")
               = (if m_lead m then " " else "") ++ String (if m_upper m then "M" else "m")%char
                 ((zeros (m_zeros m) ++ dec (m_num m)) ++ blank_join toks ++ (if m_trail m then " " else ""))).
  { reflexivity. }
  rewrite E. rewrite material_card_recognised.
  - rewrite split_ws_blank_join by exact Hwords.
    rewrite parse_digits_app, parse_zeros. destruct (dec_spec (m_num m)) as (_ & _ & ->). reflexivity.
  - destruct (m_lead m); reflexivity.
  - destruct (m_upper m); auto.
  - destruct (dec_spec (m_num m)) as (_ & Hne & _). destruct (zeros (m_zeros m)); simpl; [exact Hne|discriminate].
  - rewrite all_digits_app, zeros_digits. now destruct (dec_spec (m_num m)) as (-> & _).
  - destruct toks as [|t r]; simpl; [destruct (m_trail m); reflexivity|reflexivity].
Qed.

Definition wf_dcard (d : dcard) : Prop :=
  match d with
  | DMat m => wf_mcard m
  | DOther t => material_head t = Ok None
  end.

Lemma get_materials_from_spec cards : Forall wf_dcard cards ->
  forall acc, NoDup (map fst acc ++ map m_num (mcards cards))%list ->
  get_materials_from (map render_dcard cards) acc =
  Ok (acc ++ map (fun m => (m_num m, render (m_items m))) (mcards cards))%list.
Proof.
  induction cards as [|d r IH]; intros Hwf acc Hnd; simpl.
  - now rewrite app_nil_r.
  - inversion Hwf as [|? ? Hd Hr]; subst. destruct d as [m|t]; simpl in *.
    + rewrite (material_head_mcard m Hd).
      assert (Hnew : ~ In (m_num m) (map fst acc)).
      { intros Hin. apply NoDup_remove_2 in Hnd. apply Hnd. apply in_or_app. now left. }
      rewrite (dict_set_new _ _ _ Hnew). rewrite (IH Hr).
      * rewrite <- app_assoc. reflexivity.
      * rewrite map_app. simpl. rewrite <- app_assoc. simpl.
        (* move the new key from the middle to the end of acc's keys *)
        apply NoDup_remove_1 in Hnd as Hnd1. apply NoDup_remove_2 in Hnd as Hnd2.
        clear - Hnd1 Hnd2.
        induction (map fst acc) as [|k ks IHk]; simpl in *.
        -- constructor; assumption.
        -- inversion Hnd1 as [|? ? Hk Hks]; subst. constructor.
           ++ intros Hin. apply in_app_or in Hin. destruct Hin as [Hin|[Hin|Hin]].
              ** apply Hk. apply in_or_app. now left.
              ** apply Hnd2. left. congruence.
              ** apply Hk. apply in_or_app. now right.
           ++ apply IHk; [exact Hks|]. intros Hin. apply Hnd2. now right.
    + rewrite Hd. apply IH; assumption.
Qed.

Theorem material_cards_recognised cards :
  Forall wf_dcard cards -> NoDup (map m_num (mcards cards)) ->
  get_materials (map render_dcard cards) =
  Ok (map (fun m => (m_num m, render (m_items m))) (mcards cards)).
Proof.
  intros Hwf Hnd. unfold get_materials. now rewrite (get_materials_from_spec cards Hwf []).
Qed.

(* ------------------------------------------------------------------ *)
(* repeated material numbers (MCNP refuses them; the code does not):    *)
(* the first card of a number fixes its place, the last one its entries *)
(* ------------------------------------------------------------------ *)
Definition memN (k : N) (l : list N) : bool := existsb (N.eqb k) l.

Fixpoint dedupN (seen l : list N) : list N :=
  match l with
  | [] => []
  | x :: r => if memN x seen then dedupN seen r else x :: dedupN (x :: seen) r
  end.

Fixpoint lookupN {V} (k : N) (d : list (N * V)) : option V :=
  match d with
  | [] => None
  | (k', v) :: r => if (k =? k')%N then Some v else lookupN k r
  end.

(* the entries of the LAST card carrying number k *)
Fixpoint last_card (k : N) (ms : list mcard) : option (list string) :=
  match ms with
  | [] => None
  | m :: r => match last_card k r with
              | Some t => Some t
              | None => if (k =? m_num m)%N then Some (render (m_items m)) else None
              end
  end.

Lemma dict_set_keys {V} k (v : V) d :
  map fst (dict_set k v d) = if memN k (map fst d) then map fst d else (map fst d ++ [k])%list.
Proof.
  induction d as [|[k' v'] r IH]; simpl; [reflexivity|].
  destruct (k =? k')%N eqn:E; simpl.
  - apply N.eqb_eq in E. now subst.
  - rewrite IH. unfold memN. destruct (existsb (N.eqb k) (map fst r)); reflexivity.
Qed.

Lemma dict_set_lookup {V} k (v : V) d k' :
  lookupN k' (dict_set k v d) = if (k' =? k)%N then Some v else lookupN k' d.
Proof.
  induction d as [|[k0 v0] r IH]; simpl.
  - reflexivity.
  - destruct (k =? k0)%N eqn:E; simpl.
    + apply N.eqb_eq in E. subst k0. destruct (k' =? k)%N; reflexivity.
    + rewrite IH. destruct (k' =? k0)%N eqn:E0; [|reflexivity].
      apply N.eqb_eq in E0. subst k0. destruct (k' =? k)%N eqn:E1; [|reflexivity].
      apply N.eqb_eq in E1. subst. rewrite N.eqb_refl in E. discriminate.
Qed.

Lemma memN_In k l : memN k l = true <-> In k l.
Proof.
  unfold memN. rewrite existsb_exists. split.
  - intros (y & Hy & E). apply N.eqb_eq in E. now subst.
  - intros H. exists k. split; [exact H|apply N.eqb_refl].
Qed.

Lemma memN_app k a b : memN k (a ++ b)%list = memN k a || memN k b.
Proof. unfold memN. apply existsb_app. Qed.

(* dedupN only looks at seen as a set *)
Lemma dedupN_ext l : forall s1 s2, (forall k, memN k s1 = memN k s2) -> dedupN s1 l = dedupN s2 l.
Proof.
  induction l as [|x r IH]; intros s1 s2 H; simpl; [reflexivity|]. rewrite (H x).
  destruct (memN x s2); [now apply IH|]. f_equal. apply IH. intros k. unfold memN in *. simpl. now rewrite H.
Qed.

Lemma get_materials_from_dups cards : Forall wf_dcard cards ->
  forall acc, exists d,
    get_materials_from (map render_dcard cards) acc = Ok d /\
    map fst d = (map fst acc ++ dedupN (map fst acc) (map m_num (mcards cards)))%list /\
    (forall k, lookupN k d = match last_card k (mcards cards) with
                             | Some t => Some t
                             | None => lookupN k acc
                             end).
Proof.
  induction cards as [|c r IH]; intros Hwf acc; simpl.
  - exists acc. rewrite app_nil_r. auto.
  - inversion Hwf as [|? ? Hd Hr]; subst. destruct c as [m|t]; simpl in *.
    + rewrite (material_head_mcard m Hd).
      destruct (IH Hr (dict_set (m_num m) (render (m_items m)) acc)) as (d & E & Hk & Hl).
      exists d. split; [exact E|]. split.
      * rewrite Hk, dict_set_keys. destruct (memN (m_num m) (map fst acc)) eqn:Em; [reflexivity|].
        rewrite <- app_assoc. simpl. f_equal. f_equal. apply dedupN_ext.
        intros k. rewrite memN_app. unfold memN at 2 3. simpl. rewrite orb_false_r. apply orb_comm.
      * intros k. rewrite Hl, dict_set_lookup. destruct (last_card k (mcards r)); [reflexivity|].
        destruct (k =? m_num m)%N; reflexivity.
    + rewrite Hd. exact (IH Hr acc).
Qed.

Theorem material_cards_duplicates cards : Forall wf_dcard cards ->
  exists d, get_materials (map render_dcard cards) = Ok d /\
    map fst d = dedupN [] (map m_num (mcards cards)) /\
    (forall k, lookupN k d = last_card k (mcards cards)).
Proof.
  intros Hwf. destruct (get_materials_from_dups cards Hwf []) as (d & E & Hk & Hl).
  exists d. split; [exact E|]. split; [exact Hk|]. intros k. rewrite Hl.
  destruct (last_card k (mcards cards)); reflexivity.
Qed.
