(* C10 linked with C09, third part: the amounts of an atom-density block in
   terms of the RATIONAL values of the spellings (C09.Spec.number_value), for
   cards and cells on which float() returns the value of the spelling. *)
From Coq Require Import List NArith ZArith Bool String Ascii Reals Lra Lia.
From T4V Require Import Base.Str Base.Scalar C10.Model C10.ProofsStr C10.Spec C10.ProofsHead
  C10.ProofsCard C10.ProofsNum C10.ProofsDeck.
From T4V Require C09.Model C09.Spec.
From Coq Require QArith.QArith.
Import ListNotations.
Open Scope string_scope.

Module S9 := T4V.C09.Spec.

(* the real number a spelling denotes *)
Definition value_R (num : S9.number) : R := Q2R (S9.number_value num).

(* the fraction of nuclide n is a spelling of num (no sign: the sign of a
   fraction only tells atom from mass fractions), and [fval] — the code's
   float(normalize_float(.)) — returns its value *)
Definition exact_fraction (fval : string -> option R) (n : nuclide) (num : S9.number) : Prop :=
  S9.wf_number num = true /\ S9.n_sign num = "" /\
  (exists pad mk, S9.marker_ok num mk = true /\ nfrac n = S9.spell num pad mk) /\
  fval (nfrac n) = Some (value_R num).

Lemma exact_fractions fval ns nums : Forall2 (exact_fraction fval) ns nums ->
  fractions_of fval ns (map value_R nums).
Proof.
  induction 1 as [|n num ns nums (_ & _ & _ & H) _ IH]; constructor; [exact H|exact IH].
Qed.

(* C10_atom_density_block_linked *)
Theorem atom_density_block_values norm fval rend (m : mcard) (d : string)
        (numd : S9.number) (nums : list S9.number) :
  (0 <= value_R numd)%R -> card_flag m = Some true ->
  Forall2 (exact_fraction fval) (nuclides (m_items m)) nums ->
  ssum RS (map value_R nums) <> 0%R ->
  exists b, block_for RS norm fval (m_num m) (card_entries m) (card_flag m) d (value_R numd) = Ok b /\
    block_lines rend b =
      ("POINT_WISE 300 " ++ name_for norm m d ++ " "
       ++ dec (N.of_nat (List.length (nuclides (m_items m)))))
      :: amount_lines rend (name_for norm m d) 0 (nuclides (m_items m))
           (rescale RS (map value_R nums) (value_R numd)) /\
    ssum RS (rescale RS (map value_R nums) (value_R numd)) = value_R numd /\
    (forall j num, nth_error nums j = Some num ->
       nth_error (rescale RS (map value_R nums) (value_R numd)) j =
       Some (value_R num * value_R numd / ssum RS (map value_R nums))%R).
Proof.
  intros Hd Hflag Hex Hsum.
  destruct (atom_density_lines RS norm fval rend m d (value_R numd) (map value_R nums)) as (b & H1 & _ & H3); auto.
  - cbn [sltb s0 RS]. now apply Rltb_false.
  - now apply exact_fractions.
  - cbn [seqb s0 RS]. now apply Reqb_false.
  - exists b. repeat split; auto.
    + now apply rescale_sum.
    + intros j num Hj.
      assert (Hlt : (j < List.length (map value_R nums))%nat).
      { rewrite map_length. apply nth_error_Some. congruence. }
      rewrite (rescale_entry _ _ _ Hlt). f_equal. f_equal. f_equal.
      rewrite (nth_indep _ 0%R (value_R num)) by exact Hlt.
      rewrite map_nth. f_equal. now apply nth_error_nth.
Qed.
