(* C10 — decks that are never rejected: the whole path returns *)
From Coq Require Import List NArith ZArith Bool String Ascii Lia.
From T4V Require Import Base.Str Base.Scalar C10.Model C10.ProofsStr C10.Spec C10.ProofsHead
  C10.ProofsCard C10.ProofsDeck C10.ProofsPipe.
Import ListNotations.
Open Scope string_scope.

Section Total.
  Context {T : Type} (S : Scalar T).
  Context (norm : string -> string) (fval : string -> option T)
          (rend : string -> nat -> T -> string).

  (* what a cell using card m must provide: a density string float() reads;
     and, when that density is an atom density and the card has atom
     fractions, fractions float() reads whose sum is not zero *)
  Definition usable (m : mcard) (c : cell (T:=T)) : Prop :=
    exists d fd, c_dens c = Some d /\ fval d = Some fd /\
      (sltb S fd (s0 S) = false -> card_flag m = Some true ->
       exists fs, fractions_of fval (nuclides (m_items m)) fs /\ seqb S (ssum S fs) (s0 S) = false).

  Lemma used_In key (cells : list (cell (T:=T))) d :
    In d (used S key cells) -> exists c, In c cells /\ uses S key c = true /\ c_dens c = Some d.
  Proof.
    unfold used. rewrite in_flat_map. intros (c & Hc & Hd). exists c. split; [exact Hc|].
    destruct (uses S key c); [|inversion Hd]. destruct (c_dens c) as [d'|]; [|inversion Hd].
    destruct Hd as [<-|[]]. auto.
  Qed.

  Lemma block_for_total (m : mcard) d fd :
    (sltb S fd (s0 S) = false -> card_flag m = Some true ->
     exists fs, fractions_of fval (nuclides (m_items m)) fs /\ seqb S (ssum S fs) (s0 S) = false) ->
    exists b, block_for S norm fval (m_num m) (card_entries m) (card_flag m) d fd = Ok b.
  Proof.
    intros H. destruct (sltb S fd (s0 S)) eqn:Es.
    - destruct (mass_density_lines S norm fval rend m d fd Es) as (b & Hb & _). eauto.
    - destruct (card_flag m) as [[]|] eqn:Ef.
      + destruct (H eq_refl eq_refl) as (fs & Hfs & Hsum).
        destruct (atom_density_lines S norm fval rend m d fd fs Es Ef Hfs Hsum) as (b & Hb & _).
        rewrite Ef in Hb. eauto.
      + destruct (mass_fractions_atom_density_lines S norm fval rend m d fd Es) as (b & Hb & _).
        { rewrite Ef. discriminate. } rewrite Ef in Hb. eauto.
      + destruct (mass_fractions_atom_density_lines S norm fval rend m d fd Es) as (b & Hb & _).
        { rewrite Ef. discriminate. } rewrite Ef in Hb. eauto.
  Qed.

  (* C10_conversion_succeeds *)
  Theorem conversion_succeeds cards (cells : list (cell (T:=T))) :
    wf_deck cards ->
    (forall m c, In m (mcards cards) -> In c cells -> uses S (m_num m) c = true -> usable m c) ->
    exists lines, composition_lines S norm fval rend (map render_dcard cards) cells = Ok lines.
  Proof.
    intros Hwf Hus. rewrite (pipeline S norm fval rend cards cells Hwf).
    destruct Hwf as [[Hwfc _] _]. pose proof (wf_items_of_cards cards Hwfc) as Hit.
    assert (Hc : exists d, construct S norm fval (map card_abundances (mcards cards)) cells = Ok d).
    { apply construct_total. rewrite Forall_map. rewrite Forall_forall. intros m Hm.
      rewrite Forall_forall in Hit. pose proof (Hit m Hm) as Hwm.
      destruct (scan_total S norm fval (m_num m) (card_entries m) (card_flag m) cells) with (seen := @nil string)
        as [bs Hbs].
      - intros c Hc Hu. destruct (Hus m c Hm Hc Hu) as (d & fd & Hd & _). congruence.
      - intros d Hd. destruct (used_In _ _ _ Hd) as (c & Hc & Hu & Hcd).
        destruct (Hus m c Hm Hc Hu) as (d' & fd & Hd' & Hf & Hrest).
        assert (d' = d) by congruence. subst d'.
        destruct (block_for_total m d fd Hrest) as [b Hb]. exists b, fd. auto.
      - exists bs, (card_entries m). split; [|exact Hbs].
        cbn [card_abundances fst snd]. apply extract_stored. now apply wf_nuclides. }
    destruct Hc as [d ->]. cbn [bind]. eauto.
  Qed.
End Total.
