(* C10 — what a material card MEANS (MCNP manual, DESIGN Appendix A), written
   without looking at the code: the periodic table, abstract cards and their
   spelling as tokens, the nuclide a composition must list for an entry. *)
From Coq Require Import List NArith ZArith Bool String Ascii.
From T4V Require Import Base.Str C10.Model C10.ProofsStr.
Import ListNotations.
Open Scope string_scope.

(* ------------------------------------------------------------------ *)
(* the periodic table, period by period, in the usual spelling          *)
(* ------------------------------------------------------------------ *)
Definition period1 := ["H"; "He"].
Definition period2 := ["Li"; "Be"; "B"; "C"; "N"; "O"; "F"; "Ne"].
Definition period3 := ["Na"; "Mg"; "Al"; "Si"; "P"; "S"; "Cl"; "Ar"].
Definition period4 := ["K"; "Ca"; "Sc"; "Ti"; "V"; "Cr"; "Mn"; "Fe"; "Co"; "Ni"; "Cu"; "Zn";
                       "Ga"; "Ge"; "As"; "Se"; "Br"; "Kr"].
Definition period5 := ["Rb"; "Sr"; "Y"; "Zr"; "Nb"; "Mo"; "Tc"; "Ru"; "Rh"; "Pd"; "Ag"; "Cd";
                       "In"; "Sn"; "Sb"; "Te"; "I"; "Xe"].
Definition lanthanides := ["La"; "Ce"; "Pr"; "Nd"; "Pm"; "Sm"; "Eu"; "Gd"; "Tb"; "Dy"; "Ho";
                           "Er"; "Tm"; "Yb"; "Lu"].
Definition period6 := (["Cs"; "Ba"] ++ lanthanides ++
                       ["Hf"; "Ta"; "W"; "Re"; "Os"; "Ir"; "Pt"; "Au"; "Hg";
                        "Tl"; "Pb"; "Bi"; "Po"; "At"; "Rn"])%list.
Definition actinides := ["Ac"; "Th"; "Pa"; "U"; "Np"; "Pu"; "Am"; "Cm"; "Bk"; "Cf"; "Es";
                         "Fm"; "Md"; "No"; "Lr"].
Definition period7 := (["Fr"; "Ra"] ++ actinides ++
                       ["Rf"; "Db"; "Sg"; "Bh"; "Hs"; "Mt"; "Ds"; "Rg"; "Cn";
                        "Nh"; "Fl"; "Mc"; "Lv"; "Ts"; "Og"])%list.
Definition periodic_table : list string :=
  (period1 ++ period2 ++ period3 ++ period4 ++ period5 ++ period6 ++ period7)%list.

Definition upper_char (c : ascii) : ascii :=
  let n := N_of_ascii c in if ((97 <=? n)%N && (n <=? 122)%N) then ascii_of_N (n - 32) else c.
Fixpoint upper (s : string) : string :=
  match s with EmptyString => EmptyString | String c r => String (upper_char c) (upper r) end.

(* TRIPOLI-4 writes element symbols in capitals *)
Definition spec_symbol (z : N) : string :=
  upper (nth (N.to_nat z - 1) periodic_table "?").

(* ------------------------------------------------------------------ *)
(* abstract material card                                               *)
(* ------------------------------------------------------------------ *)
Record nuclide := mkNuc {
  nz : N;                 (* atomic number *)
  na : N;                 (* mass number, 0 = natural element *)
  nlead : nat;            (* zeros written in front of the ZAID *)
  nsuf : option string;   (* library suffix after the '.', if any *)
  nneg : bool;            (* fraction written with a leading minus (mass fraction) *)
  nfrac : string          (* the fraction's spelling without its sign *)
}.
Inductive item := INuc (n : nuclide) | IKey (k : string).

(* ZAID = Z*1000 + A in decimal: Z, then A on three digits *)
Definition zaid_of (lead : nat) (z a : N) : string := zeros lead ++ dec z ++ pad3 a.
Definition zaid (n : nuclide) : string := zaid_of (nlead n) (nz n) (na n).
Definition nuc_token (n : nuclide) : string :=
  zaid n ++ match nsuf n with Some s => String "." s | None => "" end.
Definition frac_token (n : nuclide) : string :=
  if nneg n then String "-" (nfrac n) else nfrac n.
Definition render_item (it : item) : list string :=
  match it with
  | INuc n => [nuc_token n; frac_token n]
  | IKey k => [k]
  end.
Definition render (items : list item) : list string := flat_map render_item items.

Fixpoint nuclides (items : list item) : list nuclide :=
  match items with
  | [] => []
  | INuc n :: r => n :: nuclides r
  | IKey _ :: r => nuclides r
  end.

Definition first_char_ok (s : string) : bool :=
  match s with
  | String c _ => negb (Ascii.eqb c "-") && negb (Ascii.eqb c " ")
  | EmptyString => true
  end.

Definition wf_nuclide (n : nuclide) : Prop :=
  (1 <= nz n <= 118)%N /\ (na n <= 999)%N /\
  match nsuf n with Some s => contains_char "=" s = false | None => True end /\
  first_char_ok (nfrac n) = true.

Definition wf_item (it : item) : Prop :=
  match it with
  | INuc n => wf_nuclide n
  | IKey k => contains_char "=" k = true
  end.

(* what the composition must list for a nuclide *)
Definition spec_name (n : nuclide) : string :=
  spec_symbol (nz n) ++ (if (na n =? 0)%N then "-NAT" else dec (na n)).
Definition spec_entry (n : nuclide) : string * string := (spec_name n, nfrac n).

(* ------------------------------------------------------------------ *)
(* abstract data cards, as one-line contents (blanks already squeezed)  *)
(* ------------------------------------------------------------------ *)
Record mcard := mkCard {
  m_num : N;              (* material number *)
  m_upper : bool;         (* written M rather than m *)
  m_zeros : nat;          (* zeros in front of the number: m05 *)
  m_lead : bool;          (* a blank in front of the name *)
  m_trail : bool;         (* a blank after the last entry *)
  m_items : list item
}.

Definition card_name (m : mcard) : string :=
  String (if m_upper m then "M" else "m")%char (zeros (m_zeros m) ++ dec (m_num m)).

Definition render_mcard (m : mcard) : string :=
  (if m_lead m then " " else "") ++ card_name m
  ++ blank_join (render (m_items m)) ++ (if m_trail m then " " else "").

Inductive dcard := DMat (m : mcard) | DOther (txt : string).

Definition render_dcard (d : dcard) : string :=
  match d with DMat m => render_mcard m | DOther t => t end.

Fixpoint mcards (l : list dcard) : list mcard :=
  match l with
  | [] => []
  | DMat m :: r => m :: mcards r
  | DOther _ :: r => mcards r
  end.

(* tokens are words: no blank inside a ZAID, a suffix, a fraction, a keyword *)
Definition word_item (it : item) : bool :=
  match it with
  | INuc n => match nsuf n with Some s => no_ws s | None => true end && is_word (nfrac n)
  | IKey k => is_word k
  end.
