(* C10 — from the cards and the cells to the blocks and the written lines *)
From Coq Require Import List NArith ZArith Bool String Ascii Lia.
From T4V Require Import Base.Str Base.Scalar C10.Model C10.ProofsStr C10.Spec C10.ProofsHead C10.ProofsCard.
Import ListNotations.
Open Scope string_scope.

(* first occurrences, in order, of the strings of l that are not in seen *)
Fixpoint dedup (seen l : list string) : list string :=
  match l with
  | [] => []
  | x :: r => if mem x seen then dedup seen r else x :: dedup (x :: seen) r
  end.

Lemma mem_In x l : mem x l = true <-> In x l.
Proof.
  unfold mem. rewrite existsb_exists. split.
  - intros (y & Hy & E). apply String.eqb_eq in E. now subst.
  - intros H. exists x. split; [exact H|apply String.eqb_refl].
Qed.

Lemma mem_false x l : mem x l = false <-> ~ In x l.
Proof. rewrite <- mem_In. destruct (mem x l); split; congruence. Qed.

Lemma dedup_In l : forall seen x, In x (dedup seen l) <-> In x l /\ ~ In x seen.
Proof.
  induction l as [|y r IH]; intros seen x; simpl; [tauto|].
  destruct (mem y seen) eqn:E.
  - rewrite IH. apply mem_In in E. split.
    + intros [H1 H2]. auto.
    + intros [[->|H1] H2]; [contradiction|auto].
  - apply mem_false in E. simpl. rewrite IH. simpl. split.
    + intros [->|[H1 H2]]; [auto|]. split; [auto|]. intros H. apply H2. now right.
    + intros [[->|H1] H2]; [now left|].
      destruct (string_dec y x) as [->|Hne]; [now left|]. right. split; [exact H1|].
      intros [H|H]; [congruence|contradiction].
Qed.

Lemma dedup_NoDup l : forall seen, NoDup (dedup seen l).
Proof.
  induction l as [|y r IH]; intros seen; simpl; [constructor|].
  destruct (mem y seen); [apply IH|]. constructor; [|apply IH].
  rewrite dedup_In. intros [_ H]. apply H. now left.
Qed.

(* the order is that of the first occurrences: a later string never moves an
   earlier one *)
Lemma mem_cons x y l : mem x (y :: l) = String.eqb x y || mem x l.
Proof. reflexivity. Qed.

Lemma dedup_snoc l x : forall seen,
  dedup seen (l ++ [x])%list =
  (dedup seen l ++ (if mem x seen || mem x l then [] else [x]))%list.
Proof.
  induction l as [|y r IH]; intros seen; cbn [app dedup].
  - change (mem x []) with false. rewrite orb_false_r. destruct (mem x seen); reflexivity.
  - destruct (mem y seen) eqn:E.
    + rewrite IH. f_equal. rewrite (mem_cons x y r).
      destruct (String.eqb x y) eqn:Exy; [|reflexivity].
      apply String.eqb_eq in Exy. subst. rewrite E. reflexivity.
    + cbn [app]. rewrite IH. f_equal. f_equal. rewrite (mem_cons x y seen), (mem_cons x y r).
      destruct (String.eqb x y), (mem x seen), (mem x r); reflexivity.
Qed.

Section Deck.
  Context {T : Type} (S : Scalar T).
  Context (norm : string -> string) (fval : string -> option T)
          (rend : string -> nat -> T -> string).

  Notation cell := (cell (T:=T)).
  Notation block := (block (T:=T)).
  Notation scan := (scan S norm fval).
  Notation block_for := (block_for S norm fval).
  Notation construct := (construct S norm fval).
  Notation block_name := (block_name (T:=T)).
  Notation body_items := (body_items rend).
  Notation header_line := (header_line rend).
  Notation block_lines := (block_lines rend).
  Notation composition_lines_of := (composition_lines_of rend).

  (* a cell whose material a converted volume can carry, using material key *)
  Definition uses (key : N) (c : cell) : bool := live S c && (c_mat c =? Z.of_N key)%Z.

  Definition used (key : N) (cells : list cell) : list string :=
    flat_map (fun c => if uses key c then match c_dens c with Some d => [d] | None => [] end
                       else []) cells.

  Definition made (key : N) entries atom (d : string) (b : block) : Prop :=
    exists fd, fval d = Some fd /\ block_for key entries atom d fd = Ok b.

  Lemma scan_spec key entries atom cells : forall seen bs,
    scan key entries atom cells seen = Ok bs ->
    Forall2 (made key entries atom) (dedup seen (used key cells)) bs.
  Proof.
    induction cells as [|c r IH]; intros seen bs H; simpl in H.
    - inversion H. constructor.
    - unfold used. simpl. fold (used key r). unfold uses.
      destruct (live S c) eqn:El; simpl in H |- *; [|now apply IH].
      destruct (c_mat c =? Z.of_N key)%Z eqn:Em; simpl in H |- *; [|now apply IH].
      destruct (c_dens c) as [d|]; [|discriminate]. simpl.
      destruct (mem d seen) eqn:Es; [now apply IH|].
      destruct (fval d) as [fd|] eqn:Ef; [|discriminate].
      destruct (block_for key entries atom d fd) as [b|] eqn:Eb; [|discriminate].
      destruct (Model.scan S norm fval key entries atom r (d :: seen)) as [bs'|] eqn:Er; [|discriminate].
      inversion H; subst. constructor; [|now apply IH].
      exists fd. auto.
  Qed.

  Lemma scan_total key entries atom cells :
    (forall c, In c cells -> uses key c = true -> c_dens c <> None) ->
    (forall d, In d (used key cells) -> exists b, made key entries atom d b) ->
    forall seen, exists bs, scan key entries atom cells seen = Ok bs.
  Proof.
    induction cells as [|c r IH]; intros Hv Hd seen; simpl; [eauto|].
    assert (Hv' : forall c0, In c0 r -> uses key c0 = true -> c_dens c0 <> None)
      by (intros c0 H0; apply Hv; now right).
    assert (Hd' : forall d, In d (used key r) -> exists b, made key entries atom d b).
    { intros d H0. apply Hd. unfold used. simpl. apply in_or_app. now right. }
    specialize (IH Hv' Hd').
    pose proof (Hv c (or_introl eq_refl)) as Hc. unfold uses in Hc.
    destruct (live S c) eqn:El; simpl; [|apply IH].
    destruct (c_mat c =? Z.of_N key)%Z eqn:Em; simpl; [|apply IH].
    destruct (c_dens c) as [d|] eqn:Ed; [|exfalso; now apply Hc].
    destruct (mem d seen); [apply IH|].
    destruct (Hd d) as (b & fd & Ef & Eb).
    { unfold used. simpl. unfold uses. rewrite El, Em, Ed. now left. }
    rewrite Ef, Eb. destruct (IH (d :: seen)) as [bs ->]. eauto.
  Qed.

  (* one block per density string of the cells using the material *)
  Theorem blocks_of_material key entries atom cells bs :
    scan key entries atom cells [] = Ok bs ->
    map block_name bs = map (fun d => "m" ++ dec key ++ "_" ++ norm d) (dedup [] (used key cells)) /\
    NoDup (dedup [] (used key cells)) /\
    (forall d, In d (dedup [] (used key cells)) <-> In d (used key cells)).
  Proof.
    intros H. pose proof (scan_spec _ _ _ _ _ _ H) as F. repeat split.
    - clear H. induction F as [|d b ds bs' (fd & _ & Hb) _ IH]; [reflexivity|]. simpl. f_equal; [|exact IH].
      unfold Model.block_for in Hb.
      destruct (sltb S fd (s0 S)); [inversion Hb; reflexivity|].
      destruct atom as [[]|]; try (inversion Hb; reflexivity).
      destruct (rescale_entries S fval entries fd); inversion Hb; reflexivity.
    - apply dedup_NoDup.
    - intros Hd. now apply dedup_In in Hd.
    - intros Hd. apply dedup_In. auto.
  Qed.

  (* constructCompositionT4 *)
  Definition scanned (cells : list cell) (m : N * abundances) (bs : list block) : Prop :=
    exists entries, extract (fst (snd m)) = Ok entries /\
                    scan (fst m) entries (snd (snd m)) cells [] = Ok bs.

  Lemma construct_spec mats cells : forall d,
    construct mats cells = Ok d ->
    exists bss, Forall2 (scanned cells) mats bss /\ all_blocks d = List.concat bss.
  Proof.
    induction mats as [|[key [isos atom]] r IH]; intros d H; simpl in H.
    - inversion H. exists []. split; constructor.
    - destruct (extract isos) as [entries|] eqn:Ee; [|discriminate].
      destruct (Model.scan S norm fval key entries atom cells []) as [bs|] eqn:Es; [|discriminate].
      destruct (Model.construct S norm fval r cells) as [rest|] eqn:Er; [|discriminate].
      destruct (IH rest eq_refl) as (bss & F & Eb).
      exists (bs :: bss). split.
      + constructor; [|exact F]. exists entries. auto.
      + destruct bs as [|b bs']; inversion H; subst; simpl; [exact Eb|].
        unfold all_blocks in *. simpl. now rewrite Eb.
  Qed.

  Lemma construct_total mats cells :
    Forall (fun m => exists bs, scanned cells m bs) mats ->
    exists d, construct mats cells = Ok d.
  Proof.
    induction mats as [|[key [isos atom]] r IH]; intros H; simpl; [eauto|].
    inversion H as [|? ? (bs & entries & Ee & Es) Hr]; subst. simpl in Ee, Es.
    rewrite Ee, Es. destruct (IH Hr) as [d ->]. destruct bs; eauto.
  Qed.

  (* ---------------------------------------------------------------- *)
  (* the written lines                                                  *)
  (* ---------------------------------------------------------------- *)
  Fixpoint prefix (p s : string) : bool :=
    match p, s with
    | EmptyString, _ => true
    | String a p', String b s' => Ascii.eqb a b && prefix p' s'
    | _, EmptyString => false
    end.

  (* the first line of a block *)
  Definition is_header (l : string) : bool := prefix "POINT_WISE " l || prefix "DENSITY " l.

  Lemma header_is_header b : is_header (header_line b) = true.
  Proof. unfold is_header, Model.header_line. destruct (b_pw b); reflexivity. Qed.

  Lemma item_not_header e : is_header (item_line e) = false.
  Proof. reflexivity. Qed.

  Lemma item_lines_not_header l : filter is_header (item_lines l) = [].
  Proof.
    destruct l as [|e r]; [reflexivity|]. unfold item_lines.
    induction (e :: r) as [|x xs IH]; [reflexivity|]. simpl. exact IH.
  Qed.

  Lemma digits_not_header s : all_digits s = true -> is_header s = false.
  Proof.
    destruct s as [|c r]; [reflexivity|]. cbn [all_digits]. intros H.
    apply andb_prop in H. destruct H as [Hc _].
    unfold is_header. cbn [prefix].
    assert (E1 : Ascii.eqb "P" c = false).
    { destruct (Ascii.eqb "P" c) eqn:E; [|reflexivity]. apply Ascii.eqb_eq in E. subst. discriminate. }
    assert (E2 : Ascii.eqb "D" c = false).
    { destruct (Ascii.eqb "D" c) eqn:E; [|reflexivity]. apply Ascii.eqb_eq in E. subst. discriminate. }
    rewrite E1, E2. reflexivity.
  Qed.

  Lemma filter_block_lines b : filter is_header (block_lines b) = [header_line b].
  Proof.
    unfold Model.block_lines. cbn [filter]. rewrite header_is_header.
    now rewrite item_lines_not_header.
  Qed.

  Lemma filter_flat_block_lines bs :
    filter is_header (flat_map block_lines bs) = map header_line bs.
  Proof.
    induction bs as [|b r IH]; [reflexivity|]. cbn [flat_map map].
    rewrite filter_app, filter_block_lines, IH. reflexivity.
  Qed.

  (* C10_text_shape / C10_block_count *)
  Theorem text_shape (d : list (N * list block)) :
    composition_lines_of d =
      (["" ; "COMPOSITION"; dec (N.of_nat (List.length (all_blocks d)) + 1)]
       ++ flat_map block_lines (all_blocks d)
       ++ ["POINT_WISE 300 m0 1"; "  HE4 1E-30"; ""; "END_COMPOSITION"])%list /\
    filter is_header (composition_lines_of d) =
      (map header_line (all_blocks d) ++ ["POINT_WISE 300 m0 1"])%list.
  Proof.
    split; [reflexivity|].
    unfold Model.composition_lines_of. rewrite !filter_app, filter_flat_block_lines.
    cbn [filter app].
    destruct (dec_spec (N.of_nat (List.length (all_blocks d)) + 1)) as (Hd & _).
    rewrite (digits_not_header _ Hd). reflexivity.
  Qed.

  Theorem block_count (d : list (N * list block)) :
    nth 2 (composition_lines_of d) "" = dec (N.of_nat (List.length (filter is_header (composition_lines_of d)))).
  Proof.
    destruct (text_shape d) as [_ ->]. rewrite app_length, map_length. cbn [List.length].
    unfold Model.composition_lines_of. cbn [nth app]. f_equal. lia.
  Qed.

  (* the lines of one block: the declared count is the number of nuclide
     lines, one line per entry in order (a single blank line for none) *)
  Theorem block_lines_shape b :
    exists head,
      header_line b = head ++ " " ++ dec (N.of_nat (List.length (body_items b))) /\
      block_lines b = header_line b ::
        match body_items b with
        | [] => ["  "]
        | l => map (fun e => "  " ++ fst e ++ " " ++ snd e) l
        end.
  Proof.
    unfold Model.block_lines, Model.header_line, item_lines.
    destruct (b_pw b).
    - exists ("POINT_WISE 300 " ++ block_name b). split; [now rewrite sapp_assoc|].
      destruct (body_items b); reflexivity.
    - exists ("DENSITY 300 " ++ block_name b ++ " " ++ str_fabs (b_dens b) ++ " "
              ++ match b_atom b with Some true => "NB_ATOM" | _ => "" end).
      split; [now rewrite !sapp_assoc|]. destruct (body_items b); reflexivity.
  Qed.

  (* ---------------------------------------------------------------- *)
  (* blocks of an abstract card                                         *)
  (* ---------------------------------------------------------------- *)
  Definition card_entries (m : mcard) : list (string * string) := map spec_entry (nuclides (m_items m)).

  Definition name_for (m : mcard) (d : string) : string := "m" ++ dec (m_num m) ++ "_" ++ norm d.

  Definition nuclide_line (n : nuclide) (amount : string) : string :=
    "  " ++ spec_name n ++ " " ++ amount.

  (* mass density: the card's absolute values; NB_ATOM iff the entries are
     positive *)
  Theorem mass_density_lines (m : mcard) (d : string) (fd : T) :
    sltb S fd (s0 S) = true ->
    exists b, block_for (m_num m) (card_entries m) (card_flag m) d fd = Ok b /\
      block_name b = name_for m d /\
      block_lines b =
        ("DENSITY 300 " ++ name_for m d ++ " " ++ str_fabs (norm d) ++ " "
         ++ (match card_flag m with Some true => "NB_ATOM" | _ => "" end) ++ " "
         ++ dec (N.of_nat (List.length (nuclides (m_items m)))))
        :: match nuclides (m_items m) with
           | [] => ["  "]
           | ns => map (fun n => nuclide_line n (nfrac n)) ns
           end.
  Proof.
    intros Hneg. unfold Model.block_for. rewrite Hneg. eexists. split; [reflexivity|].
    split; [reflexivity|].
    unfold Model.block_lines, Model.header_line, Model.body_items, card_entries. cbn [b_pw b_body b_dens b_atom].
    rewrite map_length. f_equal.
    destruct (nuclides (m_items m)) as [|n ns]; [reflexivity|]. unfold item_lines.
    cbn [map]. rewrite map_map. reflexivity.
  Qed.

  (* values of the fractions of a card *)
  Definition fractions_of (ns : list nuclide) (fs : list T) : Prop :=
    Forall2 (fun n f => fval (nfrac n) = Some f) ns fs.

  Lemma all_some_fractions ns fs : fractions_of ns fs ->
    all_some (map (fun e : string * string => fval (snd e)) (map spec_entry ns)) = Some fs.
  Proof.
    induction 1 as [|n f ns fs Hf _ IH]; [reflexivity|]. cbn [map all_some spec_entry snd].
    now rewrite Hf, IH.
  Qed.

  Fixpoint amount_lines (name : string) (j : nat) (ns : list nuclide) (xs : list T) : list string :=
    match ns, xs with
    | n :: ns', x :: xs' => nuclide_line n (rend name j x) :: amount_lines name (Datatypes.S j) ns' xs'
    | _, _ => []
    end.

  Fixpoint num_items (name : string) (j : nat) (l : list (string * T)) : list (string * string) :=
    match l with
    | [] => []
    | e :: r => (fst e, rend name j (snd e)) :: num_items name (Datatypes.S j) r
    end.

  Lemma num_items_spec name l : forall j,
    map (fun ix : nat * (string * T) => (fst (snd ix), rend name (fst ix) (snd (snd ix))))
        (combine (seq j (List.length l)) l) = num_items name j l.
  Proof. induction l as [|e r IH]; intros j; [reflexivity|]. cbn [List.length seq combine map num_items fst snd]. now rewrite IH. Qed.

  Lemma body_items_BNum (b : block) l : b_body b = BNum l -> body_items b = num_items (block_name b) 0 l.
  Proof. intros H. unfold Model.body_items. rewrite H. apply num_items_spec. Qed.

  Lemma num_items_length name l : forall j, List.length (num_items name j l) = List.length l.
  Proof. induction l as [|e r IH]; intros j; [reflexivity|]. cbn [num_items List.length]. now rewrite IH. Qed.

  Lemma item_lines_num name (ns : list nuclide) : forall (xs : list T) j,
    List.length ns = List.length xs ->
    map item_line (num_items name j (combine (map spec_name ns) xs)) = amount_lines name j ns xs.
  Proof.
    induction ns as [|n ns IH]; intros [|x xs] j Hl; try discriminate; [reflexivity|].
    cbn [map combine num_items amount_lines fst snd]. f_equal. apply IH. simpl in Hl. lia.
  Qed.

  (* atom density, atom fractions: one line per nuclide of the card, in
     order, with the rescaled amounts *)
  Theorem atom_density_lines (m : mcard) (d : string) (fd : T) (fs : list T) :
    sltb S fd (s0 S) = false -> card_flag m = Some true ->
    fractions_of (nuclides (m_items m)) fs -> seqb S (ssum S fs) (s0 S) = false ->
    exists b, block_for (m_num m) (card_entries m) (card_flag m) d fd = Ok b /\
      block_name b = name_for m d /\
      block_lines b =
        ("POINT_WISE 300 " ++ name_for m d ++ " "
         ++ dec (N.of_nat (List.length (nuclides (m_items m)))))
        :: amount_lines (name_for m d) 0 (nuclides (m_items m)) (rescale S fs fd).
  Proof.
    intros Hpos Hflag Hfs Hsum. unfold Model.block_for. rewrite Hpos, Hflag.
    unfold rescale_entries, card_entries. rewrite (all_some_fractions _ _ Hfs).
    assert (Hlen : List.length (nuclides (m_items m)) = List.length fs)
      by (clear - Hfs; induction Hfs; simpl; congruence).
    destruct fs as [|f fs'].
    { unfold card_flag in Hflag. destruct (nuclides (m_items m)); discriminate. }
    rewrite Hsum. rewrite map_map.
    change (map (fun x : nuclide => fst (spec_entry x)) (nuclides (m_items m)))
      with (map spec_name (nuclides (m_items m))).
    assert (Hl2 : List.length (nuclides (m_items m)) = List.length (rescale S (f :: fs') fd))
      by (unfold rescale; now rewrite map_length).
    set (b := mkBlock true (m_num m) (norm d)
                (BNum (combine (map spec_name (nuclides (m_items m))) (rescale S (f :: fs') fd)))
                (Some true)).
    exists b. split; [reflexivity|]. split; [reflexivity|].
    unfold Model.block_lines, Model.header_line. rewrite (body_items_BNum b _ eq_refl).
    change (block_name b) with (name_for m d). change (b_pw b) with true. cbv iota.
    rewrite num_items_length, combine_length, map_length, <- Hl2, Nat.min_id.
    f_equal. rewrite <- (item_lines_num (name_for m d) _ _ 0 Hl2).
    destruct (nuclides (m_items m)) as [|n ns]; [discriminate|].
    unfold rescale. reflexivity.
  Qed.

  (* atom density, card without atom fractions (mass fractions, or no nuclide
     at all): the block is written without nuclides *)
  Theorem mass_fractions_atom_density_lines (m : mcard) (d : string) (fd : T) :
    sltb S fd (s0 S) = false -> card_flag m <> Some true ->
    exists b, block_for (m_num m) (card_entries m) (card_flag m) d fd = Ok b /\
      block_name b = name_for m d /\
      block_lines b = ["POINT_WISE 300 " ++ name_for m d ++ " 0"; "  "].
  Proof.
    intros Hpos Hflag. unfold Model.block_for. rewrite Hpos.
    destruct (card_flag m) as [[]|]; [congruence| |]; eexists; (split; [reflexivity|]);
      split; reflexivity.
  Qed.
End Deck.
