(* C10 linked with C09: the parameter [norm] of the C10 model instantiated with
   C09's model of normalize_float; the density strings stored in the cells are
   C09 normal forms, so the block names carry the normal form of the spelling
   on the cell card, whatever its zero padding and exponent marker. *)
From Coq Require Import List NArith ZArith Bool String Ascii.
From T4V Require Import Base.Str Base.Scalar C10.Model C10.ProofsStr C10.Spec C10.ProofsHead
  C10.ProofsCard C10.ProofsDeck C10.ProofsPipe.
From T4V Require C09.Model C09.Spec C09.ProofsNorm Properties.C09.
Import ListNotations.
Open Scope string_scope.

(* normalize_float as the code applies it to a stored density (the stored
   strings never make it raise: they are outputs of normalize_float) *)
Definition c09_norm (s : string) : string :=
  match T4V.C09.Model.normalize_float s with
  | T4V.C09.Model.Ok n => n
  | T4V.C09.Model.Err _ => s
  end.

(* what ParseMCNPCell stores for a density spelled s on the cell card *)
Definition stored (s : string) : option string :=
  match T4V.C09.Model.normalize_float s with
  | T4V.C09.Model.Ok n => Some n
  | T4V.C09.Model.Err _ => None
  end.

Lemma c09_norm_stored s d : stored s = Some d -> c09_norm d = d.
Proof.
  unfold stored, c09_norm. destruct (T4V.C09.Model.normalize_float s) as [n|] eqn:E; [|discriminate].
  intros H. inversion H; subst. now rewrite (T4V.Properties.C09.C09_normalize_float_idempotent _ _ E).
Qed.

Lemma stored_spell n pad mk :
  T4V.C09.Spec.wf_number n = true -> T4V.C09.Spec.marker_ok n mk = true ->
  stored (T4V.C09.Spec.spell n pad mk) = Some (T4V.C09.ProofsNorm.normal_form n).
Proof.
  intros Hn Hm. unfold stored.
  now rewrite (T4V.Properties.C09.C09_normalize_float_normal_form n pad mk Hn Hm).
Qed.

(* a cell as written on its card: the density is a number in some spelling *)
Record acell (T : Type) := mkACell {
  a_imp : T; a_univ : Z; a_filled : bool; a_mat : Z;
  a_num : T4V.C09.Spec.number; a_pad : nat; a_marker : T4V.C09.Spec.marker
}.
Arguments a_imp {T}. Arguments a_univ {T}. Arguments a_filled {T}. Arguments a_mat {T}.
Arguments a_num {T}. Arguments a_pad {T}. Arguments a_marker {T}.

Definition acell_ok {T} (a : acell T) : Prop :=
  T4V.C09.Spec.wf_number (a_num a) = true /\ T4V.C09.Spec.marker_ok (a_num a) (a_marker a) = true.

Definition spelling {T} (a : acell T) : string := T4V.C09.Spec.spell (a_num a) (a_pad a) (a_marker a).

(* the cell of the final dictionary *)
Definition cell_of {T} (a : acell T) : cell (T:=T) :=
  mkCell (a_imp a) (a_univ a) (a_filled a) (a_mat a) (stored (spelling a)).

Definition normal {T} (a : acell T) : string := T4V.C09.ProofsNorm.normal_form (a_num a).

Section Link.
  Context {T : Type} (S : Scalar T).

  Definition auses (key : N) (a : acell T) : bool :=
    negb (sleb S (a_imp a) (s0 S)) && (a_univ a =? 0)%Z && negb (a_filled a) && (a_mat a =? Z.of_N key)%Z.

  (* normal forms of the densities of the cells that use material key *)
  Definition used_normal (key : N) (cells : list (acell T)) : list string :=
    map normal (filter (auses key) cells).

  Lemma used_cells key (cells : list (acell T)) : Forall acell_ok cells ->
    used S key (map cell_of cells) = used_normal key cells.
  Proof.
    induction cells as [|a r IH]; intros H; [reflexivity|]. inversion H as [|? ? [Hn Hm] Hr]; subst.
    unfold used, used_normal in *. cbn [map flat_map filter].
    change (uses S key (cell_of a)) with (auses key a).
    destruct (auses key a).
    - cbn [c_dens cell_of]. unfold spelling. rewrite (stored_spell _ _ _ Hn Hm). cbn [app map].
      f_equal. apply IH. exact Hr.
    - cbn [app]. apply IH. exact Hr.
  Qed.

  Lemma norm_used key (cells : list (acell T)) d : Forall acell_ok cells ->
    In d (used_normal key cells) -> c09_norm d = d.
  Proof.
    intros H Hin. unfold used_normal in Hin. apply in_map_iff in Hin.
    destruct Hin as (a & <- & Ha). apply filter_In in Ha. destruct Ha as [Ha _].
    rewrite Forall_forall in H. destruct (H a Ha) as [Hn Hm].
    apply (c09_norm_stored (spelling a)). apply stored_spell; assumption.
  Qed.

  (* C10_one_block_per_material_density_linked *)
  Theorem one_block_per_material_density_linked fval rend cards (cells : list (acell T)) lines :
    wf_deck cards -> Forall acell_ok cells ->
    composition_lines S c09_norm fval rend (map render_dcard cards) (map cell_of cells) = Ok lines ->
    exists d, lines = composition_lines_of rend d /\
      map (block_name (T:=T)) (all_blocks d) =
      flat_map (fun m => map (fun nf => "m" ++ dec (m_num m) ++ "_" ++ nf)
                             (dedup [] (used_normal (m_num m) cells))) (mcards cards).
  Proof.
    intros Hwf Hc H.
    destruct (one_block_per_material_density S c09_norm fval rend cards _ lines Hwf H) as (d & El & En).
    exists d. split; [exact El|]. rewrite En. clear - Hc.
    induction (mcards cards) as [|m r IH]; [reflexivity|]. cbn [flat_map]. rewrite IH. f_equal.
    rewrite (used_cells _ cells Hc). apply map_ext_in. intros dn Hin.
    unfold name_for. apply dedup_In in Hin. destruct Hin as [Hin _].
    now rewrite (norm_used _ cells dn Hc Hin).
  Qed.

  (* two cells of one material whose cards spell the same number with other
     padding / marker ask for the same block *)
  Corollary same_number_same_block (a b : acell T) :
    acell_ok a -> acell_ok b -> a_num a = a_num b -> c_dens (cell_of a) = c_dens (cell_of b).
  Proof.
    intros [Ha1 Ha2] [Hb1 Hb2] E. cbn [c_dens cell_of]. unfold spelling.
    rewrite (stored_spell _ _ _ Ha1 Ha2), (stored_spell _ _ _ Hb1 Hb2), E. reflexivity.
  Qed.
End Link.

(* ------------------------------------------------------------------ *)
(* the fractions of a card at a MASS density are NOT normalised          *)
(* ------------------------------------------------------------------ *)
(* the amount written for a nuclide whose fraction is spelled (without sign)
   as any spelling of a number — D or d marker, bare signed exponent, padded
   zeros included — is that spelling, character for character; normalize_float
   would have produced the normal form *)
Theorem fraction_spelling_copied {T} (S : Scalar T) norm fval rend (m : mcard) (d : string) (fd : T)
        (k : nat) (nuc : nuclide) (num : T4V.C09.Spec.number) (pad : nat) (mk : T4V.C09.Spec.marker) :
  sltb S fd (s0 S) = true ->
  nth_error (nuclides (m_items m)) k = Some nuc ->
  nfrac nuc = T4V.C09.Spec.spell num pad mk ->
  T4V.C09.Spec.wf_number num = true -> T4V.C09.Spec.marker_ok num mk = true ->
  exists b, block_for S norm fval (m_num m) (card_entries m) (card_flag m) d fd = Ok b /\
    nth_error (block_lines rend b) (Datatypes.S k) =
      Some ("  " ++ spec_name nuc ++ " " ++ T4V.C09.Spec.spell num pad mk) /\
    T4V.C09.Model.normalize_float (T4V.C09.Spec.spell num pad mk)
      = T4V.C09.Model.Ok (T4V.C09.ProofsNorm.normal_form num).
Proof.
  intros Hneg Hk Hf Hn Hm.
  destruct (mass_density_lines S norm fval rend m d fd Hneg) as (b & Hb & _ & Hl).
  exists b. split; [exact Hb|]. split.
  - rewrite Hl. cbn [nth_error].
    destruct (nuclides (m_items m)) as [|n0 ns] eqn:En; [destruct k; discriminate|].
    rewrite nth_error_map, Hk. cbn [option_map]. unfold nuclide_line. now rewrite Hf.
  - exact (T4V.Properties.C09.C09_normalize_float_normal_form num pad mk Hn Hm).
Qed.
