(* C10 — one material card: element tables, ZAID splitting, pairing,
   conversion, sign consistency *)
From Coq Require Import List NArith ZArith Bool String Ascii Lia.
From T4V Require Import Base.Str C10.Model C10.ProofsStr C10.Spec.
Import ListNotations.
Open Scope string_scope.

(* ------------------------------------------------------------------ *)
(* the two enums against the periodic table                             *)
(* ------------------------------------------------------------------ *)
Definition element_check (z : N) : bool :=
  match atomic_value (dec z) with
  | Some v => (v =? z)%N && match element_name v with
                            | Some s => String.eqb s (spec_symbol z)
                            | None => false
                            end
  | None => false
  end.

Lemma element_table_checked : forallb element_check (Nrange 1 118) = true.
Proof. vm_compute. reflexivity. Qed.

Lemma element_check_sound z : element_check z = true ->
  atomic_value (dec z) = Some z /\ element_name z = Some (spec_symbol z).
Proof.
  unfold element_check. intros H. destruct (atomic_value (dec z)) as [v|]; [|discriminate].
  apply andb_prop in H. destruct H as [Hv Hs]. apply N.eqb_eq in Hv. subst v.
  destruct (element_name z) as [s|]; [|discriminate]. apply String.eqb_eq in Hs. now subst.
Qed.

Theorem element_table z : (1 <= z <= 118)%N ->
  atomic_value (dec z) = Some z /\ element_name z = Some (spec_symbol z).
Proof.
  intros Hz. apply element_check_sound.
  apply (Nrange_forallb element_check 1 118 element_table_checked). lia.
Qed.

Lemma symbol_spec z : (1 <= z <= 118)%N -> symbol z = spec_symbol z.
Proof. intros Hz. unfold symbol. now destruct (element_table z Hz) as [_ ->]. Qed.

Lemma periodic_table_length : List.length periodic_table = 118%nat.
Proof. reflexivity. Qed.

Fixpoint nodupb (l : list string) : bool :=
  match l with [] => true | x :: r => negb (existsb (String.eqb x) r) && nodupb r end.
Lemma nodupb_NoDup l : nodupb l = true -> NoDup l.
Proof.
  induction l as [|x r IH]; intros Hl; constructor.
  - simpl in Hl. apply andb_prop in Hl. destruct Hl as [Hx _]. apply negb_true_iff in Hx.
    intros Hin. assert (existsb (String.eqb x) r = true) as E.
    { apply existsb_exists. exists x. split; [assumption|apply String.eqb_refl]. }
    congruence.
  - apply IH. simpl in Hl. apply andb_prop in Hl. tauto.
Qed.
Lemma element_names_nodup : NoDup element_names.
Proof. apply nodupb_NoDup. vm_compute. reflexivity. Qed.

(* the names of the atomic-number enum are the decimal numbers 1..118 *)
Lemma atomic_names_dec : atomic_names = map dec (Nrange 1 118).
Proof. vm_compute. reflexivity. Qed.

Lemma index_of_some s l : forall i v, index_of s l i = Some v ->
  exists k, nth_error l k = Some s /\ v = (i + N.of_nat k)%N.
Proof.
  induction l as [|x r IH]; simpl; intros i v H; [discriminate|].
  destruct (String.eqb s x) eqn:E.
  - apply String.eqb_eq in E. subst x. inversion H; subst. exists 0%nat. split; [reflexivity|lia].
  - destruct (IH _ _ H) as (k & Hk & Hv). exists (S k). split; [exact Hk|lia].
Qed.

Lemma nth_error_seq n : forall a k j, nth_error (seq a n) k = Some j -> j = (a + k)%nat /\ (k < n)%nat.
Proof.
  induction n as [|n IH]; intros a k j H; [destruct k; discriminate|].
  destruct k as [|k]; simpl in H.
  - inversion H. lia.
  - destruct (IH _ _ _ H). lia.
Qed.

Theorem atomic_value_range z v : atomic_value (dec z) = Some v -> (1 <= z <= 118)%N /\ v = z.
Proof.
  unfold atomic_value. rewrite atomic_names_dec. intros H.
  destruct (index_of_some _ _ _ _ H) as (k & Hk & Hv).
  rewrite nth_error_map in Hk. unfold Nrange in Hk. rewrite nth_error_map in Hk.
  destruct (nth_error (seq 0 118) k) as [j|] eqn:Ej; [|discriminate].
  assert (Hj : j = k /\ (k < 118)%nat).
  { destruct (nth_error_seq _ _ _ _ Ej) as [-> Hlt]. split; [reflexivity|exact Hlt]. }
  destruct Hj as [-> Hlt]. cbn [option_map] in Hk.
  assert (Hd : dec (1 + N.of_nat k) = dec z) by congruence. apply dec_inj in Hd. lia.
Qed.

Corollary atomic_value_out_of_range z : (z = 0 \/ 118 < z)%N -> atomic_value (dec z) = None.
Proof.
  intros Hz. destruct (atomic_value (dec z)) as [v|] eqn:E; [|reflexivity].
  destruct (atomic_value_range _ _ E). lia.
Qed.

(* ------------------------------------------------------------------ *)
(* ZAID splitting, for every Z, A <= 999 and any number of leading zeros *)
(* ------------------------------------------------------------------ *)
Lemma zaid_no_special lead z a c : (a <= 999)%N -> is_digit c = false ->
  contains_char c (zaid_of lead z a) = false.
Proof.
  intros Ha Hc. apply (all_chars_contains is_digit); [exact Hc|].
  rewrite <- all_digits_all_chars. unfold zaid_of. rewrite !all_digits_app, zeros_digits.
  destruct (dec_spec z) as (Hz & _). destruct (pad3_facts a Ha) as (_ & Hp & _). now rewrite Hz, Hp.
Qed.

Theorem convert_isotope_zaid_gen lead z a : (a <= 999)%N ->
  convert_isotope (zaid_of lead z a) =
  match atomic_value (dec z) with Some v => Ok (v, dec a) | None => Err EAttribute end.
Proof.
  intros Ha. destruct (pad3_facts a Ha) as (Hl & Hd & Hi & _).
  unfold convert_isotope. cbv zeta.
  rewrite (take_until_none "." _ (zaid_no_special lead z a "." Ha eq_refl)).
  unfold zaid_of. rewrite <- sapp_assoc.
  assert (Hlen : String.length ((zeros lead ++ dec z) ++ pad3 a) = String.length (zeros lead ++ dec z) + 3)
    by (now rewrite slength_app, Hl).
  assert (Hpos : 1 <= String.length (zeros lead ++ dec z)).
  { rewrite slength_app. pose proof (dec_length_pos z). lia. }
  rewrite Hlen.
  replace (Nat.leb (String.length (zeros lead ++ dec z) + 3) 3) with false
    by (symmetry; apply Nat.leb_gt; lia).
  pattern 3 at 1 2. rewrite <- Hl. rewrite take_last_app, drop_last_app, (int_py _ _ Hi), (int_py _ _ (int_of_string_zeros_dec lead z)).
  rewrite !dec_Z_of_N. reflexivity.
Qed.

Theorem zaid_split lead z a : (1 <= z <= 118)%N -> (a <= 999)%N ->
  convert_isotope (zaid_of lead z a) = Ok (z, dec a) /\
  contains_char "." (zaid_of lead z a) = false /\ contains_char "=" (zaid_of lead z a) = false.
Proof.
  intros Hz Ha. rewrite (convert_isotope_zaid_gen lead z a Ha).
  destruct (element_table z Hz) as [-> _]. repeat split; apply zaid_no_special; auto.
Qed.

Theorem zaid_out_of_range lead z a : (z = 0 \/ 118 < z)%N -> (a <= 999)%N ->
  convert_isotope (zaid_of lead z a) = Err EAttribute.
Proof.
  intros Hz Ha. rewrite (convert_isotope_zaid_gen lead z a Ha).
  now rewrite (atomic_value_out_of_range z Hz).
Qed.

(* ------------------------------------------------------------------ *)
(* cards                                                                *)
(* ------------------------------------------------------------------ *)
Lemma contains_char_app c s t : contains_char c (s ++ t) = contains_char c s || contains_char c t.
Proof. induction s as [|d r IH]; simpl; [reflexivity|]. rewrite IH. apply orb_assoc. Qed.

Lemma nuc_token_facts n : wf_nuclide n ->
  contains_char "=" (nuc_token n) = false /\ take_until "." (nuc_token n) = zaid n.
Proof.
  intros (Hz & Ha & Hs & _). destruct (zaid_split (nlead n) (nz n) (na n) Hz Ha) as (_ & Hdot & Heq).
  unfold nuc_token, zaid in *. destruct (nsuf n) as [s|].
  - split.
    + rewrite contains_char_app, Heq. simpl. exact Hs.
    + apply take_until_app. exact Hdot.
  - rewrite sapp_nil_r. split; [exact Heq|apply take_until_none; exact Hdot].
Qed.

Definition signed_pair (n : nuclide) : string * string := (zaid n, frac_token n).

Lemma pairs_render items : Forall wf_item items ->
  pairs (render items) = Ok (map signed_pair (nuclides items)).
Proof.
  induction items as [|it r IH]; intros Hwf; [reflexivity|].
  inversion Hwf as [|? ? Hit Hr]; subst. specialize (IH Hr).
  destruct it as [n|k]; cbn [render flat_map render_item app nuclides map].
  - destruct (nuc_token_facts n Hit) as [He Ht].
    cbn [pairs]. rewrite He. fold (render r). rewrite IH, Ht. reflexivity.
  - cbn [pairs]. cbn in Hit. rewrite Hit. fold (render r). exact IH.
Qed.

Lemma wf_nuclides items : Forall wf_item items -> Forall wf_nuclide (nuclides items).
Proof.
  induction items as [|[n|k] r IH]; cbn [nuclides]; intros Hwf; inversion Hwf; subst; auto.
Qed.

Lemma is_negative_frac n : wf_nuclide n -> is_negative (frac_token n) = nneg n.
Proof.
  intros (_ & _ & _ & Hf). unfold frac_token, is_negative. destruct (nneg n); [reflexivity|].
  destruct (nfrac n) as [|c s]; [reflexivity|]. cbn in Hf. apply andb_prop in Hf.
  destruct Hf as [H1 H2]. apply negb_true_iff in H1. apply negb_true_iff in H2.
  assert (lstrip (String c s) = String c s) as ->.
  { destruct c as [[] [] [] [] [] [] [] []]; try reflexivity. discriminate H2. }
  cbn [starts_with_char]. rewrite Ascii.eqb_sym. exact H1.
Qed.

Lemma str_fabs_frac n : wf_nuclide n -> str_fabs (frac_token n) = nfrac n.
Proof.
  intros (_ & _ & _ & Hf). unfold frac_token, str_fabs. destruct (nneg n); [reflexivity|].
  destruct (nfrac n) as [|c s]; [reflexivity|]. cbn in Hf. apply andb_prop in Hf.
  destruct Hf as [H1 _]. apply negb_true_iff in H1.
  destruct c as [[] [] [] [] [] [] [] []]; try reflexivity. discriminate.
Qed.

Lemma convert_isotope_zaid n : wf_nuclide n -> convert_isotope (zaid n) = Ok (nz n, dec (na n)).
Proof. intros (Hz & Ha & _). apply (zaid_split _ _ _ Hz Ha). Qed.

(* the (element, mass label) pair the code stores, and the name it prints *)
Definition iso_of (n : nuclide) : iso_t4 :=
  (spec_symbol (nz n), if (na n =? 0)%N then "-NAT" else dec (na n)).
Definition stored_entry (n : nuclide) : iso_t4 * string := (iso_of n, nfrac n).

Lemma mass_label n : wf_nuclide n ->
  (if String.eqb (dec (na n)) "0" then "-NAT" else dec (na n)) =
  (if (na n =? 0)%N then "-NAT" else dec (na n)).
Proof.
  intros (_ & Ha & _). destruct (na n =? 0)%N eqn:E.
  - apply N.eqb_eq in E. rewrite E. reflexivity.
  - apply N.eqb_neq in E. destruct (String.eqb (dec (na n)) "0") eqn:E'; [|reflexivity].
    apply String.eqb_eq in E'. exfalso. apply E. apply dec_inj. rewrite E'. reflexivity.
Qed.

Lemma isotope_name_iso n : wf_nuclide n -> isotope_name (iso_of n) = Ok (spec_name n).
Proof.
  intros (_ & Ha & _). unfold isotope_name, iso_of, spec_name.
  destruct (na n =? 0)%N eqn:E; [reflexivity|]. apply N.eqb_neq in E.
  destruct (pad3_facts (na n) Ha) as (_ & _ & _ & Hs & _). now rewrite (Hs E).
Qed.

Lemma extract_stored ns : Forall wf_nuclide ns ->
  extract (map stored_entry ns) = Ok (map spec_entry ns).
Proof.
  unfold extract. induction ns as [|n r IH]; intros Hwf; [reflexivity|].
  inversion Hwf as [|? ? Hn Hr]; subst. cbn [map mapM stored_entry fst snd].
  rewrite (isotope_name_iso n Hn), (IH Hr). reflexivity.
Qed.

(* all nuclides carry the sign [neg] *)
Lemma convert_entries_same_sign (ns : list nuclide) (neg : bool) (atom : option bool) :
  Forall wf_nuclide ns -> Forall (fun n => nneg n = neg) ns ->
  (atom = None \/ atom = Some (negb neg)) ->
  convert_entries (map signed_pair ns) atom =
  Ok (map stored_entry ns, match ns with [] => atom | _ => Some (negb neg) end).
Proof.
  revert atom. induction ns as [|n r IH]; intros atom Hwf Hs Hat; [reflexivity|].
  inversion Hwf as [|? ? Hn Hr]; subst. inversion Hs as [|? ? Hsn Hsr]; subst.
  cbn [map signed_pair convert_entries]. rewrite (is_negative_frac n Hn).
  assert (match atom with Some b => negb (Bool.eqb b (negb (nneg n))) | None => false end = false) as ->.
  { destruct Hat as [->| ->]; [reflexivity|]. now rewrite Bool.eqb_reflx. }
  rewrite (convert_isotope_zaid n Hn).
  destruct Hn as (Hz & Hn'). destruct (element_table (nz n) Hz) as [_ ->].
  rewrite (IH (Some (negb (nneg n))) Hr Hsr (or_intror eq_refl)).
  rewrite (str_fabs_frac n (conj Hz Hn')), (mass_label n (conj Hz Hn')).
  unfold stored_entry at 2, iso_of. destruct r; reflexivity.
Qed.

Theorem card_converted items neg :
  Forall wf_item items -> Forall (fun n => nneg n = neg) (nuclides items) ->
  convert_card (render items) =
  Ok (map spec_entry (nuclides items),
      match nuclides items with [] => None | _ => Some (negb neg) end).
Proof.
  intros Hwf Hs. unfold convert_card. rewrite (pairs_render items Hwf).
  pose proof (wf_nuclides items Hwf) as Hn.
  rewrite (convert_entries_same_sign _ neg None Hn Hs (or_introl eq_refl)).
  rewrite (extract_stored _ Hn). destruct (nuclides items); reflexivity.
Qed.

(* a card that mixes signs is rejected with the sign error, whatever else it
   contains *)
Lemma convert_entries_clash (ns : list nuclide) (b : bool) :
  Forall wf_nuclide ns -> Exists (fun n => nneg n = b) ns ->
  convert_entries (map signed_pair ns) (Some b) = Err EMixedSigns.
Proof.
  induction ns as [|n r IH]; intros Hwf Hex; [inversion Hex|].
  inversion Hwf as [|? ? Hn Hr]; subst.
  cbn [map signed_pair convert_entries]. rewrite (is_negative_frac n Hn).
  destruct (Bool.eqb b (negb (nneg n))) eqn:E; cbn [negb]; [|reflexivity].
  apply Bool.eqb_prop in E. subst b. rewrite (convert_isotope_zaid n Hn).
  destruct Hn as (Hz & Hn'). destruct (element_table (nz n) Hz) as [_ ->].
  inversion Hex as [? ? Hhere|? ? Hlater]; subst.
  - destruct (nneg n); discriminate.
  - now rewrite (IH Hr Hlater).
Qed.

Lemma mixed_entries (ns : list nuclide) :
  Forall wf_nuclide ns ->
  (exists n1 n2, In n1 ns /\ In n2 ns /\ nneg n1 <> nneg n2) ->
  convert_entries (map signed_pair ns) None = Err EMixedSigns.
Proof.
  intros Hn (n1 & n2 & H1 & H2 & Hne).
  destruct ns as [|n r]; [inversion H1|].
  inversion Hn as [|? ? Hwn Hwr]; subst.
  cbn [map signed_pair convert_entries]. rewrite (is_negative_frac n Hwn).
  rewrite (convert_isotope_zaid n Hwn).
  destruct Hwn as (Hz & Hn'). destruct (element_table (nz n) Hz) as [_ ->].
  (* some later nuclide has the sign opposite to the first one *)
  assert (Exists (fun m => nneg m = negb (nneg n)) r) as Hex.
  { apply Exists_exists.
    destruct H1 as [<-|H1]; destruct H2 as [<-|H2].
    - congruence.
    - exists n2. split; [assumption|]. destruct (nneg n), (nneg n2); try reflexivity; congruence.
    - exists n1. split; [assumption|]. destruct (nneg n), (nneg n1); try reflexivity; congruence.
    - destruct (Bool.bool_dec (nneg n1) (nneg n)) as [E|E].
      + exists n2. split; [assumption|]. destruct (nneg n), (nneg n1), (nneg n2); try reflexivity; congruence.
      + exists n1. split; [assumption|]. destruct (nneg n), (nneg n1); try reflexivity; congruence. }
  now rewrite (convert_entries_clash r (negb (nneg n)) Hwr Hex).
Qed.

Theorem mixed_signs_rejected items :
  Forall wf_item items ->
  (exists n1 n2, In n1 (nuclides items) /\ In n2 (nuclides items) /\ nneg n1 <> nneg n2) ->
  convert_card (render items) = Err EMixedSigns.
Proof.
  intros Hwf Hmix. unfold convert_card. rewrite (pairs_render items Hwf).
  now rewrite (mixed_entries _ (wf_nuclides items Hwf) Hmix).
Qed.

(* a nuclide listed twice keeps both entries, each with its own fraction *)
Theorem repeated_nuclide items neg out flag i j ni nj :
  Forall wf_item items -> Forall (fun n => nneg n = neg) (nuclides items) ->
  convert_card (render items) = Ok (out, flag) ->
  nth_error (nuclides items) i = Some ni -> nth_error (nuclides items) j = Some nj ->
  nz ni = nz nj -> na ni = na nj ->
  List.length out = List.length (nuclides items) /\
  nth_error out i = Some (spec_name ni, nfrac ni) /\
  nth_error out j = Some (spec_name ni, nfrac nj).
Proof.
  intros Hwf Hs Hc Hi Hj Hz Ha. rewrite (card_converted items neg Hwf Hs) in Hc.
  inversion Hc; subst. rewrite map_length. repeat split.
  - rewrite nth_error_map, Hi. reflexivity.
  - rewrite nth_error_map, Hj. unfold spec_entry, spec_name. cbn [option_map]. now rewrite Hz, Ha.
Qed.

(* ------------------------------------------------------------------ *)
(* all the cards of a deck                                              *)
(* ------------------------------------------------------------------ *)
Definition one_sign (m : mcard) : Prop :=
  exists neg, Forall (fun n => nneg n = neg) (nuclides (m_items m)).
Definition card_flag (m : mcard) : option bool :=
  match nuclides (m_items m) with [] => None | n :: _ => Some (negb (nneg n)) end.
Definition card_abundances (m : mcard) : N * abundances :=
  (m_num m, (map stored_entry (nuclides (m_items m)), card_flag m)).
Definition card_tokens (m : mcard) : N * list string := (m_num m, render (m_items m)).

Lemma mapM_pairs ms : Forall (fun m => Forall wf_item (m_items m)) ms ->
  mapM (fun kv : N * list string => match pairs (snd kv) with Ok l => Ok (fst kv, l) | Err e => Err e end)
       (map card_tokens ms) =
  Ok (map (fun m => (m_num m, map signed_pair (nuclides (m_items m)))) ms).
Proof.
  induction ms as [|m r IH]; intros H; [reflexivity|]. inversion H as [|? ? Hm Hr]; subst.
  cbn [map mapM card_tokens fst snd]. rewrite (pairs_render _ Hm), (IH Hr). reflexivity.
Qed.

Theorem convert_all_cards ms :
  Forall (fun m => Forall wf_item (m_items m)) ms -> Forall one_sign ms ->
  convert_all (map card_tokens ms) = Ok (map card_abundances ms).
Proof.
  intros Hwf Hs. unfold convert_all. rewrite (mapM_pairs ms Hwf). cbn [bind].
  induction ms as [|m r IH]; [reflexivity|].
  inversion Hwf as [|? ? Hm Hr]; subst. inversion Hs as [|? ? [neg Hneg] Hsr]; subst.
  cbn [map mapM fst snd].
  rewrite (convert_entries_same_sign _ neg None (wf_nuclides _ Hm) Hneg (or_introl eq_refl)).
  rewrite (IH Hr Hsr). unfold card_abundances, card_flag.
  destruct (nuclides (m_items m)) as [|n ns] eqn:E; [reflexivity|].
  inversion Hneg; subst. reflexivity.
Qed.

Lemma sign_dec (ns : list nuclide) :
  (exists neg, Forall (fun n => nneg n = neg) ns) \/
  (exists n1 n2, In n1 ns /\ In n2 ns /\ nneg n1 <> nneg n2).
Proof.
  induction ns as [|n r IH]; [left; exists true; constructor|].
  destruct IH as [[neg Hneg]|(n1 & n2 & H1 & H2 & Hne)].
  - destruct r as [|n' r'].
    + left. exists (nneg n). repeat constructor.
    + inversion Hneg as [|? ? Hn' Hr']; subst.
      destruct (Bool.bool_dec (nneg n) (nneg n')) as [E|E].
      * left. exists (nneg n'). constructor; [exact E|exact Hneg].
      * right. exists n, n'. repeat split; [now left|right; now left|exact E].
  - right. exists n1, n2. repeat split; [now right|now right|exact Hne].
Qed.

(* one card mixing signs anywhere in the deck — used by a cell or not — stops
   the conversion *)
Theorem convert_all_mixed ms :
  Forall (fun m => Forall wf_item (m_items m)) ms ->
  (exists m n1 n2, In m ms /\ In n1 (nuclides (m_items m)) /\ In n2 (nuclides (m_items m))
                   /\ nneg n1 <> nneg n2) ->
  convert_all (map card_tokens ms) = Err EMixedSigns.
Proof.
  intros Hwf Hmix. unfold convert_all. rewrite (mapM_pairs ms Hwf). cbn [bind].
  induction ms as [|m r IH]; [destruct Hmix as (? & ? & ? & [] & _)|].
  inversion Hwf as [|? ? Hm Hr]; subst. cbn [map mapM fst snd].
  destruct (sign_dec (nuclides (m_items m))) as [[neg Hneg]|Hhere].
  - rewrite (convert_entries_same_sign _ neg None (wf_nuclides _ Hm) Hneg (or_introl eq_refl)).
    rewrite (IH Hr); [reflexivity|].
    destruct Hmix as (m' & n1 & n2 & [<-|Hin] & H1 & H2 & Hne).
    + exfalso. rewrite Forall_forall in Hneg. apply Hne. now rewrite (Hneg _ H1), (Hneg _ H2).
    + exists m', n1, n2. auto.
  - now rewrite (mixed_entries _ (wf_nuclides _ Hm) Hhere).
Qed.
